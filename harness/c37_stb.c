/* C37 — the nRF52 security tool box computes the cryptography of the Core specification.
 *
 * Real code: bluetoe/bindings/nordic/nrf52/security_tool_box.cpp, unchanged, built against /verif/stubs/nrf.h. Its
 * register accesses to the ECB (AES) and RNG peripherals end in the emulation of c37_hw.h; AES-128 is one uninterpreted
 * function shared by that emulation and by the reference below. So for every function the solver decides:
 *      for all inputs, for every block cipher AES:   toolbox function == formula of the specification
 * One query per function (FN), all byte inputs symbolic.
 *
 * The reference is written in the notation of the specification: byte strings, most significant octet first, `||`
 * concatenation (Core spec Vol 3 Part H 2.2.1: "the most significant octet of key corresponds to key[0]" of FIPS-197).
 * Bluetoe's arrays hold the same numbers least significant octet first (as on the air interface, Vol 3 Part H 3.3 /
 * Vol 1 Part E 2.9); rev() converts at the boundary. The byte order conventions of the reference are validated in the
 * native runs against the sample data of the specification with a real AES-128 (selftest()).
 *
 *   e         Vol 3 Part H 2.2.1 security function e (also the LL session key SK = e(LTK, SKD), Vol 6 Part B 5.1.3.1)
 *   c1, s1    Vol 3 Part H 2.2.3, 2.2.4
 *   AES-CMAC  RFC 4493 (Vol 3 Part H 2.2.5)
 *   f4 f5 f6 g2   Vol 3 Part H 2.2.6 - 2.2.9
 */
#include "c37_hw.h"

/* ---- shim */
void     stb_aes_le(const uint8_t* key, const uint8_t* data, uint8_t* result);
uint32_t stb_random_number32(void);
uint64_t stb_random_number64(void);
void     stb_create_srand(uint8_t* result);
void     stb_select_random_nonce(uint8_t* result);
void     stb_create_long_term_key(uint8_t* ltk, uint64_t* rand, uint16_t* ediv);
void     stb_c1(const uint8_t* temp_key, const uint8_t* rand, const uint8_t* p1, const uint8_t* p2, uint8_t* result);
void     stb_s1(const uint8_t* temp_key, const uint8_t* srand, const uint8_t* mrand, uint8_t* result);
int      stb_is_valid_public_key(const uint8_t* public_key);
void     stb_generate_keys(uint8_t* public_key, uint8_t* private_key);
void     stb_p256(const uint8_t* private_key, const uint8_t* public_key, uint8_t* result);
void     stb_f4(const uint8_t* u, const uint8_t* v, const uint8_t* k, uint8_t z, uint8_t* result);
void     stb_f5(const uint8_t* dh_key, const uint8_t* nonce_central, const uint8_t* nonce_peripheral, const uint8_t* addr_central, int central_random,
                const uint8_t* addr_peripheral, int peripheral_random, uint8_t* mac_key, uint8_t* ltk);
void     stb_f6(const uint8_t* key, const uint8_t* n1, const uint8_t* n2, const uint8_t* r, const uint8_t* io_caps, const uint8_t* addr_central,
                int central_random, const uint8_t* addr_peripheral, int peripheral_random, uint8_t* result);
uint32_t stb_g2(const uint8_t* u, const uint8_t* v, const uint8_t* x, const uint8_t* y);

enum { FN_E = 1, FN_C1, FN_S1, FN_F4, FN_F5, FN_F6, FN_G2, FN_VALID_KEY, FN_P256, FN_GENERATE_KEYS, FN_NONCES, FN_LTK, FN_RANDOM };

/* ================================================================================== reference (specification order) */
static void rev(uint8_t* dst, const uint8_t* src, unsigned n)
{
    for (unsigned i = 0; i < n; ++i) dst[i] = src[n - 1 - i];
}

/* security function e: encryptedData = e(key, plaintextData), AES-128 of FIPS-197, octet [0] most significant */
static void ref_e(const uint8_t key[16], const uint8_t plain[16], uint8_t out[16])
{
    bytes_be(AES(num_be(key), num_be(plain)), out);
}

/* RFC 4493, 2.3 subkey generation and 2.4 MAC generation */
static u128 cmac_double(u128 l)
{
    const u128 msb = (u128)1 << 127;
    return (l & msb) ? ((l << 1) ^ 0x87) : (l << 1);
}
static void ref_cmac(const uint8_t key[16], const uint8_t* msg, unsigned len, uint8_t mac[16])
{
    const u128 k = num_be(key);
    const u128 k1 = cmac_double(AES(k, 0));
    const u128 k2 = cmac_double(k1);
    unsigned n = (len + 15) / 16;
    int complete = 0;
    if (n == 0) n = 1; else complete = (len % 16 == 0);
    uint8_t last[16];
    if (complete) {
        memcpy(last, msg + 16 * (n - 1), 16);
    } else {
        const unsigned rest = len - 16 * (n - 1);
        for (unsigned i = 0; i < 16; ++i) last[i] = i < rest ? msg[16 * (n - 1) + i] : (i == rest ? 0x80 : 0x00);
    }
    const u128 m_last = num_be(last) ^ (complete ? k1 : k2);
    u128 x = 0;
    for (unsigned i = 0; i + 1 < n; ++i) x = AES(k, x ^ num_be(msg + 16 * i));
    bytes_be(AES(k, m_last ^ x), mac);
}

/* c1(k, r, preq, pres, iat, rat, ia, ra) = e(k, e(k, r XOR p1) XOR p2); the tool box gets p1 and p2 */
static void ref_c1(const uint8_t k[16], const uint8_t r[16], const uint8_t p1[16], const uint8_t p2[16], uint8_t out[16])
{
    uint8_t t[16], u[16];
    for (unsigned i = 0; i < 16; ++i) t[i] = r[i] ^ p1[i];
    ref_e(k, t, u);
    for (unsigned i = 0; i < 16; ++i) u[i] ^= p2[i];
    ref_e(k, u, out);
}

/* s1(k, r1, r2) = e(k, r') with r' = r1' || r2', r1' / r2' the least significant 64 bits of r1 / r2 */
static void ref_s1(const uint8_t k[16], const uint8_t r1[16], const uint8_t r2[16], uint8_t out[16])
{
    uint8_t r[16];
    memcpy(r, r1 + 8, 8);
    memcpy(r + 8, r2 + 8, 8);
    ref_e(k, r, out);
}

/* f4(U, V, X, Z) = AES-CMAC_X (U || V || Z) */
static void ref_f4(const uint8_t u[32], const uint8_t v[32], const uint8_t x[16], uint8_t z, uint8_t out[16])
{
    uint8_t m[65];
    memcpy(m, u, 32); memcpy(m + 32, v, 32); m[64] = z;
    ref_cmac(x, m, 65, out);
}

/* f5(W, N1, N2, A1, A2) = AES-CMAC_T (Counter = 0 || keyID || N1 || N2 || A1 || A2 || Length = 256)   -> MacKey
 *                      || AES-CMAC_T (Counter = 1 || keyID || N1 || N2 || A1 || A2 || Length = 256)   -> LTK
 * T = AES-CMAC_SALT (W), SALT = 0x6C888391_AAF5A538_60370BDB_5A6083BE, keyID = 0x62746c65 */
static void ref_f5(const uint8_t w[32], const uint8_t n1[16], const uint8_t n2[16], const uint8_t a1[7], const uint8_t a2[7], uint8_t mac_key[16], uint8_t ltk[16])
{
    static const uint8_t salt[16] = { 0x6C, 0x88, 0x83, 0x91, 0xAA, 0xF5, 0xA5, 0x38, 0x60, 0x37, 0x0B, 0xDB, 0x5A, 0x60, 0x83, 0xBE };
    uint8_t t[16], m[53];
    ref_cmac(salt, w, 32, t);
    m[0] = 0;
    m[1] = 0x62; m[2] = 0x74; m[3] = 0x6c; m[4] = 0x65;
    memcpy(m + 5, n1, 16); memcpy(m + 21, n2, 16); memcpy(m + 37, a1, 7); memcpy(m + 44, a2, 7);
    m[51] = 0x01; m[52] = 0x00;
    ref_cmac(t, m, 53, mac_key);
    m[0] = 1;
    ref_cmac(t, m, 53, ltk);
}

/* f6(W, N1, N2, R, IOcap, A1, A2) = AES-CMAC_W (N1 || N2 || R || IOcap || A1 || A2) */
static void ref_f6(const uint8_t w[16], const uint8_t n1[16], const uint8_t n2[16], const uint8_t r[16], const uint8_t iocap[3], const uint8_t a1[7], const uint8_t a2[7], uint8_t out[16])
{
    uint8_t m[65];
    memcpy(m, n1, 16); memcpy(m + 16, n2, 16); memcpy(m + 32, r, 16); memcpy(m + 48, iocap, 3); memcpy(m + 51, a1, 7); memcpy(m + 58, a2, 7);
    ref_cmac(w, m, 65, out);
}

/* g2(U, V, X, Y) = AES-CMAC_X (U || V || Y) mod 2^32 */
static uint32_t ref_g2(const uint8_t u[32], const uint8_t v[32], const uint8_t x[16], const uint8_t y[16])
{
    uint8_t m[80], mac[16];
    memcpy(m, u, 32); memcpy(m + 32, v, 32); memcpy(m + 64, y, 16);
    ref_cmac(x, m, 80, mac);
    return ((uint32_t)mac[12] << 24) | ((uint32_t)mac[13] << 16) | ((uint32_t)mac[14] << 8) | mac[15];
}

/* 56-bit address value of f5/f6: the most significant octet is 0x01 for a random address and 0x00 for a public one, the
 * 48-bit device address follows (Vol 3 Part H 2.2.7). le[] is the address as bluetoe / the air interface store it. */
static void ref_address(uint8_t a[7], const uint8_t le[6], int is_random)
{
    a[0] = is_random ? 0x01 : 0x00;
    rev(a + 1, le, 6);
}

static int eq(const uint8_t* a, const uint8_t* b, unsigned n)
{
    int r = 1;
    for (unsigned i = 0; i < n; ++i) r &= (a[i] == b[i]);
    return r;
}

/* ================================================================================== real function vs. reference
 * Arguments in bluetoe's layout (least significant octet first). Every function returns 1 iff the tool box result equals
 * the reference (and the peripherals were used as modelled). */
static int agree_e(const uint8_t* key, const uint8_t* data)
{
    uint8_t out[16], k[16], d[16], want[16], want_le[16];
    stb_aes_le(key, data, out);
    OBSERVE_BYTES(out, 16);
    rev(k, key, 16); rev(d, data, 16);
    ref_e(k, d, want);
    rev(want_le, want, 16);
    return eq(out, want_le, 16);
}

static int agree_c1(const uint8_t* k, const uint8_t* r, const uint8_t* p1, const uint8_t* p2)
{
    uint8_t out[16], kb[16], rb[16], p1b[16], p2b[16], want[16], want_le[16];
    stb_c1(k, r, p1, p2, out);
    OBSERVE_BYTES(out, 16);
    rev(kb, k, 16); rev(rb, r, 16); rev(p1b, p1, 16); rev(p2b, p2, 16);
    ref_c1(kb, rb, p1b, p2b, want);
    rev(want_le, want, 16);
    return eq(out, want_le, 16);
}

/* STK = s1(TK, Srand, Mrand) */
static int agree_s1(const uint8_t* k, const uint8_t* srand, const uint8_t* mrand)
{
    uint8_t out[16], kb[16], r1[16], r2[16], want[16], want_le[16];
    stb_s1(k, srand, mrand, out);
    OBSERVE_BYTES(out, 16);
    rev(kb, k, 16); rev(r1, srand, 16); rev(r2, mrand, 16);
    ref_s1(kb, r1, r2, want);
    rev(want_le, want, 16);
    return eq(out, want_le, 16);
}

static int agree_f4(const uint8_t* u, const uint8_t* v, const uint8_t* x, uint8_t z)
{
    uint8_t out[16], ub[32], vb[32], xb[16], want[16], want_le[16];
    stb_f4(u, v, x, z, out);
    OBSERVE_BYTES(out, 16);
    rev(ub, u, 32); rev(vb, v, 32); rev(xb, x, 16);
    ref_f4(ub, vb, xb, z, want);
    rev(want_le, want, 16);
    return eq(out, want_le, 16);
}

static int agree_f5(const uint8_t* w, const uint8_t* n1, const uint8_t* n2, const uint8_t* a1, int a1_random, const uint8_t* a2, int a2_random, int* ltk_ok)
{
    uint8_t mac_key[16], ltk[16], wb[32], n1b[16], n2b[16], a1b[7], a2b[7], want_mac[16], want_ltk[16], le[16];
    stb_f5(w, n1, n2, a1, a1_random, a2, a2_random, mac_key, ltk);
    OBSERVE_BYTES(mac_key, 16); OBSERVE_BYTES(ltk, 16);
    rev(wb, w, 32); rev(n1b, n1, 16); rev(n2b, n2, 16);
    ref_address(a1b, a1, a1_random); ref_address(a2b, a2, a2_random);
    ref_f5(wb, n1b, n2b, a1b, a2b, want_mac, want_ltk);
    rev(le, want_ltk, 16);
    *ltk_ok = eq(ltk, le, 16);
    rev(le, want_mac, 16);
    return eq(mac_key, le, 16);
}

/* io_caps[]: the 24-bit IOcap value least significant octet first, i.e. { IO capability, OOB data flag, AuthReq } */
static int agree_f6(const uint8_t* w, const uint8_t* n1, const uint8_t* n2, const uint8_t* r, const uint8_t* io_caps, const uint8_t* a1, int a1_random, const uint8_t* a2, int a2_random)
{
    uint8_t out[16], wb[16], n1b[16], n2b[16], rb[16], iob[3], a1b[7], a2b[7], want[16], want_le[16];
    stb_f6(w, n1, n2, r, io_caps, a1, a1_random, a2, a2_random, out);
    OBSERVE_BYTES(out, 16);
    rev(wb, w, 16); rev(n1b, n1, 16); rev(n2b, n2, 16); rev(rb, r, 16); rev(iob, io_caps, 3);
    ref_address(a1b, a1, a1_random); ref_address(a2b, a2, a2_random);
    ref_f6(wb, n1b, n2b, rb, iob, a1b, a2b, want);
    rev(want_le, want, 16);
    return eq(out, want_le, 16);
}

static int agree_g2(const uint8_t* u, const uint8_t* v, const uint8_t* x, const uint8_t* y)
{
    uint8_t ub[32], vb[32], xb[16], yb[16];
    uint32_t got = stb_g2(u, v, x, y);
    OBSERVE(got);
    rev(ub, u, 32); rev(vb, v, 32); rev(xb, x, 16); rev(yb, y, 16);
    return got == ref_g2(ub, vb, xb, yb);
}

/* ================================================================================== sample data of the specification
 * (native builds only: AES is a real AES-128 there) */
#ifndef VF_CBMC
#include <stdio.h>
#include <stdlib.h>
#include <unistd.h>

static void hex(uint8_t* out, unsigned n, const char* s)      /* most significant octet first, blanks ignored */
{
    unsigned i = 0; int hi = -1;
    for (; *s; ++s) {
        int d = (*s >= '0' && *s <= '9') ? *s - '0' : (*s >= 'a' && *s <= 'f') ? *s - 'a' + 10 : (*s >= 'A' && *s <= 'F') ? *s - 'A' + 10 : -1;
        if (d < 0) continue;
        if (hi < 0) hi = d; else { if (i < n) out[i] = (uint8_t)(hi * 16 + d); ++i; hi = -1; }
    }
    if (i != n) { printf("SELFTEST: bad hex constant %s\n", s); fflush(0); _exit(3); }
}
static void hex_le(uint8_t* out, unsigned n, const char* s)   /* the same number in bluetoe's layout */
{
    uint8_t t[64];
    hex(t, n, s); rev(out, t, n);
}

/* The reference does not reproduce the specification's sample data: the harness (not bluetoe) is wrong. Make that
 * impossible to overlook: the line differs between the two native builds, so the differential run reports it. */
static void selftest_failed(const char* what)
{
#ifdef VF_REAL
    printf("SELFTEST of the reference FAILED (real build): %s\n", what);
#else
    printf("SELFTEST of the reference FAILED (generated build): %s\n", what);
#endif
    fflush(0); _exit(3);
}
static void expect(const uint8_t* got, const char* want_hex, unsigned n, const char* what)
{
    uint8_t want[64];
    hex(want, n, want_hex);
    if (!eq(got, want, n)) selftest_failed(what);
}

static const char S_U[]  = "20b003d2 f297be2c 5e2c83a7 e9f9a5b9 eff49111 acf4fddb cc030148 0e359de6";
static const char S_V[]  = "55188b3d 32f6bb9a 900afcfb eed4e72a 59cb9ac2 f19d7cfb 6b4fdd49 f47fc5fd";
static const char S_X[]  = "d5cb8454 d177733e ffffb2ec 712baeab";      /* also N1 */
static const char S_Y[]  = "a6e8e7cc 25a75f6e 216583f7 ff3dc4cf";      /* also N2 */
static const char S_W[]  = "ec0234a3 57c8ad05 341010a6 0a397d9b 99796b13 b4f866f1 868d34f3 73bfa698";
static const char S_A1[] = "00561237 37bfce";
static const char S_A2[] = "00a71370 2dcfc1";
static const char S_MACKEY[] = "2965f176 a1084a02 fd3f6a20 ce636e20";
static const char S_R[]  = "12a3343b b453bb54 08da42d2 0c2d0fc8";

/* the reference against FIPS-197, RFC 4493 and Core spec Vol 3 Part H 2.2.3, 2.2.4, Appendix D, Vol 6 Part C 1 */
static void selftest(void)
{
    uint8_t k[16], a[16], b[16], c[16], d[16], out[16], out2[16], m[64], u[32], v[32], w[32], a1[7], a2[7], io[3];

    hex(k, 16, "000102030405060708090a0b0c0d0e0f"); hex(a, 16, "00112233445566778899aabbccddeeff");
    ref_e(k, a, out); expect(out, "69c4e0d86a7b0430d8cdb78070b4c55a", 16, "AES-128, FIPS-197 C.1");

    hex(k, 16, "2b7e1516 28aed2a6 abf71588 09cf4f3c");
    hex(m, 64, "6bc1bee2 2e409f96 e93d7e11 7393172a ae2d8a57 1e03ac9c 9eb76fac 45af8e51 30c81c46 a35ce411 e5fbc119 1a0a52ef f69f2445 df4f9b17 ad2b417b e66c3710");
    ref_cmac(k, m, 0, out);  expect(out, "bb1d6929 e9593728 7fa37d12 9b756746", 16, "AES-CMAC, RFC 4493 example 1 (empty message)");
    ref_cmac(k, m, 16, out); expect(out, "070a16b4 6b4d4144 f79bdd9d d04a287c", 16, "AES-CMAC, RFC 4493 example 2 (16 octets)");
    ref_cmac(k, m, 40, out); expect(out, "dfa66747 de9ae630 30ca3261 1497c827", 16, "AES-CMAC, RFC 4493 example 3 (40 octets)");
    ref_cmac(k, m, 64, out); expect(out, "51f0bebf 7e3b9d92 fc497417 79363cfe", 16, "AES-CMAC, RFC 4493 example 4 (64 octets)");

    memset(k, 0, 16);
    hex(a, 16, "5783D52156AD6F0E6388274EC6702EE0"); hex(b, 16, "05000800000302070710000001010001"); hex(c, 16, "00000000A1A2A3A4A5A6B1B2B3B4B5B6");
    ref_c1(k, a, b, c, out); expect(out, "1e1e3fef878988ead2a74dc5bef13b86", 16, "c1, Vol 3 Part H 2.2.3");
    hex(a, 16, "000F0E0D0C0B0A091122334455667788"); hex(b, 16, "010203040506070899AABBCCDDEEFF00");
    ref_s1(k, a, b, out); expect(out, "9a1fe1f0e8b0f49b5b4216ae796da062", 16, "s1, Vol 3 Part H 2.2.4");

    hex(u, 32, S_U); hex(v, 32, S_V); hex(a, 16, S_X); hex(b, 16, S_Y);
    ref_f4(u, v, a, 0, out); expect(out, "f2c916f1 07a9bd1c f1eda1be a974872d", 16, "f4, Vol 3 Part H D.2");
    hex(w, 32, S_W); hex(a1, 7, S_A1); hex(a2, 7, S_A2);
    ref_f5(w, a, b, a1, a2, out, out2);
    expect(out, S_MACKEY, 16, "f5 MacKey, Vol 3 Part H D.3");
    expect(out2, "69867911 69d7cd23 980522b5 94750a38", 16, "f5 LTK, Vol 3 Part H D.3");
    hex(c, 16, S_MACKEY); hex(d, 16, S_R); hex(io, 3, "010102");
    ref_f6(c, a, b, d, io, a1, a2, out); expect(out, "e3c47398 9cd0e8c5 d26c0b09 da958f61", 16, "f6, Vol 3 Part H D.4");
    if (ref_g2(u, v, a, b) != 0x2f9ed5bau) selftest_failed("g2, Vol 3 Part H D.5");

    hex(k, 16, "4C68384139F574D836BCF34E9DFB01BF"); hex(a, 16, "0213243546576879ACBDCEDFE0F10213");
    ref_e(k, a, out); expect(out, "99AD1B5226A37E3E058E3B8E27C2C666", 16, "session key SK = e(LTK, SKD), Vol 6 Part C 1");
}

/* the tool box itself on the sample data (through the same comparison as the symbolic run) */
static void samples(int fn)
{
    uint8_t k[16], a[16], b[16], c[16], d[16], u[32], v[32], w[32], a1[6], a2[6], io[3];
    int ltk_ok = 1;
    switch (fn) {
    case FN_E:
        hex_le(k, 16, "4C68384139F574D836BCF34E9DFB01BF"); hex_le(a, 16, "0213243546576879ACBDCEDFE0F10213");
        CHECK(agree_e(k, a), "aes_le reproduces the session key sample of Vol 6 Part C 1");
        break;
    case FN_C1:
        memset(k, 0, 16);
        hex_le(a, 16, "5783D52156AD6F0E6388274EC6702EE0"); hex_le(b, 16, "05000800000302070710000001010001"); hex_le(c, 16, "00000000A1A2A3A4A5A6B1B2B3B4B5B6");
        CHECK(agree_c1(k, a, b, c), "c1 reproduces the sample data of Vol 3 Part H 2.2.3");
        break;
    case FN_S1:
        memset(k, 0, 16);
        hex_le(a, 16, "000F0E0D0C0B0A091122334455667788"); hex_le(b, 16, "010203040506070899AABBCCDDEEFF00");
        CHECK(agree_s1(k, a, b), "s1 reproduces the sample data of Vol 3 Part H 2.2.4");
        break;
    case FN_F4:
        hex_le(u, 32, S_U); hex_le(v, 32, S_V); hex_le(a, 16, S_X);
        CHECK(agree_f4(u, v, a, 0), "f4 reproduces the sample data of Vol 3 Part H D.2");
        break;
    case FN_F5:
        hex_le(w, 32, S_W); hex_le(a, 16, S_X); hex_le(b, 16, S_Y); hex_le(a1, 6, "561237 37bfce"); hex_le(a2, 6, "a71370 2dcfc1");
        CHECK(agree_f5(w, a, b, a1, 0, a2, 0, &ltk_ok), "f5 reproduces the MacKey sample of Vol 3 Part H D.3");
        CHECK(ltk_ok, "f5 reproduces the LTK sample of Vol 3 Part H D.3");
        break;
    case FN_F6:
        hex_le(c, 16, S_MACKEY); hex_le(a, 16, S_X); hex_le(b, 16, S_Y); hex_le(d, 16, S_R); hex_le(io, 3, "010102");
        hex_le(a1, 6, "561237 37bfce"); hex_le(a2, 6, "a71370 2dcfc1");
        CHECK(agree_f6(c, a, b, d, io, a1, 0, a2, 0), "f6 reproduces the sample data of Vol 3 Part H D.4");
        break;
    case FN_G2:
        hex_le(u, 32, S_U); hex_le(v, 32, S_V); hex_le(a, 16, S_X); hex_le(b, 16, S_Y);
        CHECK(agree_g2(u, v, a, b), "g2 reproduces the sample data of Vol 3 Part H D.5");
        break;
    default: break;
    }
}
#endif

/* ================================================================================== random numbers
 * `a | (b << 8)` leaves the order of the two peripheral reads to the compiler: any order is accepted. */
static int is_random16(uint16_t v, const uint8_t* s)
{
    return v == (uint16_t)(s[0] | (s[1] << 8)) || v == (uint16_t)(s[1] | (s[0] << 8));
}
static int is_random32(uint32_t v, const uint8_t* s)
{
    const uint16_t lo = (uint16_t)v, hi = (uint16_t)(v >> 16);
    return (is_random16(lo, s) && is_random16(hi, s + 2)) || (is_random16(hi, s) && is_random16(lo, s + 2));
}
static int is_random64(uint64_t v, const uint8_t* s)
{
    const uint32_t lo = (uint32_t)v, hi = (uint32_t)(v >> 32);
    return (is_random32(lo, s) && is_random32(hi, s + 4)) || (is_random32(hi, s) && is_random32(lo, s + 4));
}
static unsigned digest(uint64_t v)      /* independent of the order of the octets */
{
    unsigned r = 0;
    for (unsigned i = 0; i < 8; ++i) r += (unsigned)((v >> (8 * i)) & 0xff) * ((unsigned)((v >> (8 * i)) & 0xff) + 3);
    return r;
}

/* ================================================================================== harness */
void harness(void)
{
    vf_global_ctors();
    hw_init();
    const int fn = (int)CASE(FN);
#ifndef VF_CBMC
    selftest();
    samples(fn);
#endif
    uint8_t* k  = (uint8_t*)vf_alloc(16);
    uint8_t* a  = (uint8_t*)vf_alloc(16);
    uint8_t* b  = (uint8_t*)vf_alloc(16);
    uint8_t* c  = (uint8_t*)vf_alloc(16);
    uint8_t* u  = (uint8_t*)vf_alloc(32);
    uint8_t* v  = (uint8_t*)vf_alloc(32);
    uint8_t* pk = (uint8_t*)vf_alloc(64);
    uint8_t* a1 = (uint8_t*)vf_alloc(6);
    uint8_t* a2 = (uint8_t*)vf_alloc(6);
    uint8_t* io = (uint8_t*)vf_alloc(3);
    in_bytes(k, 16); in_bytes(a, 16); in_bytes(b, 16); in_bytes(c, 16); in_bytes(u, 32); in_bytes(v, 32); in_bytes(pk, 64);
    in_bytes(a1, 6); in_bytes(a2, 6); in_bytes(io, 3);
    const int a1_random = in_bool(), a2_random = in_bool();
    const uint8_t z = in_u8();
    in_bytes(uecc_give_public, 64); in_bytes(uecc_give_private, 32); in_bytes(uecc_give_secret, 32);
    uecc_give_valid = (uecc_int)in_u32();
    hw_rng_fill(HW_RNG_MAX);

    switch (fn) {
    case FN_E:
        CHECK(agree_e(k, a), "aes_le(key, data) is the security function e (session key SK = e(LTK, SKD)) on little endian arrays");
        break;
    case FN_C1:
        CHECK(agree_c1(k, a, b, c), "c1(k, r, p1, p2) equals e(k, e(k, r XOR p1) XOR p2)");
        break;
    case FN_S1:
        CHECK(agree_s1(k, a, b), "s1(k, r1, r2) equals e(k, r1' || r2') with the least significant 64 bits of r1 as the most significant half");
        break;
    case FN_F4:
        CHECK(agree_f4(u, v, k, z), "f4(U, V, X, Z) equals AES-CMAC_X(U || V || Z)");
        break;
    case FN_F5: {
        int ltk_ok = 0;
        CHECK(agree_f5(u, a, b, a1, a1_random, a2, a2_random, &ltk_ok), "f5 MacKey equals AES-CMAC_T(0 || btle || N1 || N2 || A1 || A2 || 256) with T = AES-CMAC_SALT(DHKey)");
        CHECK(ltk_ok, "f5 LTK equals AES-CMAC_T(1 || btle || N1 || N2 || A1 || A2 || 256) with T = AES-CMAC_SALT(DHKey)");
        break;
    }
    case FN_F6:
        CHECK(agree_f6(k, a, b, c, io, a1, a1_random, a2, a2_random), "f6(W, N1, N2, R, IOcap, A1, A2) equals AES-CMAC_W(N1 || N2 || R || IOcap || A1 || A2)");
        break;
    case FN_G2:
        CHECK(agree_g2(u, v, k, a), "g2(U, V, X, Y) equals AES-CMAC_X(U || V || Y) mod 2^32");
        break;

    case FN_VALID_KEY: {
        /* SMP public key: X then Y, each least significant octet first (Vol 3 Part H 3.5.6); uECC: X | Y big endian */
        int ok = stb_is_valid_public_key(pk);
        OBSERVE(ok);
        uint8_t want[64];
        rev(want, pk, 32); rev(want + 32, pk + 32, 32);
        CHECK(uecc_valid_calls == 1 && eq(uecc_seen_public, want, 64), "is_valid_public_key asks uECC_valid_public_key about exactly the received point (X, Y)");
        CHECK((ok != 0) == (uecc_give_valid != 0), "a public key is accepted if and only if uECC_valid_public_key accepts the point");
        break;
    }
    case FN_P256: {
        uint8_t* out = (uint8_t*)vf_alloc(32);
        stb_p256(u, pk, out);
        OBSERVE_BYTES(out, 32);
        uint8_t want[64], want_priv[32], want_out[32];
        rev(want, pk, 32); rev(want + 32, pk + 32, 32); rev(want_priv, u, 32);
        rev(want_out, uecc_give_secret, 32);
        CHECK(uecc_secret_calls == 1 && eq(uecc_seen_public, want, 64) && eq(uecc_seen_private, want_priv, 32), "p256 hands the remote point and the own private key to uECC_shared_secret, each coordinate converted to big endian");
        CHECK(eq(out, want_out, 32), "DHKey is the x coordinate computed by uECC_shared_secret, converted to little endian");
        break;
    }
    case FN_GENERATE_KEYS: {
        uint8_t* pub = (uint8_t*)vf_alloc(64);
        uint8_t* priv = (uint8_t*)vf_alloc(32);
        stb_generate_keys(pub, priv);
        OBSERVE_BYTES(pub, 64); OBSERVE_BYTES(priv, 32);
        uint8_t want[64], want_priv[32];
        rev(want, uecc_give_public, 32); rev(want + 32, uecc_give_public + 32, 32); rev(want_priv, uecc_give_private, 32);
        CHECK(uecc_make_calls == 1 && eq(pub, want, 64) && eq(priv, want_priv, 32), "generate_keys returns the key pair made by uECC_make_key, each coordinate converted to little endian");
        CHECK(uecc_rng != 0 && uecc_rng_rc == 1 && hw_rng_pos == 32 && eq(uecc_rng_bytes, hw_rng_stream, 32), "the random numbers uECC_make_key asks for are successive bytes of the RNG peripheral");
        break;
    }
    case FN_NONCES: {
        uint8_t* out = (uint8_t*)vf_alloc(16);
        stb_create_srand(out);
        OBSERVE_BYTES(out, 16);
        CHECK(hw_rng_pos == 16 && eq(out, hw_rng_stream, 16), "every octet of Srand is a fresh byte of the RNG peripheral");
        stb_select_random_nonce(out);
        OBSERVE_BYTES(out, 16);
        CHECK(hw_rng_pos == 32 && eq(out, hw_rng_stream + 16, 16), "every octet of the LESC nonce is a fresh byte of the RNG peripheral");
        break;
    }
    case FN_LTK: {
        uint8_t* out = (uint8_t*)vf_alloc(16);
        uint64_t rand = 0; uint16_t ediv = 0;
        stb_create_long_term_key(out, &rand, &ediv);
        OBSERVE_BYTES(out, 16); OBSERVE(digest(rand)); OBSERVE(digest(ediv));
        CHECK(hw_rng_pos == 26 && eq(out, hw_rng_stream, 16) && is_random64(rand, hw_rng_stream + 16) && is_random16(ediv, hw_rng_stream + 24),
              "LTK, Rand and EDIV of a distributed key are made of 26 distinct fresh bytes of the RNG peripheral");
        break;
    }
    case FN_RANDOM: {
        uint64_t r64 = stb_random_number64();
        uint32_t r32 = stb_random_number32();
        OBSERVE(digest(r64)); OBSERVE(digest(r32));
        CHECK(hw_rng_pos == 12 && is_random64(r64, hw_rng_stream) && is_random32(r32, hw_rng_stream + 8), "random_number64 / random_number32 (SKDs and IVs of the session key derivation) are made of 8 / 4 distinct fresh bytes of the RNG peripheral");
        break;
    }
    default:
        CHECK(0, "unknown FN");
    }
    CHECK(!hw_fault, "the ECB and RNG peripherals are only used in the modelled way (known registers, ECBDATAPTR set before TASKS_STARTECB, no more random bytes than provided)");
    WITNESS();
}
