/* C39 — the real bluetoe::bootloader::controller<Handler, white_list<...>, PageSize> driven by symbolic histories of
 * control point writes, data writes, progress / response / read-data deliveries; the user handler (flash, read back,
 * checksums) is the environment defined here and records / checks every range it is asked to touch.
 *
 * case parameters: CFG (see shims/svc_bl.cpp), K (history length), OPS (K hex digits, the shape of every step),
 *                  XLEN (length of the "odd" control point write), DLEN, DLEN2 (lengths of the two kinds of data writes)
 * step shapes: 1..4 control point write of 1 / 1+A / 1+2A / XLEN bytes (A = sizeof(uintptr_t) = 8; exact-size objects, all bytes
 *   symbolic including the opcode), 5/6 data write of DLEN / DLEN2 symbolic bytes (exact-size objects), 7 progress notification
 *   (end_flash), 8 delivery of a data indication (Read procedure), 9 delivery of a control point notification.
 *
 * asserted (from the property statement and services/bootloader.md):
 *   - every start_flash / read_mem / checksum32(range) / public_read_mem / public_checksum32 range lies entirely inside ONE
 *     white-listed region (empty ranges touch nothing and are allowed);
 *   - no byte outside the written value objects is read (exact-size objects + CBMC pointer checks / ASan in replay);
 *   - flashed pages carry the received bytes, in order, without gaps, at start address + offset; bytes of a flashed page that
 *     were not received equal the memory content read back;
 *   - Start Flash is accepted only for an address inside a white-listed region; data only after an accepted Start Flash;
 *   - announced checksums: Start Flash response = crc(start address); Flush response = chain over start address and all
 *     received data; progress = chain up to the end of the flashed block + consecutive number; Get CRC response = the
 *     handler's checksum of exactly the requested range.
 */
#include "vf.h"

int vf_bl_write_cp(int cfg, unsigned long size, const uint8_t* value, int* notify);
int vf_bl_read_cp(int cfg, unsigned long read_size, uint8_t* out, unsigned long* out_size);
int vf_bl_write_data(int cfg, unsigned long size, const uint8_t* value);
int vf_bl_read_data(int cfg, unsigned long read_size, uint8_t* out, unsigned long* out_size);
int vf_bl_progress(int cfg, unsigned long read_size, uint8_t* out, unsigned long* out_size);

/* raw copy of the controller state (shims/svc_bl.cpp) */
struct vf_bl_state {
    uint8_t  opcode; uint64_t start_address; uint64_t end_address; uint8_t error; uint32_t check_sum; uint8_t in_flash_mode;
    uint32_t next_buffer; uint32_t used_buffer; uint16_t consecutive;
    struct { uint32_t state; uint64_t addr; uint64_t ptr; uint32_t crc; uint16_t consecutive; uint8_t data[32]; } buffers[2];
};
void vf_bl_get_state(int cfg, struct vf_bl_state* s);

/* ---- configurations (must match shims/svc_bl.cpp; written from the template arguments, not read from the code) */
#define NCFG 4
static const int      NREG[NCFG]       = { 2, 1, 1, 1 };
static const uint64_t REG[NCFG][2][2]  = {
    { { 0x1000, 0x2000 }, { 0x8000, 0x8100 } },
    { { 0x4000, 0x4040 }, { 0, 0 } },
    { { 0xffffffffffffff00ull, 0xffffffffffffffe0ull }, { 0, 0 } },
    { { 0x1004, 0x1ffc }, { 0, 0 } } };
static const unsigned PAGES[NCFG]      = { 16, 8, 32, 16 };
#define MAXPAGE 32
#define ASIZE   8          /* sizeof(std::uint8_t*) on the checked target */
#define MAXW    20         /* ATT_MTU 23 - 3 */
#define MAXRX   80

enum { OPC_GET_VERSION, OPC_GET_CRC, OPC_GET_SIZES, OPC_START_FLASH, OPC_STOP_FLASH, OPC_FLUSH, OPC_START, OPC_RESET, OPC_READ };

/* ---- uninterpreted memory content and checksum functions */
#ifdef VF_CBMC
uint8_t  __CPROVER_uninterpreted_mem(uint64_t);
uint32_t __CPROVER_uninterpreted_crcstep(uint32_t, uint8_t);
uint32_t __CPROVER_uninterpreted_crcaddr(uint64_t);
uint32_t __CPROVER_uninterpreted_crcrange(uint64_t, uint64_t);
#define MEM(a)          __CPROVER_uninterpreted_mem(a)
#define CRCSTEP(c, b)   __CPROVER_uninterpreted_crcstep((c), (b))
#define CRCADDR(a)      __CPROVER_uninterpreted_crcaddr(a)
#define CRCRANGE(a, n)  __CPROVER_uninterpreted_crcrange((a), (n))
#else
static uint64_t mix(uint64_t x) { x ^= x >> 31; x *= 0x9E3779B97F4A7C15ull; x ^= x >> 29; x *= 0xBF58476D1CE4E5B9ull; return x ^ (x >> 32); }
#define MEM(a)          ((uint8_t)mix((a) + 1))
#define CRCSTEP(c, b)   ((uint32_t)mix(((uint64_t)(c) << 8) | (b)))
#define CRCADDR(a)      ((uint32_t)mix((a) ^ 0x1234567))
#define CRCRANGE(a, n)  ((uint32_t)mix(mix(a) + (n)))
#endif

#ifdef VF_CBMC
/* CBMC's built-in memmove models a copy of symbolic length with array theory (no verdict in 15 min for the 0..20 byte
 * std::copy in flash_buffer::write_data); a plain byte loop (covered by the unwinding assertions) is decided in seconds. */
void* memmove(void* d, const void* s, size_t n)
{
    uint8_t* dp = (uint8_t*)d; const uint8_t* sp = (const uint8_t*)s;
    __CPROVER_assert(n <= MAXPAGE, "VFCHECK memmove: the bootloader never copies more than a page at once");
    /* source and destination are always different objects here (written value -> page buffer, version text -> output),
     * asserted, so a forward copy is memmove; no pointer/integer casts (they force CBMC's numeric address encoding) */
    __CPROVER_assert(n == 0 || __CPROVER_POINTER_OBJECT(d) != __CPROVER_POINTER_OBJECT(s), "VFCHECK memmove: source and destination are distinct objects");
    for (size_t i = 0; i < MAXPAGE && i < n; ++i) dp[i] = sp[i];
    return d;
}
#endif

static int      cfg;
static unsigned PAGE;

static int in_one_region(uint64_t a, uint64_t n)
{
    for (int r = 0; r < NREG[cfg]; ++r)
        if (a >= REG[cfg][r][0] && a <= REG[cfg][r][1] && n <= REG[cfg][r][1] - a) return 1;
    return 0;
}
static int range_ok(uint64_t a, uint64_t n) { return n == 0 || in_one_region(a, n); }

static uint64_t le64(const uint8_t* p) { uint64_t r = 0; for (int i = 7; i >= 0; --i) r = (r << 8) | p[i]; return r; }
static uint32_t le32(const uint8_t* p) { return (uint32_t)p[0] | ((uint32_t)p[1] << 8) | ((uint32_t)p[2] << 16) | ((uint32_t)p[3] << 24); }
static uint32_t le16(const uint8_t* p) { return (uint32_t)p[0] | ((uint32_t)p[1] << 8); }

/* ---- ghost model of the flash session as the client sees it */
static int      m_session;          /* a Start Flash procedure was accepted (and no Stop Flash since) */
static int      m_valid;            /* the model knows exactly which bytes the bootloader accepted */
static uint64_t m_start;            /* address given with Start Flash */
static unsigned m_count;            /* bytes received since */
static unsigned m_flashed;          /* bytes of them handed to start_flash() */
static unsigned m_blocks;           /* start_flash() calls since Start Flash */
static uint8_t  rx[MAXRX];
static uint32_t pc[MAXRX + 1];      /* checksum chain: pc[0] = crc(start address), pc[n+1] = crc(pc[n], rx[n]) */

/* one entry per start_flash() call: what the progress notification for it has to announce */
#define MAXFLASH 8
static unsigned flash_calls, progress_calls;
static uint32_t fl_crc[MAXFLASH];
static unsigned fl_cons[MAXFLASH];
static int      fl_known[MAXFLASH];

static unsigned cp_notifications, data_indications, run_calls, reset_calls;

/* ---- environment: the user handler */
int vf_bl_env_start_flash(uint64_t addr, const uint8_t* values, uint64_t size)
{
    OBSERVE(addr); OBSERVE(size);
    CHECK(range_ok(addr, size), "start_flash: the flashed range lies entirely inside one white-listed region");
    CHECK(size == PAGE, "start_flash: whole pages are flashed");
    CHECK(m_session, "start_flash: nothing is flashed without an accepted Start Flash procedure");
    unsigned idx = flash_calls < MAXFLASH ? flash_calls : MAXFLASH - 1;
    fl_known[idx] = 0;
    if (size == PAGE) {
        OBSERVE_BYTES(values, PAGE);
#ifdef VF_CBMC
        /* CBMC 6.11 mis-reads bytes through `values` when it points into the second element of the (packed) page buffer
         * array (the same bytes read by member access are right; the g++/ASan build and the natively compiled generated C
         * read them correctly through the pointer).  Under CBMC the page is therefore taken from a raw copy of the page
         * buffer that is being flushed (always buffers_[next_buffer_]); natively from the pointer itself. */
        struct vf_bl_state st;
        vf_bl_get_state(cfg, &st);
        static uint8_t page_copy[MAXPAGE];
        int second = st.next_buffer == 1;
        __CPROVER_assert(st.next_buffer < 2 && (second ? st.buffers[1].addr : st.buffers[0].addr) == addr
                         && (second ? st.buffers[1].state : st.buffers[0].state) == 2,
                         "VFCHECK start_flash: the page handed over is the page buffer being flushed");
        for (unsigned i = 0; i < MAXPAGE; ++i) page_copy[i] = second ? st.buffers[1].data[i] : st.buffers[0].data[i];
        values = page_copy;
#endif
        if (m_session && m_valid) {
            for (unsigned i = 0; i < PAGE; ++i) {
                uint64_t a = addr + i;
                uint64_t n = a - m_start;
                if (a >= m_start && n < m_count) {
                    if (n >= m_flashed)
                        CHECK(values[i] == rx[n], "start_flash: the page carries the received bytes, in order, at the address the client specified");
                } else {
                    CHECK(values[i] == MEM(a), "start_flash: bytes of the page that were not received are written back as read from memory");
                }
            }
            if (m_flashed < m_count) {
                uint64_t a0 = m_start + m_flashed;
                int in_page = a0 >= addr && a0 - addr < PAGE;
                CHECK(in_page, "start_flash: pages are flashed in the order of the received data, no received byte is skipped");
                if (in_page) {
                    uint64_t upto = addr + PAGE - m_start;       /* session bytes that end before the end of this page */
                    m_flashed = upto < m_count ? (unsigned)upto : m_count;
                }
            }
            fl_known[idx] = 1; fl_crc[idx] = pc[m_flashed]; fl_cons[idx] = m_blocks;
        }
    }
    ++m_blocks;
    ++flash_calls;
    return 0;
}

int vf_bl_env_run(uint64_t addr) { OBSERVE(addr); ++run_calls; return 0; }
int vf_bl_env_reset(void) { ++reset_calls; return 0; }

static const uint8_t version_text[3] = { 'v', '4', '2' };
uint64_t vf_bl_env_get_version(const uint8_t** text) { *text = version_text; return sizeof version_text; }

void vf_bl_env_read_mem(uint64_t addr, uint64_t size, uint8_t* dest)
{
    OBSERVE(addr); OBSERVE(size);
    CHECK(range_ok(addr, size), "read_mem: the range read back lies entirely inside one white-listed region");
    CHECK(size <= PAGE && addr % PAGE + size <= PAGE, "read_mem: a read back stays inside one page (the destination is a page buffer)");
    for (unsigned i = 0; i < PAGE && i < size; ++i) dest[i] = MEM(addr + i);
}

uint32_t vf_bl_env_checksum_range(uint64_t addr, uint64_t size)
{
    OBSERVE(addr); OBSERVE(size);
    CHECK(range_ok(addr, size), "checksum32: the checksummed range lies entirely inside one white-listed region");
    return CRCRANGE(addr, size);
}

uint32_t vf_bl_env_checksum_data(const uint8_t* data, uint64_t size, uint32_t old_crc)
{
    OBSERVE(size);
    CHECK(size <= MAXW, "checksum32(data): never more bytes than one write can carry");
    uint32_t c = old_crc;
    for (unsigned i = 0; i < MAXW && i < size; ++i) c = CRCSTEP(c, data[i]);
    return c;
}

uint32_t vf_bl_env_checksum_addr(uint64_t addr) { return CRCADDR(addr); }

int vf_bl_env_public_read_mem(uint64_t addr, uint64_t size, uint8_t* dest)
{
    OBSERVE(addr); OBSERVE(size);
    CHECK(range_ok(addr, size), "public_read_mem: the range read lies entirely inside one white-listed region");
    CHECK(size <= MAXW, "public_read_mem: never more than the output buffer");
    for (unsigned i = 0; i < MAXW && i < size; ++i) dest[i] = MEM(addr + i);
    return (int)in_range(0, 1);          /* success / not authorized */
}

uint32_t vf_bl_env_public_checksum32(uint64_t addr, uint64_t size)
{
    OBSERVE(addr); OBSERVE(size);
    CHECK(range_ok(addr, size), "public_checksum32: the checksummed range lies entirely inside one white-listed region");
    return CRCRANGE(addr, size);
}

void vf_bl_env_cp_notification(void) { ++cp_notifications; }
void vf_bl_env_data_indication(void) { ++data_indications; }

/* ---- operations */
static void forget_outstanding_progress(void)
{
    for (unsigned i = 0; i < MAXFLASH; ++i) fl_known[i] = 0;
}

static void read_response(int opc, uint64_t p1, uint64_t p2)
{
    uint8_t* out = (uint8_t*)vf_alloc(MAXW);
    unsigned long out_size = 0;
    int rc = vf_bl_read_cp(cfg, MAXW, out, &out_size);
    OBSERVE(rc); OBSERVE(out_size);
    CHECK(out_size <= MAXW, "control point response fits the buffer");
    if (out_size > MAXW) return;
    OBSERVE_BYTES(out, out_size);
    if (opc == OPC_START_FLASH) {
        CHECK(out_size == 6 && out[0] == OPC_START_FLASH, "Start Flash response: response code, MTU, checksum");
        if (out_size == 6) CHECK(le32(out + 2) == CRCADDR(p1), "Start Flash response announces the checksum of the received start address");
    } else if (opc == OPC_FLUSH) {
        CHECK(out_size == 7 && out[0] == OPC_FLUSH, "Flush response: response code, checksum, consecutive");
        if (out_size == 7 && m_valid) CHECK(le32(out + 1) == pc[m_count], "Flush response announces the checksum chain over start address and all received data");
    } else if (opc == OPC_GET_CRC) {
        CHECK(out_size == 5 && out[0] == OPC_GET_CRC, "Get CRC response: response code, checksum");
        if (out_size == 5) CHECK(le32(out + 1) == CRCRANGE(p1, p2 - p1), "Get CRC response is the checksum of exactly the requested range");
    }
}

static void do_cp(const uint8_t* v, unsigned len)
{
    int notify = 7;
    int err = vf_bl_write_cp(cfg, len, v, &notify);
    OBSERVE(err); OBSERVE(notify);
    if (err != 0) return;                       /* rejected: no demand on the session (it may or may not continue) */
    CHECK(len >= 1, "an empty control point write is not accepted");
    if (len < 1) return;
    int opc = v[0];
    uint64_t p1 = 0, p2 = 0;
    if (opc == OPC_START_FLASH) {
        CHECK(len == 1 + ASIZE, "Start Flash is accepted only with exactly one address parameter");
        if (len != 1 + ASIZE) return;
        p1 = le64(v + 1);
        CHECK(in_one_region(p1, 1), "Start Flash is accepted only for a start address inside a white-listed region");
        m_session = 1; m_valid = 1; m_start = p1; m_count = 0; m_flashed = 0; m_blocks = 0;
        pc[0] = CRCADDR(p1);
        forget_outstanding_progress();
    } else if (opc == OPC_STOP_FLASH) {
        m_session = 0;
        forget_outstanding_progress();
    } else if (opc == OPC_FLUSH) {
        CHECK(m_session, "Flush is accepted only in flash mode");
        if (m_session && m_valid) CHECK(m_flashed == m_count, "an accepted Flush hands all received data to start_flash");
    } else if (opc == OPC_GET_CRC || opc == OPC_READ) {
        CHECK(len == 1 + 2 * ASIZE, "Get CRC / Read are accepted only with exactly two address parameters");
        if (len != 1 + 2 * ASIZE) return;
        p1 = le64(v + 1); p2 = le64(v + 1 + ASIZE);
        CHECK(p1 <= p2 && range_ok(p1, p2 - p1), "Get CRC / Read are accepted only for a range inside one white-listed region");
    } else if (opc == OPC_GET_VERSION || opc == OPC_GET_SIZES) {
        forget_outstanding_progress();          /* these reset the buffer bookkeeping; progress values are then unspecified */
    }
    if (notify) read_response(opc, p1, p2);     /* the notification that ends the procedure */
}

static void do_data(const uint8_t* v, unsigned len)
{
    /* the bytes are appended before the call: start_flash() is called from inside and compares with rx[] */
    unsigned count0 = m_count;
    if (m_session && m_valid && m_count + len <= MAXRX) {
        for (unsigned i = 0; i < len; ++i) { rx[m_count] = v[i]; pc[m_count + 1] = CRCSTEP(pc[m_count], v[i]); ++m_count; }
    } else {
        m_valid = 0;
    }
    int err = vf_bl_write_data(cfg, len, v);
    OBSERVE(err);
    if (err == 0) {
        CHECK(m_session, "data is accepted only after an accepted Start Flash procedure");
    } else {
        /* rejected (possibly after consuming a part): the client can not know what was taken; content is no longer tracked */
        (void)count0;
        m_valid = 0;
        forget_outstanding_progress();
    }
}

static void do_progress(void)
{
    if (progress_calls >= flash_calls) return;          /* end_flash() is signalled once per start_flash() */
    uint8_t* out = (uint8_t*)vf_alloc(MAXW);
    unsigned long out_size = 0;
    int rc = vf_bl_progress(cfg, MAXW, out, &out_size);
    OBSERVE(rc); OBSERVE(out_size);
    CHECK(out_size == 7, "progress notification: checksum, consecutive, MTU");
    unsigned idx = progress_calls < MAXFLASH ? progress_calls : MAXFLASH - 1;
    if (out_size == 7) {
        OBSERVE_BYTES(out, 7);
        if (fl_known[idx] && m_valid) {
            CHECK(le32(out) == fl_crc[idx], "progress announces the checksum chain up to the end of the flashed block");
            CHECK(le16(out + 4) == fl_cons[idx], "progress announces the consecutive number of the flashed block");
        }
    }
    ++progress_calls;
}

static void do_read_data(void)
{
    uint8_t* out = (uint8_t*)vf_alloc(MAXW);
    unsigned long out_size = 0;
    int rc = vf_bl_read_data(cfg, MAXW, out, &out_size);
    OBSERVE(rc); OBSERVE(out_size);
    CHECK(out_size <= MAXW, "data indication fits the buffer");
}

void harness(void)
{
    vf_global_ctors();
    cfg  = (int)CASE(CFG);
    PAGE = PAGES[cfg];
    int k = (int)CASE(K);
    unsigned long ops = (unsigned long)CASE(OPS);
    long off = (long)CASE(OFF);
    unsigned xlen = (unsigned)CASE(XLEN), dlen = (unsigned)CASE(DLEN), dlen2 = (unsigned)CASE(DLEN2);

    const unsigned cp_len[4] = { 1, 1 + ASIZE, 1 + 2 * ASIZE, xlen };
    const unsigned d_len[2]  = { dlen, dlen2 };

    for (int s = 0; s < k; ++s) {
        /* the shape of every step (kind and value length) is a case parameter: nibble s of OPS, first step = most significant */
        int op = (int)((ops >> (4 * (k - 1 - s))) & 0xf);
        if (op >= 1 && op <= 4) {
            unsigned len = cp_len[op - 1];
            uint8_t* v = (uint8_t*)vf_alloc(len);
            in_bytes(v, len);
            /* partition of the address space by the offset inside a page: OFF = address % PageSize of a one-address
             * parameter (Start Flash); all other address bits stay symbolic.  OFF < 0: no partition. */
            if (off >= 0 && len == 1 + ASIZE) v[1] = (uint8_t)((v[1] & ~(PAGE - 1)) | (unsigned)off);
            do_cp(v, len);
        } else if (op == 5 || op == 6) {
            unsigned len = d_len[op - 5];
            uint8_t* v = (uint8_t*)vf_alloc(len);
            in_bytes(v, len);
            do_data(v, len);
        } else if (op == 7) {
            do_progress();
        } else if (op == 8) {
            if (data_indications) { --data_indications; do_read_data(); }     /* the requested data indication goes out */
        } else {
            if (cp_notifications) { --cp_notifications; read_response(-1, 0, 0); }   /* notification requested by the Read procedure */
        }
    }
    WITNESS();
}
