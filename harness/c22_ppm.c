/* C22 lemma — delta_time::ppm computes the window widening for an elapsed time.
 *
 * Real code: bluetoe::link_layer::delta_time::ppm (delta_time.cpp) through the shim wrapper vfb_ppm.
 * case parameters: CFG (local sleep clock accuracy 500 / 50 ppm), SCA (central's SCA index 0..7): the ppm argument is concrete per case.
 * symbolic: elapsed time t = u * 1250 us, u in 0..65535 (every time the link layer widens is a sum of connection intervals,
 *           transmit window offsets and sizes, all multiples of 1.25 ms; 65535 * 1.25 ms = 81.9 s > 32 s supervision timeout + 4 s interval).
 * Oracle: w = ppm(t) satisfies  t*ppm/10^6 - 2 us < w <= t*ppm/10^6   in 64 bit integer arithmetic:
 *           w * 10^6 + 2*10^6 > t * ppm   and   w * 10^6 <= t * ppm.
 *         (The implementation multiplies by 140737488 / 2^47 = 0.9999999975e-6 and truncates: up to 1.0002 us below the exact value;
 *          the statement's "at least the combined sleep clock accuracy" is read with this truncation tolerated.)
 */
#include "c21_common.h"

void harness(void)
{
    vf_global_ctors();
    const int      cfg = (int)CASE(CFG);
    const unsigned sca = (unsigned)CASE(SCA);
    const uint32_t ppm = vfb_configured_sca(cfg) + SCA_PPM[sca];
    const uint32_t u   = in_u16();
    const uint32_t t   = u * 1250u;
    const uint32_t w   = vfb_ppm(t, ppm);
    OBSERVE(w);
    CHECK((uint64_t)w * 1000000u + 2000000u > (uint64_t)t * ppm, "ppm(): widening is at least elapsed time x accuracy / 10^6 minus truncation (< 2 us)");
    CHECK((uint64_t)w * 1000000u <= (uint64_t)t * ppm, "ppm(): widening is never more than elapsed time x accuracy / 10^6 (so it never exceeds the elapsed time)");
    WITNESS();
}
