/* C21 lemmas (b) + (c) — one connection event boundary (end_event or timeout) with a procedure pending.
 *
 * Real code: link_layer::end_event / link_layer::timeout with everything they call (handle_received_data,
 * plan_next_connection_event with the pending-instant clamp, plan_next_connection_event_after_timeout,
 * handle_pending_ll_control, parse_timing_parameters_from_connection_update_request, channel_map::reset,
 * handle_pending_phy_request, setup_next_connection_event) on the real link_layer, state set directly (shim ll_b).
 *
 * case parameters: CFG, OPC (deferred PDU kind), STEP (0 end_event, 1 timeout)
 * symbolic: event counter C, instant I with d = (I - C) mod 2^16 in 1..32767 (Inv established by lemma (a)),
 *           deferred PDU payload, connection parameters (valid), latency, event flags, channel map + hop, channel index,
 *           time since the last anchor, procedure timeout, transmit window (state connection_changed).
 *
 * Oracle:
 *   k = (C' - C) mod 2^16 is the number of connection events the peripheral advances.
 *   - 1 <= k <= d: the instant is never skipped (latency is clamped), k == 1 for a timeout (lost event)
 *   - k < d: nothing of the procedure is applied, the deferred PDU (pointer, size, bytes, instant) is untouched
 *   - k == d: the carried parameters are in force for the event that is scheduled now (counter == instant):
 *       connection update: interval / latency / timeout as carried, event scheduled with the new interval inside the
 *                           transmit window offset..offset+size after the old-interval anchor point;
 *       channel map: the channel of the scheduled event follows CSA#1 with the new map (independent implementation);
 *       PHY: the radio is switched to exactly the carried PHYs;
 *     and the deferral is cleared (reception continues with the next event).
 *   - the link is only dropped for a stated reason (supervision / procedure timeout, invalid carried parameters).
 */
#include "c21_common.h"

static int used(const uint8_t* map, unsigned ch) { return (map[ch >> 3] >> (ch & 7)) & 1; }

/* Channel selection algorithm #1 (Core spec Vol 6 Part B 4.5.8.2), written from the spec */
static unsigned csa1(const uint8_t* map, unsigned hop, unsigned event_index)
{
    const unsigned unmapped = (hop * (event_index + 1u)) % 37u;
    if (used(map, unmapped)) return unmapped;
    unsigned n = 0;
    for (unsigned c = 0; c < 37; ++c) n += (unsigned)used(map, c);
    const unsigned remap = unmapped % n;
    unsigned seen = 0, res = 0;
    for (unsigned c = 0; c < 37; ++c) {
        if (used(map, c)) { if (seen == remap) res = c; ++seen; }
    }
    return res;
}

static unsigned popcount37(const uint8_t* map)
{
    unsigned n = 0;
    for (unsigned c = 0; c < 37; ++c) n += (unsigned)used(map, c);
    return n;
}

void harness(void)
{
    vf_global_ctors();
    const int      cfg  = (int)CASE(CFG);
    const unsigned opc  = (unsigned)CASE(OPC);
    const int      step = (int)CASE(STEP);
    const unsigned len  = pdu_len_for(opc);
    const unsigned n    = 2u + len;

    env_reset();
    vfb_reset_buffers(cfg);

    /* ---- pre-state */
    sym_misc(cfg, 5);                 /* central SCA fixed (50 ppm): window widening is C22's subject */
    sym_parameters();
    const uint16_t C = (uint16_t)st[VFB_EVENT_COUNTER];
    const uint16_t d = (uint16_t)in_range(1, 32767);
    const uint16_t I = (uint16_t)(C + d);
    st[VFB_DEFERRED_INSTANT] = I;
    st[VFB_DEFERRED_SIZE]    = n;
    st[VFB_STATE]            = in_bool() ? VFB_ST_CONNECTED : VFB_ST_CHANGED;
    if (st[VFB_STATE] == VFB_ST_CHANGED) {
        st[VFB_WIN_SIZE]   = (uint32_t)in_range(1, 8) * 1250u;
        st[VFB_WIN_OFFSET] = (uint32_t)in_range(0, 3200) * 1250u;
    }
    const uint32_t T0 = (uint32_t)in_range(0, 36000000u);      /* time from the last anchor to the event that just ended / was lost */
    st[VFB_TIME_SINCE_LAST] = T0;
    st[VFB_PROC_TIMEOUT]    = in_bool() ? 0u : in_u32();

    /* channel map in force before the step: concrete (case parameter OLDMAP selects one of three), hop symbolic.
     * (a fully symbolic old map makes channel_map::reset build 37 symbolic divisions twice: no verdict in 12 min) */
    static const uint8_t OLDMAPS[3][5] = { { 0xff, 0xff, 0xff, 0xff, 0x1f }, { 0x55, 0x55, 0x55, 0x55, 0x15 }, { 0x01, 0x00, 0x00, 0x00, 0x10 } };
    uint8_t map0[5], hop;
    for (int i = 0; i < 5; ++i) map0[i] = OLDMAPS[CASE(OLDMAP)][i];
    hop = (uint8_t)in_range(5, 16);
    const int map_ok = vfb_set_channel_map(cfg, map0, hop);
    CHECK(map_ok, "a channel map with two or more used channels and hop 5..16 is accepted");

    uint8_t* pdu = (uint8_t*)vf_alloc(n);
    in_bytes(pdu, n);
    pdu[0] = (uint8_t)((pdu[0] & 0xfc) | 3);
    pdu[1] = (uint8_t)len;
    pdu[2] = (uint8_t)opc;
    const unsigned ipos = instant_pos_for(opc);
    pdu[ipos] = (uint8_t)I; pdu[ipos + 1] = (uint8_t)(I >> 8);
    if (opc == OPC_CONN_UPDATE && CASE(ULAT) >= 0) { pdu[8] = (uint8_t)CASE(ULAT); pdu[9] = (uint8_t)(CASE(ULAT) >> 8); }
    if (opc == OPC_PHY_UPDATE) {
        ASSUME(pdu[3] <= 2 && pdu[4] <= 2 && (pdu[3] | pdu[4]) != 0);      /* only such PDUs are deferred (lemma a) */
    }
    if (opc == OPC_CHANNEL_MAP) {
        /* carried map: MAPSYM symbolic bytes (the first ones), the rest taken from a concrete pattern */
        static const uint8_t NEWPAT[5] = { 0x0f, 0xf0, 0x33, 0xcc, 0x0a };
        for (unsigned i = (unsigned)CASE(MAPSYM); i < 5; ++i) pdu[3 + i] = NEWPAT[i];
        ASSUME(popcount37(&pdu[3]) >= 2);                                   /* Core spec: at least two used channels */
    }
    vfb_set_deferred_bytes(cfg, pdu, n);
    vfb_set_state(cfg, st);

    const unsigned flags = (unsigned)in_range(0, 63);

    /* ---- the step */
    if (step == 0) vfb_end_event(cfg, flags);
    else           vfb_timeout(cfg);

    /* ---- post-state */
    uint32_t post[VFB_NFIELDS];
    vfb_get_state(cfg, post);
    for (int i = 0; i < VFB_NFIELDS; ++i) OBSERVE(post[i]);
    OBSERVE(env_n_evt); OBSERVE(env_channel); OBSERVE(env_start); OBSERVE(env_end); OBSERVE(env_interval); OBSERVE(env_n_phy);

    const uint16_t k = (uint16_t)(post[VFB_EVENT_COUNTER] - C);
    const int dropped = post[VFB_STATE] == VFB_ST_ADVERTISING;

    /* new parameters carried by a connection update */
    uint8_t up[14] = { 0 };
    for (unsigned i = 0; i < n && i < 14; ++i) up[i] = pdu[i];
    const uint32_t u_wsize = up[3], u_woff = up[4] | (up[5] << 8), u_int = up[6] | (up[7] << 8);
    const uint32_t u_lat = up[8] | (up[9] << 8), u_to = up[10] | (up[11] << 8);
    /* must-apply premise: only evaluated when the carried latency is a case constant (ULAT >= 0); comparing the code's
     * timeout >= (latency+1)*2*interval with the oracle's product for symbolic latency AND interval is a multiplier
     * equivalence the SAT solver does not finish (> 4 min); with ULAT == -1 the latency is symbolic and no must-apply claim is made */
    const int u_valid = CASE(ULAT) >= 0 && u_int >= 6 && u_int <= 3200 && u_lat <= 499 && u_to >= 10 && u_to <= 3200
                     && u_to * 4u > (1u + u_lat) * u_int
                     && u_wsize >= 1 && u_wsize <= 8 && u_wsize + 1u <= u_int && u_woff <= u_int;

    const int supervision_expired = step == 1 && T0 >= st[VFB_CONN_TIMEOUT];
    const int procedure_expired   = st[VFB_PROC_TIMEOUT] != 0 && st[VFB_PROC_TIMEOUT] <= T0;

    if (dropped) {
        CHECK(supervision_expired || procedure_expired || (opc == OPC_CONN_UPDATE && !u_valid && k == d),
              "the link is only dropped for supervision timeout, procedure timeout or invalid carried parameters");
        CHECK(post[VFB_DEFERRED_SIZE] == 0, "no procedure stays pending on a dropped link");
    } else {
        CHECK(!supervision_expired, "supervision timeout ends the connection");
        CHECK(post[VFB_STATE] == VFB_ST_CONNECTED || post[VFB_STATE] == VFB_ST_CHANGED, "still connected");
        CHECK(k >= 1, "the event counter advances");
        CHECK(k <= d, "peripheral latency never skips the instant");
        if (step == 1) CHECK(k == 1, "a lost connection event advances the counter by exactly one");
        else           CHECK(k <= st[VFB_LATENCY] + 1u, "at most latency + 1 events are skipped");
        CHECK(post[VFB_CHANNEL_INDEX] == (st[VFB_CHANNEL_INDEX] + k) % 37u, "channel index advances with the event counter");
        CHECK(env_n_evt == 1, "exactly one connection event is scheduled");

        const uint32_t T1 = step == 1 ? T0 + st[VFB_INTERVAL] : (uint32_t)k * st[VFB_INTERVAL];
        CHECK(post[VFB_TIME_SINCE_LAST] == T1, "time to the next event is a whole number of (old) intervals after the anchor");

        if (k != d) {
            /* before the instant: nothing applied, deferral intact */
            CHECK(post[VFB_DEFERRED_SIZE] == n && post[VFB_DEFERRED_INSTANT] == I && vfb_deferred_is_store(cfg) == 1,
                  "before the instant the deferred PDU stays pending");
            uint8_t copy[16];
            const unsigned got = vfb_get_deferred_bytes(cfg, copy, sizeof copy);
            CHECK(got == n, "deferred PDU readable");
            for (unsigned i = 0; i < n && i < sizeof copy; ++i) CHECK(copy[i] == pdu[i], "deferred PDU bytes intact before the instant");
            CHECK(post[VFB_INTERVAL] == st[VFB_INTERVAL] && post[VFB_LATENCY] == st[VFB_LATENCY]
               && post[VFB_TIMEOUT_VALUE] == st[VFB_TIMEOUT_VALUE] && post[VFB_CONN_TIMEOUT] == st[VFB_CONN_TIMEOUT],
                  "connection parameters unchanged before the instant");
            CHECK(env_interval == st[VFB_INTERVAL], "events before the instant use the old interval");
            CHECK(env_n_phy == 0, "PHY unchanged before the instant");
            CHECK(env_channel == csa1(map0, hop, post[VFB_CHANNEL_INDEX]), "events before the instant use the old channel map");
            CHECK(env_n_changed == 0, "no connection-changed callback before the instant");
        } else {
            /* at the instant */
            CHECK(post[VFB_DEFERRED_SIZE] == 0, "at the instant the deferral is cleared: reception continues");
            if (opc == OPC_CONN_UPDATE) {
                if (u_valid) {
                    CHECK(post[VFB_INTERVAL] == u_int * 1250u, "connection update: carried interval in force at the instant");
                    CHECK(post[VFB_LATENCY] == u_lat, "connection update: carried latency in force at the instant");
                    CHECK(post[VFB_TIMEOUT_VALUE] == u_to && post[VFB_CONN_TIMEOUT] == u_to * 10000u, "connection update: carried supervision timeout in force at the instant");
                    CHECK(env_interval == u_int * 1250u, "the event at the instant is scheduled with the new interval");
                    CHECK(post[VFB_WIN_OFFSET] == u_woff * 1250u && post[VFB_WIN_SIZE] == u_wsize * 1250u,
                          "connection update: carried transmit window in force for the event at the instant (its use for the receive window: C22, c22_sched MODE 0)");
                    CHECK(post[VFB_STATE] == VFB_ST_CHANGED, "connection marked as changed");
                    if (cfg == 1) CHECK(env_n_changed == 1 && env_chg_interval == u_int && env_chg_latency == u_lat && env_chg_timeout == u_to,
                                        "host is told the new connection parameters");
                }
                CHECK(env_channel == csa1(map0, hop, post[VFB_CHANNEL_INDEX]), "a connection update does not change the channel map");
                CHECK(env_n_phy == 0, "a connection update does not change the PHY");
            } else if (opc == OPC_CHANNEL_MAP) {
                CHECK(env_channel == csa1(&pdu[3], hop, post[VFB_CHANNEL_INDEX]), "channel map update: the event at the instant uses the carried map");
                CHECK(post[VFB_INTERVAL] == st[VFB_INTERVAL] && post[VFB_LATENCY] == st[VFB_LATENCY] && post[VFB_CONN_TIMEOUT] == st[VFB_CONN_TIMEOUT],
                      "a channel map update does not change the timing parameters");
                CHECK(env_n_phy == 0, "a channel map update does not change the PHY");
            } else {
                CHECK(env_n_phy == 1 && env_phy_rx == pdu[3] && env_phy_tx == pdu[4], "PHY update: the radio is switched to exactly the carried PHYs at the instant");
                CHECK(env_channel == csa1(map0, hop, post[VFB_CHANNEL_INDEX]), "a PHY update does not change the channel map");
                CHECK(post[VFB_INTERVAL] == st[VFB_INTERVAL] && post[VFB_LATENCY] == st[VFB_LATENCY] && post[VFB_CONN_TIMEOUT] == st[VFB_CONN_TIMEOUT],
                      "a PHY update does not change the timing parameters");
            }
        }
    }
    WITNESS();
}
