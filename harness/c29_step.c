/* C29 (ii) — connection lifecycle callbacks through the link layer: requested -> established (or attempt timeout) -> changed* -> closed(reason),
 * each once.  Inductive step over the link layer state.
 *
 * Real code: link_layer::adv_received / end_event / timeout / disconnect with everything they call (handle_received_data, handle_ll_control_data,
 * force_disconnect, handle_pending_ll_control, connection_callbacks push functions + handle_connection_events) on the real link layer
 * (shim ll_d, VFD_CFG 0), state set directly; the receive ring holds 0 or 1 received control PDU.
 *
 * case parameters: STEP 0 end_event(), 1 timeout(), 2 adv_received() (connect request), 3 local disconnect()
 *                  PRE  link layer state before the step (2 connecting, 3 connected, 4 disconnecting, 5 connection_changed; 1 advertising for STEP 2)
 *                  OPC/LEN  received control PDU waiting in the receive ring (OPC -1: none)
 * symbolic: PDU payload, event counter, connection parameters, elapsed time, supervision / procedure timeout, procedure flags, event flags,
 *           termination_send_, disconnecting reason.
 *
 * Oracle (L = the lifecycle callbacks of this step in call order, other callbacks filtered out):
 *   the abstract connection state is a function of state_: advertising = no connection reported open; connecting = requested reported,
 *   neither established nor timed out; connected / disconnecting / connection_changed = established reported, not closed.
 *   adv_received  from advertising:  L = [] and still advertising, or L = [requested] and connecting
 *   end_event     from connecting:   L = [established] changed* [closed]?        (closed <=> advertising afterwards)
 *   end_event     from established:  L = changed* [closed]?                      (closed <=> advertising afterwards)
 *   timeout       from connecting:   L = [] (still connecting) or [attempt_timeout] (advertising afterwards)
 *   timeout       from established:  L = changed* [closed]?                      (closed <=> advertising afterwards)
 *   disconnect(): L = []  (closed is reported when the termination is done)
 *   LL_TERMINATE_IND received => closed with the PDU's reason.  Supervision timeout => closed / attempt_timeout.
 *   No event is left in the ring at the end of a step.
 * By induction every run yields ( requested ( attempt_timeout | established changed* closed ) )*.
 */
#include "c27_common.h"

void harness(void)
{
    vf_global_ctors();
    const int      step = (int)CASE(STEP);
    const unsigned pre  = (unsigned)CASE(PRE);
    const int      opc  = (int)CASE(OPC);
    const unsigned len  = (unsigned)CASE(LEN);
    const unsigned n    = 2u + len;

    env_reset();
    if (step == 2) vfd_run();         /* start advertising */
    vfd_reset_buffers();
    env_reset();

    /* ---- inputs */
    sym_misc(0);
    sym_parameters();
    st[VFD_STATE]            = pre;
    st[VFD_PROC_TIMEOUT]     = in_bool() ? 0u : in_u32();
    st[VFD_FLAGS]            = (uint32_t)in_range(0, 127);
    st[VFD_TIME_SINCE_LAST]  = (uint32_t)in_range(0, 36000000u);
    st[VFD_TERMINATION_SEND] = (uint32_t)in_bool();
    st[VFD_DISC_REASON]      = in_u8();
    /* invariant: while a connection is open and no termination is in progress the stored disconnect reason is "connection timeout"
       (0x08): established by adv_received() for every new connection (checked below for STEP 2, where the pre-state value is whatever
       an earlier connection left behind); every other reason is stored immediately before the connection is closed */
    if (pre != VFD_ST_DISCONNECTING && pre != VFD_ST_ADVERTISING) st[VFD_DISC_REASON] = 0x08;
    if (pre == VFD_ST_CHANGED) { st[VFD_WIN_SIZE] = (uint32_t)in_range(1, 8) * 1250u; st[VFD_WIN_OFFSET] = (uint32_t)in_range(0, 3200) * 1250u; }
    if (pre != VFD_ST_DISCONNECTING) st[VFD_TERMINATION_SEND] = 0;
    const unsigned flags  = (unsigned)in_range(0, 63);
    const unsigned reason = in_u8();
    const unsigned hop    = (unsigned)in_range(5, 16);
    uint8_t* pdu = (uint8_t*)vf_alloc(n);
    in_bytes(pdu, n);
    uint8_t adv[36];
    in_bytes(adv, 36);

    if (step == 2) vfd_set_disc_reason(st[VFD_DISC_REASON]);      /* whatever an earlier connection left behind */
    if (step != 2) {
        const int map_ok = vfd_set_channel_map(FULL_MAP, hop);
        CHECK(map_ok, "a full channel map is accepted");
        vfd_set_state(st);
        if (opc >= 0) {
            pdu[0] = 0x03; pdu[1] = (uint8_t)len; pdu[2] = (uint8_t)opc;
            const int got = vfd_radio_receive(pdu, n);
            CHECK(got, "the receive ring has room for one PDU");
        }
        env_reset();
    }

    /* ---- the step */
    if (step == 0)      vfd_end_event(flags);
    else if (step == 1) vfd_timeout();
    else if (step == 2) { adv[0] = (uint8_t)((adv[0] & 0xc0) | 0x05); adv[1] = 34; vfd_adv_received(adv, 36); }
    else                vfd_disconnect(reason);

    uint32_t post[VFD_NFIELDS];
    vfd_get_state(post);
    const unsigned ps = post[VFD_STATE];
    OBSERVE(ps); OBSERVE(env_n_cb);

    /* ---- lifecycle callbacks of this step */
    CHECK(env_n_cb <= ENV_MAX_CB, "harness: callback log large enough");
    unsigned L[ENV_MAX_CB], La[ENV_MAX_CB], ln = 0;
    for (unsigned i = 0; i < env_n_cb && i < ENV_MAX_CB; ++i) {
        OBSERVE(env_cb_kind[i]);
        if (env_cb_kind[i] >= VFD_CB_REQUESTED && env_cb_kind[i] <= VFD_CB_CLOSED) { L[ln] = env_cb_kind[i]; La[ln] = env_cb_a[i]; ++ln; }
    }
    CHECK(vfd_cb_pending() == 0, "no event is left undelivered at the end of a link layer call");

    unsigned i = 0;
    if (step == 2) {
        if (ps == VFD_ST_CONNECTING) {
            CHECK(ln == 1 && L[0] == VFD_CB_REQUESTED, "an accepted connect request is reported as requested, exactly once");
            CHECK(post[VFD_DISC_REASON] == 0x08, "a new connection does not inherit the disconnect reason of an earlier connection");
        }
        else {
            CHECK(ps == VFD_ST_ADVERTISING, "a PDU that is not accepted leaves the link layer advertising");
            CHECK(ln == 0, "no callback without an accepted connect request");
        }
    } else if (step == 3) {
        CHECK(ln == 0, "a local disconnect is reported only when the termination is done");
        CHECK(ps == VFD_ST_DISCONNECTING, "a local disconnect starts the termination");
    } else if (pre == VFD_ST_CONNECTING && step == 1) {
        if (ps == VFD_ST_ADVERTISING) CHECK(ln == 1 && L[0] == VFD_CB_ATTEMPT_TIMEOUT, "a connection that never saw a connection event ends with attempt_timeout, exactly once");
        else {
            CHECK(ps == VFD_ST_CONNECTING, "a lost first event leaves the connection in the connecting state");
            CHECK(ln == 0, "nothing is reported while the connection is neither established nor given up");
        }
    } else {
        if (pre == VFD_ST_CONNECTING) {
            CHECK(ln >= 1 && L[0] == VFD_CB_ESTABLISHED, "the first connection event reports the connection as established, first");
            i = 1;
        }
        while (i < ln && L[i] == VFD_CB_CHANGED) ++i;
        if (ps == VFD_ST_ADVERTISING) {
            CHECK(i + 1 == ln && L[i] == VFD_CB_CLOSED, "a connection that ends is reported closed exactly once, as the last callback");
            if (step == 0 && opc == 0x02 && len == 2 && i < ln) CHECK(La[i] == pdu[3], "closed carries the reason of LL_TERMINATE_IND");
        } else {
            CHECK(i == ln, "only established (once, first) and changed are reported while the connection stays open");
            CHECK(ps == VFD_ST_CONNECTED || ps == VFD_ST_CHANGED || ps == VFD_ST_DISCONNECTING, "the connection stays open");
        }
        if (step == 0 && opc == 0x02 && len == 2 && (pre != VFD_ST_DISCONNECTING))
            CHECK(ps == VFD_ST_ADVERTISING, "LL_TERMINATE_IND ends the connection");
        if (step == 1 && st[VFD_TIME_SINCE_LAST] >= st[VFD_CONN_TIMEOUT])
            CHECK(ps == VFD_ST_ADVERTISING, "supervision timeout ends the connection");
        if (step == 1 && pre != VFD_ST_DISCONNECTING && ps == VFD_ST_ADVERTISING && i < ln)
            CHECK(La[i] == 0x08 || La[i] == 0x22, "a connection lost by timeout is reported closed with reason connection timeout (0x08) or response timeout (0x22)");
    }
    WITNESS();
}
