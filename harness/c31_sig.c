/* C31 (part 2) — the real l2cap::signaling_channel<> (LE signaling channel).
 *
 * case parameters: MODE, OP, CLS, N, OUTCAP, K
 *   MODE 0  inductive step: arbitrary state satisfying Inv (pending status in {idle, queued, transmitted}, identifier != 0,
 *           arbitrary stored parameters), one operation, result and post-state against the statement; Inv re-established.
 *             OP 0  connection_parameter_update_request( symbolic parameters )
 *             OP 1  l2cap_output poll into an exact-size buffer of OUTCAP bytes
 *             OP 2  l2cap_input with a command of N bytes (exact-size object), code by CLS: 0 -> 0x01 Command Reject,
 *                   1 -> 0x12 Connection Parameter Update Request, 2 -> 0x13 Connection Parameter Update Response,
 *                   3 -> any other code (symbolic), 4 -> any code (symbolic; quick tier); identifier, length field, payload symbolic
 *   MODE 1  base case (Inv after construction) + history of K symbolic operations from construction against a black box model:
 *           identifiers are taken from the transmitted requests, not from the object (commands have N bytes, all symbolic)
 *
 * Reading of the statement (permissive where it leaves latitude):
 *   - a response is "matching" iff its code is 0x13, it has an identifier and the identifier equals the one of the transmitted,
 *     not yet answered request. A matching response with correct length (6 bytes, length field 2) must be accepted; a matching
 *     response with other length may be accepted or not. Everything else must not be accepted (state unchanged).
 *   - "advance": the identifier of the next request is non-zero and differs from the one of the completed request.
 *   - the only thing the channel ever sends besides the request is a Command Reject (0x01) that echoes the received identifier,
 *     never identifier 0, with consistent length field; reason 0x0000 for well formed commands (0x0001/0x0002 with their data
 *     allowed for malformed ones). A Command Reject is required for well formed commands with non-zero identifier whose code is
 *     not a response code; for response codes (the existing unit tests pin a reject for an unsolicited 0x13), malformed commands
 *     and identifier 0 silence is allowed as well.
 */
#include "vf.h"

void vf_sig_input(const uint8_t* in, unsigned long in_size, uint8_t* out, unsigned long* out_size);
void vf_sig_output(uint8_t* out, unsigned long* out_size);
int  vf_sig_request(unsigned interval_min, unsigned interval_max, unsigned latency, unsigned timeout);
void vf_sig_set_state(int status, unsigned identifier, const uint16_t* par);
void vf_sig_get_state(int* status, unsigned* identifier, uint16_t* par);
unsigned vf_sig_channel_id(void);

enum { IDLE = 0, QUEUED = 1, SENT = 2 };
#define MAXN 16
#define MAXK 6
#define INCAP 23          /* what the multiplexer offers a channel for its answer: at least the channel's minimum MTU */

/* signaling command codes that are responses (Core spec Vol 3 Part A 4, table of signaling command codes) */
static int is_response_code(unsigned c)
{
    return c == 0x01 || c == 0x03 || c == 0x05 || c == 0x07 || c == 0x09 || c == 0x0B || c == 0x0D || c == 0x0F || c == 0x11
        || c == 0x13 || c == 0x15 || c == 0x18 || c == 0x1A;
}

/* answer to a command that was not accepted as the response to the outstanding request */
static void check_answer(const uint8_t* cmd, unsigned n, const uint8_t* out, unsigned long outsize)
{
    const unsigned code = n >= 1 ? cmd[0] : 0, id = n >= 2 ? cmd[1] : 0;
    const int wellformed = n >= 4 && ((unsigned)cmd[2] | ((unsigned)cmd[3] << 8)) == n - 4;
    OBSERVE(outsize);
    CHECK(outsize <= INCAP, "an answer fits the buffer that was offered");
    if (outsize > INCAP) return;
    if (outsize != 0) {
        CHECK(n >= 2 && id != 0, "no Command Reject is sent when there is no valid (non-zero) identifier to echo");
        CHECK(outsize >= 6, "an answer is a complete Command Reject");
        if (outsize >= 6) {
            const unsigned dlen = (unsigned)out[2] | ((unsigned)out[3] << 8), reason = (unsigned)out[4] | ((unsigned)out[5] << 8);
            OBSERVE_BYTES(out, 6);
            CHECK(out[0] == 0x01, "the only answer to a command is a Command Reject");
            CHECK(out[1] != 0, "a Command Reject never carries identifier 0");
            CHECK(n >= 2 && out[1] == id, "a Command Reject echoes the identifier of the rejected command");
            CHECK(dlen == outsize - 4, "the length field of a Command Reject equals its data size");
            if (wellformed) CHECK(reason == 0 && outsize == 6, "an unsupported command is rejected with reason 0x0000 (command not understood)");
            else CHECK((reason == 0 && outsize == 6) || (reason == 1 && outsize == 8) || (reason == 2 && outsize == 10), "a Command Reject carries a defined reason with its data");
        }
    } else {
        CHECK(!(wellformed && id != 0 && !is_response_code(code)), "a well formed command with non-zero identifier that is not a response is answered with a Command Reject");
    }
}

static void check_request_pdu(const uint8_t* out, unsigned long sz, const uint16_t* par)
{
    CHECK(sz == 12, "a queued Connection Parameter Update Request is sent as a 12 byte command");
    if (sz != 12) return;
    OBSERVE_BYTES(out, 12);
    CHECK(out[0] == 0x12, "the queued request is sent with code 0x12");
    CHECK(out[1] != 0, "a request never carries identifier 0");
    CHECK(out[2] == 8 && out[3] == 0, "length field of the request is 8");
    for (int i = 0; i < 4; ++i)
        CHECK(out[4 + 2 * i] == (par[i] & 0xff) && out[5 + 2 * i] == (par[i] >> 8), "the request carries the queued parameters (interval min, interval max, latency, timeout; little endian)");
}

static int same_par(const uint16_t* a, const uint16_t* b) { return a[0] == b[0] && a[1] == b[1] && a[2] == b[2] && a[3] == b[3]; }

void harness(void)
{
    vf_global_ctors();
    const int mode = (int)CASE(MODE), opc = (int)CASE(OP), cls = (int)CASE(CLS), nops = (int)CASE(K);
    const unsigned n = (unsigned)CASE(N);
    const unsigned long outcap = (unsigned long)CASE(OUTCAP);

    CHECK(vf_sig_channel_id() == 5, "the LE signaling channel has CID 5");

    if (mode == 0) {
        /* ------------------------------------------------------------ inductive step */
        const int      st0 = (int)in_range(0, 2);
        const unsigned id0 = (unsigned)in_range(1, 255);                 /* Inv: identifier != 0 */
        uint16_t par0[4], q[4], par1[4];
        for (int i = 0; i < 4; ++i) { par0[i] = in_u16(); q[i] = in_u16(); }
        uint8_t* cmd = (uint8_t*)vf_alloc(n);
        in_bytes(cmd, n);
        const unsigned other = in_u8();
        if (opc == 2 && n >= 1) {
            if (cls == 0) cmd[0] = 0x01; else if (cls == 1) cmd[0] = 0x12; else if (cls == 2) cmd[0] = 0x13;
            else if (cls == 3) { ASSUME(other != 0x01 && other != 0x12 && other != 0x13); cmd[0] = (uint8_t)other; }
            /* cls == 4: the code stays fully symbolic */
        }
        const unsigned in_id = n >= 2 ? cmd[1] : 0;

        vf_sig_set_state(st0, id0, par0);
        int st1; unsigned id1;

        if (opc == 0) {
            const int r = vf_sig_request(q[0], q[1], q[2], q[3]);
            vf_sig_get_state(&st1, &id1, par1);
            OBSERVE(r);
            CHECK((r != 0) == (st0 == IDLE), "a request is queued exactly when no request is queued or waits for its response");
            if (r) CHECK(st1 == QUEUED && same_par(par1, q), "a queued request stores its parameters");
            else   CHECK(st1 == st0 && (st0 != QUEUED || same_par(par1, par0)), "a refused request leaves the outstanding one untouched");
            CHECK(id1 == id0, "queueing a request does not change the identifier");
        } else if (opc == 1) {
            uint8_t* out = (uint8_t*)vf_alloc(outcap);
            unsigned long sz = outcap;
            vf_sig_output(out, &sz);
            vf_sig_get_state(&st1, &id1, par1);
            OBSERVE(sz);
            if (st0 == QUEUED) {
                check_request_pdu(out, sz, par0);
                if (sz == 12) CHECK(out[1] == id0, "the request carries the current identifier");
                CHECK(st1 == SENT, "a request that was sent waits for its response");
            } else {
                CHECK(sz == 0, "nothing is sent when no request is queued (a request is sent once)");
                CHECK(st1 == st0, "polling without queued request changes nothing");
            }
            CHECK(id1 == id0, "sending a request does not change the identifier");
        } else {
            uint8_t* out = (uint8_t*)vf_alloc(INCAP);
            unsigned long sz = INCAP;
            vf_sig_input(cmd, n, out, &sz);
            vf_sig_get_state(&st1, &id1, par1);
            const int matching = st0 == SENT && n >= 2 && cmd[0] == 0x13 && in_id == id0;
            const int correct_length = n == 6 && cmd[2] == 2 && cmd[3] == 0;
            if (matching && st1 == IDLE) {
                CHECK(id1 != 0 && id1 != id0, "the identifier advances to a different, non-zero value when a request is completed");
                CHECK(sz == 0, "an accepted response is not answered");
                OBSERVE(sz);
            } else {
                if (matching && correct_length) CHECK(0, "the response that matches the outstanding request completes it");
                CHECK(st1 == st0 && id1 == id0, "only a response (0x13) whose identifier matches the outstanding request is accepted");
                if (st0 == QUEUED) CHECK(same_par(par1, par0), "incoming commands do not change a queued request");
                check_answer(cmd, n, out, sz);
            }
        }
        OBSERVE(st1); OBSERVE(id1);
        CHECK(st1 >= 0 && st1 <= 2 && id1 != 0, "Inv: valid pending status and non-zero identifier");
    } else {
        /* ------------------------------------------------------------ history from construction */
        int ops[MAXK]; uint16_t q[MAXK][4]; uint8_t cmds[MAXK][MAXN];
        for (int k = 0; k < MAXK; ++k) {
            ops[k] = (int)in_range(0, 2);
            for (int i = 0; i < 4; ++i) q[k][i] = in_u16();
            in_bytes(cmds[k], n);
        }
        uint8_t* cmd = (uint8_t*)vf_alloc(n);
        uint8_t* out = (uint8_t*)vf_alloc(INCAP);

        int st; unsigned id; uint16_t par[4];
        vf_sig_get_state(&st, &id, par);
        CHECK(st == IDLE && id != 0, "Inv after construction: idle, identifier non-zero");

        int m_st = IDLE; unsigned m_out_id = 0, m_prev_id = 0; uint16_t m_par[4] = { 0, 0, 0, 0 };
        for (int k = 0; k < MAXK; ++k) if (k < nops) {
            if (ops[k] == 0) {
                const int r = vf_sig_request(q[k][0], q[k][1], q[k][2], q[k][3]);
                OBSERVE(r);
                CHECK((r != 0) == (m_st == IDLE), "history: a request is queued exactly when none is outstanding");
                if (m_st == IDLE) { m_st = QUEUED; for (int i = 0; i < 4; ++i) m_par[i] = q[k][i]; }
            } else if (ops[k] == 1) {
                unsigned long sz = INCAP;
                vf_sig_output(out, &sz);
                OBSERVE(sz);
                if (m_st == QUEUED) {
                    check_request_pdu(out, sz, m_par);
                    if (sz == 12) {
                        CHECK(out[1] != m_prev_id, "history: the identifier differs from the one of the previously completed request");
                        m_out_id = out[1];
                    }
                    m_st = SENT;
                } else
                    CHECK(sz == 0, "history: a queued request is sent exactly once");
            } else {
                for (unsigned i = 0; i < MAXN; ++i) if (i < n) cmd[i] = cmds[k][i];
                const int matching = m_st == SENT && n >= 2 && cmd[0] == 0x13 && cmd[1] == m_out_id;
                const int correct_length = n == 6 && cmd[2] == 2 && cmd[3] == 0;
                unsigned long sz = INCAP;
                vf_sig_input(cmd, n, out, &sz);
                int accepted = 0;
                if (matching) {
                    if (correct_length) accepted = 1;
                    else { vf_sig_get_state(&st, &id, par); accepted = st == IDLE; }   /* latitude: resolved by looking */
                }
                if (accepted) {
                    CHECK(sz == 0, "history: an accepted response is not answered");
                    m_st = IDLE; m_prev_id = m_out_id;
                } else
                    check_answer(cmd, n, out, sz);
            }
        }
        vf_sig_get_state(&st, &id, par);
        OBSERVE(st); OBSERVE(id);
        CHECK(st == m_st, "history: the pending status follows the model (only a matching response completes a request)");
        CHECK(id != 0, "history: identifier non-zero");
    }
    WITNESS();
}
