/* C10 — notifications / indications carry the requested characteristic to subscribed clients only (shim att_e10:
 * the real link_layer around a server with six notify / indicate characteristics).
 *
 * case parameters
 *   CFG    0: no priorities  1: higher_outgoing_priority< c3, c1 > on service S1 + higher_outgoing_priority< S2 > on the server
 *          2: higher_outgoing_priority< c2 > on service S1          (one shim unit per CFG)
 *          4: as 0, with a service without characteristics in front of S1: every handle below + 1
 *          3: as 1, with include_service< S2 > as first attribute of S1: handle 2 is the include, every handle below + 1
 *   IND    0: notification  1: indication
 *   HOW    0: request by bound value ( server.notify( value ) )  1: by UUID ( server.notify< uuid >() )
 *   OUTSZ  size of the output buffer handed to l2cap_output (the l2cap layer passes the MTU, 23), exact-size heap object
 * symbolic: which characteristic k (among those declared for the kind), the raw client configuration bytes of the connection
 *           (all 16 bits), all 39 bytes of the bound values, whether the request is repeated before transmission and in which
 *           way the repetition is made (by value / by UUID).
 *
 * Expected table, derived by hand from the declaration in shims/att_e10.cpp (identical for all CFGs; priorities change the
 * order of transmission, never the handles):
 *   characteristic k:   0   1   2   3   4   5
 *   value handle        3   6   9  12  16  19
 *   CCCD handle         4   7  10  13  17  20
 *   value length        1   1  30   2   1   4
 *   notify              x       x   x   x
 *   indicate                x   x       x   x
 */
#include "vf.h"

int      vf_e10_part(void);
int      vf_e10_request(int cfg, int k, int indicate, int by_uuid);
void     vf_e10_output(int cfg, uint8_t* out, size_t* out_size);
void     vf_e10_input(int cfg, const uint8_t* in, size_t in_size, uint8_t* out, size_t* out_size);
unsigned vf_e10_get_config(int cfg);
void     vf_e10_set_config(int cfg, unsigned v);
unsigned vf_e10_config_size(int cfg);
void     vf_e10_set_values(const uint8_t* src);

#define NC 6
static const unsigned VAL_H[NC]        = { 3, 6, 9, 12, 16, 19 };
static const unsigned CCCD_H[NC]       = { 4, 7, 10, 13, 17, 20 };
static const unsigned VAL_LEN[NC]      = { 1, 1, 30, 2, 1, 4 };
static const unsigned VAL_OFF[NC]      = { 0, 1, 2, 32, 34, 35 };     /* offset in the 39 value bytes handed to the shim */
static const int      CAN_NOTIFY[NC]   = { 1, 0, 1, 1, 1, 0 };
static const int      CAN_INDICATE[NC] = { 0, 1, 1, 0, 1, 1 };
#define NVAL 39

static unsigned cancelations;
void vf_e10_env_event_cancelation(void) { ++cancelations; }

static int cfg;
#define SHIFT ((unsigned)(cfg >= 3 ? 1 : 0))     /* the include attribute of configuration 3, the empty service of configuration 4 */

/* the client's view of its subscription: Read Request on the CCCD handle */
static unsigned read_cccd(int k)
{
    uint8_t* pdu = vf_alloc(3); uint8_t* out = vf_alloc(23);
    pdu[0] = 0x0a; pdu[1] = (uint8_t)(CCCD_H[k] + SHIFT); pdu[2] = 0;
    size_t os = 23;
    vf_e10_input(cfg, pdu, 3, out, &os);
    OBSERVE(os);
    CHECK(os == 3 && out[0] == 0x0b, "reading a CCCD yields a Read Response with a two byte value");
    if (!(os == 3 && out[0] == 0x0b)) return 0;
    OBSERVE(out[1]);
    return out[1] & 3u;
}

void harness(void)
{
    vf_global_ctors();
    cfg = (int)CASE(CFG);
    const int ind = (int)CASE(IND), how = (int)CASE(HOW);
    const unsigned outsz = (unsigned)CASE(OUTSZ);
    CHECK(vf_e10_part() == cfg, "the unit was built for this configuration");
    CHECK(vf_e10_config_size(cfg) == 2, "six 2-bit fields occupy two bytes");

    /* inputs */
    const unsigned raw = in_u16();
    uint8_t vals[NVAL]; in_bytes(vals, NVAL);
    const int k = (int)in_range(0, NC - 1);
    const int repeat = in_bool(), how2 = in_bool();
    ASSUME(ind ? CAN_INDICATE[k] : CAN_NOTIFY[k]);      /* the API refuses (static_assert) requests for a kind that was not declared */

    vf_e10_set_config(cfg, raw);
    vf_e10_set_values(vals);
    const unsigned field = read_cccd(k);
    const int subscribed = (field & (ind ? 2u : 1u)) != 0;

    /* known finding / fixed defect region: by value, with priorities */
    int r1 = vf_e10_request(cfg, k, ind, how);
    OBSERVE(r1);
    CHECK(r1 == 1, "a request for a characteristic that is not queued is accepted");
    if (repeat) {
        int r2 = vf_e10_request(cfg, k, ind, how2);
        OBSERVE(r2);
        CHECK(r2 == 0, "a repeated request before transmission is reported as already queued");
    }
    OBSERVE(cancelations);

    uint8_t* out = vf_alloc(outsz); size_t os = outsz;
    vf_e10_output(cfg, out, &os);
    OBSERVE(os);
    CHECK(os <= outsz, "the PDU fits the output buffer");
    if (os <= outsz) OBSERVE_BYTES(out, os);
    if (subscribed && outsz >= 3) {
        const unsigned room = outsz - 3, n = VAL_LEN[k] < room ? VAL_LEN[k] : room;
        CHECK(os == 3 + n, "a subscribed connection gets one PDU with the value truncated to the buffer (MTU) - 3");
        if (os == 3 + n) {
            CHECK(out[0] == (ind ? 0x1d : 0x1b), "the PDU is a Handle Value Notification / Indication as requested");
            CHECK((unsigned)(out[1] | (out[2] << 8)) == VAL_H[k] + SHIFT, "the PDU carries the value handle of the requested characteristic");
            for (unsigned i = 0; i < 30; ++i)
                if (i < n) CHECK(out[3 + i] == vals[VAL_OFF[k] + i], "the PDU carries the current value of the requested characteristic");
        }
    } else {
        CHECK(os == 0, "nothing is sent to a connection that did not subscribe to this kind for this characteristic");
    }

    /* the client confirms an indication; after that nothing is left: a repeated request did not produce a second PDU */
    if (ind) {
        uint8_t* cf = vf_alloc(1); uint8_t* co = vf_alloc(23); size_t cs = 23;
        cf[0] = 0x1e;
        vf_e10_input(cfg, cf, 1, co, &cs);
        OBSERVE(cs);
        CHECK(cs == 0, "a Handle Value Confirmation is not answered");
    }
    uint8_t* out2 = vf_alloc(outsz); size_t os2 = outsz;
    vf_e10_output(cfg, out2, &os2);
    OBSERVE(os2);
    CHECK(os2 == 0, "one request (also when repeated before transmission) produces a single PDU");
    WITNESS();
}
