/* vf_native.c — native runtime for harnesses (see vf.h): differential and replay modes.
 *
 *   bin diff SEED N [NAME=VALUE ...]   N forked iterations with PRNG inputs; one line per iteration:
 *                                      "<i> OK <hash> <nchecks>" | "<i> SKIP" | "<i> FAIL <hash> <msg>" | "<i> CRASH <status>"
 *   bin replay FILE                    inputs and case parameters from FILE ("case NAME VALUE" / "in VALUE" lines)
 *                                      exit 0: all checks passed, 1: a CHECK failed, 3: an assumption did not hold
 *                                      (replay file inconsistent), other: crash / sanitizer (ASAN exitcode 42)
 */
#include <stdio.h>
#include <stdlib.h>
#include <string.h>
#include <stdint.h>
#include <unistd.h>
#include <sys/wait.h>

void harness(void);

enum { MODE_DIFF, MODE_REPLAY };
static int mode;
static uint64_t rng_state;
static uint64_t hash;
static unsigned nchecks;
static int failed;
static const char* first_fail;
static int first_fail_line;

#define MAX_CASE 64
static char case_names[MAX_CASE][64];
static long case_values[MAX_CASE];
static int ncase;

#define MAX_IN 65536
static uint64_t replay_in[MAX_IN];
static unsigned char replay_any[MAX_IN];   /* input not present in the solver trace (sliced away: any value will do) */
static unsigned replay_n, replay_pos;

static uint64_t splitmix(void)
{
    uint64_t z = (rng_state += 0x9e3779b97f4a7c15ull);
    z = (z ^ (z >> 30)) * 0xbf58476d1ce4e5b9ull;
    z = (z ^ (z >> 27)) * 0x94d049bb133111ebull;
    return z ^ (z >> 31);
}

static void fold(uint64_t v)
{
    hash ^= v + 0x9e3779b97f4a7c15ull + (hash << 6) + (hash >> 2);
}

static uint64_t next_raw(void)
{
    if (mode == MODE_REPLAY)
        return replay_pos < replay_n ? replay_in[replay_pos++] : (replay_pos++, 0);
    /* diff mode: bias towards small and boundary values */
    uint64_t r = splitmix();
    switch (r & 7) {
    case 0: return splitmix() & 0xf;
    case 1: return splitmix() & 0xff;
    case 2: return 0;
    case 3: return ~0ull;
    default: return splitmix();
    }
}

uint64_t vf_native_in(uint64_t mask)
{
    return next_raw() & mask;
}

uint64_t vf_native_range(uint64_t lo, uint64_t hi)
{
    int any = mode == MODE_REPLAY && (replay_pos >= replay_n || replay_any[replay_pos]);
    uint64_t v = next_raw();
    if (mode == MODE_REPLAY) {
        if (any) return lo;
        if (v < lo || v > hi) {
            fprintf(stderr, "REPLAY: input %llu outside assumed range [%llu,%llu]\n", (unsigned long long)v, (unsigned long long)lo, (unsigned long long)hi);
            fflush(0); _exit(3);
        }
        return v;
    }
    if (hi == ~0ull && lo == 0) return v;
    return lo + v % (hi - lo + 1);
}

void vf_native_assume(int c, const char* text, int line)
{
    if (c) return;
    if (mode == MODE_REPLAY) {
        fprintf(stderr, "REPLAY: assumption does not hold at line %d: %s\n", line, text);
        fflush(0); _exit(3);
    }
    printf("SKIP\n"); fflush(0); _exit(0);
}

void vf_native_check(int c, const char* msg, int line)
{
    ++nchecks;
    fold((uint64_t)c);
    if (!c) {
        if (!failed) { first_fail = msg; first_fail_line = line; }
        failed = 1;
        if (mode == MODE_REPLAY) fprintf(stderr, "CHECK FAILED line %d: %s\n", line, msg);
    }
}

void vf_native_observe(uint64_t v) { fold(v); }
void vf_native_observe_bytes(const void* p, size_t n)
{
    const unsigned char* b = (const unsigned char*)p;
    for (size_t i = 0; i < n; ++i) fold(b[i]);
}

void* vf_native_alloc(size_t n)
{
    void* p = malloc(n ? n : 1);
    if (!p) abort();
    memset(p, 0xA5, n);
    return p;
}

long vf_native_case(const char* name)
{
    for (int i = 0; i < ncase; ++i)
        if (strcmp(case_names[i], name) == 0) return case_values[i];
    if (strncmp(name, "KF_", 3) == 0) return 0;
    fprintf(stderr, "native: case parameter %s not given\n", name);
    fflush(0); _exit(4);
}

static void add_case(const char* name, long v)
{
    if (ncase < MAX_CASE) { strncpy(case_names[ncase], name, 63); case_values[ncase] = v; ++ncase; }
}

int main(int argc, char** argv)
{
    if (argc >= 3 && strcmp(argv[1], "replay") == 0) {
        mode = MODE_REPLAY;
        FILE* f = fopen(argv[2], "r");
        if (!f) { perror(argv[2]); return 4; }
        char line[256];
        while (fgets(line, sizeof line, f)) {
            char nm[64]; long v; unsigned long long u;
            if (sscanf(line, "case %63s %ld", nm, &v) == 2) add_case(nm, v);
            else if (sscanf(line, "in %llu", &u) == 1 && replay_n < MAX_IN) replay_in[replay_n++] = u;
            else if (strncmp(line, "any", 3) == 0 && replay_n < MAX_IN) { replay_any[replay_n] = 1; replay_in[replay_n++] = 0; }
        }
        fclose(f);
        harness();
        if (failed) { fprintf(stderr, "REPLAY: check failed: %s (line %d)\n", first_fail, first_fail_line); return 1; }
        fprintf(stderr, "REPLAY: all %u checks passed, %u inputs consumed of %u\n", nchecks, replay_pos, replay_n);
        return 0;
    }
    if (argc >= 4 && strcmp(argv[1], "diff") == 0) {
        mode = MODE_DIFF;
        uint64_t seed = strtoull(argv[2], 0, 0);
        long n = atol(argv[3]);
        for (int i = 4; i < argc; ++i) {
            char* eq = strchr(argv[i], '=');
            if (eq) { *eq = 0; add_case(argv[i], atol(eq + 1)); }
        }
        for (long i = 0; i < n; ++i) {
            fflush(0);
            pid_t pid = fork();
            if (pid == 0) {
                rng_state = seed * 0x2545F4914F6CDD1Dull + (uint64_t)i * 0x9E3779B97F4A7C15ull + 1;
                printf("%ld ", i);
                harness();
                if (failed) printf("FAIL %016llx %s\n", (unsigned long long)hash, first_fail);
                else printf("OK %016llx %u\n", (unsigned long long)hash, nchecks);
                fflush(0); _exit(0);
            }
            int st = 0;
            waitpid(pid, &st, 0);
            if (!WIFEXITED(st) || WEXITSTATUS(st) != 0)
                printf("%ld CRASH\n", i);
        }
        return 0;
    }
    fprintf(stderr, "usage: %s diff SEED N [NAME=VALUE...] | replay FILE\n", argv[0]);
    return 4;
}
