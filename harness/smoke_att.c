#include "vf.h"
void vf_l2cap_input( const uint8_t* in, size_t in_size, uint8_t* out, size_t* out_size, int encrypted, int pairing );
void harness(void)
{
    vf_global_ctors();
    size_t len = (size_t)CASE(LEN);
    uint8_t* in = vf_alloc(len);
    in_bytes(in, len);
    in[0] = (uint8_t)CASE(OPC);
    uint8_t* out = vf_alloc(23);
    size_t os = 23;
    int enc = in_bool(); int pair = (int)in_range(0, 3);
    VF_KNOWN_FINDING(smoke_prepare_cccd, in[0] == 0x16 && len >= 3 && in[1] == 4 && in[2] == 0);
    vf_l2cap_input(in, len, out, &os, enc, pair);
    CHECK(os <= 23, "response fits MTU");
    OBSERVE(os); OBSERVE_BYTES(out, os);
    WITNESS();
}
