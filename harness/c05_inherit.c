/* C05 — inheritance of the encryption options.
 *
 * One characteristic (1 byte bound value + CCCD) in one service in one server; on each of the three levels one of
 *   0 nothing, 1 requires_encryption, 2 no_encryption_required, 3 may_require_encryption.
 * Documented rule (bluetoe/encryption.hpp): requires_encryption / no_encryption_required given for a server or a service
 * apply to everything contained "where it can be overridden"; may_require_encryption only forces the support code in and
 * does not by itself require encryption.  Hence: the innermost level that says requires_encryption or
 * no_encryption_required decides; nothing said anywhere: not protected.
 *
 * case parameters: S = option on the server (selects the build of the shim), VC = service*4 + characteristic, or -1: symbolic
 * (all 16 placements below that server in one query; the access functions are a few lines each).  Link security is symbolic.
 * For the value attribute and the CCCD, a read and a write through the attribute's access function (the call the ATT
 * handlers make) must be accepted iff the attribute is unprotected or the link is encrypted; otherwise 0x05 / 0x0F and no effect.
 */
#include "vf.h"

void     vf_c05_pl_set_value(unsigned v);
unsigned vf_c05_pl_get_value(void);
int      vf_c05_pl_access(int placement_id, size_t index, int write, int encrypted, int pairing, uint8_t* buf, size_t* size, uint8_t* cccd);

static int protected_by_rule(int s, int v, int c)
{
    int p = 0;                        /* default: no encryption required */
    if (s == 1) p = 1; else if (s == 2) p = 0;
    if (v == 1) p = 1; else if (v == 2) p = 0;
    if (c == 1) p = 1; else if (c == 2) p = 0;
    return p;
}

void harness(void)
{
    vf_global_ctors();
    int sopt = (int)CASE(S);
    int pl = (int)CASE(VC);
    if (pl < 0) pl = (int)in_range(0, 15);
    int prot = protected_by_rule(sopt, (pl >> 2) & 3, pl & 3);
    int encrypted = in_bool();
    int pairing   = (int)in_range(0, 3);
    int write     = in_bool();
    int on_cccd   = in_bool();
    uint8_t value = in_u8();
    uint8_t cccd  = (uint8_t)in_range(0, 3);
    uint8_t data0 = in_u8(), data1 = in_u8();

    vf_c05_pl_set_value(value);
    uint8_t cccd_store[1] = { cccd };
    uint8_t* buf = vf_alloc(2);
    buf[0] = data0; buf[1] = data1;
    size_t size = on_cccd ? 2 : 1;
    if (!write) size = 2;

    int rc = vf_c05_pl_access(pl, on_cccd ? 3 : 2, write, encrypted, pairing, buf, &size, cccd_store);
    OBSERVE(rc); OBSERVE(size); OBSERVE(vf_c05_pl_get_value()); OBSERVE(cccd_store[0]);

    int allowed = !prot || encrypted;
    if (allowed) {
        CHECK(rc == 0, "access is accepted when the characteristic is not protected or the link is encrypted");
        if (!write && !on_cccd) CHECK(size == 1 && buf[0] == value, "accepted read returns the value");
        if (!write && on_cccd)  CHECK(size == 2 && buf[0] == cccd && buf[1] == 0, "accepted read returns the client configuration");
        if (write && !on_cccd)  CHECK(vf_c05_pl_get_value() == data0, "accepted write stores the value");
        if (write && on_cccd)   CHECK(cccd_store[0] == (data0 & 3), "accepted write stores the client configuration");
    } else {
        CHECK(rc == (pairing == 0 ? 0x05 : 0x0f), "rejected with Insufficient Authentication without key, Insufficient Encryption with key");
        CHECK(buf[0] == data0 && buf[1] == data1, "rejected access returns nothing");
    }
    if (!allowed || !write) {
        CHECK(vf_c05_pl_get_value() == value, "value unchanged unless an allowed write to the value");
        CHECK(cccd_store[0] == cccd, "client configuration unchanged unless an allowed write to the CCCD");
    }
    WITNESS();
}
