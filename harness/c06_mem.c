/* C06 — memory bound / constant characteristic values: read and write semantics and permissions (shims/att_c06.cpp, CFG 0).
 *
 * The pre-state of all bound values (37 bytes) is symbolic.  One request with concrete opcode and PDU length, everything
 * else (handle, offset, data) symbolic.  Response and post-state are compared with a model computed from the expected
 * attribute table below, which is written from the server declaration by the GATT rules and Bluetoe's documentation.
 *
 * case parameters: OPC, LEN
 *   0x0A Read, 0x0C Read Blob, 0x12 Write Request, 0x52 Write Command, 0x16 Prepare Write, 0x0E Read Multiple, 0x08 Read By Type
 */
#include "vf.h"

void     vf_c06_set_values(const uint8_t* p);
void     vf_c06_get_values(uint8_t* p);
unsigned vf_c06_queue_end(void);
void     vf_c06_input(const uint8_t* in, size_t in_size, uint8_t* out, size_t* out_size, int encrypted, int pairing);

uint8_t vf_c06_env_read(int id, size_t offset, size_t read_size, uint8_t* out, size_t* out_size) { (void)id; (void)offset; (void)read_size; (void)out; (void)out_size; return 0x0e; }
uint8_t vf_c06_env_write(int id, size_t offset, size_t write_size, const uint8_t* value) { (void)id; (void)offset; (void)write_size; (void)value; return 0x0e; }
uint8_t vf_c06_env_write_u16(int id, unsigned value) { (void)id; (void)value; return 0x0e; }

/* ---- expected attribute table.  Properties: Read 0x02, Write Without Response 0x04, Write 0x08 */
#define NATTR 19
#define NSTATE 37
#define MTU 23
enum { K_CONST, K_MEM };
struct attr { uint16_t type; int kind; int off; int len; int readable; int writable; uint8_t bytes[5]; };
static const struct attr T[NATTR + 1] = {
    { 0 },
    /*  1 */ { 0x2800, K_CONST, 0, 2, 1, 0, { 0x20, 0x18 } },
    /*  2 */ { 0x2803, K_CONST, 0, 5, 1, 0, { 0x0a, 3, 0, 0x01, 0xc0 } },
    /*  3 */ { 0xc001, K_MEM,   0, 1, 1, 1, { 0 } },                          /* b1 */
    /*  4 */ { 0x2803, K_CONST, 0, 5, 1, 0, { 0x0e, 5, 0, 0x02, 0xc0 } },
    /*  5 */ { 0xc002, K_MEM,   1, 4, 1, 1, { 0 } },                          /* b4, write_without_response */
    /*  6 */ { 0x2803, K_CONST, 0, 5, 1, 0, { 0x0a, 7, 0, 0x03, 0xc0 } },
    /*  7 */ { 0xc003, K_MEM,   5, 20, 1, 1, { 0 } },                         /* b20 */
    /*  8 */ { 0x2803, K_CONST, 0, 5, 1, 0, { 0x02, 9, 0, 0x04, 0xc0 } },
    /*  9 */ { 0xc004, K_CONST, 0, 4, 1, 0, { 0xd4, 0xc3, 0xb2, 0xa1 } },     /* const value */
    /* 10 */ { 0x2803, K_CONST, 0, 5, 1, 0, { 0x02, 11, 0, 0x05, 0xc0 } },
    /* 11 */ { 0xc005, K_MEM,   25, 4, 1, 0, { 0 } },                         /* r4, no_write_access */
    /* 12 */ { 0x2803, K_CONST, 0, 5, 1, 0, { 0x08, 13, 0, 0x06, 0xc0 } },
    /* 13 */ { 0xc006, K_MEM,   29, 4, 0, 1, { 0 } },                         /* w4, no_read_access */
    /* 14 */ { 0x2803, K_CONST, 0, 5, 1, 0, { 0x02, 15, 0, 0x07, 0xc0 } },
    /* 15 */ { 0xc007, K_CONST, 0, 4, 1, 0, { 0x44, 0x33, 0x22, 0x11 } },     /* fixed_uint32_value */
    /* 16 */ { 0x2803, K_CONST, 0, 5, 1, 0, { 0x02, 17, 0, 0x08, 0xc0 } },
    /* 17 */ { 0xc008, K_CONST, 0, 5, 1, 0, { 'H', 'e', 'l', 'l', 'o' } },    /* cstring_value */
    /* 18 */ { 0x2803, K_CONST, 0, 5, 1, 0, { 0x06, 19, 0, 0x09, 0xc0 } },
    /* 19 */ { 0xc009, K_MEM,   33, 4, 1, 1, { 0 } },                         /* ow4, only_write_without_response */
};

static uint8_t pre[NSTATE], post[NSTATE];

static uint8_t attr_byte(unsigned h, unsigned i)      /* current value of attribute h, byte i (pre-state) */
{
    return T[h].kind == K_MEM ? pre[T[h].off + i] : T[h].bytes[i];
}

static uint8_t* out;
static size_t   os;
static uint8_t  opc;

static void expect_error(uint16_t handle, uint8_t code)
{
    CHECK(os == 5 && out[0] == 0x01 && out[1] == opc, "Error Response naming the request");
    CHECK(out[2] == (handle & 0xff) && out[3] == (handle >> 8), "Error Response names the attribute handle");
    CHECK(out[4] == code, "Error Response carries the error code demanded by the permission / offset / length rule");
}

static void expect_unchanged(void)
{
    for (int i = 0; i < NSTATE; ++i)
        CHECK(post[i] == pre[i], "every bound value is unchanged by a read or a rejected write");
}

void harness(void)
{
    vf_global_ctors();
    opc = (uint8_t)CASE(OPC);
    size_t len = (size_t)CASE(LEN);

    /* the declared properties agree with the permissions of the table (static consistency of the oracle itself) */
    for (unsigned d = 2; d < NATTR; d += 2) {
        CHECK(((T[d].bytes[0] & 0x02) != 0) == (T[d + 1].readable != 0), "declared Read property iff the value is readable");
        CHECK(((T[d].bytes[0] & 0x0c) != 0) == (T[d + 1].writable != 0), "declared Write / Write Without Response property iff the value is writable");
    }

    in_bytes(pre, NSTATE);
    uint8_t* in = vf_alloc(len);
    in_bytes(in, len);
    in[0] = opc;
    int encrypted = in_bool();
    int pairing = (int)in_range(0, 3);

    vf_c06_set_values(pre);
    out = vf_alloc(MTU);
    os = MTU;
    vf_c06_input(in, len, out, &os, encrypted, pairing);
    vf_c06_get_values(post);
    unsigned qend = vf_c06_queue_end();
    CHECK(os <= MTU, "response fits the MTU");
    if (os > MTU) os = MTU;
    OBSERVE(os); OBSERVE_BYTES(out, os); OBSERVE_BYTES(post, NSTATE); OBSERVE(qend);

    uint16_t h = len >= 3 ? (uint16_t)(in[1] | (in[2] << 8)) : 0;
    int valid = h >= 1 && h <= NATTR;

    if (opc == 0x0a && len == 3) {                                   /* ---------------- Read Request */
        expect_unchanged();
        if (!valid) expect_error(h, 0x01);
        else if (!T[h].readable) expect_error(h, 0x02);
        else {
            unsigned n = T[h].len < MTU - 1 ? T[h].len : MTU - 1;
            CHECK(os == 1 + n && out[0] == 0x0b, "Read Response with the value truncated to MTU-1");
            for (unsigned i = 0; i < n && i < MTU - 1; ++i)
                CHECK(out[1 + i] == attr_byte(h, i), "Read Response returns the current value bytes");
        }
    } else if (opc == 0x0c && len == 5) {                            /* ---------------- Read Blob Request */
        unsigned off = in[3] | (in[4] << 8);
        expect_unchanged();
        if (!valid) expect_error(h, 0x01);
        else if (!T[h].readable) expect_error(h, 0x02);
        else if (off > (unsigned)T[h].len) expect_error(h, 0x07);
        else if (off == (unsigned)T[h].len && os == 5) expect_error(h, 0x07);     /* offset == length: Invalid Offset or an empty response, both allowed */
        else {
            unsigned n = T[h].len - off; if (n > MTU - 1) n = MTU - 1;
            CHECK(os == 1 + n && out[0] == 0x0d, "Read Blob Response with the value from the offset truncated to MTU-1");
            for (unsigned i = 0; i < n && i < MTU - 1; ++i)
                CHECK(out[1 + i] == attr_byte(h, off + i), "Read Blob Response returns the current value bytes from the offset");
        }
    } else if ((opc == 0x12 || opc == 0x52) && len >= 3) {           /* ---------------- Write Request / Command */
        unsigned n = (unsigned)len - 3;
        int accept = valid && T[h].writable && n <= (unsigned)T[h].len;
        if (opc == 0x52) CHECK(os == 0, "Write Command is never answered");
        if (accept) {
            if (opc == 0x12) CHECK(os == 1 && out[0] == 0x13, "Write Response for a permitted write that fits the value");
            for (int i = 0; i < NSTATE; ++i) {
                int inside = i >= T[h].off && i < T[h].off + (int)n;
                if (inside) CHECK(post[i] == in[3 + (i - T[h].off)], "written bytes are stored at the position");
                else        CHECK(post[i] == pre[i], "nothing else is modified by a write");
            }
        } else {
            expect_unchanged();
            if (opc == 0x12) {
                if (!valid) expect_error(h, 0x01);
                else if (!T[h].writable) expect_error(h, 0x03);
                else expect_error(h, 0x0d);
            }
        }
    } else if (opc == 0x16 && len >= 5) {                            /* ---------------- Prepare Write (permission path only, queue semantics: C07) */
        expect_unchanged();
        if (!valid) expect_error(h, 0x01);
        else if (!T[h].writable) { expect_error(h, 0x03); CHECK(qend == 0, "nothing is queued for an attribute that is not writable"); }
        else {
            CHECK(os == len && out[0] == 0x17, "Prepare Write Response for a writable attribute");
            for (size_t i = 1; i < len && i < MTU; ++i) CHECK(out[i] == in[i], "Prepare Write Response echoes the request");
        }
    } else if (opc == 0x0e && len >= 5 && (len & 1)) {               /* ---------------- Read Multiple */
        expect_unchanged();
        /* the first handle that is invalid or not readable decides: Error Response naming it; otherwise the concatenation */
        int failed = 0;
        for (size_t k = 1; k + 1 < len && !failed; k += 2) {
            uint16_t hk = (uint16_t)(in[k] | (in[k + 1] << 8));
            if (hk < 1 || hk > NATTR) { expect_error(hk, 0x01); failed = 1; }
            else if (!T[hk].readable) { expect_error(hk, 0x02); failed = 1; }
        }
        if (!failed) {
            unsigned pos = 1;
            for (size_t k = 1; k + 1 < len; k += 2) {
                uint16_t hk = (uint16_t)(in[k] | (in[k + 1] << 8));
                for (int i = 0; i < T[hk].len && pos < MTU; ++i, ++pos)
                    CHECK(os > pos && out[pos] == attr_byte(hk, i), "Read Multiple Response concatenates the current values");
            }
            CHECK(os == pos && out[0] == 0x0f, "Read Multiple Response has the size of the concatenated values truncated to the MTU");
        }
    } else if (opc == 0x08 && len == 7) {                            /* ---------------- Read By Type (permission path only, discovery: C02) */
        expect_unchanged();
        if (os >= 2 && out[0] == 0x09) {
            unsigned el = out[1];
            uint16_t type = (uint16_t)(in[5] | (in[6] << 8));
            CHECK(el >= 2 && (os - 2) % el == 0, "Read By Type Response is a list of equally sized elements");
            for (unsigned p = 2; el >= 2 && p + el <= os && p + el <= MTU; p += el) {
                uint16_t hk = (uint16_t)(out[p] | (out[p + 1] << 8));
                CHECK(hk >= 1 && hk <= NATTR, "element names an attribute of the server");
                if (hk >= 1 && hk <= NATTR) {
                    CHECK(T[hk].readable, "Read By Type never returns the value of an attribute that is not readable");
                    CHECK(T[hk].type == type, "element has the requested type");
                    CHECK(el - 2 <= (unsigned)T[hk].len, "element is not longer than the value");
                    for (unsigned i = 0; i + 2 < el && i < (unsigned)T[hk].len; ++i)
                        CHECK(out[p + 2 + i] == attr_byte(hk, i), "element carries the current value bytes");
                }
            }
        } else {
            CHECK(os == 5 && out[0] == 0x01 && out[1] == 0x08, "otherwise an Error Response");
        }
    } else {
        expect_unchanged();
    }
    WITNESS();
}
