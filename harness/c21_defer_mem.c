/* C21 lemma (d) — while a procedure is pending, the PDU it was carried in stays intact.
 *
 * Real code: the real ll_data_pdu_buffer / pdu_ring_buffer receive ring of the link layer (radio side:
 * allocate_receive_buffer + received; link layer side: next_ll_l2cap_received / free_ll_l2cap_received) and
 * link_layer::handle_received_data -> handle_ll_control_data, bounded history from reset_pdu_buffer() (shim ll_b).
 *
 * case parameters: CFG (0: 61 byte receive buffer, 1: 100 byte), OPC, PRE (PDUs received and consumed before), K (PDUs after),
 *                  P1 P2 (payload lengths of the earlier PDUs), L1 L2 L3 (payload lengths of the later PDUs; 0 = symbolic 1..27)
 * history: PRE control PDUs are received and consumed (this moves the ring's read/write position),
 *          then the instant-carrying PDU is received (instant 2..32766 events ahead: deferred by every reading of the rules)
 *          and processed by handle_received_data(); then K further PDUs with symbolic LLID, length 1..27, content and
 *          NESN are received by the radio while the procedure is pending (the central keeps sending data).
 * Oracle: (1) right after the deferral the deferred bytes are not in ring memory that is free for reuse (ownership);
 *         (2) after each later PDU the bytes the link layer will interpret at the instant (defered_ll_control_pdu_) are still
 *         the bytes of the received indication, and the deferral (size, instant) is unchanged.
 */
#include "c21_common.h"

static unsigned sn;     /* next sequence number the peripheral expects (a spec conformant central sends new PDUs with it) */

static int radio_rx(int cfg, const uint8_t* pdu, unsigned n)
{
    const int r = vfb_radio_receive(cfg, pdu, n);
    if (r) sn ^= 1u;
    return r;
}

static void sym_pdu(uint8_t* p, unsigned* n, int control_only, unsigned fixed_len)
{
    const unsigned len = fixed_len ? fixed_len : (unsigned)in_range(1, 27);
    in_bytes(p, 29);
    const unsigned llid = control_only ? 3u : (unsigned)in_range(1, 3);
    p[0] = (uint8_t)((p[0] & 0x14) | llid | (sn ? 0x08 : 0x00));      /* NESN (bit 2) and MD (bit 4) symbolic, SN as expected */
    p[1] = (uint8_t)len;
    *n = 2u + len;
}

void harness(void)
{
    vf_global_ctors();
    const int      cfg = (int)CASE(CFG);
    const unsigned opc = (unsigned)CASE(OPC);
    const int      pre = (int)CASE(PRE);
    const int      nk  = (int)CASE(K);
    const unsigned len = pdu_len_for(opc);
    const unsigned n   = 2u + len;

    env_reset();
    vfb_reset_buffers(cfg);
    sn = 0;

    sym_misc(cfg, 5);
    sym_parameters();
    vfb_set_state(cfg, st);

    uint8_t buf[32], tmp[32];
    for (int i = 0; i < pre; ++i) {
        unsigned m;
        sym_pdu(buf, &m, 1, i == 0 ? (unsigned)CASE(P1) : (unsigned)CASE(P2));
        const int ok = radio_rx(cfg, buf, m);
        CHECK(ok, "an empty receive ring accepts a PDU");
        const unsigned got = vfb_next_received(cfg, tmp, sizeof tmp);
        CHECK(got == m, "the received PDU is handed to the link layer");
        vfb_free_received(cfg);
    }

    /* the indication */
    uint8_t ind[16];
    in_bytes(ind, n);
    ind[0] = (uint8_t)((ind[0] & 0x14) | 3u | (sn ? 0x08 : 0x00));
    ind[1] = (uint8_t)len;
    ind[2] = (uint8_t)opc;
    const uint16_t C = (uint16_t)st[VFB_EVENT_COUNTER];
    const uint16_t d = (uint16_t)in_range(2, 32766);
    const uint16_t I = (uint16_t)(C + d);
    const unsigned ipos = instant_pos_for(opc);
    ind[ipos] = (uint8_t)I; ind[ipos + 1] = (uint8_t)(I >> 8);
    if (opc == OPC_PHY_UPDATE) ASSUME(ind[3] <= 2 && ind[4] <= 2 && (ind[3] | ind[4]) != 0);

    const int ok = radio_rx(cfg, ind, n);
    CHECK(ok, "an empty receive ring accepts the indication");
    const int disc = vfb_handle_received_data(cfg);
    uint32_t post[VFB_NFIELDS];
    vfb_get_state(cfg, post);
    OBSERVE(disc); OBSERVE(post[VFB_DEFERRED_SIZE]);
    CHECK(!disc && post[VFB_DEFERRED_SIZE] == n && post[VFB_DEFERRED_INSTANT] == I, "an indication with an instant 2..32766 events ahead is deferred");

    /* ownership: the bytes that will be interpreted at the instant must not live in receive-ring memory that the ring has
     * handed back for reuse (the radio writes the next received PDUs there) */
    const int where = vfb_deferred_location(cfg);
    OBSERVE(where);
    CHECK(where == 1 || where == 3, "the deferred PDU is kept in memory that received PDUs cannot overwrite (own storage or a slot still held by the receive ring)");

    for (int j = 0; j < nk; ++j) {
        unsigned m;
        sym_pdu(buf, &m, 0, j == 0 ? (unsigned)CASE(L1) : j == 1 ? (unsigned)CASE(L2) : (unsigned)CASE(L3));
        const int r = radio_rx(cfg, buf, m);
        OBSERVE(r);
        vfb_get_state(cfg, post);
        CHECK(post[VFB_DEFERRED_SIZE] == n && post[VFB_DEFERRED_INSTANT] == I, "the deferral is not touched by received PDUs");
        const unsigned got = vfb_get_deferred_bytes(cfg, tmp, sizeof tmp);
        OBSERVE_BYTES(tmp, got < sizeof tmp ? got : sizeof tmp);
        CHECK(got == n, "deferred PDU has the size of the indication");
        for (unsigned i = 0; i < n; ++i)
            CHECK(tmp[i] == ind[i], "the deferred PDU still holds the bytes of the received indication while further PDUs arrive");
    }
    WITNESS();
}
