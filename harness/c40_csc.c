/* C40 — the real CSC control point implementation (csc::details::implementation<...> / control_point_handler<...>)
 * against the statement "rejects a new procedure only while an accepted one awaits its response indication;
 * a rejected or malformed write never blocks later procedures; every accepted procedure produces exactly one
 * response carrying the request opcode".
 *
 * case parameters: CFG (see shims/svc_csc.cpp), MODE, LEN, K
 *   MODE 0  inductive step, control point write of exactly LEN bytes (exact-size object, every byte symbolic,
 *           including the opcode) from an arbitrary state: pending flag, stored opcode, sensor positions
 *   MODE 1  inductive step, delivery of the response indication (csc_read_control_point) for an arbitrary accepted opcode
 *   MODE 2  bounded history of K symbolic operations from construction: write (length 0..6 symbolic), handler
 *           confirmation, delivery of a due indication; afterwards everything due is delivered and a well formed
 *           procedure must be accepted
 *
 * ghost model: p  = an accepted procedure awaits its response, a = its opcode,
 *              confirm_owed = set_cumulative_wheel_revolutions() was called and the handler has not yet confirmed,
 *              ind_due      = an indication of the control point was requested and not yet sent
 * representation invariant: procedure_in_progress_ == p, and p implies current_opcode_ == a.
 */
#include "vf.h"

int  vf_csc_write_cp(int cfg, unsigned long size, const uint8_t* value, int* indicate);
int  vf_csc_read_cp(int cfg, unsigned long read_size, uint8_t* out, unsigned long* out_size);
int  vf_csc_get_in_progress(int cfg);
int  vf_csc_get_opcode(int cfg);
void vf_csc_set_state(int cfg, int in_progress, int opcode, int current_pos, int requested_pos);

#define ERR_SUCCESS                 0x00
#define ERR_ALREADY_IN_PROGRESS     0xFE   /* Core Specification Supplement, Part B: Procedure Already in Progress */
#define RESPONSE_CODE_OPCODE        16     /* CSCS 1.0, SC Control Point: Response Code */
#define READ_SIZE                   20     /* ATT_MTU 23 - 3 */

/* ---- environment */
static unsigned set_calls;
static uint32_t set_value;
void     vf_csc_env_set_cumulative_wheel_revolutions(uint32_t v) { ++set_calls; set_value = v; }
uint32_t vf_csc_env_wheel_revolutions(void) { return in_u32(); }
uint16_t vf_csc_env_time(void) { return in_u16(); }

/* ---- ghost model */
static int cfg;
static int p, a, confirm_owed, ind_due;

static int well_formed(const uint8_t* v, unsigned len)
{
    if (len < 1) return 0;
    if (v[0] == 1) return len == 5;      /* Set Cumulative Value: UINT32 */
    if (v[0] == 3) return len == 2;      /* Update Sensor Location: UINT8 */
    if (v[0] == 4) return len == 1;      /* Request Supported Sensor Locations */
    return 0;                            /* other opcodes: no demand (may be accepted and answered "not supported") */
}

static void check_inv(void)
{
    int f = vf_csc_get_in_progress(cfg);
    OBSERVE(f);
    CHECK(f == 0 || f == 1, "pending flag is a proper bool");
    CHECK((f != 0) == (p != 0), "a procedure is marked in progress exactly while an accepted procedure awaits its response");
    if (p) CHECK(vf_csc_get_opcode(cfg) == a, "stored opcode is the opcode of the accepted procedure while it awaits its response");
}

static void do_write(const uint8_t* v, unsigned len)
{
    int indicate = 7;
    unsigned calls0 = set_calls;
    int err = vf_csc_write_cp(cfg, len, v, &indicate);
    unsigned calls = set_calls - calls0;
    OBSERVE(err); OBSERVE(indicate); OBSERVE(calls);

    if (err == ERR_ALREADY_IN_PROGRESS)
        CHECK(p, "procedure already in progress is answered only while an accepted procedure awaits its response");
    if (!p && well_formed(v, len))
        CHECK(err == ERR_SUCCESS, "a well formed procedure is accepted when no procedure is in progress");

    if (err == ERR_SUCCESS) {
        CHECK(!p, "no procedure is accepted while another one awaits its response");
        CHECK(len >= 1, "an empty write is not accepted");
        CHECK((indicate ? 1u : 0u) + calls == 1, "an accepted procedure triggers exactly one response (indication requested or handed to the handler for confirmation)");
        if (len >= 1) { p = 1; a = v[0]; }
        if (indicate) ++ind_due;
        confirm_owed += (int)calls;
    } else {
        CHECK(!indicate && calls == 0, "a rejected write triggers no response and no handler call");
        /* p, a unchanged: a rejected or malformed write must not block (or unblock) anything */
    }
    check_inv();
}

static void do_read(void)
{
    uint8_t* out = (uint8_t*)vf_alloc(READ_SIZE);
    unsigned long out_size = 0;
    int rc = vf_csc_read_cp(cfg, READ_SIZE, out, &out_size);
    OBSERVE(rc); OBSERVE(out_size);
    CHECK(rc == 0, "response is produced without error");
    CHECK(out_size >= 3 && out_size <= READ_SIZE, "response has opcode, request opcode, response value and fits the buffer");
    if (out_size >= 3 && out_size <= READ_SIZE) {
        OBSERVE_BYTES(out, out_size);
        CHECK(out[0] == RESPONSE_CODE_OPCODE, "response starts with the Response Code opcode");
        CHECK(out[1] == a, "response carries the opcode of the accepted procedure");
    }
    p = 0;
    check_inv();
}

void harness(void)
{
    vf_global_ctors();
    cfg = (int)CASE(CFG);
    int mode = (int)CASE(MODE);

    if (mode == 0 || mode == 1) {
        p = mode == 1 ? 1 : in_bool();
        a = in_u8();
        int stored = p ? a : in_u8();
        vf_csc_set_state(cfg, p, stored, in_u8(), in_u8());
        if (mode == 0) {
            unsigned len = (unsigned)CASE(LEN);
            uint8_t* v = (uint8_t*)vf_alloc(len);
            in_bytes(v, len);
            do_write(v, len);
        } else {
            do_read();
        }
    } else {
        int k = (int)CASE(K);
        uint8_t* bufs[7];
        for (unsigned l = 0; l < 7; ++l) { bufs[l] = (uint8_t*)vf_alloc(l); in_bytes(bufs[l], l); }
        p = 0; a = 0;
        check_inv();                                    /* base case: nothing in progress after construction */
        for (int s = 0; s < k; ++s) {
            int op = (int)in_range(0, 2);
            if (op == 0) {
                unsigned len = (unsigned)in_range(0, 6);
                uint8_t* v = bufs[len];
                if (len) v[0] = in_u8();
                do_write(v, len);
            } else if (op == 1) {
                if (confirm_owed) { --confirm_owed; ++ind_due; }     /* handler calls confirm_cumulative_wheel_revolutions() */
            } else {
                if (ind_due) { --ind_due; do_read(); }               /* link layer sends the indication */
            }
            CHECK(!p || confirm_owed + ind_due > 0, "while a procedure is in progress its response is on the way");
            CHECK(confirm_owed + ind_due <= 1, "never more than one response on the way");
        }
        /* drain: the handler confirms, the indication goes out; then the control point must be usable again */
        if (confirm_owed) { --confirm_owed; ++ind_due; }
        if (ind_due) { --ind_due; do_read(); }
        uint8_t* req = (uint8_t*)vf_alloc(1);
        req[0] = 4;
        int indicate = 0;
        int err = vf_csc_write_cp(cfg, 1, req, &indicate);
        OBSERVE(err);
        CHECK(err == ERR_SUCCESS, "after all responses are delivered a new procedure is accepted (no deadlock)");
    }
    WITNESS();
}
