/* C21 / C22 — try_event_cancelation() ("new data became pending: pull the planned connection event closer").
 *
 * One call from a symbolic link-layer state (shim ll_b), the radio's disarm answer symbolic.
 *   STATE = 5 (connection_changed: the connection event at the instant of a connection update is planned; interval, window offset
 *           and size are already the new ones, the time since the last anchor was computed with the old interval): the planned
 *           event must not be touched — moving it would put the new parameters in force in an event before the instant (C21) and
 *           off the old interval grid (C22). Asserted: nothing is scheduled, event counter / channel index / time base unchanged.
 *   STATE = 3 (connected): if something is scheduled, the event lies a whole number k of connection intervals after the anchor,
 *           1 <= k <= planned distance, counter, channel index and time base moved together, not in the past, and the receive
 *           window still covers the anchor widened by the sleep clock accuracies (lemma c22_ppm).
 * case parameters: CFG, STATE, SCA
 */
#include "c21_common.h"

void harness(void)
{
    vf_global_ctors();
    const int cfg = (int)CASE(CFG);
    const unsigned state = (unsigned)CASE(STATE);
    env_reset();
    sym_parameters();
    sym_misc(cfg, (unsigned)CASE(SCA));
    const uint32_t last = (uint32_t)in_range(1, 500);
    const int disarm_ok = in_bool();
    const uint32_t now = in_u32();
    const int pending_event = in_bool();
    const uint32_t win_off = (uint32_t)in_range(0, 3200) * 1250u, win_size = (uint32_t)in_range(0, 8) * 1250u;

    ASSUME(last <= s_latency + 1);
    st[VFB_STATE]           = state;
    st[VFB_LAST_LATENCY]    = last;
    st[VFB_TIME_SINCE_LAST] = last * st[VFB_INTERVAL];     /* the planned event: `last` intervals after the anchor */
    st[VFB_PENDING_EVENT]   = (uint32_t)pending_event;
    if (state == VFB_ST_CHANGED) { st[VFB_WIN_OFFSET] = win_off; st[VFB_WIN_SIZE] = win_size; }
    env_disarm_ok = disarm_ok; env_disarm_now = now;
    /* radio contract: an event can only be disarmed while it is still ahead */
    ASSUME(!disarm_ok || now <= st[VFB_TIME_SINCE_LAST]);
    vfb_set_state(cfg, st);

    vfb_try_event_cancelation(cfg);

    uint32_t post[VFB_NFIELDS];
    vfb_get_state(cfg, post);
    OBSERVE(env_n_evt); OBSERVE(post[VFB_EVENT_COUNTER]); OBSERVE(post[VFB_CHANNEL_INDEX]); OBSERVE(post[VFB_TIME_SINCE_LAST]);

    if (state == VFB_ST_CHANGED) {
        CHECK(env_n_evt == 0, "the connection event planned at the instant of a connection update is not rescheduled by pending data");
        CHECK(post[VFB_EVENT_COUNTER] == st[VFB_EVENT_COUNTER] && post[VFB_CHANNEL_INDEX] == st[VFB_CHANNEL_INDEX]
              && post[VFB_TIME_SINCE_LAST] == st[VFB_TIME_SINCE_LAST], "event counter, channel index and time base of the event at the instant stay as planned");
    } else {
        if (env_n_evt) {
            CHECK(env_n_evt == 1, "at most one connection event is scheduled");
            const uint32_t k = (uint16_t)(post[VFB_EVENT_COUNTER] - (uint16_t)(st[VFB_EVENT_COUNTER] - last));
            CHECK(k >= 1 && k <= last, "a pulled back event is at least one and at most the planned number of intervals after the anchor");
            CHECK(post[VFB_TIME_SINCE_LAST] == k * st[VFB_INTERVAL], "the event is scheduled a whole number of connection intervals after the last anchor");
            CHECK(post[VFB_CHANNEL_INDEX] == (st[VFB_CHANNEL_INDEX] + 37u * 14u - (last - k)) % 37u, "channel index moves with the event counter");
            CHECK((uint64_t)k * st[VFB_INTERVAL] >= now, "the pulled back event is not in the past");
            CHECK(env_start <= post[VFB_TIME_SINCE_LAST] && env_end >= post[VFB_TIME_SINCE_LAST], "the receive window covers the anchor point");
        } else {
            CHECK(post[VFB_EVENT_COUNTER] == st[VFB_EVENT_COUNTER] && post[VFB_TIME_SINCE_LAST] == st[VFB_TIME_SINCE_LAST], "nothing changes when nothing is rescheduled");
        }
    }
    WITNESS();
}
