/* C12 / C11 — the real bluetoe::notification_queue against a set model.
 *
 * case parameters: CFG (priority partition, see shims/nq.cpp), MODE
 *   MODE 0  inductive step: arbitrary representable state, one arbitrary operation, result and post-state vs. model
 *   MODE 1  bounded history from reset: K symbolic operations vs. model (also shows which states are reachable)
 *   MODE 2  fairness/liveness: arbitrary state, a chosen pending request of level L, nothing deliverable above L:
 *           it is dequeued within 2*Size(L) dequeues while confirmations keep arriving
 *   MODE 3  the same while a producer re-queues other characteristics of the same or a lower level between the dequeues
 */
#include "vf.h"

int  vf_nq_queue_notification(int cfg, unsigned long idx);
int  vf_nq_queue_indication(int cfg, unsigned long idx);
int  vf_nq_dequeue(int cfg, unsigned long* idx);
void vf_nq_confirmed(int cfg);
void vf_nq_clear(int cfg);
unsigned long vf_nq_get_outstanding(int cfg);
void vf_nq_set_outstanding(int cfg, unsigned long v);
void vf_nq_get_level(int cfg, int level, uint64_t* next, uint32_t* bits);
void vf_nq_set_level(int cfg, int level, uint64_t next, uint32_t bits);

#define NCFG 6
#define MAXL 3
#define MAXN 7
static const int NLEVELS[NCFG]      = { 1, 1, 1, 2, 3, 2 };
static const int SIZES[NCFG][MAXL]  = { {3,0,0}, {1,0,0}, {5,0,0}, {1,2,0}, {2,1,1}, {4,3,0} };
#define NONE (~0ul)

/* ---- model: a set of pending (index, kind) requests + the outstanding indication */
static int pn[MAXN], pi[MAXN];
static unsigned long outstanding;
static int total, cfg;

static int level_of(int g, int* off)
{
    int o = 0;
    for (int l = 0; l < NLEVELS[cfg]; ++l) {
        if (g < o + SIZES[cfg][l]) { *off = o; return l; }
        o += SIZES[cfg][l];
    }
    *off = 0; return -1;
}

static int deliverable(int g)
{
    return pn[g] || (pi[g] && outstanding == NONE);
}

/* write the model into the real object (abstraction function, inverted); junk in unused bits is symbolic */
static void load_state(void)
{
    int o = 0;
    for (int l = 0; l < NLEVELS[cfg]; ++l) {
        int sz = SIZES[cfg][l];
        if (sz == 1) {
            vf_nq_set_level(cfg, l, 0, (pn[o] ? 1u : 0u) | (pi[o] ? 2u : 0u));
        } else {
            uint32_t bits = 0;
            for (int i = 0; i < sz; ++i) bits |= (uint32_t)((pn[o + i] ? 1 : 0) | (pi[o + i] ? 2 : 0)) << (2 * i);
            uint32_t junk = in_u32();
            uint32_t used = (sz * 2 >= 32) ? ~0u : ((1u << (sz * 2)) - 1u);
            bits |= junk & ~used;
            uint64_t next = in_range(0, sz - 1);
            vf_nq_set_level(cfg, l, next, bits);
        }
        o += sz;
    }
    vf_nq_set_outstanding(cfg, outstanding);
}

/* read the real object back and compare with the model */
static void check_state(void)
{
    int o = 0;
    for (int l = 0; l < NLEVELS[cfg]; ++l) {
        int sz = SIZES[cfg][l];
        uint64_t next; uint32_t bits;
        vf_nq_get_level(cfg, l, &next, &bits);
        if (sz == 1) {
            CHECK(bits == ((pn[o] ? 1u : 0u) | (pi[o] ? 2u : 0u)), "single entry level holds exactly the model's pending requests");
        } else {
            for (int i = 0; i < sz; ++i) {
                CHECK(((bits >> (2 * i)) & 1) == (uint32_t)(pn[o + i] != 0), "notification pending flag equals model");
                CHECK(((bits >> (2 * i + 1)) & 1) == (uint32_t)(pi[o + i] != 0), "indication pending flag equals model");
            }
            CHECK(next < (uint64_t)sz, "round robin position stays inside the level");
        }
        o += sz;
    }
    CHECK(vf_nq_get_outstanding(cfg) == outstanding, "outstanding indication equals model");
}

static void model_dequeue_check(int kind, unsigned long idx)
{
    int any = 0;
    for (int g = 0; g < total; ++g) any |= deliverable(g);
    if (kind == 0) {
        CHECK(!any, "empty is returned only when nothing is deliverable");
        return;
    }
    CHECK(idx < (unsigned long)total, "dequeued index is a characteristic of this queue");
    if (idx >= (unsigned long)total) return;
    int off, l = level_of((int)idx, &off);
    if (kind == 1) {
        CHECK(pn[idx], "dequeued notification was pending");
        pn[idx] = 0;
    } else {
        CHECK(kind == 2, "entry type is valid");
        CHECK(pi[idx], "dequeued indication was pending");
        CHECK(outstanding == NONE, "no indication is dequeued while one is outstanding");
        pi[idx] = 0; outstanding = idx;
    }
    (void)l;
}

static void do_op(int op, unsigned long i)
{
    if (op == 0) {
        int r = vf_nq_queue_notification(cfg, i);
        CHECK(r == !pn[i], "notification reported newly queued exactly when it was not pending");
        pn[i] = 1;
    } else if (op == 1) {
        int r = vf_nq_queue_indication(cfg, i);
        CHECK(r == !pi[i], "indication reported newly queued exactly when it was not pending");
        pi[i] = 1;
    } else if (op == 2) {
        unsigned long idx = 12345; int kind = vf_nq_dequeue(cfg, &idx);
        /* priority check needs the pre-state: evaluate before the model is updated */
        if (kind != 0 && idx < (unsigned long)total) {
            int off; level_of((int)idx, &off);
            for (int g = 0; g < off; ++g) CHECK(!deliverable(g), "a deliverable higher priority request is dequeued first");
        }
        model_dequeue_check(kind, idx);
    } else if (op == 3) {
        vf_nq_confirmed(cfg);
        outstanding = NONE;
    } else {
        vf_nq_clear(cfg);
        for (int g = 0; g < total; ++g) pn[g] = pi[g] = 0;
        outstanding = NONE;
    }
}

void harness(void)
{
    vf_global_ctors();
    cfg = (int)CASE(CFG);
    int mode = (int)CASE(MODE);
    total = 0;
    for (int l = 0; l < NLEVELS[cfg]; ++l) total += SIZES[cfg][l];
    outstanding = NONE;

    if (mode == 0 || mode == 2 || mode == 3) {
        /* arbitrary representable state */
        for (int g = 0; g < total; ++g) { pn[g] = in_bool(); pi[g] = in_bool(); }
        int has_out = in_bool();
        outstanding = has_out ? (unsigned long)in_range(0, total - 1) : NONE;
        load_state();
    }

    if (mode == 0) {
        int op = (int)CASE(OP);
        unsigned long i = (unsigned long)in_range(0, total - 1);
        do_op(op, i);
        check_state();
    } else if (mode == 1) {
        int k = (int)CASE(K);
        check_state();                       /* base case: the constructed queue is empty */
        for (int s = 0; s < k; ++s) {
            int op = (int)in_range(0, 4);
            unsigned long i = (unsigned long)in_range(0, total - 1);
            do_op(op, i);
        }
        check_state();
    } else if (mode == 3) {
        /* fairness inside one level against a producer that keeps re-queueing OTHER characteristics of the same (or a lower)
           priority level between the dequeues: a pending request must still be served within two rounds of its level, i.e. no
           other characteristic can be served over and over in front of it */
        int g = (int)in_range(0, total - 1);
        int want_ind = in_bool();
        int adv_do[2 * MAXN], adv_kind[2 * MAXN]; unsigned long adv_idx[2 * MAXN];
        for (int s = 0; s < 2 * MAXN; ++s) { adv_do[s] = in_bool(); adv_kind[s] = in_bool(); adv_idx[s] = (unsigned long)in_range(0, total - 1); }
        int off, l = level_of(g, &off);
        ASSUME(want_ind ? pi[g] : pn[g]);
        ASSUME(outstanding == NONE);
        for (int h = 0; h < off; ++h) ASSUME(!pn[h] && !pi[h]);      /* nothing pending at higher priority */
        int served = 0;
        int rounds = 2 * SIZES[cfg][l];
        for (int s = 0; s < 2 * MAXN; ++s) {
            if (s >= rounds) break;
            if (adv_do[s] && adv_idx[s] != (unsigned long)g && adv_idx[s] >= (unsigned long)off) {
                if (adv_kind[s]) vf_nq_queue_indication(cfg, adv_idx[s]); else vf_nq_queue_notification(cfg, adv_idx[s]);
            }
            unsigned long idx = 0; int kind = vf_nq_dequeue(cfg, &idx);
            if (kind == 2) vf_nq_confirmed(cfg);                      /* confirmations keep arriving */
            if (idx == (unsigned long)g && kind == (want_ind ? 2 : 1)) served = 1;
        }
        CHECK(served, "a pending request is dequeued within two rounds of its priority level even if other requests of that level are re-queued meanwhile");
    } else {
        /* fairness inside one level */
        int g = (int)in_range(0, total - 1);
        int want_ind = in_bool();
        int off, l = level_of(g, &off);
        ASSUME(want_ind ? pi[g] : pn[g]);
        for (int h = 0; h < off; ++h) ASSUME(!pn[h] && !pi[h]);      /* nothing pending at higher priority */
        int served = 0;
        int rounds = 2 * SIZES[cfg][l];
        for (int s = 0; s < rounds; ++s) {
            unsigned long idx = 0; int kind = vf_nq_dequeue(cfg, &idx);
            if (kind == 2) vf_nq_confirmed(cfg);                      /* confirmations keep arriving */
            if (idx == (unsigned long)g && kind == (want_ind ? 2 : 1)) served = 1;
            if (s == 0 && outstanding != NONE && kind != 2) vf_nq_confirmed(cfg);   /* the outstanding one is confirmed */
        }
        CHECK(served, "a pending request is dequeued within two rounds of its priority level");
    }
    WITNESS();
}
