/* c37_mmio.h — passed with `-include` to every build of the nrf52_stb unit's harnesses.
 *
 * The nRF52 security tool box talks to the ECB and RNG peripherals with volatile 32-bit register accesses. ll2c renders
 * every `load volatile` / `store volatile` of the real code as VF_VLOAD / VF_VSTORE; here they are routed into the
 * peripheral emulation of the harness (harness/c37_hw.h). The g++ build of the real code reaches the same two functions
 * through the register proxy type of stubs/nrf.h. Parameter types are the ones ll2c derives from the IR declarations. */
#ifndef VF_C37_MMIO_H
#define VF_C37_MMIO_H
#include <stdint.h>
#ifdef __cplusplus
extern "C" {
#endif
uint32_t vf_mmio_load(uint8_t* reg);
void     vf_mmio_store(uint8_t* reg, uint32_t value);
uint32_t vf_mmio_addr32(uint8_t* host_object);
#ifdef __cplusplus
}
#endif
/* all registers are 32 bit wide: any other access width is a compile error */
#define VF_VLOAD(T, p)     ((void)sizeof(char[sizeof(T) == 4 ? 1 : -1]), (T)vf_mmio_load((uint8_t*)(p)))
#define VF_VSTORE(T, p, v) ((void)sizeof(char[sizeof(T) == 4 ? 1 : -1]), vf_mmio_store((uint8_t*)(p), (uint32_t)(v)))
#endif
