/* C13 — notification/indication requests issued concurrently with the link layer's dequeue are neither lost nor duplicated.
 *
 * The real queue_notification()/queue_indication() (producer: ISR or other thread) and the real
 * dequeue_indication_or_confirmation() (consumer: link layer) are driven through their resumable rendering (vf/ll2c.py):
 * one memory access of the real code per step, a nondeterministic scheduler picks the side that advances, so the solver
 * ranges over every interleaving at single memory access granularity (sequential consistency).
 *
 * case parameters: CFG (priority partition: 0 <3>, 1 <1>, 2 <5>, 3 <1,2>), NPR producer calls, NDQ dequeue calls,
 * KINDS bit j = kind of the j-th producer call (0 notification, 1 indication).
 * Start state: every representable queue state (pending bits, round robin position, outstanding indication, junk in
 * the padding bits).
 *
 * Oracle (conservation, per characteristic and kind, at quiescence):
 *     initially pending + requests reported "newly queued"  ==  times dequeued + still pending
 * A lost request makes the left side larger, a duplicated one the right side.  Additionally a dequeue that found
 * something deliverable in the queue when it started must not come back empty.
 */
#include "vf.h"

void vf_nq_get_level(int cfg, int level, uint64_t* next, uint32_t* bits);
void vf_nq_set_level(int cfg, int level, uint64_t next, uint32_t bits);
unsigned long vf_nq_get_outstanding(int cfg);
void vf_nq_set_outstanding(int cfg, unsigned long v);

#define DECL(N) \
    void* nqil##N##_qn__ctx(int); void nqil##N##_qn__start(void*, unsigned long); int nqil##N##_qn__step(void*); int nqil##N##_qn__result(void*); \
    int nqil##N##_qn__next_kind(void*); const void* nqil##N##_qn__next_addr(void*); \
    void* nqil##N##_qi__ctx(int); void nqil##N##_qi__start(void*, unsigned long); int nqil##N##_qi__step(void*); int nqil##N##_qi__result(void*); \
    int nqil##N##_qi__next_kind(void*); const void* nqil##N##_qi__next_addr(void*); \
    void* nqil##N##_dq__ctx(int); void nqil##N##_dq__start(void*, unsigned long*); int nqil##N##_dq__step(void*); int nqil##N##_dq__result(void*); \
    int nqil##N##_dq__next_kind(void*); const void* nqil##N##_dq__next_addr(void*);
DECL(0) DECL(1) DECL(2) DECL(3)

static int cfg;
#define D(stmt) switch (cfg) { case 0: stmt(0); break; case 1: stmt(1); break; case 2: stmt(2); break; default: stmt(3); break; }

/* producer side: kind 0 = queue_notification, 1 = queue_indication. The context objects are addressed by constant
   expressions (never through a pointer variable), which keeps the solver's points-to sets singletons. */
static void p_start(int kind, unsigned long i) {
#define X(N) if (kind) nqil##N##_qi__start(nqil##N##_qi__ctx(0), i); else nqil##N##_qn__start(nqil##N##_qn__ctx(0), i)
    D(X)
#undef X
}
static int p_step(int kind) { int r;
#define X(N) if (kind) r = nqil##N##_qi__step(nqil##N##_qi__ctx(0)); else r = nqil##N##_qn__step(nqil##N##_qn__ctx(0))
    D(X)
#undef X
    return r; }
static int p_result(int kind) { int r;
#define X(N) if (kind) r = nqil##N##_qi__result(nqil##N##_qi__ctx(0)); else r = nqil##N##_qn__result(nqil##N##_qn__ctx(0))
    D(X)
#undef X
    return r; }
static int p_next_kind(int kind) { int r;
#define X(N) if (kind) r = nqil##N##_qi__next_kind(nqil##N##_qi__ctx(0)); else r = nqil##N##_qn__next_kind(nqil##N##_qn__ctx(0))
    D(X)
#undef X
    return r; }
static const void* p_next_addr(int kind) { const void* r;
#define X(N) if (kind) r = nqil##N##_qi__next_addr(nqil##N##_qi__ctx(0)); else r = nqil##N##_qn__next_addr(nqil##N##_qn__ctx(0))
    D(X)
#undef X
    return r; }
/* consumer side */
static void c_start(unsigned long* i) {
#define X(N) nqil##N##_dq__start(nqil##N##_dq__ctx(0), i)
    D(X)
#undef X
}
static int c_step(void) { int r;
#define X(N) r = nqil##N##_dq__step(nqil##N##_dq__ctx(0))
    D(X)
#undef X
    return r; }
static int c_result(void) { int r;
#define X(N) r = nqil##N##_dq__result(nqil##N##_dq__ctx(0))
    D(X)
#undef X
    return r; }
static int c_next_kind(void) { int r;
#define X(N) r = nqil##N##_dq__next_kind(nqil##N##_dq__ctx(0))
    D(X)
#undef X
    return r; }
static const void* c_next_addr(void) { const void* r;
#define X(N) r = nqil##N##_dq__next_addr(nqil##N##_dq__ctx(0))
    D(X)
#undef X
    return r; }

#define NCFG 4
#define MAXL 2
#define MAXN 5
static const int NLEVELS[NCFG]      = { 1, 1, 1, 2 };
static const int SIZES[NCFG][MAXL]  = { {3,0}, {1,0}, {5,0}, {1,2} };
#define NONE (~0ul)

static int total;
static int init_p[MAXN][2];     /* initially pending [characteristic][kind] */
static int fin_p[MAXN][2];
static int accepted[MAXN][2];   /* producer requests that reported "newly queued" */
static int dequeued[MAXN][2];

static void load_state(unsigned long outstanding)
{
    int o = 0;
    for (int l = 0; l < NLEVELS[cfg]; ++l) {
        int sz = SIZES[cfg][l];
        uint32_t bits = 0;
        for (int i = 0; i < sz; ++i) bits |= (uint32_t)((init_p[o + i][0] ? 1 : 0) | (init_p[o + i][1] ? 2 : 0)) << (2 * i);
        if (sz == 1) vf_nq_set_level(cfg, l, 0, bits);
        else {
            uint32_t junk = in_u32();
            uint32_t used = (1u << (sz * 2)) - 1u;
            uint64_t next = in_range(0, sz - 1);
            vf_nq_set_level(cfg, l, next, bits | (junk & ~used & 0xffffu));
        }
        o += sz;
    }
    vf_nq_set_outstanding(cfg, outstanding);
}

static void read_state(int p[MAXN][2])
{
    int o = 0;
    for (int l = 0; l < NLEVELS[cfg]; ++l) {
        int sz = SIZES[cfg][l];
        uint64_t next; uint32_t bits;
        vf_nq_get_level(cfg, l, &next, &bits);
        for (int i = 0; i < sz; ++i) { p[o + i][0] = (bits >> (2 * i)) & 1; p[o + i][1] = (bits >> (2 * i + 1)) & 1; }
        o += sz;
    }
}


#define MAXSTEPS 48
#define MAXPROD 3
static uint8_t sched[MAXSTEPS]; static unsigned long prod_idx[MAXPROD];
static int step_no, kinds;
static int p_left, c_left, p_running, c_running;
static int p_kind, p_no; static unsigned long p_idx;
static unsigned long c_idx; static int c_deliverable_at_start;
/* read-modify-write tracking for the known finding: side X is "inside an RMW on A" when its last access was a load
   of A and its next access is a store to A */
static const void* p_last_load; static const void* c_last_load;
static int rmw_conflict, bad_result, empty_with_work;

/* the scheduler: every iteration advances one side by one memory access */
static void schedule_loop(void)
{
    while (p_left > 0 || p_running || c_left > 0 || c_running) {
        int can_p = p_left > 0 || p_running, can_c = c_left > 0 || c_running;
        int pick_p = can_p && (!can_c || sched[step_no < MAXSTEPS ? step_no : 0]);
        ++step_no;
        if (pick_p) {
            if (!p_running) {
                p_kind = (kinds >> p_no) & 1; p_idx = prod_idx[p_no < MAXPROD ? p_no : 0]; ++p_no;
                p_start(p_kind, p_idx); p_running = 1; --p_left; p_last_load = 0;
            }
            int k = p_next_kind(p_kind); const void* a = p_next_addr(p_kind);
            if ((k == 2 || k == 3) && c_running && c_last_load == a && c_next_kind() == 2 && c_next_addr() == a) rmw_conflict = 1;
            int done = p_step(p_kind);
            p_last_load = (k == 1) ? a : 0;
            if (done) {
                p_running = 0;
                if (p_result(p_kind)) ++accepted[p_idx][p_kind];
            }
        } else {
            if (!c_running) {
                int cur[MAXN][2]; read_state(cur);
                unsigned long outst = vf_nq_get_outstanding(cfg);
                c_deliverable_at_start = 0;
                for (int g = 0; g < MAXN; ++g) if (g < total && (cur[g][0] || (cur[g][1] && outst == NONE))) c_deliverable_at_start = 1;
                c_idx = 0; c_start(&c_idx); c_running = 1; --c_left; c_last_load = 0;
            }
            int k = c_next_kind(); const void* a = c_next_addr();
            if ((k == 2 || k == 3) && p_running && p_last_load == a && p_next_kind(p_kind) == 2 && p_next_addr(p_kind) == a) rmw_conflict = 1;
            int done = c_step();
            c_last_load = (k == 1) ? a : 0;
            if (done) {
                c_running = 0;
                int r = c_result();
                if (r == 1 || r == 2) { if (c_idx < (unsigned long)total) ++dequeued[c_idx][r - 1]; else bad_result = 1; }
                else if (r == 0) { if (c_deliverable_at_start) empty_with_work = 1; }
                else bad_result = 1;
            }
        }
    }
}

void harness(void)
{
    vf_global_ctors();
    cfg = (int)CASE(CFG);
    const int n_prod = (int)CASE(NPR), n_deq = (int)CASE(NDQ);
    kinds = (int)CASE(KINDS);
    total = 0;
    for (int l = 0; l < NLEVELS[cfg]; ++l) total += SIZES[cfg][l];
    for (int g = 0; g < total; ++g) { init_p[g][0] = in_bool(); init_p[g][1] = in_bool(); }
    unsigned long outstanding = in_bool() ? NONE : (unsigned long)in_range(0, total - 1);
    load_state(outstanding);

    /* all inputs are drawn up front and unconditionally: an in_*() call under a symbolic guard makes the input log index
       symbolic, and every later input then costs a 16 kbit array update */
    for (int i = 0; i < MAXSTEPS; ++i) sched[i] = (uint8_t)in_bool();
    for (int i = 0; i < MAXPROD; ++i) prod_idx[i] = (unsigned long)in_range(0, total - 1);
    p_left = n_prod; c_left = n_deq;
    schedule_loop();
    read_state(fin_p);
    CHECK(step_no <= MAXSTEPS, "schedule length within the pre-drawn schedule");

    /* the byte-wide read-modify-write of add()/remove() interleaved with a store of the other side to the same byte */
    VF_KNOWN_FINDING(c13_rmw_lost_update, rmw_conflict);

    CHECK(!bad_result, "dequeue returns empty, or a notification/indication of an existing characteristic");
    CHECK(!empty_with_work, "dequeue does not come back empty when a deliverable request was pending when it started");
    for (int g = 0; g < MAXN; ++g)
        for (int k = 0; k < 2; ++k)
            if (g < total) {
                CHECK(init_p[g][k] + accepted[g][k] >= dequeued[g][k] + fin_p[g][k], "no request is duplicated: dequeued + still pending <= initially pending + newly queued");
                CHECK(init_p[g][k] + accepted[g][k] <= dequeued[g][k] + fin_p[g][k], "no request is lost: every pending or newly queued request is dequeued or still pending");
            }
    WITNESS();
}
