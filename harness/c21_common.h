/* c21_common.h — shared by the C21 / C22 harnesses: recording environment (stub radio, callbacks) for shim ll_b
 * and helpers that build a symbolic link-layer state satisfying the representation invariant. */
#ifndef C21_COMMON_H
#define C21_COMMON_H
#include "vf.h"
#include "../shims/ll_b_api.h"

/* ------------------------------------------------------------------ environment: stub radio + callbacks (recording) */
static unsigned env_n_evt, env_channel;
static uint32_t env_start, env_end, env_interval;
static unsigned env_n_adv;
static unsigned env_n_phy, env_phy_rx, env_phy_tx;
static unsigned env_n_closed, env_closed_reason, env_n_changed, env_chg_interval, env_chg_latency, env_chg_timeout;
static unsigned env_n_phy_updated, env_n_established, env_n_attempt_timeout, env_n_requested;
static int      env_disarm_ok;
static uint32_t env_disarm_now;

uint32_t vfb_env_sched_evt(unsigned channel, uint32_t start_us, uint32_t end_us, uint32_t interval_us)
{
    ++env_n_evt; env_channel = channel; env_start = start_us; env_end = end_us; env_interval = interval_us;
    return interval_us;
}
void vfb_env_sched_adv(unsigned channel, uint32_t when_us) { (void)channel; (void)when_us; ++env_n_adv; }
int  vfb_env_disarm(uint32_t* now_us) { *now_us = env_disarm_now; return env_disarm_ok; }
void vfb_env_set_phy(unsigned receive, unsigned transmit) { ++env_n_phy; env_phy_rx = receive; env_phy_tx = transmit; }
void vfb_env_callback(unsigned what, unsigned a, unsigned b, unsigned c)
{
    if (what == VFB_CB_CLOSED) { ++env_n_closed; env_closed_reason = a; }
    else if (what == VFB_CB_CHANGED) { ++env_n_changed; env_chg_interval = a; env_chg_latency = b; env_chg_timeout = c; }
    else if (what == VFB_CB_PHY_UPDATED) ++env_n_phy_updated;
    else if (what == VFB_CB_ESTABLISHED) ++env_n_established;
    else if (what == VFB_CB_ATTEMPT_TIMEOUT) ++env_n_attempt_timeout;
    else if (what == VFB_CB_REQUESTED) ++env_n_requested;
}

static void env_reset(void)
{
    env_n_evt = env_n_adv = env_n_phy = env_n_closed = env_n_changed = env_n_phy_updated = 0;
    env_n_established = env_n_attempt_timeout = env_n_requested = 0;
    env_disarm_ok = 0; env_disarm_now = 0;
}

/* ------------------------------------------------------------------ constants of the Core specification */
static const uint16_t SCA_PPM[8] = { 500, 250, 150, 100, 75, 50, 30, 20 };   /* Vol 6 Part B 2.3.3.1, central SCA field */

#define OPC_CONN_UPDATE 0x00
#define OPC_CHANNEL_MAP 0x01
#define OPC_PHY_UPDATE  0x18

static unsigned pdu_len_for(unsigned opc)      { return opc == OPC_CONN_UPDATE ? 12u : opc == OPC_CHANNEL_MAP ? 8u : 5u; }
static unsigned instant_pos_for(unsigned opc)  { return 2u + (opc == OPC_CONN_UPDATE ? 10u : opc == OPC_CHANNEL_MAP ? 6u : 3u); }

/* ------------------------------------------------------------------ symbolic state under the representation invariant
 * Inv (what every history from a connect request establishes, see props/C21.py):
 *   connection parameters valid per Core spec (interval 6..3200, latency <= 499, timeout 10..3200, timeout >= 2*(1+latency)*interval),
 *   channel index < 37, accumulated SCA = configured + one of the eight SCA table values,
 *   time since last anchor <= 32 s + one interval.
 */
static uint32_t st[VFB_NFIELDS];
static uint32_t s_interval_units, s_latency, s_timeout_units;

static void sym_parameters(void)
{
    s_interval_units = (uint32_t)in_range(6, 3200);
    s_latency        = (uint32_t)in_range(0, 499);
    s_timeout_units  = (uint32_t)in_range(10, 3200);
    /* timeout[10ms] * 10000 us >= (1+latency) * interval[1.25ms] * 1250 us * 2   <=>   timeout*4 >= (1+latency)*interval */
    ASSUME(s_timeout_units * 4u >= (1u + s_latency) * s_interval_units);
    st[VFB_INTERVAL]      = s_interval_units * 1250u;
    st[VFB_LATENCY]       = s_latency;
    st[VFB_TIMEOUT_VALUE] = s_timeout_units;
    st[VFB_CONN_TIMEOUT]  = s_timeout_units * 10000u;
}

static void sym_misc(int cfg, unsigned sca_index)
{
    st[VFB_STATE]            = VFB_ST_CONNECTED;
    st[VFB_EVENT_COUNTER]    = in_u16();
    st[VFB_CHANNEL_INDEX]    = (uint32_t)in_range(0, 36);
    st[VFB_LAST_LATENCY]     = (uint32_t)in_range(1, 500);
    st[VFB_CUM_SCA]          = vfb_configured_sca(cfg) + SCA_PPM[sca_index & 7];
    st[VFB_WIN_OFFSET]       = 0;
    st[VFB_WIN_SIZE]         = 0;
    st[VFB_PROC_TIMEOUT]     = 0;
    st[VFB_DEFERRED_INSTANT] = in_u16();
    st[VFB_DEFERRED_SIZE]    = 0;
    st[VFB_TERMINATION_SEND] = 0;
    st[VFB_USED_FEATURES]    = in_u16();
    st[VFB_PENDING_EVENT]    = 1;
    st[VFB_DISC_REASON]      = 0x08;      /* set to "connection timeout" by the connect request */
    st[VFB_FLAGS]            = 0;
    st[VFB_TIME_SINCE_LAST]  = 0;
}

#endif
