/* C04 — attribute handles are consistent with the declared database.
 *
 * MODE 0: handle_index_mapping<server>::handle_by_index / first_index_by_handle / index_by_handle for a symbolic
 *         index and a symbolic 16 bit handle against the expected attribute table (c02_tables.h): every attribute
 *         has the unique, non-zero, increasing handle the declaration asks for (fixed handles honoured), a handle
 *         maps back to exactly its attribute, handles in gaps map to no attribute.
 * MODE 1: Read Request for a symbolic handle: every handle of the table answers with the value of *that* attribute
 *         (characteristic declaration: properties, handle of its own value attribute, UUID; include declaration:
 *         first and last handle and UUID of the included service; service declaration: UUID), every other handle
 *         with Invalid Handle.  So a handle named inside an attribute value is the handle under which the named
 *         attribute is read.
 */
#include "c02_tables.h"

#define INVALID_INDEX (~(size_t)0)

void harness(void)
{
    vf_global_ctors();
    const int cfg = (int)CASE(CFG);
    int n; const row_t* T = table_of(cfg, &n);
    CHECK(vf_b_config() == cfg, "C04: harness runs against the configuration of its case");

    /* the expected table itself satisfies the statement: non-zero, strictly increasing (hence unique) handles */
    for (int i = 0; i < n; ++i)
        CHECK(T[i].handle != 0 && (i == 0 || T[i - 1].handle < T[i].handle), "C04: expected handles are non-zero and strictly increasing in declaration order");

    if (CASE(MODE) == 0) {
        const size_t count = vf_b_number_of_attributes(cfg);
        OBSERVE(count);
        CHECK(count == (size_t)n, "C04: the server has exactly the declared attributes");

        const size_t idx = (size_t)in_range(0, (uint64_t)n - 1);
        const unsigned hbi = vf_b_handle_by_index(cfg, idx);
        OBSERVE(hbi);
        CHECK(hbi == T[idx].handle, "C04: handle_by_index gives every attribute the handle the declaration asks for (consecutive, fixed handles honoured)");

        const unsigned h = in_u16();
        int ref_first = -1, ref_exact = -1;
        for (int i = n - 1; i >= 0; --i) {
            if (T[i].handle >= h) ref_first = i;
            if (T[i].handle == h) ref_exact = i;
        }
        const size_t fi = vf_b_first_index_by_handle(cfg, h);
        const size_t ei = vf_b_index_by_handle(cfg, h);
        OBSERVE(fi); OBSERVE(ei);
        CHECK(fi == (ref_first < 0 ? INVALID_INDEX : (size_t)ref_first), "C04: first_index_by_handle is the attribute with the lowest handle >= the given one, or invalid");
        CHECK(ei == (ref_exact < 0 ? INVALID_INDEX : (size_t)ref_exact), "C04: index_by_handle maps a handle to exactly its attribute and every other value to invalid");
        WITNESS();
        return;
    }

    /* MODE 1: Read Request */
    const unsigned mtu = (unsigned)CASE(MTU);
    uint8_t bound[8];
    in_bytes(bound, 8);
    vf_b_set_bound_values(cfg, bound);
    const unsigned h = in_u16();
    uint8_t* in = vf_alloc(3);
    in[0] = 0x0A; in[1] = (uint8_t)(h & 0xff); in[2] = (uint8_t)(h >> 8);
    uint8_t* out = vf_alloc(mtu);
    size_t os = mtu;
    vf_b_l2cap_input(cfg, in, 3, out, &os, mtu);
    OBSERVE(os); OBSERVE_BYTES(out, os <= mtu ? os : 0);
    CHECK(os >= 1 && os <= mtu, "C04: Read Request is answered within the MTU");
    if (os < 1 || os > mtu) { WITNESS(); return; }

    int row = -1;
    for (int i = 0; i < n; ++i) if (T[i].handle == h) row = i;
    if (row < 0) {
        CHECK(is_error(out, os, 0x0A, h, 0x01), "C04: a handle that belongs to no attribute is answered with Invalid Handle");
        WITNESS();
        return;
    }
    const row_t* r = &T[row];
    const unsigned want = r->vlen < mtu - 1 ? r->vlen : mtu - 1;
    CHECK(out[0] == 0x0B, "C04: every attribute of the table is readable under its handle");
    CHECK(os == 1 + want, "C04: Read Response carries the complete value of the attribute");
    if (out[0] == 0x0B && os == 1 + want) {
        int eq = 1;
        for (unsigned j = 0; j < want; ++j) if (out[1 + j] != row_value_byte(r, (int)j, bound)) eq = 0;
        if (r->kind == K_CHARDECL)
            CHECK(eq, "C04: characteristic declaration = properties, handle of its own value attribute, characteristic UUID");
        else if (r->kind == K_INCLUDE)
            CHECK(eq, "C04: include declaration = first and last handle (and 16 bit UUID) of the included service");
        else if (r->kind == K_PRIMARY || r->kind == K_SECONDARY)
            CHECK(eq, "C04: service declaration value = service UUID");
        else
            CHECK(eq, "C04: the handle reads the value of the attribute declared at this position");
    }
    WITNESS();
}
