/* C30 — every interleaving of one producer (try_push) and one consumer (try_pop) of the real ring<S,int>.
 *
 * The real functions are driven through their *resumable rendering* (vf/ll2c.py): NAME__step() executes the
 * function's next memory access (atomic load/store of read_ptr_/write_ptr_, the element copy, the store through
 * the out reference) plus the register-only computation that follows it, then returns. A nondeterministic
 * scheduler picks the side that advances, so the solver ranges over every interleaving of the two sides at the
 * granularity of single memory accesses (sequential consistency).
 *
 * case parameters: S capacity (1..3), NP number of try_push calls, NC number of try_pop calls, FILL elements already
 * in the ring, START start position.
 * Property: every element whose push succeeded is popped exactly once and in push order; a pop fails only if no
 * successfully pushed element was pending at some point during the call; a push fails only if the ring held S
 * elements at some point during the call.
 */
#include "vf.h"

#define DECL(N) int ring##N##_push(int v); int ring##N##_pop(int* out); void ring##N##_set(int rd, int wr); void ring##N##_get(int* rd, int* wr); \
    void* ring##N##_push__ctx(int); void ring##N##_push__start(void*, int); int ring##N##_push__step(void*); int ring##N##_push__result(void*); \
    void* ring##N##_pop__ctx(int);  void ring##N##_pop__start(void*, int*); int ring##N##_pop__step(void*);  int ring##N##_pop__result(void*);
DECL(1) DECL(2) DECL(3)

static int cap;
#define DISPATCH(expr1, expr2, expr3) switch (cap) { case 1: expr1; break; case 2: expr2; break; default: expr3; break; }
static void* push_ctx(void)          { void* r; DISPATCH(r = ring1_push__ctx(0), r = ring2_push__ctx(0), r = ring3_push__ctx(0)) return r; }
static void* pop_ctx(void)           { void* r; DISPATCH(r = ring1_pop__ctx(0), r = ring2_pop__ctx(0), r = ring3_pop__ctx(0)) return r; }
static void push_start(void* c, int v)  { DISPATCH(ring1_push__start(c, v), ring2_push__start(c, v), ring3_push__start(c, v)) }
static void pop_start(void* c, int* o)  { DISPATCH(ring1_pop__start(c, o), ring2_pop__start(c, o), ring3_pop__start(c, o)) }
static int push_step(void* c)        { int r; DISPATCH(r = ring1_push__step(c), r = ring2_push__step(c), r = ring3_push__step(c)) return r; }
static int pop_step(void* c)         { int r; DISPATCH(r = ring1_pop__step(c), r = ring2_pop__step(c), r = ring3_pop__step(c)) return r; }
static int push_result(void* c)      { int r; DISPATCH(r = ring1_push__result(c), r = ring2_push__result(c), r = ring3_push__result(c)) return r; }
static int pop_result(void* c)       { int r; DISPATCH(r = ring1_pop__result(c), r = ring2_pop__result(c), r = ring3_pop__result(c)) return r; }
static int s_push(int v)             { int r; DISPATCH(r = ring1_push(v), r = ring2_push(v), r = ring3_push(v)) return r; }
static int s_pop(int* o)             { int r; DISPATCH(r = ring1_pop(o), r = ring2_pop(o), r = ring3_pop(o)) return r; }
static void s_set(int a, int b)      { DISPATCH(ring1_set(a, b), ring2_set(a, b), ring3_set(a, b)) }

#define MAXV 12
static int pushed[MAXV]; static int n_pushed;     /* values whose push succeeded, in order of completion */
static int popped[MAXV]; static int n_popped;     /* values popped successfully, in order */

void harness(void)
{
    vf_global_ctors();
    cap = (int)CASE(CAP); const int S = cap;
    const int n_push = (int)CASE(NP), n_pop = (int)CASE(NC), fill = (int)CASE(FILL);
    int start = (int)in_range(0, S);
    s_set(start, start);
    int next_value = 1;
    for (int i = 0; i < fill; ++i) { int ok = s_push(next_value); ASSUME(ok); pushed[n_pushed++] = next_value++; }

    void* pc = push_ctx(); void* cc = pop_ctx();
    int p_left = n_push, c_left = n_pop, p_running = 0, c_running = 0;
    int p_value = 0, p_popped_at_start = 0;
    int c_out = 0, c_pushed_at_start = 0;

    while (p_left > 0 || p_running || c_left > 0 || c_running) {
        int can_p = p_left > 0 || p_running, can_c = c_left > 0 || c_running;
        int pick_p = can_p && (!can_c || in_bool());
        if (pick_p) {
            if (!p_running) {
                p_value = next_value++;
                p_popped_at_start = n_popped;
                push_start(pc, p_value); p_running = 1; --p_left;
            }
            if (push_step(pc)) {
                p_running = 0;
                if (push_result(pc)) pushed[n_pushed++] = p_value;
                else /* occupancy only shrinks while a push runs: it was largest when the call started */
                    CHECK(n_pushed - p_popped_at_start >= S, "push fails only if the ring held its capacity at some point of the call");
            }
        } else {
            if (!c_running) {
                c_out = -1; c_pushed_at_start = n_pushed;
                pop_start(cc, &c_out); c_running = 1; --c_left;
            }
            if (pop_step(cc)) {
                c_running = 0;
                if (pop_result(cc)) {
                    CHECK(n_popped < n_pushed, "a successful pop corresponds to a completed or in-flight successful push");
                    popped[n_popped++] = c_out;
                } else /* the number of pending elements only grows while a pop runs: it was smallest at the start */
                    CHECK(c_pushed_at_start - n_popped <= 0, "pop fails only if no pushed element was pending at some point of the call");
            }
        }
    }
    /* quiescent: drain sequentially through the real function */
    for (int i = 0; i < S + 1; ++i) { int o = -1; if (s_pop(&o)) { CHECK(n_popped < MAXV, "bounded"); popped[n_popped++] = o; } }
    CHECK(n_popped == n_pushed, "every element whose push succeeded is popped exactly once");
    for (int i = 0; i < MAXV; ++i)
        if (i < n_popped && i < n_pushed) CHECK(popped[i] == pushed[i], "elements are popped in push order with their value intact");
    WITNESS();
}
