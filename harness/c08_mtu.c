/* C08 — ATT MTU negotiation bounds every PDU.
 *
 * case parameters: CFG (shims/att_a.cpp: 0 default MTU 23, 5 max_mtu_size<40>, 2 max_mtu_size<65>, 1/3 notify/indicate servers),
 *   MODE 0  exchange step: arbitrary client MTU state (>= 23), one Exchange MTU Request of LEN bytes with symbolic content
 *           -> accepted iff LEN == 3 and value >= 23; accepted: response 0x03, both sides agree on min(server max, value),
 *              negotiated MTU becomes min(server max, value); otherwise Error Response naming 0x02, negotiated MTU unchanged
 *   MODE 1  request step: client MTU state CMTU (0 = fully symbolic >= 23), request OPC/LEN with symbolic content, output buffer
 *           OUTSZ (larger than the server maximum) -> response <= min(server max, client MTU); a Read Request of an attribute
 *           longer than the MTU returns exactly MTU bytes (the negotiated MTU is what is used, not something smaller)
 *   MODE 2  output step: a symbolic notification / indication is queued in the connection's real queue, symbolic CCCD bytes,
 *           l2cap_output() with a buffer of OUTSZ -> PDU <= min(server max, client MTU), long value fills exactly the MTU
 *   MODE 3  history: Exchange MTU (3 bytes, symbolic value), Exchange MTU (LEN bytes, symbolic), then a Read Request of the
 *           long attribute and (CFG 2) a notification: both are cut at min(server max, last valid client MTU)
 * MODE 0 shows that the state after any exchange is min(server max, last valid client MTU) given it was before; MODE 1/2 bound
 * every PDU by the state; together (induction over the sequence of requests) they give the property; MODE 3 shows the
 * composition directly for two exchanges.
 */
#include "vf.h"

void     vf_att_input( int cfg, const uint8_t* in, size_t in_size, uint8_t* out, size_t* out_size );
void     vf_att_output( int cfg, uint8_t* out, size_t* out_size );
void     vf_att_set_conn( int cfg, unsigned client_mtu, int encrypted, int pairing, const uint8_t* cccd );
unsigned vf_att_client_mtu( int cfg );
unsigned vf_att_negotiated_mtu( int cfg );
unsigned vf_att_server_mtu( int cfg );
unsigned vf_att_num_cccd( int cfg );
int      vf_att_queue( int cfg, int indication, unsigned idx );
void     vf_att_set_values( const uint8_t* b );

/* ------------------------------------------------------------------------------------------- environment (see c01_att.c) */
uint8_t vf_env_read( int id, size_t offset, size_t read_size, uint8_t* out_buffer, size_t* out_size )
{
    (void)id; (void)offset;
    size_t  n    = (size_t)in_range( 0, read_size );
    uint8_t fill = in_u8();
    for ( size_t i = 0; i < read_size; ++i )
        out_buffer[ i ] = fill;
    *out_size = n;
    return in_u8();
}

static uint8_t env_sink;
uint8_t vf_env_write( int id, size_t offset, size_t write_size, const uint8_t* value )
{
    (void)id; (void)offset;
    for ( size_t i = 0; i < write_size; ++i )
        env_sink ^= value[ i ];
    return in_u8();
}

int vf_env_notification_cb( int type )
{
    (void)type;
    return in_bool();
}

/* ------------------------------------------------------------------------------------------- expected tables */
/* handle of a readable attribute whose value is longer than every MTU used here, and its length:
 * cfg 0 / 5: 66 byte cstring value (handle 14); cfg 2: 66 byte cstring value (handle 10) */
static unsigned long_handle( int cfg ) { return cfg == 2 ? 10 : 14; }
#define LONG_VALUE_LEN 66u
/* cfg 2: characteristic with CCCD index 0 has a 40 byte value (handle 3) */
#define CFG2_NOTIFIED_LEN 40u

static unsigned umin( unsigned a, unsigned b ) { return a < b ? a : b; }

static int is_error_response_for( const uint8_t* out, size_t os, uint8_t opc )
{
    return os == 5 && out[ 0 ] == 0x01 && out[ 1 ] == opc;
}

static int      cfg;
static unsigned smax;
static size_t   outsz;
static uint8_t* out;

/* one Exchange MTU Request of len bytes; returns the expected negotiated MTU afterwards given the expected one before */
static unsigned exchange_step( size_t len, unsigned expected_before )
{
    uint8_t* in = vf_alloc( len );
    in_bytes( in, len );
    in[ 0 ] = 0x02;
    size_t os = outsz;
    vf_att_input( cfg, in, len, out, &os );
    OBSERVE( os );
    CHECK( os <= outsz && os <= expected_before, "Exchange MTU: answer not longer than the MTU in use" );
    if ( os <= outsz ) OBSERVE_BYTES( out, os );

    unsigned v     = len >= 3 ? ( in[ 1 ] | ( (unsigned)in[ 2 ] << 8 ) ) : 0;
    int      valid = len == 3 && v >= 23;
    unsigned after;

    if ( valid )
    {
        CHECK( os == 3 && out[ 0 ] == 0x03, "valid Exchange MTU Request gets an Exchange MTU Response" );
        unsigned reported = os == 3 ? ( out[ 1 ] | ( (unsigned)out[ 2 ] << 8 ) ) : 0;
        CHECK( reported >= 23, "server reports an MTU of at least 23" );
        /* the client computes min(its MTU, reported); the statement fixes the result to min(server max, client MTU) */
        CHECK( umin( reported, v ) == umin( smax, v ), "client and server agree: MTU is min(server maximum, client MTU)" );
        after = umin( smax, v );
    }
    else
    {
        CHECK( is_error_response_for( out, os, 0x02 ), "Exchange MTU Request with wrong length or MTU < 23 is rejected with an Error Response" );
        after = expected_before;
    }
    CHECK( vf_att_negotiated_mtu( cfg ) == after, "negotiated MTU is min(server maximum, last valid client MTU); rejected requests do not change it" );
    CHECK( vf_att_client_mtu( cfg ) >= 23, "client MTU stays >= 23" );
    return after;
}

/* Read Request for the long attribute: exactly the MTU is used */
static void read_long_step( unsigned mtu )
{
    uint8_t* in = vf_alloc( 3 );
    in[ 0 ] = 0x0A; in[ 1 ] = (uint8_t)long_handle( cfg ); in[ 2 ] = 0;
    size_t os = outsz;
    vf_att_input( cfg, in, 3, out, &os );
    OBSERVE( os );
    CHECK( os <= outsz && os <= mtu, "Read Response not longer than min(server maximum, last valid client MTU)" );
    CHECK( os == umin( umin( mtu, outsz ), LONG_VALUE_LEN + 1 ) && out[ 0 ] == 0x0B, "Read Response of a long value uses exactly the negotiated MTU" );
    if ( os <= outsz ) OBSERVE_BYTES( out, os );
}

static void output_step( unsigned mtu, int force_first )
{
    unsigned n   = vf_att_num_cccd( cfg );
    unsigned idx = force_first ? 0 : (unsigned)in_range( 0, n - 1 );
    int      ind = in_bool();
    int      q   = vf_att_queue( cfg, ind, idx );
    OBSERVE( q );
    size_t os = outsz;
    vf_att_output( cfg, out, &os );
    OBSERVE( os );
    CHECK( os <= outsz, "notification / indication inside the supplied buffer" );
    CHECK( os <= mtu, "notification / indication not longer than min(server maximum, last valid client MTU)" );
    if ( os != 0 && os <= outsz )
    {
        CHECK( os >= 3 && ( out[ 0 ] == 0x1B || out[ 0 ] == 0x1D ), "l2cap_output emits a Handle Value Notification or Indication" );
        if ( cfg == 2 && idx == 0 )
            CHECK( os == umin( umin( mtu, outsz ), CFG2_NOTIFIED_LEN + 3 ), "notification of a long value uses exactly the negotiated MTU" );
        OBSERVE_BYTES( out, os );
    }
}

void harness( void )
{
    vf_global_ctors();
    cfg   = (int)CASE( CFG );
    outsz = (size_t)CASE( OUTSZ );
    const int    mode = (int)CASE( MODE );
    const size_t len  = (size_t)CASE( LEN );

    smax = vf_att_server_mtu( cfg );
    /* state: client MTU >= 23 (initially 23, afterwards the last valid client MTU) */
    const unsigned cmtu = CASE( CMTU ) ? (unsigned)CASE( CMTU ) : (unsigned)in_range( 23, 0xffff );
    const int      enc  = in_bool();
    const int      pair = (int)in_range( 0, 3 );
    uint8_t cccd[ 4 ];
    in_bytes( cccd, 4 );
    vf_att_set_conn( cfg, cmtu, enc, pair, cccd );
    uint8_t vals[ 100 ];
    in_bytes( vals, 100 );
    vf_att_set_values( vals );

    ASSUME( outsz >= 23 );
    out = vf_alloc( outsz );
    const unsigned mtu0 = umin( smax, cmtu );

    if ( mode == 0 )
    {
        exchange_step( len, mtu0 );
    }
    else if ( mode == 1 )
    {
        uint8_t* in = vf_alloc( len );
        in_bytes( in, len );
        in[ 0 ] = (uint8_t)CASE( OPC );
        size_t os = outsz;
        vf_att_input( cfg, in, len, out, &os );
        OBSERVE( os );
        CHECK( os <= outsz, "response inside the supplied buffer" );
        CHECK( os <= mtu0, "response not longer than min(server maximum, last valid client MTU)" );
        if ( os <= outsz ) OBSERVE_BYTES( out, os );
        if ( in[ 0 ] == 0x0A && len == 3 && in[ 1 ] == long_handle( cfg ) && in[ 2 ] == 0 )
            CHECK( os == umin( umin( mtu0, outsz ), LONG_VALUE_LEN + 1 ) && out[ 0 ] == 0x0B, "Read Response of a long value uses exactly the negotiated MTU (request step)" );
    }
    else if ( mode == 2 )
    {
        output_step( mtu0, 0 );
    }
    else
    {
        unsigned m1 = exchange_step( 3, mtu0 );
        unsigned m2 = exchange_step( len, m1 );
        read_long_step( m2 );
        if ( cfg == 2 )
            output_step( m2, 1 );
    }
    WITNESS();
}
