/* C26 — the white list behaves as a set of at most N device addresses.
 *
 * case parameters: CFG (0 software list Size 3, 1 software list Size 1, 2 radio backed list), MODE, OP
 *   MODE 0  inductive step on the software list: arbitrary state satisfying Inv (0..Size distinct entries, arbitrary filter
 *           flags, arbitrary garbage in the unused slots), one operation OP with a symbolic address, result and post-state
 *           against a set model; Inv re-established.  OP: 0 add, 1 remove, 2 clear, 3 query + filters, 4 set filters
 *   MODE 1  base case + bounded history from construction (K operations) against the same model
 *   MODE 2  radio backed list: every operation is forwarded 1:1 (same address, same result) to the radio
 * A device address is 6 bytes plus the public/random type; two addresses are equal iff both agree.
 */
#include "vf.h"

int  wl_add(int cfg, const uint8_t* a, int rnd);
int  wl_remove(int cfg, const uint8_t* a, int rnd);
int  wl_is_in(int cfg, const uint8_t* a, int rnd);
unsigned long wl_free_size(int cfg);
void wl_clear(int cfg);
void wl_set_conn_filter(int cfg, int b);
int  wl_get_conn_filter(int cfg);
void wl_set_scan_filter(int cfg, int b);
int  wl_get_scan_filter(int cfg);
int  wl_conn_in_filter(int cfg, const uint8_t* a, int rnd);
int  wl_scan_in_filter(int cfg, const uint8_t* a, int rnd);
void wl_set_raw(int cfg, unsigned long free_size, int conn_filter, int scan_filter);
void wl_set_entry(int cfg, unsigned i, const uint8_t* a, int rnd);
void wl_get_entry(int cfg, unsigned i, uint8_t* a, int* rnd);

typedef struct { uint8_t b[6]; int rnd; } addr_t;
static int same(const addr_t* x, const addr_t* y) { return x->rnd == y->rnd && memcmp(x->b, y->b, 6) == 0; }
static void draw(addr_t* a) { in_bytes(a->b, 6); a->rnd = in_bool(); }

#define MAXN 3
static addr_t model[MAXN]; static int mn;      /* the set */
static int m_conn, m_scan;
static int cfg, size;

static int m_find(const addr_t* a) { for (int i = 0; i < MAXN; ++i) if (i < mn && same(&model[i], a)) return i; return -1; }

/* the real list holds exactly the model's set (any order), free size consistent, filters equal */
static void check_state(void)
{
    unsigned long fs = wl_free_size(cfg);
    OBSERVE(fs);
    CHECK(fs == (unsigned long)(size - mn), "free size is N minus the number of addresses in the set");
    int nreal = size - (int)fs;
    addr_t e[MAXN];
    for (int i = 0; i < MAXN; ++i) if (i < size) wl_get_entry(cfg, (unsigned)i, e[i].b, &e[i].rnd);
    for (int i = 0; i < MAXN; ++i)
        if (i < nreal && i < size) {
            CHECK(m_find(&e[i]) >= 0, "every stored entry is an address of the set");
            for (int j = 0; j < i; ++j) CHECK(!same(&e[i], &e[j]), "stored entries are pairwise distinct (representation invariant)");
        }
    for (int i = 0; i < MAXN; ++i) if (i < mn) CHECK(wl_is_in(cfg, model[i].b, model[i].rnd), "every address of the set is reported as member");
    CHECK((wl_get_conn_filter(cfg) != 0) == m_conn && (wl_get_scan_filter(cfg) != 0) == m_scan, "filter switches keep their value");
}

static void do_op(int op, const addr_t* a, int f1, int f2, const addr_t* q)
{
    if (op == 0) {
        int r = wl_add(cfg, a->b, a->rnd); OBSERVE(r);
        int present = m_find(a) >= 0;
        CHECK((r != 0) == (present || mn < size), "add succeeds unless the address is new and the list is full");
        if (!present && mn < size) model[mn++] = *a;
    } else if (op == 1) {
        int r = wl_remove(cfg, a->b, a->rnd); OBSERVE(r);
        int i = m_find(a);
        CHECK((r != 0) == (i >= 0), "remove reports whether the address was in the set");
        if (i >= 0) { model[i] = model[mn - 1]; --mn; }
    } else if (op == 2) {
        wl_clear(cfg); mn = 0;
    } else if (op == 3) {
        int member = m_find(q) >= 0;
        int r1 = wl_is_in(cfg, q->b, q->rnd), r2 = wl_conn_in_filter(cfg, q->b, q->rnd), r3 = wl_scan_in_filter(cfg, q->b, q->rnd);
        OBSERVE(r1); OBSERVE(r2); OBSERVE(r3);
        CHECK((r1 != 0) == member, "membership query answers exactly for the addresses of the set");
        CHECK((r2 != 0) == (!m_conn || member), "connection filter accepts iff filtering is off or the address is in the set");
        CHECK((r3 != 0) == (!m_scan || member), "scan filter accepts iff filtering is off or the address is in the set");
    } else {
        wl_set_conn_filter(cfg, f1); wl_set_scan_filter(cfg, f2); m_conn = f1; m_scan = f2;
    }
    /* after every operation: a freshly drawn address is member iff it is in the model */
    int member = m_find(q) >= 0;
    CHECK((wl_is_in(cfg, q->b, q->rnd) != 0) == member, "after the operation exactly the model's addresses are members");
}

/* ---- radio environment (MODE 2): nondeterministic results, recorded arguments */
static int r_calls, r_last_fn, r_last_rnd, r_last_flag; static uint8_t r_last_addr[6]; static int r_result;
static void rec(int fn, const uint8_t* a, int rnd, int flag) { ++r_calls; r_last_fn = fn; r_last_rnd = rnd; r_last_flag = flag; if (a) memcpy(r_last_addr, a, 6); }
unsigned long vf_radio_free_size(void) { rec(1, 0, 0, 0); return (unsigned long)r_result; }
void vf_radio_clear(void) { rec(2, 0, 0, 0); }
int  vf_radio_add(const uint8_t* a, int rnd) { rec(3, a, rnd, 0); return r_result; }
int  vf_radio_is_in(const uint8_t* a, int rnd) { rec(4, a, rnd, 0); return r_result; }
int  vf_radio_remove(const uint8_t* a, int rnd) { rec(5, a, rnd, 0); return r_result; }
void vf_radio_set_conn_filter(int b) { rec(6, 0, 0, b); }
int  vf_radio_get_conn_filter(void) { rec(7, 0, 0, 0); return r_result; }
void vf_radio_set_scan_filter(int b) { rec(8, 0, 0, b); }
int  vf_radio_get_scan_filter(void) { rec(9, 0, 0, 0); return r_result; }
int  vf_radio_conn_in_filter(const uint8_t* a, int rnd) { rec(10, a, rnd, 0); return r_result; }
int  vf_radio_scan_in_filter(const uint8_t* a, int rnd) { rec(11, a, rnd, 0); return r_result; }

void harness(void)
{
    vf_global_ctors();
    cfg = (int)CASE(CFG);
    const int mode = (int)CASE(MODE), opc = (int)CASE(OP), nops = (int)CASE(K);
    size = cfg == 1 ? 1 : 3;

    /* all inputs up front */
    addr_t pre[MAXN], junk[MAXN], a[8], q[8]; int f1[8], f2[8], ops[8];
    for (int i = 0; i < MAXN; ++i) { draw(&pre[i]); draw(&junk[i]); }
    for (int i = 0; i < 8; ++i) { draw(&a[i]); draw(&q[i]); f1[i] = in_bool(); f2[i] = in_bool(); ops[i] = (int)in_range(0, 4); }
    int n0 = (int)in_range(0, 3), c0 = in_bool(), s0 = in_bool(), alias = (int)in_range(0, 3), rres = in_bool();
    unsigned long rfree = (unsigned long)in_range(0, 8);

    if (mode == 2) {
        /* forwarding: one operation, radio result nondeterministic */
        r_result = opc == 5 ? (int)rfree : rres;
        int r = 0; int fn = 0, has_addr = 0, flag = f1[0];
        switch (opc) {
        case 0: r = wl_add(cfg, a[0].b, a[0].rnd); fn = 3; has_addr = 1; break;
        case 1: r = wl_remove(cfg, a[0].b, a[0].rnd); fn = 5; has_addr = 1; break;
        case 2: wl_clear(cfg); fn = 2; r = r_result; break;
        case 3: r = wl_is_in(cfg, a[0].b, a[0].rnd); fn = 4; has_addr = 1; break;
        case 4: wl_set_conn_filter(cfg, flag); fn = 6; r = r_result; break;
        case 5: r = (int)wl_free_size(cfg); fn = 1; break;
        case 6: r = wl_conn_in_filter(cfg, a[0].b, a[0].rnd); fn = 10; has_addr = 1; break;
        case 7: r = wl_scan_in_filter(cfg, a[0].b, a[0].rnd); fn = 11; has_addr = 1; break;
        case 8: wl_set_scan_filter(cfg, flag); fn = 8; r = r_result; break;
        case 9: r = wl_get_conn_filter(cfg); fn = 7; break;
        default: r = wl_get_scan_filter(cfg); fn = 9; break;
        }
        OBSERVE(r);
        CHECK(r_calls == 1 && r_last_fn == fn, "the operation is forwarded to exactly the corresponding radio function, once");
        if (has_addr) CHECK(memcmp(r_last_addr, a[0].b, 6) == 0 && r_last_rnd == a[0].rnd, "the address is passed to the radio unchanged");
        if (fn == 6 || fn == 8) CHECK(r_last_flag == flag, "the filter switch is passed to the radio unchanged");
        if (fn != 2 && fn != 6 && fn != 8) CHECK((fn == 1 ? r == (int)rfree : (r != 0) == (r_result != 0)), "the radio's answer is returned unchanged");
        WITNESS();
        return;
    }

    if (mode == 0) {
        /* arbitrary state under Inv */
        if (n0 > size) n0 = size;
        for (int i = 0; i < MAXN; ++i) for (int j = 0; j < i; ++j) if (i < n0) ASSUME(!same(&pre[i], &pre[j]));
        mn = n0; m_conn = c0; m_scan = s0;
        for (int i = 0; i < MAXN; ++i) if (i < size) { if (i < n0) { model[i] = pre[i]; wl_set_entry(cfg, (unsigned)i, pre[i].b, pre[i].rnd); } else wl_set_entry(cfg, (unsigned)i, junk[i].b, junk[i].rnd); }
        wl_set_raw(cfg, (unsigned long)(size - n0), c0, s0);
        /* let the operand alias an existing entry with some probability in the random runs; the solver does not need this */
        if (alias < n0 && ops[0] == 99) a[0] = pre[alias];
        do_op(opc, &a[0], f1[0], f2[0], &q[0]);
        check_state();
    } else {
        /* from construction */
        mn = 0; m_conn = 0; m_scan = 0;
        check_state();
        for (int k = 0; k < 8; ++k) if (k < nops) { do_op(ops[k], &a[k], f1[k], f2[k], &q[k]); }
        check_state();
    }
    WITNESS();
}
