/* C07 — prepared writes with a shared write queue: deferred, per client, applied in order (shim att_d7).
 *
 * case parameters
 *   CFG   0: shared_write_queue<32>   1: shared_write_queue<64>      (both max_mtu_size<65>)
 *   MODE  0: bounded history from reset: K steps against the reference model below
 *         1: self-composition: Prepare Write accepted <=> Write Request to the same attribute on the same
 *            connection (same link security) permitted; both real calls on the same (cloned) state
 *   K     number of steps (MODE 0)
 *   SEQ   decimal digits, least significant digit = first step: 1 Prepare Write, 2 Execute Write (flag symbolic),
 *         3 Write Request, 4 client_disconnected, 0 = symbolic choice among 1..4
 *   VL    value length of the Prepare Write Requests     WL  value length of the Write Requests
 *   MTU   client MTU of both connections (23 or 65)
 * symbolic in every case: who acts (A or B) per step, handle (all 2^16), offset (all 2^16), value bytes, execute flag,
 * initial content of all bound values, initial CCCD bits of both connections, link security of both connections
 * (encrypted?, pairing status; constant during the history).
 *
 * Expected attribute table (derived by hand from the declaration in shims/att_d7.cpp):
 *   3 val_a rw 8 bytes | 5 val_b rw 2 | 7 val_c read only | 9 val_d rw 4, requires encryption | 11 val_e rw 1 |
 *   12 CCCD (2 bytes, 2 bits stored per connection) | 14 write-only handler value (free_write_blob_handler) |
 *   1,2,4,6,8,10,13 declarations (read only) | everything else: no such attribute
 */
#include "vf.h"

void     vf_d7_input(int cfg, int who, const uint8_t* in, size_t in_size, uint8_t* out, size_t* out_size);
void     vf_d7_disconnect(int cfg, int who);
void     vf_d7_set_security(int cfg, int who, int encrypted, int pairing);
void     vf_d7_set_client_mtu(int cfg, int who, unsigned mtu);
void     vf_d7_get_values(uint8_t* dst);
void     vf_d7_set_values(const uint8_t* src);
unsigned vf_d7_get_cccd(int cfg, int who);
void     vf_d7_set_cccd(int cfg, int who, unsigned v);
int      vf_d7_queue_owner(int cfg);
unsigned vf_d7_queue_fill(int cfg);
void     vf_d7_snapshot(int cfg);
void     vf_d7_restore(int cfg);

#define NVAL  15
#define MAXV  12           /* longest value carried by one PDU in this harness */
#define MAXE  8            /* model queue capacity in elements (never reached: see ASSUME in prepare) */

enum { E_INVALID_HANDLE = 0x01, E_WRITE_NOT_PERMITTED = 0x03, E_INSUFF_AUTHENTICATION = 0x05, E_INVALID_OFFSET = 0x07,
       E_QUEUE_FULL = 0x09, E_INVALID_LENGTH = 0x0d, E_INSUFF_ENCRYPTION = 0x0f };

static int cfg, qsize, mtu;

/* ------------------------------------------------------------------------------------------ environment */
static unsigned h_calls;                 /* invocations of the application's write handler */
static size_t   h_off, h_size;
static uint8_t  h_bytes[MAXV];
static int      h_null;

uint8_t vf_d7_env_write_handler(size_t offset, size_t write_size, const uint8_t* value)
{
    ++h_calls;
    h_off = offset; h_size = write_size; h_null = value == 0;
    for (size_t i = 0; i < MAXV; ++i)
        if (i < write_size && value) h_bytes[i] = value[i];
    return 0;                            /* the application accepts every write */
}

/* ------------------------------------------------------------------------------------------ reference model */
static uint8_t  mval[NVAL];              /* a[0..7] b[8..9] d[10..13] e[14] */
static unsigned mcccd[2];                /* configuration byte of each connection (one CCCD: bits 0..1) */
static int      enc[2], pairing[2];
static unsigned m_calls; static size_t m_off, m_size; static uint8_t m_bytes[MAXV];

struct ent { uint16_t handle, offset; unsigned len; uint8_t b[MAXV]; };
static struct ent q[MAXE];
static int      qn, owner;               /* owner: 0 none, 1 A, 2 B */
static unsigned used_min, used_doc;      /* payload only (handle+offset+value) / documented cost (7 + value per element) */

static int vsize(unsigned h) { return h == 3 ? 8 : h == 5 ? 2 : h == 9 ? 4 : h == 11 ? 1 : h == 12 ? 2 : -1; }
static int vpos(unsigned h)  { return h == 3 ? 0 : h == 5 ? 8 : h == 9 ? 10 : 14; }

/* 0 = a write to this attribute is permitted on connection who; otherwise the ATT error code */
static int perm(unsigned h, int who)
{
    if (h == 0 || h > 14) return E_INVALID_HANDLE;
    if (h == 3 || h == 5 || h == 11 || h == 12 || h == 14) return 0;
    if (h == 9) return enc[who] ? 0 : pairing[who] == 0 ? E_INSUFF_AUTHENTICATION : E_INSUFF_ENCRYPTION;
    return E_WRITE_NOT_PERMITTED;
}

/* one write of len bytes at offset to a permitted attribute (Core spec Vol 3 Part F 3.4.5.1 / 3.4.6.3) */
static int apply_write(int who, unsigned h, unsigned offset, const uint8_t* b, unsigned len)
{
    if (h == 14) {
        ++m_calls; m_off = offset; m_size = len;
        for (unsigned i = 0; i < MAXV; ++i) if (i < len) m_bytes[i] = b[i];
        return 0;
    }
    unsigned size = (unsigned)vsize(h);
    if (offset > size) return E_INVALID_OFFSET;
    if (offset + len > size) return E_INVALID_LENGTH;
    if (h == 12) {
        if (offset == 0 && len >= 1) mcccd[who] = (mcccd[who] & ~3u) | (b[0] & 3u);
        return 0;
    }
    for (unsigned i = 0; i < MAXV; ++i) if (i < len) mval[vpos(h) + offset + i] = b[i];
    return 0;
}

static void release(void) { owner = 0; qn = 0; used_min = 0; used_doc = 0; }

static int is_error(const uint8_t* out, size_t os, unsigned req) { return os == 5 && out[0] == 0x01 && out[1] == req; }

/* compare the real state with the model */
static void check_state(void)
{
    uint8_t rv[NVAL];
    vf_d7_get_values(rv);
    OBSERVE_BYTES(rv, NVAL);
    for (int i = 0; i < NVAL; ++i) CHECK(rv[i] == mval[i], "every bound value holds exactly what the model holds (prepares change nothing, execute applies the owner's queue in order)");
    unsigned ca = vf_d7_get_cccd(cfg, 0), cb = vf_d7_get_cccd(cfg, 1);
    OBSERVE(ca); OBSERVE(cb);
    CHECK(ca == mcccd[0], "client configuration of connection A equals model");
    CHECK(cb == mcccd[1], "client configuration of connection B equals model");
    int ro = vf_d7_queue_owner(cfg); unsigned fill = vf_d7_queue_fill(cfg);
    OBSERVE(ro); OBSERVE(fill);
    CHECK(ro == owner, "the shared queue is held by exactly the client the model says (released on execute, cancel, disconnect)");
    CHECK(owner != 0 || fill == 0, "a released queue is empty");
    CHECK(fill <= (unsigned)qsize, "queue fill level within the queue");
    CHECK(h_calls == m_calls, "the application's write handler is invoked exactly once per executed write, never by a Prepare Write");
    if (m_calls && h_calls == m_calls) {
        CHECK(h_off == m_off && h_size == m_size, "write handler sees offset and size of the write");
        for (unsigned i = 0; i < MAXV; ++i) if (i < m_size) CHECK(!h_null && h_bytes[i] == m_bytes[i], "write handler sees the bytes of the write");
    }
}

/* ------------------------------------------------------------------------------------------ steps */
static void step_prepare(int who, unsigned vl, int history)
{
    size_t len = 5 + vl;
    uint8_t* pdu = vf_alloc(len);
    in_bytes(pdu, len);
    pdu[0] = 0x16;
    unsigned h = pdu[1] | (pdu[2] << 8), off = pdu[3] | (pdu[4] << 8);
    uint8_t* out = vf_alloc(65); size_t os = 65;

    /* known finding: the permission probe of a Prepare Write is a zero length write, which reaches the application's
       write handler of a handler based value (handle 14) */
    if (history) VF_KNOWN_FINDING(c07_prepare_invokes_write_handler, h == 14);

    vf_d7_input(cfg, who, pdu, len, out, &os);
    OBSERVE(os); OBSERVE_BYTES(out, os);

    int p = perm(h, who);
    int accepted = os >= 1 && out[0] == 0x17;
    CHECK(accepted || is_error(out, os, 0x16), "Prepare Write is answered by a Prepare Write Response or an Error Response");
    if (p != 0) {
        CHECK(!accepted, "Prepare Write to an attribute that a Write Request may not write on this connection is rejected");
    } else if (owner != 0 && owner != who + 1) {
        CHECK(is_error(out, os, 0x16) && out[4] == E_QUEUE_FULL, "while another client holds the queue a Prepare Write gets Prepare Queue Full");
    } else {
        /* own or free queue: room is decided by the queue size. write_queue.hpp documents 7 bytes of overhead per element:
           within that budget the request must be accepted; beyond the raw payload size it cannot be; in between either. */
        if (used_doc + 7 + vl <= (unsigned)qsize)
            CHECK(accepted, "Prepare Write to a writable attribute is accepted while the documented queue budget is not exhausted");
        if (used_min + 4 + vl > (unsigned)qsize)
            CHECK(!accepted, "queue cannot hold more than its size");
        if (!accepted)
            CHECK(is_error(out, os, 0x16) && out[4] == E_QUEUE_FULL, "a permitted Prepare Write is refused only with Prepare Queue Full");
    }
    if (accepted) {
        size_t exp = len < (size_t)mtu ? len : (size_t)mtu;
        CHECK(os == exp, "Prepare Write Response has the length of the request (at most the MTU)");
        for (size_t i = 1; i < len; ++i) if (i < os) CHECK(out[i] == pdu[i], "Prepare Write Response echoes handle, offset and value");
        ASSUME(qn < MAXE);
        if (qn < MAXE) {
            q[qn].handle = (uint16_t)h; q[qn].offset = (uint16_t)off; q[qn].len = vl;
            for (unsigned i = 0; i < MAXV; ++i) if (i < vl) q[qn].b[i] = pdu[5 + i];
            ++qn; owner = who + 1; used_min += 4 + vl; used_doc += 7 + vl;
        }
    }
    /* values, CCCDs: unchanged in every case (model untouched) */
}

/* a Prepare Write Request that is too short to carry handle and offset (1..4 octets) is malformed: it must not be
   accepted, nothing may be queued for it (an Execute Write would otherwise apply a write the client never specified) */
static void step_short_prepare(int who, unsigned sl)
{
    uint8_t* pdu = vf_alloc(sl);
    in_bytes(pdu, sl);
    pdu[0] = 0x16;
    uint8_t* out = vf_alloc(65); size_t os = 65;
    vf_d7_input(cfg, who, pdu, sl, out, &os);
    OBSERVE(os); OBSERVE_BYTES(out, os);
    CHECK(is_error(out, os, 0x16), "a Prepare Write Request without complete handle and offset is answered by an Error Response");
}

static int step_execute(int who)
{
    uint8_t* pdu = vf_alloc(2);
    pdu[0] = 0x18; pdu[1] = (uint8_t)in_bool();
    uint8_t* out = vf_alloc(65); size_t os = 65;
    vf_d7_input(cfg, who, pdu, 2, out, &os);
    OBSERVE(os); OBSERVE_BYTES(out, os);

    int failed = 0; unsigned fh = 0; int fcode = 0;
    if (owner == who + 1) {
        if (pdu[1] == 1) {
            for (int i = 0; i < MAXE; ++i) {
                if (i < qn && !failed) {
                    int rc = apply_write(who, q[i].handle, q[i].offset, q[i].b, q[i].len);
                    if (rc) { failed = 1; fh = q[i].handle; fcode = rc; }
                }
            }
        }
        release();
    }
    if (failed) {
        CHECK(is_error(out, os, 0x18), "a failing queued write yields an Error Response to the Execute Write Request");
        if (is_error(out, os, 0x18)) {
            CHECK(out[4] == fcode, "error code is Invalid Offset / Invalid Attribute Value Length as the first failing queued write demands");
            CHECK((unsigned)(out[2] | (out[3] << 8)) == fh, "error names the attribute of the first failing queued write");
        }
    } else {
        CHECK(os == 1 && out[0] == 0x19, "Execute Write is answered by an Execute Write Response");
    }
    return failed;
}

static void step_write(int who, unsigned wl)
{
    size_t len = 3 + wl;
    uint8_t* pdu = vf_alloc(len);
    in_bytes(pdu, len);
    pdu[0] = 0x12;
    unsigned h = pdu[1] | (pdu[2] << 8);
    uint8_t* out = vf_alloc(65); size_t os = 65;
    vf_d7_input(cfg, who, pdu, len, out, &os);
    OBSERVE(os); OBSERVE_BYTES(out, os);
    int p = perm(h, who);
    int rc = p ? p : apply_write(who, h, 0, pdu + 3, wl);
    if (rc) CHECK(is_error(out, os, 0x12), "a Write Request that is not permitted or does not fit is answered by an Error Response");
    else    CHECK(os == 1 && out[0] == 0x13, "a permitted Write Request is executed immediately, independent of any queue");
}

static int digit(long seq, int i) { for (int j = 0; j < i; ++j) seq /= 10; return (int)(seq % 10); }

static void setup(void)
{
    cfg = (int)CASE(CFG);
    qsize = cfg == 0 ? 32 : 64;
    mtu = (int)CASE(MTU);
    in_bytes(mval, NVAL);
    vf_d7_set_values(mval);
    for (int w = 0; w < 2; ++w) {
        mcccd[w] = (unsigned)in_range(0, 3);
        vf_d7_set_cccd(cfg, w, mcccd[w]);
        enc[w] = in_bool(); pairing[w] = (int)in_range(0, 3);
        vf_d7_set_security(cfg, w, enc[w], pairing[w]);
        if (mtu != 23) vf_d7_set_client_mtu(cfg, w, (unsigned)mtu);
    }
    release(); h_calls = 0; m_calls = 0;
}

void harness(void)
{
    vf_global_ctors();
    setup();
    int mode = (int)CASE(MODE);
    unsigned vl = (unsigned)CASE(VL), wl = (unsigned)CASE(WL);

    if (mode == 0) {
        int k = (int)CASE(K); long seq = CASE(SEQ);
        check_state();
        for (int i = 0; i < k; ++i) {
            int d = digit(seq, i);
            int op = d ? d : (int)in_range(1, 4);
            int who = in_bool();
            int undefined = 0;
            if (op == 1) step_prepare(who, vl, 1);
            else if (op == 2) undefined = step_execute(who);
            else if (op == 3) step_write(who, wl);
            else if (op == 5) step_short_prepare(who, (unsigned)CASE(SL));
            else {
                vf_d7_disconnect(cfg, who);
                if (owner == who + 1) release();
            }
            if (undefined) {
                /* Core spec: after a failed Execute Write the state of the attributes in the queue is undefined.
                   The model stopped at the first failing write as well; re-synchronise the values and go on. */
                uint8_t rv[NVAL]; vf_d7_get_values(rv);
                for (int j = 0; j < NVAL; ++j) mval[j] = rv[j];
                mcccd[who] = vf_d7_get_cccd(cfg, who);
                m_calls = h_calls; m_off = h_off; m_size = h_size;
                for (int j = 0; j < MAXV; ++j) m_bytes[j] = h_bytes[j];
            }
            check_state();
        }
    } else {
        /* MODE 1: the queue is free or held by `who` with one element (symbolic) */
        int who = in_bool();
        if (in_bool()) { step_prepare(who, 1, 0); }
        size_t len = 5 + vl;
        uint8_t* pdu = vf_alloc(len);
        in_bytes(pdu, len);
        pdu[0] = 0x16;
        unsigned h = pdu[1] | (pdu[2] << 8);
        uint8_t* out1 = vf_alloc(65); size_t os1 = 65;
        uint8_t* out2 = vf_alloc(65); size_t os2 = 65;
        size_t wlen = 3 + vl;
        uint8_t* wr = vf_alloc(wlen);
        wr[0] = 0x12; wr[1] = pdu[1]; wr[2] = pdu[2];
        for (unsigned i = 0; i < MAXV; ++i) if (i < vl) wr[3 + i] = pdu[5 + i];

        vf_d7_snapshot(cfg);
        vf_d7_input(cfg, who, pdu, len, out1, &os1);
        vf_d7_restore(cfg);
        vf_d7_input(cfg, who, wr, wlen, out2, &os2);
        OBSERVE(os1); OBSERVE_BYTES(out1, os1); OBSERVE(os2); OBSERVE_BYTES(out2, os2);

        int accepted = os1 >= 1 && out1[0] == 0x17;
        CHECK(accepted || is_error(out1, os1, 0x16), "Prepare Write is answered by a response or an error");
        CHECK((os2 == 1 && out2[0] == 0x13) || is_error(out2, os2, 0x12), "Write Request is answered by a response or an error");
        /* permitted: executed, or refused only because this particular value does not fit (offset / length) */
        int permitted = (os2 == 1 && out2[0] == 0x13) ||
                        (is_error(out2, os2, 0x12) && (out2[4] == E_INVALID_OFFSET || out2[4] == E_INVALID_LENGTH));
        CHECK(!(accepted && !permitted), "a Prepare Write is accepted only if a Write Request to the same attribute on the same connection is permitted");
        CHECK(!(permitted && !accepted), "a Prepare Write is accepted whenever a Write Request to the same attribute on the same connection is permitted (queue free or own, room left)");
        CHECK(permitted == (perm(h, who) == 0), "Write Request permission equals the expected attribute table");
    }
    WITNESS();
}
