/* C22 (a) + (c) — scheduling of the next connection event, window widening, supervision timeout.
 *
 * Real code: link_layer::setup_next_connection_event, link_layer::timeout, link_layer::end_event (with
 * plan_next_connection_event[_after_timeout], delta_time::ppm and the delta_time operators of delta_time.cpp) on the real
 * link_layer, state set directly (shim ll_b).  The stub radio records the schedule_connection_event() arguments.
 *
 * case parameters: CFG (0: 500 ppm local clock, 1: 50 ppm), SCA (central's sleep clock accuracy index 0..7 from the
 *                  connect request -> accumulated ppm is concrete per case), WIN (link layer state, see below), MODE
 *   MODE 0  setup_next_connection_event() from an arbitrary state
 *   MODE 1  timeout()   (connection event without a packet from the central)
 *   MODE 2  end_event() (connection event with a packet), receive buffer empty
 * symbolic: time T0 from the last anchor to the event that has just passed (n x 1.25 ms <= 36 s), connection interval 6..3200,
 *           latency, supervision timeout, transmit window (absent, or size 1..8 x 1.25 ms, offset 0..3201 x 1.25 ms),
 *           state connecting / connected / connection_changed, event counter, channel index, event flags.
 *
 * Oracle (statement + Core spec Vol 6 Part B 4.5.7 window widening, 4.5.2 supervision timeout):
 *   T1 = nominal time of the next event relative to the last anchor:
 *          MODE 0: T0;  MODE 1: T0 + interval;  MODE 2: n * interval with 1 <= n <= latency + 1
 *   the radio is asked to listen from start to end with
 *          start <= t1 - w(t1),  end >= t2 + w(t2),   t1 = T1 (+ window offset), t2 = t1 (+ window size)
 *          w(t) > t * (ppm_local + ppm_central) / 10^6 - 2 us       (truncation tolerated; via lemma c22_ppm)
 *   supervision: timeout() drops the link only if T0 >= supervision timeout (connected), or, before the first packet of a
 *          new connection, T0 >= 5 intervals (the sixth window would start at T0 + interval); end_event() (a packet was
 *          received) never drops it.  And a link whose supervision timeout expired a whole interval ago is dropped.
 */
#include "c21_common.h"

/* T1: nominal time of the event in us, T1u: the same in units of 1.25 ms; transmit window offset / size in units of 1.25 ms */
static void check_window(uint32_t T1, uint32_t T1u, uint32_t offu, uint32_t sizeu, uint32_t ppm)
{
    const uint32_t t2u = T1u + (sizeu ? offu : 0u) + sizeu;
    const uint32_t t1 = T1 + (sizeu ? offu * 1250u : 0u);
    const uint32_t t2 = t1 + sizeu * 1250u;
    /* Required widening for an elapsed time t and the combined accuracy: W(t) = delta_time(t).ppm(ppm) of the real code.
     * Lemma c22_ppm proves for every t = u * 1.25 ms, u < 2^16, and each of the 16 ppm values:  t*ppm/10^6 - 2 us < W(t) <= t*ppm/10^6  (so W(t) <= t).
     * The comparison of a 64 bit multiplier against its specification is done there once, not in every scheduling query. */
    const uint32_t w1 = vfb_ppm(t1, ppm), w2 = vfb_ppm(t2, ppm);
    ASSUME(w1 <= t1 && w2 <= t2);                    /* conclusion of lemma c22_ppm */
    CHECK(t2u < 65536u, "elapsed times are inside the range of lemma c22_ppm");
    CHECK(env_n_evt == 1, "exactly one connection event is scheduled");
    CHECK((uint64_t)env_start + w1 <= (uint64_t)t1, "the receive window opens early by at least the combined sleep clock accuracy over the elapsed time");
    CHECK((uint64_t)env_end >= (uint64_t)t2 + w2, "the receive window closes late by at least the combined sleep clock accuracy over the elapsed time");
}

void harness(void)
{
    vf_global_ctors();
    const int      cfg  = (int)CASE(CFG);
    const unsigned sca  = (unsigned)CASE(SCA);
    const int      mode = (int)CASE(MODE);

    env_reset();
    vfb_reset_buffers(cfg);

    sym_misc(cfg, sca);
    sym_parameters();
    const uint32_t ppm = vfb_configured_sca(cfg) + SCA_PPM[sca];
    CHECK(vfb_configured_sca(cfg) == (cfg == 0 ? 500u : 50u), "configured sleep clock accuracy as instantiated");

    const unsigned which = (unsigned)CASE(WIN);       /* 0 connecting (transmit window of the connect request), 1 connected (no window), 2 after a connection update (window) */
    st[VFB_STATE] = which == 0 ? VFB_ST_CONNECTING : which == 1 ? VFB_ST_CONNECTED : VFB_ST_CHANGED;
    const uint32_t wsizeu = which == 1 ? 0u : (uint32_t)in_range(1, 8);                   /* a window exists after connect / update only */
    const uint32_t woffu  = which == 1 ? 0u : (uint32_t)in_range(0, 3201);
    const uint32_t wsize = wsizeu * 1250u, woff = woffu * 1250u;
    st[VFB_WIN_SIZE]   = wsize;
    st[VFB_WIN_OFFSET] = woff;
    const uint32_t T0u = (uint32_t)in_range(0, 28800);               /* Inv: a sum of intervals, i.e. a multiple of 1.25 ms; <= 36 s */
    const uint32_t T0 = T0u * 1250u;
    st[VFB_TIME_SINCE_LAST] = T0;
    vfb_set_state(cfg, st);

    const uint32_t interval = st[VFB_INTERVAL];
    uint32_t post[VFB_NFIELDS];

    if (mode == 0) {
        const uint32_t r = vfb_setup_next_connection_event(cfg);
        vfb_get_state(cfg, post);
        OBSERVE(r); OBSERVE(env_start); OBSERVE(env_end); OBSERVE(env_channel); OBSERVE(env_interval);
        check_window(T0, T0u, woffu, wsizeu, ppm);
        CHECK(env_interval == interval, "the radio is told the connection interval");
        CHECK(env_channel < 37, "a data channel is used");
        CHECK(post[VFB_TIME_SINCE_LAST] == T0 && post[VFB_EVENT_COUNTER] == st[VFB_EVENT_COUNTER], "scheduling does not move time or counter");
    } else {
        const unsigned flags = (unsigned)in_range(0, 63);
        if (mode == 1) vfb_timeout(cfg);
        else           vfb_end_event(cfg, flags);
        vfb_get_state(cfg, post);
        for (int i = 0; i < VFB_NFIELDS; ++i) OBSERVE(post[i]);
        OBSERVE(env_n_evt); OBSERVE(env_start); OBSERVE(env_end); OBSERVE(env_channel); OBSERVE(env_interval);

        const int dropped = post[VFB_STATE] == VFB_ST_ADVERTISING;
        const uint16_t k = (uint16_t)(post[VFB_EVENT_COUNTER] - st[VFB_EVENT_COUNTER]);

        if (mode == 1) {
            const int expired    = T0 >= st[VFB_CONN_TIMEOUT];
            const int six_missed = which == 0 && (uint64_t)T0 >= 5ull * interval;
            if (dropped) {
                CHECK(expired || six_missed, "the link is dropped for supervision timeout only after no packet for the supervision timeout (or six windows of a new connection)");
                if (which != 0) CHECK(post[VFB_DISC_REASON] == 0x08, "reason is connection timeout");
                CHECK(env_n_evt == 0, "no connection event is scheduled on a dropped link");
            } else {
                CHECK((uint64_t)T0 < (uint64_t)st[VFB_CONN_TIMEOUT] + interval, "a link whose supervision timeout expired a whole interval ago is dropped");
                CHECK(k == 1, "a lost event advances the event counter by one");
                CHECK(post[VFB_TIME_SINCE_LAST] == T0 + interval, "a lost event moves the next event by exactly one interval");
                CHECK(post[VFB_WIN_SIZE] == wsize && post[VFB_WIN_OFFSET] == woff, "the transmit window stays until the first packet");
                check_window(T0 + interval, T0u + s_interval_units, woffu, wsizeu, ppm);
                CHECK(env_interval == interval, "the radio is told the connection interval");
            }
        } else {
            CHECK(!dropped, "a connection event with a received packet does not end the connection");
            if (!dropped) {
                CHECK(k >= 1 && k <= st[VFB_LATENCY] + 1u, "between 1 and latency+1 intervals to the next event");
                CHECK(post[VFB_TIME_SINCE_LAST] == (uint32_t)k * interval, "the next event is a whole number of intervals after the new anchor");
                CHECK(post[VFB_WIN_SIZE] == 0, "the transmit window is used up by the first packet");
                CHECK(post[VFB_STATE] == VFB_ST_CONNECTED, "connection established / in its normal state after a packet");
                check_window((uint32_t)k * interval, (uint32_t)k * s_interval_units, 0, 0, ppm);
                CHECK(env_interval == interval, "the radio is told the connection interval");
            }
        }
        if (!dropped) {
            CHECK(post[VFB_CHANNEL_INDEX] == (st[VFB_CHANNEL_INDEX] + k) % 37u, "channel index advances with the event counter");
            CHECK(post[VFB_INTERVAL] == interval && post[VFB_CONN_TIMEOUT] == st[VFB_CONN_TIMEOUT] && post[VFB_CUM_SCA] == ppm, "parameters unchanged");
        }
    }
    WITNESS();
}
