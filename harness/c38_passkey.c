/* C38 — generated passkeys are six-digit values.
 *
 * Real code: security_tool_box::create_passkey() of bluetoe/bindings/nordic/nrf52/security_tool_box.cpp (unchanged), reading
 * the emulated RNG peripheral (c37_hw.h), whose bytes are symbolic: "for every random byte stream".
 *
 * The result is the 128-bit temporary key TK of legacy passkey entry (Core spec Vol 3 Part H 2.3.5.3: the 6 digit passkey,
 * 000000 ... 999999, zero extended to 128 bit), least significant octet first; the security manager displays
 * read_32bit(result) (io_capabilities.hpp, pairing_numeric_output) and uses the whole array as TK.
 *
 *   MODE 0  range:        for every RNG stream the 128-bit value is <= 999999.
 *   MODE 1  surjective:   for every target t in 0..999999 (t symbolic) there is an RNG stream for which create_passkey()
 *                         returns t. The stream is given explicitly (the octets of t, in the order in which the generator
 *                         consumes them; C++ leaves the order of the reads in `a | (b << 8)` to the compiler, so all 8
 *                         possible orders are tried and one has to work); the remaining stream bytes are arbitrary.
 *   MODE 2  bias bound:   "uniformly chosen" is a counting statement, a SAT solver does not count. What is decided
 *                         instead is a sufficient structural lemma: passkey == R mod 1000000, R being a 32-bit number made
 *                         of 4 distinct fresh RNG bytes (uniform if the RNG is). Then every passkey has 4294 or 4295 of
 *                         the 2^32 preimages: no value is more than 1/4294 (0.024 %) more likely than another.
 *                         An exactly uniform generator (rejection sampling) would be fine by the property but not by this
 *                         lemma; MODE 2 then has to be restated - it is a lemma about the present generator.
 */
#include "c37_hw.h"

void stb_create_passkey(uint8_t* result);

#define PASSKEY_RNG_BYTES 16      /* bound: create_passkey may consume at most 16 RNG bytes */

/* position in the RNG stream of octet j (0 = least significant) of a 32-bit number composed as lo16 | hi16 << 16,
 * each half as lo8 | hi8 << 8, when the reads are evaluated in the order `ord` (bit 0: most significant half first;
 * bit 1 / bit 2: most significant octet first within the half that is read first / second) */
static unsigned stream_pos(unsigned ord, unsigned j)
{
    const unsigned half = j / 2, within = j % 2;
    const unsigned first = (half == 0) == ((ord & 1) == 0);
    const unsigned swap = first ? (ord >> 1) & 1 : (ord >> 2) & 1;
    return (first ? 0 : 2) + (within ^ swap);
}

static uint32_t compose(unsigned ord, const uint8_t* s)
{
    uint32_t r = 0;
    for (unsigned j = 0; j < 4; ++j) r |= (uint32_t)s[stream_pos(ord, j)] << (8 * j);
    return r;
}

/* runs the generator on the current RNG stream; returns 1 iff octets 4..15 of the result are zero, *value = octets 0..3 */
static int passkey(uint32_t* value)
{
    uint8_t* out = (uint8_t*)vf_alloc(16);
    hw_rng_pos = 0; hw_rng_rdy = 0;
    stb_create_passkey(out);
    /* the octets themselves are not OBSERVEd: which RNG byte ends up in which octet may legitimately differ between the two
     * compilers of the differential run (unspecified evaluation order); the CHECK conditions, which are folded into the
     * hash, compare the complete value with the stream in every mode */
    *value = (uint32_t)out[0] | ((uint32_t)out[1] << 8) | ((uint32_t)out[2] << 16) | ((uint32_t)out[3] << 24);
    int upper_zero = 1;
    for (unsigned i = 4; i < 16; ++i) upper_zero &= (out[i] == 0);
    return upper_zero;
}

void harness(void)
{
    vf_global_ctors();
    hw_init();
    const int mode = (int)CASE(MODE);
    hw_rng_fill(PASSKEY_RNG_BYTES);
    const uint32_t target = (uint32_t)in_range(0, 999999);
    uint32_t value = 0;

    if (mode == 0) {
        int upper_zero = passkey(&value);
        CHECK(upper_zero && value <= 999999, "a generated passkey is a value between 000000 and 999999");
    } else if (mode == 1) {
        uint8_t rest[PASSKEY_RNG_BYTES];
        memcpy(rest, hw_rng_stream, PASSKEY_RNG_BYTES);
        int reached = 0;
        for (unsigned ord = 0; ord < 8; ++ord) {
            memcpy(hw_rng_stream, rest, PASSKEY_RNG_BYTES);
            for (unsigned j = 0; j < 4; ++j) hw_rng_stream[stream_pos(ord, j)] = (uint8_t)(target >> (8 * j));
            int upper_zero = passkey(&value);
            reached |= (upper_zero && value == target);
        }
        CHECK(reached, "every value between 000000 and 999999 is generated for some random byte stream");
    } else {
        int upper_zero = passkey(&value);
        int lemma = 0;
        for (unsigned ord = 0; ord < 8; ++ord) lemma |= (value == compose(ord, hw_rng_stream) % 1000000u);
        CHECK(upper_zero && lemma && hw_rng_pos == 4, "the passkey is a 32-bit number made of 4 fresh RNG bytes, reduced modulo 1000000 (no value more than 1/4294 more likely than another)");
    }
    CHECK(!hw_fault, "the RNG peripheral is only used in the modelled way (known registers, at most 16 random bytes per passkey)");
    WITNESS();
}
