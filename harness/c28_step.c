/* C28 — a link is encrypted only with a key supplied for it.  Inductive step over the encryption procedure state.
 *
 * Real code: link_layer::handle_ll_control_data -> link_layer_security_impl::handle_encryption_pdus, transmit_pending_security_pdus,
 * reset_encryption (through disconnect() and timeout() -> force_disconnect()), link_state::is_encrypted, on the real
 * link_layer<server requiring encryption, encryption capable stub radio, stub security manager> (shim ll_d, VFD_CFG 2), state set directly.
 *
 * case parameters: STEP 0 one received control PDU (OPC, LEN concrete; everything else symbolic)
 *                       1 transmit_pending_security_pdus() (what end_event() calls after the received PDUs were handled)
 *                       2 local disconnect( reason )
 *                       3 timeout() with the supervision timeout expired (force_disconnect)
 *                       4 base case: state after construction
 * symbolic: has_key_, encryption_in_progress_, is_encrypted, pairing status, used features, flags, the PDU's payload (EDIV, Rand, SKDm, IVm),
 *           the answer of the key data base (found / not found, key) and of the radio (SKDs, IVs), the ghost state.
 *
 * Ghost state (what the statement talks about, updated by the harness from the observed inputs / outputs only):
 *   g_key   the key data base supplied a key for the EDIV/Rand of the last LL_ENC_REQ of this connection
 *   g_sent  LL_START_ENC_REQ was sent since that LL_ENC_REQ and the central's LL_START_ENC_RSP is still awaited
 *   legit   the link entered the encrypted state by a LL_START_ENC_RSP received while g_key && g_sent, and was not paused / closed since
 * Invariant Inv (holds after construction, preserved by every step => holds in every reachable state):
 *   I1 is_encrypted => legit                                    (the property)
 *   I2 has_key_ && !encryption_in_progress_ => g_key && g_sent  (the code only waits for LL_START_ENC_RSP if LL_START_ENC_REQ went out for a real key)
 *   I3 encryption_in_progress_ => (has_key_ == g_key) && !g_sent
 *   I4 g_sent => g_key
 *   I5 g_sent => has_key_ && !encryption_in_progress_           (while LL_START_ENC_RSP is awaited the code is ready to accept it)
 */
#include "c27_common.h"

static unsigned rd16(const uint8_t* p) { return (unsigned)p[0] | ((unsigned)p[1] << 8); }
static uint32_t rd32(const uint8_t* p) { return (uint32_t)p[0] | ((uint32_t)p[1] << 8) | ((uint32_t)p[2] << 16) | ((uint32_t)p[3] << 24); }

static int inv(int h, int p, int e, int g_key, int g_sent, int legit)
{
    return (!e || legit) && (!(h && !p) || (g_key && g_sent)) && (!p || (h == g_key && !g_sent)) && (!g_sent || g_key) && (!g_sent || (h && !p));
}

void harness(void)
{
    vf_global_ctors();
    const int      step = (int)CASE(STEP);
    const unsigned opc  = (unsigned)CASE(OPC);
    const unsigned len  = (unsigned)CASE(LEN);
    const unsigned n    = 2u + len;

    env_reset();
    vfd_reset_buffers();

    /* ---- inputs */
    sym_misc(2);
    sym_parameters();
    st[VFD_STATE]           = (uint32_t)in_range(VFD_ST_CONNECTING, VFD_ST_CHANGED);
    st[VFD_PROC_TIMEOUT]    = 0;
    st[VFD_FLAGS]           = (uint32_t)in_range(0, 127);
    int h = in_bool(), p = in_bool(), e = in_bool();
    int g_key = in_bool(), g_sent = in_bool(), legit = in_bool();
    st[VFD_PAIRING_STATUS]  = (uint32_t)in_range(0, 3);
    env_key_found = in_bool();
    in_bytes(env_key, 16);
    env_skds_lo = in_u32(); env_skds_hi = in_u32(); env_ivs = in_u32();
    env_pairing_status = (unsigned)in_range(0, 3);
    env_rx_encrypted = in_bool(); env_tx_encrypted = in_bool();
    const unsigned reason = in_u8();
    uint8_t* pdu = (uint8_t*)vf_alloc(n);
    in_bytes(pdu, n);
    pdu[0] = (uint8_t)((pdu[0] & 0x1c) | 3);
    pdu[1] = (uint8_t)len;
    pdu[2] = (uint8_t)opc;

    if (step == 4) {
        /* base case: what the constructor left */
        uint32_t s0[VFD_NFIELDS];
        vfd_get_state(s0);
        CHECK(inv((int)s0[VFD_HAS_KEY], (int)s0[VFD_ENC_IN_PROGRESS], (int)s0[VFD_ENCRYPTED], 0, 0, 0), "Inv holds after construction (nothing supplied, nothing sent)");
        CHECK(!s0[VFD_ENCRYPTED], "a new link layer is not encrypted");
        WITNESS();
        return;
    }

    ASSUME(inv(h, p, e, g_key, g_sent, legit));
    st[VFD_HAS_KEY] = (uint32_t)h; st[VFD_ENC_IN_PROGRESS] = (uint32_t)p; st[VFD_ENCRYPTED] = (uint32_t)e;
    if (step == 3) { st[VFD_TIME_SINCE_LAST] = st[VFD_CONN_TIMEOUT]; st[VFD_STATE] = VFD_ST_CONNECTED; }
    vfd_set_state(st);
    const int ext_reject = (st[VFD_USED_FEATURES] & FEAT_EXT_REJECT) != 0;

    /* ---- the step */
    int disc = 0;
    if (step == 0)      disc = vfd_handle_ll_control_data(pdu, n) & 1;
    else if (step == 1) vfd_transmit_pending_security_pdus();
    else if (step == 2) vfd_disconnect(reason);
    else                vfd_timeout();

    uint32_t post[VFD_NFIELDS];
    vfd_get_state(post);
    const int h1 = (int)post[VFD_HAS_KEY], p1 = (int)post[VFD_ENC_IN_PROGRESS], e1 = (int)post[VFD_ENCRYPTED];
    OBSERVE(disc); OBSERVE(h1); OBSERVE(p1); OBSERVE(e1); OBSERVE(env_n_tx); OBSERVE_BYTES(env_tx[0], 29);
    OBSERVE(env_rx_encrypted); OBSERVE(env_tx_encrypted); OBSERVE(env_n_find_key); OBSERVE(env_n_setup); OBSERVE(post[VFD_STATE]);

    const uint8_t* R  = env_tx[0];
    const unsigned rl = R[1], ro = R[2];

    /* ---- ghost update + what the statement demands of this step */
    if (step == 0 && opc == 0x03 && len == 23) {
        /* LL_ENC_REQ: Rand(8) EDIV(2) SKDm(8) IVm(4) */
        CHECK(env_n_find_key == 1, "LL_ENC_REQ: the key data base is asked once");
        CHECK(env_fk_rand_lo == rd32(&pdu[3]) && env_fk_rand_hi == rd32(&pdu[7]) && env_fk_ediv == rd16(&pdu[11]), "LL_ENC_REQ: the key is looked up for the EDIV/Rand of the central's request");
        CHECK(env_n_setup <= 1, "LL_ENC_REQ: encryption set up at most once");
        if (env_key_found && env_n_setup == 1) {
            int same = 1;
            for (int i = 0; i < 16; ++i) same &= env_setup_key[i] == env_key[i];
            CHECK(same, "LL_ENC_REQ: the radio is given exactly the key the key data base supplied");
            CHECK(env_setup_skdm_lo == rd32(&pdu[13]) && env_setup_skdm_hi == rd32(&pdu[17]) && env_setup_ivm == rd32(&pdu[21]), "LL_ENC_REQ: SKDm / IVm of the request are used");
        }
        CHECK(e1 == e, "LL_ENC_REQ alone does not change the reported encryption");
        CHECK(env_n_start_rx == 0 && env_n_start_tx == 0, "LL_ENC_REQ alone does not switch the radio to encrypted");
        g_key = env_key_found; g_sent = 0;
    } else if (step == 0 && opc == 0x06 && len == 1) {
        /* LL_START_ENC_RSP */
        const int allowed = g_key && g_sent;
        CHECK(!e1 || e || allowed, "LL_START_ENC_RSP makes the link encrypted only if a key was supplied for the last LL_ENC_REQ and LL_START_ENC_REQ was sent");
        CHECK(env_n_start_tx == 0 || allowed, "LL_START_ENC_RSP switches the transmitter to encrypted only within such a procedure");
        if (allowed) {
            CHECK(e1, "LL_START_ENC_RSP completes a started encryption procedure: the link is reported encrypted");
            CHECK(env_n_tx == 1 && ro == 0x06 && rl == 1, "LL_START_ENC_RSP is answered with LL_START_ENC_RSP");
            CHECK(env_tx_encrypted, "the answering LL_START_ENC_RSP is sent encrypted");
            legit = 1; g_sent = 0;          /* the start procedure is complete */
        } else {
            CHECK(!(env_n_tx >= 1 && ro == 0x06), "an unsolicited LL_START_ENC_RSP is not answered with LL_START_ENC_RSP");
        }
    } else if (step == 0 && (opc == 0x0A || opc == 0x0B) && len == 1) {
        /* LL_PAUSE_ENC_REQ / LL_PAUSE_ENC_RSP from the central: the link is back to unencrypted, a new start procedure is needed */
        CHECK(!e1, "pausing encryption returns the link to unencrypted");
        CHECK(env_n_start_rx == 0 && env_n_start_tx == 0, "pausing does not switch the radio to encrypted");
        g_key = 0; g_sent = 0; legit = 0;
    } else if (step == 0) {
        CHECK(e1 == e || (disc && !e1), "other control PDUs do not change the reported encryption");
        CHECK(env_n_start_rx == 0 && env_n_start_tx == 0, "other control PDUs do not switch the radio to encrypted");
        CHECK(env_n_find_key == 0 && env_n_setup == 0, "other control PDUs do not touch the key data base");
    } else if (step == 1) {
        CHECK(e1 == e, "sending pending security PDUs does not change the reported encryption");
        CHECK(env_n_start_tx == 0, "the transmitter is not switched by sending LL_START_ENC_REQ / a reject");
        if (!p) {
            CHECK(env_n_tx == 0 && env_n_start_rx == 0, "no LL_ENC_REQ is waiting: nothing is sent");
        } else {
            CHECK(env_n_tx == 1, "exactly one PDU answers the waiting LL_ENC_REQ");
            if (g_key) {
                CHECK(ro == 0x05 && rl == 1, "a known key: LL_START_ENC_REQ is sent");
                CHECK(env_n_start_rx == 1 && env_rx_encrypted, "the receiver is switched to encrypted with LL_START_ENC_REQ");
                g_sent = 1;
            } else {
                CHECK((ext_reject && ro == 0x11 && rl == 3 && R[3] == 0x03 && R[4] == 0x06) || (!ext_reject && ro == 0x0D && rl == 2 && R[3] == 0x06),
                      "an unknown key: the request is rejected with PIN or key missing (0x06)");
                CHECK(env_n_start_rx == 0, "an unknown key: the receiver is not switched to encrypted");
            }
        }
    } else {
        /* disconnect */
        CHECK(!e1, "disconnecting returns the link to unencrypted");
        CHECK(!env_rx_encrypted && !env_tx_encrypted, "disconnecting switches the radio back to unencrypted");
        CHECK(!p1 && !h1, "no encryption procedure of the closed connection stays pending (it would be continued on the next connection)");
        if (step == 3) CHECK(post[VFD_STATE] == VFD_ST_ADVERTISING, "supervision timeout ends the connection");
        g_key = 0; g_sent = 0; legit = 0;
    }

    CHECK(!e1 || legit, "the link is reported encrypted only after a start procedure with a supplied key and a sent LL_START_ENC_REQ");
    CHECK(inv(h1, p1, e1, g_key, g_sent, legit), "the encryption procedure state keeps its invariant (no stale key / procedure flags)");
    WITNESS();
}
