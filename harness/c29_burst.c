/* C29 (ii) — bursts: several control PDUs received in one connection event, each raising an event for the application, followed by
 * LL_TERMINATE_IND.  Every event has to reach the application (the event ring of connection_callbacks holds max_events = 4).
 *
 * Real code: link_layer::end_event -> handle_received_data -> handle_ll_control_data (xK) -> force_disconnect, connection_callbacks
 * (shim ll_d, VFD_CFG 0: receive buffer 100 bytes), receive ring filled through the radio interface (allocate_receive_buffer / received).
 *
 * case parameters: NK = K number of LL_REJECT_IND / LL_UNKNOWN_RSP PDUs before the LL_TERMINATE_IND (0..6), PRE state (2 connecting, 3 connected)
 * symbolic: error codes, reason, kind of each PDU (reject / unknown), event counter, connection parameters, event flags
 * Oracle: callbacks = [established if connecting] + one rejected/unknown per PDU with its code, in order + closed(reason), nothing else.
 */
#include "c27_common.h"

#define MAXK 6

void harness(void)
{
    vf_global_ctors();
    const unsigned K   = (unsigned)CASE(NK);
    const unsigned pre = (unsigned)CASE(PRE);

    env_reset();
    vfd_reset_buffers();

    sym_misc(0);
    sym_parameters();
    st[VFD_STATE] = pre;
    const unsigned hop   = (unsigned)in_range(5, 16);
    const unsigned flags = (unsigned)in_range(0, 63);
    unsigned code[MAXK]; int unk[MAXK];
    for (unsigned i = 0; i < MAXK; ++i) { code[i] = in_u8(); unk[i] = in_bool(); }
    const unsigned reason = in_u8();

    const int map_ok = vfd_set_channel_map(FULL_MAP, hop);
    CHECK(map_ok, "a full channel map is accepted");
    vfd_set_state(st);

    unsigned sn = 0;
    for (unsigned i = 0; i < K && i < MAXK; ++i) {
        uint8_t p[4] = { (uint8_t)(0x03 | (sn ? 0x08 : 0)), 2, (uint8_t)(unk[i] ? 0x07 : 0x0D), (uint8_t)code[i] };
        const int got = vfd_radio_receive(p, 4);
        CHECK(got, "the receive ring (100 bytes) has room for the burst");
        sn ^= 1;
    }
    uint8_t t[4] = { (uint8_t)(0x03 | (sn ? 0x08 : 0)), 2, 0x02, (uint8_t)reason };
    const int got = vfd_radio_receive(t, 4);
    CHECK(got, "the receive ring (100 bytes) has room for LL_TERMINATE_IND");
    env_reset();

    vfd_end_event(flags);

    uint32_t post[VFD_NFIELDS];
    vfd_get_state(post);
    OBSERVE(post[VFD_STATE]); OBSERVE(env_n_cb);
    CHECK(post[VFD_STATE] == VFD_ST_ADVERTISING, "LL_TERMINATE_IND ends the connection");

    const unsigned est = pre == VFD_ST_CONNECTING ? 1u : 0u;
    CHECK(env_n_cb == est + K + 1, "every event of the connection event is reported exactly once");
    if (est) CHECK(env_cb_kind[0] == VFD_CB_ESTABLISHED, "established is reported first");
    for (unsigned i = 0; i < K && i < MAXK; ++i) {
        const unsigned k = est + i;
        CHECK(env_cb_kind[k] == (unk[i] ? VFD_CB_UNKNOWN : VFD_CB_REJECTED) && env_cb_a[k] == code[i], "rejects / unknown responses are reported in order with their code");
        OBSERVE(env_cb_kind[k]);
    }
    CHECK(env_cb_kind[est + K] == VFD_CB_CLOSED && env_cb_a[est + K] == reason, "closed is reported last, with the reason of LL_TERMINATE_IND");
    CHECK(vfd_cb_pending() == 0, "no event is left undelivered");
    WITNESS();
}
