/* C19 (outgoing) — the real bluetoe::link_layer::ll_l2cap_sdu_buffer<Radio, Callbacks, MTU>: allocate_l2cap_transmit_buffer(),
 * commit_l2cap_transmit_buffer(), try_send_pdus() (through commit, next_ll_l2cap_received() and allocate_ll_transmit_buffer()).
 *
 * From construction the L2CAP layer allocates a buffer for an SDU of payload size N <= MTU (case parameter), fills it (LL header
 * bytes, L2CAP length = N, CID, payload: all symbolic), commits it, and then calls next_ll_l2cap_received() resp.
 * allocate_ll_transmit_buffer() ROUNDS times.  The radio below has a transmit buffer available or not (pattern AV, case
 * parameter), its maximum PDU size is TXMAX (header + layout overhead + payload).
 *
 * Oracle (from the property statement):
 *   - every PDU committed to the radio lies in the buffer the radio handed out and is not larger than max_tx_size()
 *   - the first is typed start (LLID 2), all others continuation (LLID 1); the length field is the PDU's payload size
 *   - the payloads are consecutive pieces of the SDU (L2CAP header + payload): one byte at a symbolic, i.e. universally
 *     quantified, position of the SDU is compared with the byte that went out for this position
 *   - an SDU that fits into one PDU is sent as one PDU; never more bytes than the SDU has; once everything went out nothing else is
 *     sent, the L2CAP buffer is not handed out again before the SDU is complete, and if the radio always has a buffer
 *     the SDU is complete after the commit
 *   - the radio's receive side is empty: nothing is delivered
 *
 * case parameters: CFG (shims/sdu.cpp), TXMAX, ROUNDS, N payload size of the SDU, AV bit i: the radio has a buffer for its i-th
 *                  allocation request, LL bit r: round r is next_ll_l2cap_received() (else allocate_ll_transmit_buffer()),
 *                  MAXCOPY = TXMAX (bound of the copy loop)
 */
#include "vf.h"

const uint8_t* vf_sdu_next_ll_l2cap_received(int cfg, unsigned long* out_size, int* where);
uint8_t* vf_sdu_allocate_l2cap_transmit_buffer(int cfg, unsigned long payload_size, unsigned long* out_size);
void vf_sdu_commit_l2cap_transmit_buffer(int cfg, uint8_t* buffer, unsigned long size);
uint8_t* vf_sdu_allocate_ll_transmit_buffer(int cfg, unsigned long payload_size, unsigned long* out_size);
void vf_sdu_commit_ll_transmit_buffer(int cfg, uint8_t* buffer, unsigned long size);

#ifdef VF_CBMC
/* CBMC's built-in memmove with a length that is symbolic after path merging does not finish: bounded byte loop (covered by the
 * unwinding assertions); source (transmit_buffer_) and destination (PDU buffer of the radio) are distinct objects, asserted. */
void* memmove(void* d, const void* s, size_t n)
{
    uint8_t* dp = (uint8_t*)d; const uint8_t* sp = (const uint8_t*)s;
    __CPROVER_assert(n <= MAXCOPY, "VFCHECK memmove: the SDU buffer never copies more than one PDU at once");
    __CPROVER_assert(n == 0 || __CPROVER_POINTER_OBJECT(d) != __CPROVER_POINTER_OBJECT(s), "VFCHECK memmove: source and destination are distinct objects");
    for (size_t i = 0; i < MAXCOPY && i < n; ++i) dp[i] = sp[i];
    return d;
}
#endif

#define NCFG 3
static const unsigned MTU[NCFG]  = { 65, 65, 40 };
static const unsigned LOVH[NCFG] = { 0, 1, 0 };

#define MAXREQ 16
static int cfg;
static unsigned mtu, llo, txmax;

/* SDU as the L2CAP layer wrote it */
static unsigned sdu_len;            /* L2CAP header + payload */
static unsigned J; static uint8_t sdu_byte_J;   /* compared position (in the SDU = behind LL header and overhead) and its value */

/* ---- environment: radio transmit side */
static int avail[MAXREQ]; static int n_req;
static uint8_t* txbuf; static unsigned long txbuf_size; static int handed_out;
static unsigned sent;               /* SDU bytes that went out so far */
static int n_pdus, n_frag, ll_phase;

uint8_t* vf_sdu_env_allocate_transmit_buffer(unsigned long size, unsigned long* out_size)
{
    int a = n_req < MAXREQ ? avail[n_req] : 0;
    ++n_req;
    CHECK(size <= txmax, "a transmit buffer larger than max_tx_size() is never requested");
    CHECK(size >= llo, "a requested transmit buffer has room for the LL header");
    if (!a || size > txmax || size < llo) { *out_size = 0; handed_out = 0; return 0; }
    txbuf_size = size; handed_out = 1;
    *out_size = size;
    return txbuf;
}
void vf_sdu_env_commit_transmit_buffer(uint8_t* buffer, unsigned long size)
{
    CHECK(handed_out && buffer == txbuf && size <= txbuf_size, "a committed PDU lies in the buffer the radio handed out");
    CHECK(size <= txmax, "every fragment is within the current maximum PDU size");
    if (!(handed_out && buffer == txbuf && size <= txbuf_size && size <= txmax && size >= llo)) return;
    handed_out = 0;
    if (ll_phase) { ++n_pdus; return; }          /* PDU of the link layer itself (allocate_ll/commit_ll) */
    unsigned body = (unsigned)size - llo;
    unsigned llid = buffer[0] & 3u;
    OBSERVE(llid); OBSERVE(buffer[1]); OBSERVE(size);
    if (n_frag == 0) CHECK(llid == 2, "the first fragment of an SDU is typed start");
    else             CHECK(llid == 1, "all further fragments of an SDU are typed continuation");
    CHECK(buffer[1] == body, "length field of a fragment is its payload size");
    CHECK(sent + body <= sdu_len, "never more bytes are sent than the SDU has");
    CHECK(sent < sdu_len, "nothing is sent after the SDU went out completely");
    CHECK(body != 0, "no empty fragments");
    if (n_frag == 0 && sdu_len + llo <= txmax) CHECK(body == sdu_len, "an SDU that fits into one PDU is sent unfragmented");
    if (J >= sent && J < sent + body) {
        CHECK(buffer[llo + (J - sent)] == sdu_byte_J, "concatenated fragment payloads equal the SDU");
        OBSERVE(buffer[llo + (J - sent)]);
    }
    sent += body;
    ++n_pdus; ++n_frag;
}
unsigned long vf_sdu_env_max_tx_size(void) { return txmax; }
const uint8_t* vf_sdu_env_next_received(unsigned long* out_size) { *out_size = 0; return 0; }
void vf_sdu_env_free_received(void) { CHECK(0, "nothing to free: the radio received nothing"); }
void vf_sdu_env_pdu_receive_data_callback(const uint8_t* buffer, unsigned long size) { (void)buffer; (void)size; CHECK(0, "no data callback: the radio received nothing"); }

void harness(void)
{
    vf_global_ctors();
    cfg = (int)CASE(CFG);
    txmax = (unsigned)CASE(TXMAX);
    int rounds = (int)CASE(ROUNDS);
    mtu = MTU[cfg]; llo = 2 + LOVH[cfg];

    /* case split: SDU payload size, which requests the radio can serve, what the link layer calls afterwards (all copy sizes
     * and loop counts become constants); inputs: every byte of the SDU incl. LL header and CID, the compared position */
    const unsigned n = (unsigned)CASE(N);
    const long av = (long)CASE(AV), ll = (long)CASE(LL);
    const int all_avail = av == 0xffff;
    for (int i = 0; i < MAXREQ; ++i) avail[i] = (int)((av >> i) & 1);
    uint8_t content[80];
    in_bytes(content, mtu + 4 + llo);
    J = (unsigned)in_range(0, mtu + 4 - 1);

    txbuf = (uint8_t*)vf_alloc(txmax);
    memset(txbuf, 0, txmax);

    unsigned long bsz = 7;
    uint8_t* b = vf_sdu_allocate_l2cap_transmit_buffer(cfg, n, &bsz);
    CHECK(b != 0 && bsz == n + 4 + llo, "an idle SDU buffer hands out a L2CAP transmit buffer of payload size plus L2CAP and LL header");
    if (!(b != 0 && bsz == n + 4 + llo)) return;
    for (unsigned i = 0; i < mtu + 4 + llo; ++i) if (i < bsz) b[i] = content[i];
    b[llo] = (uint8_t)n; b[llo + 1] = 0;         /* L2CAP length field */
    sdu_len = n + 4;
    sdu_byte_J = b[llo + J];

    vf_sdu_commit_l2cap_transmit_buffer(cfg, b, bsz);
    if (all_avail) CHECK(sent == sdu_len, "with transmit buffers available the whole SDU is sent at once");

    for (int r = 0; r < rounds; ++r) {
        unsigned long sz = 7; int where = 9;
        if ((ll >> r) & 1) {
            (void)vf_sdu_next_ll_l2cap_received(cfg, &sz, &where);
            CHECK(where == 0 && sz == 0, "nothing is delivered when nothing was received");
        } else {
            /* the link layer wants to send a PDU of its own: pending fragments go first */
            unsigned before = sent;
            uint8_t* lb = vf_sdu_allocate_ll_transmit_buffer(cfg, 2, &sz);
            if (lb != 0) {
                CHECK(sz == 2 + llo, "link layer transmit buffer has the requested payload size plus header");
                lb[0] = 3; lb[1] = 2;
                ll_phase = 1;
                vf_sdu_commit_ll_transmit_buffer(cfg, lb, sz);
                ll_phase = 0;
            }
            (void)before;
        }
        unsigned long s2 = 7;
        uint8_t* again = vf_sdu_allocate_l2cap_transmit_buffer(cfg, 1, &s2);
        CHECK(again == 0 || sent == sdu_len, "the L2CAP transmit buffer is not handed out again before the whole SDU went out");
    }
    OBSERVE(sent); OBSERVE(n_pdus);
    WITNESS();
}
