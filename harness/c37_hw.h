/* c37_hw.h — environment of the nRF52 security tool box, shared by the C37 and C38 harnesses:
 *
 *   - AES-128 as ONE function AES(key, block) on 128-bit numbers (most significant byte = byte 0 of FIPS-197's byte
 *     strings). Under CBMC it is an uninterpreted function: whatever is proved holds for every block cipher. Natively it
 *     is a real AES-128 (so that the sample data of the Core specification can be checked in the native runs).
 *   - emulation of the ECB and RNG peripherals behind the registers (vf_mmio_load / vf_mmio_store / vf_mmio_addr32);
 *   - micro-ecc (uECC_*) as contract stubs that record their arguments and return values chosen by the harness.
 */
#ifndef VF_C37_HW_H
#define VF_C37_HW_H
#include "vf.h"
#include "c37_mmio.h"

typedef unsigned __int128 u128;

/* ------------------------------------------------------------------------------------------ AES-128 */
#ifdef VF_CBMC
u128 __CPROVER_uninterpreted_aes(u128 key, u128 block);
static u128 AES(u128 key, u128 block) { return __CPROVER_uninterpreted_aes(key, block); }
#else
static uint8_t aes_sbox[256];
static void aes_init(void)
{
    if (aes_sbox[0]) return;
    uint8_t p = 1, q = 1;
    do {
        p = (uint8_t)(p ^ (p << 1) ^ ((p & 0x80) ? 0x1b : 0));
        q ^= (uint8_t)(q << 1); q ^= (uint8_t)(q << 2); q ^= (uint8_t)(q << 4);
        if (q & 0x80) q ^= 0x09;
#define AES_ROL8(x, s) ((uint8_t)(((x) << (s)) | ((x) >> (8 - (s)))))
        aes_sbox[p] = (uint8_t)(q ^ AES_ROL8(q, 1) ^ AES_ROL8(q, 2) ^ AES_ROL8(q, 3) ^ AES_ROL8(q, 4) ^ 0x63);
    } while (p != 1);
    aes_sbox[0] = 0x63;
}
static uint8_t aes_xt(uint8_t x) { return (uint8_t)((x << 1) ^ ((x & 0x80) ? 0x1b : 0)); }
/* FIPS-197 Cipher() for Nk = 4 on byte strings */
static void aes128_encrypt(const uint8_t key[16], const uint8_t in[16], uint8_t out[16])
{
    uint8_t rk[176], s[16], t[16];
    aes_init();
    memcpy(rk, key, 16);
    uint8_t rcon = 1;
    for (unsigned i = 16; i < 176; i += 4) {
        uint8_t w[4] = { rk[i - 4], rk[i - 3], rk[i - 2], rk[i - 1] };
        if (i % 16 == 0) {
            uint8_t w0 = w[0];
            w[0] = (uint8_t)(aes_sbox[w[1]] ^ rcon); w[1] = aes_sbox[w[2]]; w[2] = aes_sbox[w[3]]; w[3] = aes_sbox[w0];
            rcon = aes_xt(rcon);
        }
        for (unsigned j = 0; j < 4; ++j) rk[i + j] = (uint8_t)(rk[i + j - 16] ^ w[j]);
    }
    for (unsigned i = 0; i < 16; ++i) s[i] = (uint8_t)(in[i] ^ rk[i]);
    for (unsigned round = 1; round <= 10; ++round) {
        for (unsigned c = 0; c < 4; ++c)
            for (unsigned r = 0; r < 4; ++r) t[c * 4 + r] = aes_sbox[s[((c + r) % 4) * 4 + r]];      /* SubBytes + ShiftRows */
        if (round != 10)
            for (unsigned c = 0; c < 4; ++c) {                                                       /* MixColumns */
                uint8_t* a = &t[c * 4];
                uint8_t a0 = a[0], a1 = a[1], a2 = a[2], a3 = a[3], x = (uint8_t)(a0 ^ a1 ^ a2 ^ a3);
                a[0] = (uint8_t)(a0 ^ x ^ aes_xt((uint8_t)(a0 ^ a1)));
                a[1] = (uint8_t)(a1 ^ x ^ aes_xt((uint8_t)(a1 ^ a2)));
                a[2] = (uint8_t)(a2 ^ x ^ aes_xt((uint8_t)(a2 ^ a3)));
                a[3] = (uint8_t)(a3 ^ x ^ aes_xt((uint8_t)(a3 ^ a0)));
            }
        for (unsigned i = 0; i < 16; ++i) s[i] = (uint8_t)(t[i] ^ rk[round * 16 + i]);
    }
    memcpy(out, s, 16);
}
static u128 AES(u128 key, u128 block)
{
    uint8_t k[16], b[16], c[16];
    for (unsigned i = 0; i < 16; ++i) { k[i] = (uint8_t)(key >> (8 * (15 - i))); b[i] = (uint8_t)(block >> (8 * (15 - i))); }
    aes128_encrypt(k, b, c);
    u128 r = 0;
    for (unsigned i = 0; i < 16; ++i) r = (r << 8) | c[i];
    return r;
}
#endif

/* 128-bit number of a byte string, most significant byte first */
static u128 num_be(const uint8_t* p)
{
    u128 r = 0;
    for (unsigned i = 0; i < 16; ++i) r = (r << 8) | p[i];
    return r;
}
static void bytes_be(u128 v, uint8_t* p)
{
    for (unsigned i = 0; i < 16; ++i) p[i] = (uint8_t)(v >> (8 * (15 - i)));
}

/* ------------------------------------------------------------------------------------------ peripherals
 * ECB (nRF52 product specification, "ECB — AES electronic codebook mode encryption"): ECBDATAPTR points to
 * KEY[16] | CLEARTEXT[16] | CIPHERTEXT[16], all three in FIPS-197 byte order; TASKS_STARTECB encrypts CLEARTEXT with KEY
 * into CIPHERTEXT and raises EVENTS_ENDECB. EVENTS_ERRORECB (operation aborted by a conflicting CCM/AAR operation)
 * is never raised here: stated assumption (the source asserts it).
 * RNG: TASKS_START produces a new random byte in VALUE and raises EVENTS_VALRDY. The bytes come from hw_rng_stream[],
 * which the harness fills with symbolic bytes beforehand (unconditional draws, see HARNESS_GUIDE). */
enum { R_STARTECB, R_ENDECB, R_ERRORECB, R_ECBDATAPTR, R_RNG_START, R_RNG_VALRDY, R_RNG_VALUE, R_COUNT };
const void* stb_reg(int id);

static const uint8_t* hw_reg[R_COUNT];
static uint32_t hw_ecb_end, hw_ecb_dataptr;
static uint8_t* hw_dma_object[4];          /* host objects that have been given a 32-bit bus address */
static unsigned hw_dma_objects;
static unsigned hw_ecb_runs;
#define HW_DMA_BASE 0x20000000u
#define HW_DMA_STEP 0x00001000u

#define HW_RNG_MAX 48
static uint8_t  hw_rng_stream[HW_RNG_MAX];
static unsigned hw_rng_len, hw_rng_pos;
static uint32_t hw_rng_rdy, hw_rng_value;
static int      hw_fault;                  /* the code used the peripherals in a way the emulation does not model */

static void hw_init(void)
{
    for (int i = 0; i < R_COUNT; ++i) hw_reg[i] = (const uint8_t*)stb_reg(i);
    hw_ecb_end = 0; hw_ecb_dataptr = 0; hw_dma_objects = 0; hw_ecb_runs = 0;
    hw_rng_len = 0; hw_rng_pos = 0; hw_rng_rdy = 0; hw_rng_value = 0; hw_fault = 0;
}

/* n symbolic RNG bytes */
static void hw_rng_fill(unsigned n)
{
    for (unsigned i = 0; i < n; ++i) hw_rng_stream[i] = in_u8();
    hw_rng_len = n; hw_rng_pos = 0;
}

uint32_t vf_mmio_addr32(uint8_t* host_object)
{
    for (unsigned i = 0; i < hw_dma_objects; ++i)
        if (hw_dma_object[i] == host_object) return HW_DMA_BASE + i * HW_DMA_STEP;
    if (hw_dma_objects == 4) { hw_fault = 1; return 0; }
    hw_dma_object[hw_dma_objects] = host_object;
    return HW_DMA_BASE + hw_dma_objects++ * HW_DMA_STEP;
}

static void hw_ecb_run(void)
{
    unsigned slot = (hw_ecb_dataptr - HW_DMA_BASE) / HW_DMA_STEP;
    if (hw_ecb_dataptr < HW_DMA_BASE || (hw_ecb_dataptr - HW_DMA_BASE) % HW_DMA_STEP != 0 || slot >= hw_dma_objects) { hw_fault = 1; return; }
    uint8_t* block = hw_dma_object[slot];
    bytes_be(AES(num_be(block), num_be(block + 16)), block + 32);
    ++hw_ecb_runs;
    hw_ecb_end = 1;
}

uint32_t vf_mmio_load(uint8_t* reg)
{
    if (reg == hw_reg[R_ENDECB])     return hw_ecb_end;
    if (reg == hw_reg[R_ERRORECB])   return 0;
    if (reg == hw_reg[R_RNG_VALRDY]) return hw_rng_rdy;
    if (reg == hw_reg[R_RNG_VALUE])  return hw_rng_value;
    hw_fault = 1;
    return 0;
}

void vf_mmio_store(uint8_t* reg, uint32_t value)
{
    if (reg == hw_reg[R_ECBDATAPTR])      hw_ecb_dataptr = value;
    else if (reg == hw_reg[R_STARTECB])   { if (value) hw_ecb_run(); }
    else if (reg == hw_reg[R_ENDECB])     hw_ecb_end = value;
    else if (reg == hw_reg[R_RNG_VALRDY]) hw_rng_rdy = value;
    else if (reg == hw_reg[R_RNG_START]) {
        if (value) {
            if (hw_rng_pos < hw_rng_len) hw_rng_value = hw_rng_stream[hw_rng_pos];
            else hw_fault = 1;                /* more random bytes requested than the harness provided */
            ++hw_rng_pos;
            hw_rng_rdy = 1;
        }
    }
    else hw_fault = 1;
}

/* ------------------------------------------------------------------------------------------ micro-ecc
 * Contract stubs (uECC.c is third party code; P-256 arithmetic is outside the claim). Key format of this uECC version:
 * public key = X | Y, private key, shared secret: each a big-endian 32 byte number ("vli_bytesToNative" reverses). */
#ifdef VF_REAL
typedef int      uecc_int;
typedef unsigned uecc_unsigned;
#else
typedef uint32_t uecc_int;       /* the types ll2c derives from the IR declarations */
typedef uint32_t uecc_unsigned;
#endif
typedef uecc_int (*uecc_rng_function)(uint8_t* dest, uecc_unsigned size);

static uecc_rng_function uecc_rng;
static unsigned uecc_valid_calls, uecc_make_calls, uecc_secret_calls;
static uint8_t  uecc_seen_public[64], uecc_seen_private[32];
static uint8_t  uecc_give_public[64], uecc_give_private[32], uecc_give_secret[32];
static uecc_int uecc_give_valid;
static uint8_t  uecc_rng_bytes[32];
static uecc_int uecc_rng_rc;

uecc_int uECC_valid_public_key(uint8_t* public_key)
{
    ++uecc_valid_calls;
    memcpy(uecc_seen_public, public_key, 64);
    return uecc_give_valid;
}

void uECC_set_rng(uecc_rng_function f) { uecc_rng = f; }

uecc_int uECC_make_key(uint8_t* public_key, uint8_t* private_key)
{
    ++uecc_make_calls;
    /* like the real uECC_make_key: the randomness for the private key is taken from the registered RNG function */
    if (uecc_rng) uecc_rng_rc = uecc_rng(uecc_rng_bytes, 32);
    memcpy(public_key, uecc_give_public, 64);
    memcpy(private_key, uecc_give_private, 32);
    return 1;
}

uecc_int uECC_shared_secret(uint8_t* public_key, uint8_t* private_key, uint8_t* secret)
{
    ++uecc_secret_calls;
    memcpy(uecc_seen_public, public_key, 64);
    memcpy(uecc_seen_private, private_key, 32);
    memcpy(secret, uecc_give_secret, 32);
    return 1;
}

#endif
