/* C05 — encryption protected values / client configurations are never exposed or modified on an unencrypted link.
 *
 * Self-composition (noninterference): the same request is executed on two server states that agree on everything
 * that is NOT protected (unprotected values, unprotected CCCD bits, write queue, request bytes, pairing status) and
 * are independent in everything that IS protected (protected bound values, what the protected read handler returns,
 * protected CCCD bits).  On a link that is not encrypted
 *   - the two outputs must be byte-identical (nothing of a protected value / configuration is returned),
 *   - all protected state must be unchanged afterwards, the protected user handlers are never invoked,
 *   - the unprotected post-states of both runs are identical (nothing protected is copied anywhere),
 *   - a request that directly addresses a protected attribute is answered by an Error Response with
 *     Insufficient Authentication (0x05) when no key exists and Insufficient Encryption (0x0F) otherwise.
 *
 * case parameters: CFG (0/1/2, see shims/att_c05.cpp), MODE; H1/H2/H3 see below
 *   MODE 0  l2cap_input: one request, OPC and LEN concrete, every other byte symbolic
 *   MODE 1  Execute Write (0x18) on a symbolic, well-formed write queue (QN elements with QL data bytes each)
 *   MODE 2  l2cap_output: a queued notification / indication for a symbolic characteristic
 */
#include "vf.h"

void     vf_c05_set_values(const uint8_t* p);
void     vf_c05_get_values(uint8_t* p);
void     vf_c05_reset(int cfg);
void     vf_c05_set_cccd(int cfg, unsigned bits);
unsigned vf_c05_get_cccd(int cfg);
void     vf_c05_set_queue(int cfg, const uint8_t* bytes, size_t n);
size_t   vf_c05_get_queue(int cfg, uint8_t* bytes);
void     vf_c05_input(int cfg, const uint8_t* in, size_t in_size, uint8_t* out, size_t* out_size, int encrypted, int pairing);
int      vf_c05_queue(int cfg, size_t cccd_index, int indication);
void     vf_c05_output(int cfg, uint8_t* out, size_t* out_size, int encrypted, int pairing);

/* ---- expected attribute table, written from the declarations in the shim by the GATT rules and the documented
 *      inheritance of requires_encryption / no_encryption_required (may_require_encryption does not change it) */
#define NVAL 5           /* bound value slots: v4a v4b v4c v4d v20 */
static const int      VAL_OFF[NVAL]    = { 0, 4, 8, 12, 16 };
static const int      VAL_LEN[NVAL]    = { 4, 4, 4, 4, 20 };
#define NCFG 3
static const uint16_t VAL_HANDLES[NCFG][NVAL] = { { 3, 6, 12, 14, 9 }, { 3, 6, 12, 14, 9 }, { 3, 6, 0, 0, 0 } };   /* 0: slot not used */
static const int      VAL_PROT[NCFG][NVAL] = { { 1, 0, 0, 1, 1 },      /* CFG 0 */
                                               { 0, 1, 1, 0, 0 },      /* CFG 1 */
                                               { 1, 0, 0, 0, 0 } };    /* CFG 2 */
static const uint16_t HANDLER_HANDLES[NCFG] = { 17, 17, 0 };           /* handler based value: protected where it exists */
#define NCCCD 3
static const uint16_t CCCD_HANDLES[NCFG][NCCCD]  = { { 4, 7, 15 }, { 4, 7, 15 }, { 4, 0, 0 } };
static const int      NCCCDS[NCFG] = { 3, 3, 1 };
static const uint16_t CCCD_VALUE_HANDLE[NCCCD] = { 3, 6, 14 };
static const int      CCCD_PROT[NCFG][NCCCD] = { { 1, 0, 1 }, { 0, 1, 0 }, { 1, 0, 0 } };
#define VAL_HANDLE  (VAL_HANDLES[cfg])
#define CCCD_HANDLE (CCCD_HANDLES[cfg])
#define HANDLER_HANDLE (HANDLER_HANDLES[cfg])
#define QSIZE 32

static int cfg;

static int handle_protected(uint16_t h)
{
    if (h == 0) return 0;
    if (h == HANDLER_HANDLE) return 1;
    for (int i = 0; i < NVAL; ++i)  if (VAL_HANDLE[i] == h)  return VAL_PROT[cfg][i];
    for (int i = 0; i < NCCCD; ++i) if (CCCD_HANDLE[i] == h) return CCCD_PROT[cfg][i];
    return 0;
}

/* ---- environment: the user's handlers of the handler based (protected) characteristic.  What the read handler would
 *      return is a secret of the current run. */
static uint8_t hsecret[8];
static int     handler_reads, handler_writes;

uint8_t vf_c05_env_read(size_t offset, size_t read_size, uint8_t* out, size_t* out_size)
{
    ++handler_reads;
    if (offset > sizeof hsecret) return 0x07;
    size_t n = sizeof hsecret - offset;
    if (n > read_size) n = read_size;
    for (size_t i = 0; i < n; ++i) out[i] = hsecret[offset + i];
    *out_size = n;
    return 0;
}

uint8_t vf_c05_env_write(size_t offset, size_t write_size, const uint8_t* value)
{
    ++handler_writes;
    (void)offset; (void)write_size; (void)value;
    return 0;
}

/* ---- one run */
struct state {
    uint8_t  values[36];
    unsigned cccd;
    uint8_t  hsecret[8];
};

struct result {
    uint8_t  out[23];
    size_t   out_size;
    uint8_t  values[36];
    unsigned cccd;
    uint8_t  queue[QSIZE];
    size_t   queue_end;
};

static int mode, pairing;
static size_t len;
static uint8_t* in;                 /* MODE 0/1: request */
static uint8_t queue[QSIZE];        /* MODE 1: write queue pre-state */
static size_t  queue_end;
static size_t  ntf_index;           /* MODE 2 */
static int     ntf_indication;

static void run(const struct state* s, struct result* r)
{
    vf_c05_reset(cfg);
    vf_c05_set_values(s->values);
    vf_c05_set_cccd(cfg, s->cccd);
    for (int i = 0; i < 8; ++i) hsecret[i] = s->hsecret[i];
    handler_reads = handler_writes = 0;

    uint8_t* out = vf_alloc(23);
    size_t os = 23;
    if (mode == 2) {
        vf_c05_queue(cfg, ntf_index, ntf_indication);
        vf_c05_output(cfg, out, &os, 0, pairing);
    } else {
        if (mode == 1) vf_c05_set_queue(cfg, queue, queue_end);
        vf_c05_input(cfg, in, len, out, &os, 0, pairing);
    }
    CHECK(os <= 23, "output fits the ATT MTU");
    r->out_size = os <= 23 ? os : 23;
    for (size_t i = 0; i < 23; ++i) r->out[i] = i < r->out_size ? out[i] : 0;
    OBSERVE(os); OBSERVE_BYTES(r->out, r->out_size);

    vf_c05_get_values(r->values);
    r->cccd = vf_c05_get_cccd(cfg);
    r->queue_end = vf_c05_get_queue(cfg, r->queue);
    OBSERVE_BYTES(r->values, 36); OBSERVE(r->cccd); OBSERVE(r->queue_end);

    /* protected state is untouched */
    for (int v = 0; v < NVAL; ++v)
        if (VAL_PROT[cfg][v])
            for (int i = 0; i < VAL_LEN[v]; ++i)
                CHECK(r->values[VAL_OFF[v] + i] == s->values[VAL_OFF[v] + i], "protected bound value is not modified on an unencrypted link");
    for (int c = 0; c < NCCCD; ++c)
        if (CCCD_PROT[cfg][c])
            CHECK(((r->cccd >> (2 * c)) & 3) == ((s->cccd >> (2 * c)) & 3), "protected client configuration is not modified on an unencrypted link");
    CHECK(handler_reads == 0,  "read handler of a protected characteristic is not invoked on an unencrypted link");
    CHECK(handler_writes == 0, "write handler of a protected characteristic is not invoked on an unencrypted link");
}

static void expect_security_error(const struct result* r, uint8_t opcode, uint16_t handle)
{
    uint8_t code = pairing == 0 ? 0x05 : 0x0f;
    CHECK(r->out_size == 5 && r->out[0] == 0x01, "access to a protected attribute on an unencrypted link is answered by an Error Response");
    CHECK(r->out[1] == opcode, "Error Response names the rejected request");
    CHECK(r->out[2] == (handle & 0xff) && r->out[3] == (handle >> 8), "Error Response names the protected attribute");
    CHECK(r->out[4] == code, "Insufficient Authentication (0x05) without key, Insufficient Encryption (0x0F) with key");
}

void harness(void)
{
    vf_global_ctors();
    cfg  = (int)CASE(CFG);
    mode = (int)CASE(MODE);
    pairing = (int)in_range(0, 3);

    /* two states: equal in the unprotected part, independent in the protected part */
    struct state a, b;
    in_bytes(a.values, 36);
    in_bytes(b.values, 36);
    a.cccd = (unsigned)in_range(0, 63);
    b.cccd = (unsigned)in_range(0, 63);
    in_bytes(a.hsecret, 8);
    in_bytes(b.hsecret, 8);
    for (int v = 0; v < NVAL; ++v)
        if (!VAL_PROT[cfg][v])
            for (int i = 0; i < VAL_LEN[v]; ++i) b.values[VAL_OFF[v] + i] = a.values[VAL_OFF[v] + i];
    for (int c = 0; c < NCCCD; ++c)
        if (!CCCD_PROT[cfg][c])
            b.cccd = (b.cccd & ~(3u << (2 * c))) | (a.cccd & (3u << (2 * c)));

    uint16_t handle = 0;
    if (mode == 0) {
        len = (size_t)CASE(LEN);
        in = vf_alloc(len);
        in_bytes(in, len);
        in[0] = (uint8_t)CASE(OPC);
        /* optional further case split: H1, H2, H3 != 0 fix the first, second, third 16 bit field of the PDU (handles of Read Multiple,
         * start / end handle of the range requests); 0 leaves the field symbolic */
        if (CASE(H1) != 0 && len >= 3) { in[1] = (uint8_t)CASE(H1); in[2] = (uint8_t)(CASE(H1) >> 8); }
        if (CASE(H2) != 0 && len >= 5) { in[3] = (uint8_t)CASE(H2); in[4] = (uint8_t)(CASE(H2) >> 8); }
        if (CASE(H3) != 0 && len >= 7) { in[5] = (uint8_t)CASE(H3); in[6] = (uint8_t)(CASE(H3) >> 8); }
        if (len >= 3) handle = (uint16_t)(in[1] | (in[2] << 8));
    } else if (mode == 1) {
        /* Execute Write on a well-formed queue: QN elements [size16][handle16][offset16][QL data bytes] */
        int qn = (int)CASE(QN), ql = (int)CASE(QL);
        len = 2;
        in = vf_alloc(len);
        in[0] = 0x18;
        in[1] = in_u8();
        queue_end = 0;
        for (int e = 0; e < qn; ++e) {
            size_t n = 4 + (size_t)ql;
            queue[queue_end] = (uint8_t)n; queue[queue_end + 1] = 0;
            /* the handle of a queued element was checked by Prepare Write: it is a handle of the server */
            uint16_t h = (uint16_t)in_range(1, 17);
            queue[queue_end + 2] = (uint8_t)h; queue[queue_end + 3] = 0;
            queue[queue_end + 4] = in_u8(); queue[queue_end + 5] = in_u8();
            for (int i = 0; i < ql; ++i) queue[queue_end + 6 + i] = in_u8();
            queue_end += 2 + n;
        }
        for (size_t i = queue_end; i < QSIZE; ++i) queue[i] = 0;
    } else {
        ntf_index = (size_t)in_range(0, NCCCDS[cfg] - 1);
        ntf_indication = in_bool();
    }

    /* Prepare Write to an unprotected CCCD dereferences a null client configuration in the prepare probe: a memory-safety
     * defect recorded under C01, not a matter of this property (the CCCD is unprotected).  Stated assumption. */
    if (mode == 0 && in[0] == 0x16 && len >= 5)
        ASSUME(!((handle == CCCD_HANDLE[0] || handle == CCCD_HANDLE[1] || handle == CCCD_HANDLE[2]) && handle != 0 && !handle_protected(handle)));

    struct result ra, rb;
    run(&a, &ra);
    run(&b, &rb);

    /* nothing protected flows into the output or into unprotected state */
    CHECK(ra.out_size == rb.out_size, "output size does not depend on protected values or configurations");
    for (int i = 0; i < 23; ++i)
        CHECK(ra.out[i] == rb.out[i], "output bytes do not depend on protected values or configurations");
    for (int v = 0; v < NVAL; ++v)
        if (!VAL_PROT[cfg][v])
            for (int i = 0; i < VAL_LEN[v]; ++i)
                CHECK(ra.values[VAL_OFF[v] + i] == rb.values[VAL_OFF[v] + i], "unprotected values afterwards do not depend on protected state");
    for (int c = 0; c < NCCCD; ++c)
        if (!CCCD_PROT[cfg][c])
            CHECK(((ra.cccd >> (2 * c)) & 3) == ((rb.cccd >> (2 * c)) & 3), "unprotected client configurations afterwards do not depend on protected state");
    CHECK(ra.queue_end == rb.queue_end, "write queue fill level does not depend on protected state");
    for (int i = 0; i < QSIZE; ++i)
        CHECK(ra.queue[i] == rb.queue[i], "write queue content does not depend on protected state");

    /* rejection code for direct access */
    if (mode == 0) {
        uint8_t opc = in[0];
        int direct = (opc == 0x0a && len == 3) || (opc == 0x0c && len == 5) || (opc == 0x12 && len >= 3)
                  || (opc == 0x16 && len >= 5) || (opc == 0x0e && len >= 5 && (len & 1));
        if (direct && handle_protected(handle))
            expect_security_error(&ra, opc, handle);
        if (opc == 0x52)
            CHECK(ra.out_size == 0, "Write Command is never answered");
    }
    if (mode == 2) {
        if (CCCD_PROT[cfg][ntf_index])
            CHECK(ra.out_size == 0, "no notification / indication of a protected characteristic on an unencrypted link");
        else if (ra.out_size != 0)
            CHECK(ra.out[1] == CCCD_VALUE_HANDLE[ntf_index] && ra.out[2] == 0, "notification carries the handle of the unprotected characteristic that was queued");
    }
    WITNESS();
}
