/* C18 — the real bluetoe::link_layer::pdu_ring_buffer<Size, read_buffer, Layout> against a FIFO list of (offset, length).
 *
 * A bounded history of L state changing operations from reset().  The storage is an exact-size heap object of Size bytes with
 * arbitrary (symbolic) initial content, so every access of the real code outside [storage, storage + Size) is a failed pointer
 * check.  The *order* of the state changing operations (commit = alloc_front + fill + push_front, pop = next_end + pop_end) is the
 * case parameter W (bit i set: operation i is a commit), everything else is symbolic in every case:
 *   commit: optionally first an alloc_front() of another symbolic size that is not committed (alloc_front is const), then
 *           alloc_front( size ), size in [memory_size(0), Size + 2] (too large requests included).  If it fails the predicate
 *           below is checked and the history ends (the ring is unchanged: the remaining operations from this state are the
 *           history of another case).  Otherwise a PDU is committed in the buffer: header written with the real Layout::header(),
 *           length field p with memory_size(p) <= size (smaller than the allocation is allowed by the API), two bytes at symbolic
 *           positions of the PDU get symbolic values (all other bytes are what the storage held: arbitrary initial bytes or
 *           remains of older PDUs), then push_front()
 *   pop:    next_end() compared with the model, pop_end().  (Only when the model holds a PDU: documented precondition; the
 *           enumerated orders W never pop more than was committed before.)
 *   after every operation: next_end() and more_than_one() against the model, and all stored PDUs are intact in the storage.
 * The cases enumerate all orders of length L in which no prefix has more pops than commits; every shorter order is a prefix of one.
 *
 * Reference model (from the class documentation of pdu_ring_buffer, not from the implementation):
 *   FIFO list of the committed PDUs: offset, memory length, header, and the value of ONE byte at a symbolic position inside
 *   the PDU taken when it was committed (the position is universally quantified, so "this byte is unchanged" is "all bytes
 *   are unchanged").
 * Checks:
 *   - next_end() returns exactly the oldest committed PDU (offset, memory length of its length field, header, byte), the
 *     empty buffer iff nothing is stored; more_than_one() iff two or more are stored
 *   - a buffer returned by alloc_front() has the requested size, lies inside the storage and overlaps no stored PDU
 *   - alloc_front() is idempotent
 *   - alloc_front() may fail only if the ring's rules leave no room:
 *       empty ring: the documentation guarantees one element of Size - 1  (requests <= Size - 1 must succeed)
 *       otherwise:  elements are stored contiguously in ring order, one byte stays free between the newest and the oldest
 *                   element; a request strictly smaller than a free contiguous region (behind the newest element up to the
 *                   end of the storage / from the start of the storage up to the oldest element / between newest and oldest
 *                   when the elements wrap) must succeed.  Requests that fit a region exactly are left to the implementation
 *                   (permissive reading of "one byte left").
 *
 * case parameters: CFG (shims/ring_pdu.cpp), L number of operations, W order (bit i: operation i is a commit, else a pop),
 *                  EXTRA 1: with the additional uncommitted alloc_front() before every commit
 */
#include "vf.h"

unsigned long vf_rp_size(int cfg);
void vf_rp_reset(int cfg, uint8_t* storage);
long vf_rp_alloc_front(int cfg, uint8_t* storage, unsigned long size, unsigned long* out_size);
void vf_rp_push_front(int cfg, uint8_t* storage, long off, unsigned long size);
long vf_rp_next_end(int cfg, uint8_t* storage, unsigned long* out_size);
void vf_rp_pop_end(int cfg, uint8_t* storage);
int  vf_rp_more_than_one(int cfg);
unsigned long vf_rp_memory_size(int cfg, unsigned long payload);
void vf_rp_set_header(int cfg, uint8_t* storage, long off, unsigned long size, unsigned header);
unsigned vf_rp_get_header(int cfg, uint8_t* storage, long off, unsigned long size);
void vf_rp_body(int cfg, uint8_t* storage, long off, unsigned long size, long* first, long* second);

#define NCFG 6
static const unsigned SIZES[NCFG] = { 40, 64, 40, 64, 12, 29 };
static const unsigned OVH[NCFG]   = { 2, 2, 3, 3, 2, 2 };      /* memory size of a PDU = payload length + OVH (default layout: 2 byte header; nRF encrypted layout: header + 1) */

#define MAXL 12
static int cfg, m_n, m_head;
static unsigned SZ, ovh;
static uint8_t* st;

/* model */
static long     m_off[MAXL + 1];
static unsigned m_len[MAXL + 1];
static unsigned m_hdr[MAXL + 1];
static unsigned m_j[MAXL + 1];
static uint8_t  m_val[MAXL + 1];

/* inputs, drawn up front */
static int      i_extra[MAXL];
static unsigned i_xsize[MAXL], i_size[MAXL], i_plen[MAXL], i_hdr0[MAXL], i_j[MAXL], i_j1[MAXL], i_j2[MAXL];
static uint8_t  i_v1[MAXL], i_v2[MAXL];

/* next_end() / more_than_one() against the model; all stored PDUs intact */
static void observe(void)
{
    unsigned long sz = 77;
    long o = vf_rp_next_end(cfg, st, &sz);
    OBSERVE(o); OBSERVE(sz);
    int stored = m_n - m_head;
    int more = vf_rp_more_than_one(cfg);
    OBSERVE(more);
    CHECK((more != 0) == (stored >= 2), "more_than_one() is true exactly when two or more PDUs are stored");
    if (stored == 0) {
        CHECK(o == -1 && sz == 0, "next_end() returns the empty buffer when no PDU is stored");
        return;
    }
    CHECK(o == m_off[m_head], "next_end() returns the oldest committed PDU (commit order)");
    CHECK(sz == m_len[m_head], "next_end() returns the PDU with the memory size of its length field");
    for (int i = m_head; i < m_n; ++i) {
        unsigned h = vf_rp_get_header(cfg, st, m_off[i], m_len[i]);
        OBSERVE(h);
        CHECK(h == m_hdr[i], "header of a stored PDU is the committed header");
        CHECK(st[m_off[i] + m_j[i]] == m_val[i], "bytes of a stored PDU are unchanged since commit");
    }
}

/* alloc_front(size) checked against the model; returns the offset or -1 */
static long alloc_checked(unsigned size)
{
    unsigned long osz = 77;
    long o = vf_rp_alloc_front(cfg, st, size, &osz);
    OBSERVE(o); OBSERVE(osz);

    /* when must the request succeed? */
    int stored = m_n - m_head;
    int must;
    if (stored == 0) {
        must = size <= SZ - 1;
    } else {
        long oldest = m_off[m_head];
        long front  = m_off[m_n - 1] + (long)m_len[m_n - 1];
        if (front <= oldest) must = (long)size < oldest - front;                               /* elements wrap: one free region */
        else                 must = (long)size < (long)SZ - front || (long)size < oldest;      /* behind the newest / before the oldest */
    }

    if (o == -1) {
        CHECK(osz == 0, "a failed allocation returns the empty buffer");
        /* known finding: a ring that was emptied by pop_end() keeps front_ == end_ at the position `pos` where the last PDU
         * ended and only offers the space behind or (minus one byte) before that position.  The region is exactly: ring empty,
         * request within the documented guarantee (<= Size - 1), request fits neither behind nor strictly before pos, and
         * the allocation failed.  (Placed behind the const call: nothing inside the call is masked.) */
        long pos = m_n > 0 ? m_off[m_n - 1] + (long)m_len[m_n - 1] : 0;
        VF_KNOWN_FINDING(c18_emptied_ring_keeps_split_position,
                         stored == 0 && size <= SZ - 1 && (long)size > (long)SZ - pos && (long)size >= pos);
        CHECK(!must, "alloc_front() fails only when the ring's rules leave no contiguous room of the requested size");
        return -1;
    }
    CHECK(o >= 0 && osz == size, "alloc_front() returns a buffer of the requested size");
    CHECK(o >= 0 && (unsigned long)o + osz <= SZ, "allocated buffer lies inside the ring's storage");
    if (!(o >= 0 && osz == size && (unsigned long)o + osz <= SZ)) return -1;
    for (int i = m_head; i < m_n; ++i)
        CHECK(o + (long)size <= m_off[i] || m_off[i] + (long)m_len[i] <= o, "allocated buffer overlaps no stored PDU");

    unsigned long osz2 = 78;
    long o2 = vf_rp_alloc_front(cfg, st, size, &osz2);
    CHECK(o2 == o && osz2 == osz, "alloc_front() is idempotent");
    return o;
}

/* returns 0 when the allocation failed (history ends) */
static int commit(int s, int extra)
{
    if (extra && i_extra[s])
        (void)alloc_checked(i_xsize[s]);

    unsigned size = i_size[s];
    long o = alloc_checked(size);
    if (o < 0) { ++m_n; return 0; }      /* history ends; m_n is bumped on this path too, only to keep it a constant for the solver where the paths join */

    /* fill the PDU: length field p with memory_size(p) <= size */
    unsigned p = i_plen[s];
    if (p > size - ovh) p = size - ovh;
    unsigned len = p + ovh;
    unsigned hdr = i_hdr0[s] | (p << 8);
    vf_rp_set_header(cfg, st, o, size, hdr);
    CHECK(vf_rp_get_header(cfg, st, o, size) == hdr, "the layout reads back the header it wrote");
    long b1, b2;
    vf_rp_body(cfg, st, o, size, &b1, &b2);
    CHECK(b1 == o + (long)ovh && b2 == o + (long)size, "the layout's body is the part of the buffer behind the header");
    /* payload: two symbolic bytes at symbolic positions behind the header fields */
    unsigned j1 = i_j1[s], j2 = i_j2[s];
    if (j1 >= 2 && j1 < len) st[o + j1] = i_v1[s];
    if (j2 >= 2 && j2 < len) st[o + j2] = i_v2[s];
    CHECK(vf_rp_get_header(cfg, st, o, size) == hdr, "writing the body does not change the header");

    unsigned j = i_j[s];
    if (j >= len) j = len - 1;
    m_off[m_n] = o; m_len[m_n] = len; m_hdr[m_n] = hdr; m_j[m_n] = j; m_val[m_n] = st[o + j];
    ++m_n;
    vf_rp_push_front(cfg, st, o, size);
    return 1;
}

void harness(void)
{
    vf_global_ctors();
    cfg = (int)CASE(CFG);
    int l = (int)CASE(L), extra = (int)CASE(EXTRA);
    unsigned long w = (unsigned long)CASE(W);
    SZ = SIZES[cfg]; ovh = OVH[cfg];

    st = (uint8_t*)vf_alloc(SZ);
    in_bytes(st, SZ);
    for (int s = 0; s < l; ++s) {
        i_extra[s] = in_bool();
        i_xsize[s] = (unsigned)in_range(ovh, SZ + 2);
        i_size[s] = (unsigned)in_range(ovh + 1, SZ + 2);
        i_plen[s] = (unsigned)in_range(1, 255);
        i_hdr0[s] = in_u8();
        i_j[s] = (unsigned)in_range(0, SZ + 1); i_j1[s] = (unsigned)in_range(0, SZ + 1); i_j2[s] = (unsigned)in_range(0, SZ + 1);
        i_v1[s] = in_u8(); i_v2[s] = in_u8();
    }

    CHECK(vf_rp_size(cfg) == SZ, "configuration table of the harness matches the shim");
    CHECK(vf_rp_memory_size(cfg, 0) == ovh && vf_rp_memory_size(cfg, 27) == 27 + ovh, "memory size of a PDU is payload plus layout overhead");

    vf_rp_reset(cfg, st);
    m_n = m_head = 0;
    observe();

    int alive = 1;
    for (int s = 0; s < l; ++s) {
        if (!alive) break;
        if ((w >> s) & 1) {
            alive = commit(s, extra);
        } else if (m_n > m_head) {
            vf_rp_pop_end(cfg, st);
            ++m_head;
        }
        if (alive) observe();
    }

    WITNESS();
}
