/* c24_common.h — recording environment (stub scheduled radio) for shim ll_c, shared by the C24 / C25 harnesses */
#ifndef C24_COMMON_H
#define C24_COMMON_H
#include "vf.h"
#include "../shims/ll_c_api.h"

#define ENV_MAX_REC 32
static unsigned       env_n_adv;                       /* number of schedule_advertisment() calls */
static unsigned       env_ch[ENV_MAX_REC];
static uint32_t       env_when[ENV_MAX_REC];
static size_t         env_adv_size[ENV_MAX_REC], env_rsp_size[ENV_MAX_REC], env_rx_size[ENV_MAX_REC];
static const uint8_t* env_adv_ptr[ENV_MAX_REC];
static const uint8_t* env_rsp_ptr[ENV_MAX_REC];
static unsigned       env_n_evt, env_evt_channel;      /* schedule_connection_event() calls */
static uint32_t       env_evt_start, env_evt_end, env_evt_interval;
static unsigned       env_n_aa;
static uint32_t       env_aa, env_crc;

void vfc_env_sched_adv(unsigned channel, const uint8_t* adv, size_t adv_size, const uint8_t* rsp, size_t rsp_size,
                       uint32_t when_us, const uint8_t* rx, size_t rx_size)
{
    (void)rx;
    if (env_n_adv < ENV_MAX_REC) {
        env_ch[env_n_adv] = channel; env_when[env_n_adv] = when_us;
        env_adv_ptr[env_n_adv] = adv; env_adv_size[env_n_adv] = adv_size;
        env_rsp_ptr[env_n_adv] = rsp; env_rsp_size[env_n_adv] = rsp_size;
        env_rx_size[env_n_adv] = rx_size;
    }
    ++env_n_adv;
}
uint32_t vfc_env_sched_evt(unsigned channel, uint32_t start_us, uint32_t end_us, uint32_t interval_us)
{
    ++env_n_evt; env_evt_channel = channel; env_evt_start = start_us; env_evt_end = end_us; env_evt_interval = interval_us;
    return interval_us;
}
void vfc_env_access_address(uint32_t access_address, uint32_t crc_init) { ++env_n_aa; env_aa = access_address; env_crc = crc_init; }

/* enabled channels of a 3 bit map (bit 0 = channel 37), ascending: written from the property statement */
static unsigned map_channels(unsigned map, unsigned* out)
{
    unsigned n = 0;
    if (map & 1u) out[n++] = 37;
    if (map & 2u) out[n++] = 38;
    if (map & 4u) out[n++] = 39;
    return n;
}

/* bring the real channel map from `from` to `to` through the public functions; channels are added before others are removed,
 * so the map is never empty in between (an empty map is documented as not supported) */
static void change_map(unsigned from, unsigned to, int descending)
{
    for (int k = 0; k < 3; ++k) { const int i = descending ? 2 - k : k; if (!(from & (1u << i)) &&  (to & (1u << i))) vfc_add_channel(37 + i); }
    for (int k = 0; k < 3; ++k) { const int i = descending ? 2 - k : k; if ( (from & (1u << i)) && !(to & (1u << i))) vfc_remove_channel(37 + i); }
}

#endif
