/* c32_sm_model.h — environment stubs (crypto tool box, RNG, IO capabilities, OOB, bond data base) with a ghost
 * call log, plus the reference SMP responder automaton (Core spec Vol 3 Part H, 2.3 / 3.5 / 3.6 / appendix C)
 * shared by the C32 / C33 harnesses (and usable for C34..C36).
 *
 * The crypto functions are NOT modelled: every call returns fresh symbolic bytes (any function, even a
 * non-deterministic one) and is logged with its arguments.  "The central's confirm value was verified" thereby
 * becomes a fact the harness reads from the log: a c1() call over the received Mrand (and this pairing's p1/p2)
 * exists whose (symbolic) result equals the Mconfirm received before.  Same for the DHKey check Ea (p256 -> f5 -> f6).
 */
#ifndef C32_SM_MODEL_H
#define C32_SM_MODEL_H
#include "vf.h"

/* SM_PROP 32: protocol order + verification monitors (C32); 33: key offer (C33) on top of the same automaton.
 * CHECK32 = checks that only C32 asserts (C33 follows the implementation there and only tracks the ghost). */
#ifndef SM_PROP
#define SM_PROP 32
#endif
#ifndef SM_KF_POLL
#define SM_KF_POLL(pre) ((void)(pre))
#endif
#if SM_PROP == 32
#define CHECK32(c, m) CHECK(c, m)
#else
#define CHECK32(c, m) ((void)(c))
#endif

/* ---------------------------------------------------------------------------------------------- shim API */
void vf_sm_reset(int cfg);
void vf_sm_set_addresses(int cfg, const uint8_t* local7, const uint8_t* remote7);
void vf_sm_l2cap_input(int cfg, const uint8_t* in, size_t in_size, uint8_t* out, size_t* out_size);
void vf_sm_l2cap_output(int cfg, uint8_t* out, size_t* out_size);
int  vf_sm_output_available(int cfg);
void vf_sm_yes_no_response(void* response, int yes);
void* vf_sm_yes_no_interface(int cfg);
int  vf_sm_find_key(int cfg, uint16_t ediv, uint64_t rand, uint8_t* key16);
int  vf_sm_local_device_pairing_status(int cfg);
void vf_sm_set_encrypted(int cfg, int encrypted);
unsigned long vf_sm_field_get(int cfg, int id, uint8_t* buf, unsigned long cap);
unsigned long vf_sm_field_set(int cfg, int id, const uint8_t* buf, unsigned long n);

enum { F_STATE = 0, F_LEGACY_ALGO = 1, F_LESC_ALGO = 2, F_C1_P1 = 3, F_C1_P2 = 4, F_SRAND = 5, F_MCONFIRM = 6, F_PASSKEY = 7,
       F_KEY = 8, F_LOCAL_PRIV = 9, F_LOCAL_PUB = 10, F_REMOTE_PUB = 11, F_LOCAL_NONCE = 12, F_REMOTE_NONCE = 13,
       F_REMOTE_IO = 14, F_PAIRING_STATUS = 15, F_REMOTE_ADDR = 16, F_LINK_ENCRYPTED = 17, F_LINK_PAIRING_STATUS = 18,
       F_PENDING_ENC_INFO = 19, F_PENDING_CENTRAL_ID = 20, F_PENDING_KEY = 21, F_PENDING_RAND = 22, F_PENDING_EDIV = 23,
       F_OOB_PRESENT = 30, F_OOB_DATA = 31 };

/* bluetoe::details::sm_pairing_state */
enum { ST_IDLE = 0, ST_COMPLETED = 1, ST_USER_WAIT = 2, ST_USER_FAILED = 3, ST_USER_SUCCESS = 4, ST_L_REQUESTED = 5,
       ST_L_CONFIRMED = 6, ST_S_REQUESTED = 7, ST_S_KEYS_EXCHANGED = 8, ST_S_CONFIRM_SEND = 9, ST_S_RANDOM_EXCHANGED = 10 };

/* ---------------------------------------------------------------------------------------------- configurations (shims/sm.cpp) */
enum { KIND_LEGACY = 0, KIND_LESC = 1, KIND_COMBINED = 2 };
#define NCFG 12
static const int CFG_KIND[NCFG]   = { 0, 0, 0, 0, 0, 1, 1, 1, 2, 2, 2, 2 };
static const int CFG_YES_NO[NCFG] = { 0, 0, 0, 0, 0, 0, 1, 0, 0, 1, 0, 0 };
static const int CFG_DB[NCFG]     = { 0, 0, 0, 0, 1, 0, 0, 1, 0, 0, 1, 0 };
static const int CFG_OOB[NCFG]    = { 0, 0, 0, 1, 0, 0, 0, 0, 0, 0, 0, 1 };
static int cfg;
#define KIND   (CFG_KIND[cfg])
#define MTU    (KIND == KIND_LEGACY ? 23u : 65u)      /* maximum_channel_mtu_size of the manager */

/* SMP opcodes and PDU sizes (Vol 3 Part H 3.3, 3.5, 3.6) */
enum { OP_REQUEST = 1, OP_RESPONSE = 2, OP_CONFIRM = 3, OP_RANDOM = 4, OP_FAILED = 5, OP_ENC_INFO = 6, OP_CENTRAL_ID = 7,
       OP_ID_INFO = 8, OP_ID_ADDR = 9, OP_SIGN_INFO = 10, OP_SEC_REQ = 11, OP_PUBLIC_KEY = 12, OP_DHKEY_CHECK = 13, OP_KEYPRESS = 14 };
static const unsigned SMP_SIZE[16] = { 1, 7, 7, 17, 17, 2, 17, 11, 17, 8, 17, 2, 65, 17, 2, 1 };

/* ---------------------------------------------------------------------------------------------- ghost call log
 * calls of the current step (one l2cap_input / l2cap_output / user response); at most 2 calls of a function per step
 * are kept (f6 is legitimately called twice: Ea, Eb); a third call sets `overflow`. */
struct c1_call  { uint8_t k[16], r[16], p1[16], p2[16], res[16]; };
struct s1_call  { uint8_t k[16], r1[16], r2[16], res[16]; };
struct p256_call{ uint8_t priv[32], pub[64], res[32]; };
struct f4_call  { uint8_t u[32], v[32], x[16], z, res[16]; };
struct f5_call  { uint8_t dh[32], n1[16], n2[16], a1[7], a2[7], mackey[16], ltk[16]; };
struct f6_call  { uint8_t w[16], n1[16], n2[16], r[16], io[3], a1[7], a2[7], res[16]; };
struct db_find_call { uint16_t ediv; uint64_t rand; uint8_t addr[7]; int found; uint8_t key[16]; };

static struct {
    int n_c1, n_s1, n_p256, n_f4, n_f5, n_f6, n_srand, n_passkey_rng, n_nonce, n_keys, n_valid_pk, n_g2;
    int n_numeric_output, n_passkey_input, n_yes_no, n_oob, n_db_create, n_db_store, n_db_find;
    struct c1_call c1[2]; struct s1_call s1[2]; struct p256_call p256[2]; struct f4_call f4[2]; struct f5_call f5[2]; struct f6_call f6[2];
    uint8_t srand[16], passkey_rng[16], nonce[16], pub[64], priv[32], valid_pk_arg[64];
    int valid_pk_res;
    uint8_t oob[16]; int oob_present;
    uint32_t passkey_input;
    struct db_find_call db_find;
    uint8_t db_new_key[16]; uint64_t db_new_rand; uint16_t db_new_ediv;
    uint8_t db_stored_key[16]; uint64_t db_stored_rand; uint16_t db_stored_ediv; uint8_t db_stored_addr[7];
    int sync_answer;                 /* yes/no request answered inside the callback: 0 no, 1 yes, 2 no-answer(deferred) */
    int overflow;
} lg;

static void* pending_response;       /* yes/no request not answered yet */

/* n is always a constant: 3, 6, 7, 16, 32, 64 (word-wise where possible: fewer solver variables than byte loops) */
static void cp(uint8_t* d, const uint8_t* s, unsigned n) { memcpy(d, s, n); }
static int  eq(const uint8_t* a, const uint8_t* b, unsigned n)
{
    int r = 1; unsigned i = 0;
    for (; i + 8 <= n; i += 8) { uint64_t x, y; memcpy(&x, a + i, 8); memcpy(&y, b + i, 8); r &= (x == y); }
    for (; i < n; ++i) r &= (a[i] == b[i]);
    return r;
}
static int  is_zero(const uint8_t* a, unsigned n) { int r = 1; for (unsigned i = 0; i < n; ++i) r &= (a[i] == 0); return r; }

/* Results the stubs hand out in the current step.  They are drawn at the start of every step, whether used or not:
 * the number of in_*() calls must not depend on the path taken (a path dependent input index makes CBMC's input log a
 * symbolically indexed array: measured 50 s instead of 5 s per case). */
static struct {
    uint8_t c1[2][16], s1[2][16], srand[16], passkey[16], nonce[16], pub[64], priv[32], p256[2][32], f4[2][16], f5[2][32], f6[2][16];
    uint8_t oob[16], db_new_key[16], db_key[16];
    uint32_t g2, passkey_input; uint64_t db_new_rand; uint16_t db_new_ediv;
    int valid_pk, yes_no, oob_present, db_found;
} pool;

static void log_begin_step(void)
{
    lg.n_c1 = lg.n_s1 = lg.n_p256 = lg.n_f4 = lg.n_f5 = lg.n_f6 = lg.n_srand = lg.n_passkey_rng = lg.n_nonce = lg.n_keys = lg.n_valid_pk = lg.n_g2 = 0;
    lg.n_numeric_output = lg.n_passkey_input = lg.n_yes_no = lg.n_oob = lg.n_db_create = lg.n_db_store = lg.n_db_find = 0;
    lg.valid_pk_res = 0; lg.oob_present = 0; lg.sync_answer = 0; lg.overflow = 0; lg.db_find.found = 0;
    if (KIND != KIND_LESC) {
        in_bytes(pool.c1[0], 16); in_bytes(pool.c1[1], 16); in_bytes(pool.s1[0], 16); in_bytes(pool.s1[1], 16);
        in_bytes(pool.srand, 16); in_bytes(pool.passkey, 16); pool.passkey_input = in_u32();
    }
    if (KIND != KIND_LEGACY) {
        in_bytes(pool.nonce, 16); in_bytes(pool.pub, 64); in_bytes(pool.priv, 32); in_bytes(pool.p256[0], 32); in_bytes(pool.p256[1], 32);
        in_bytes(pool.f4[0], 16); in_bytes(pool.f4[1], 16); in_bytes(pool.f5[0], 32); in_bytes(pool.f5[1], 32); in_bytes(pool.f6[0], 16); in_bytes(pool.f6[1], 16);
        pool.g2 = in_u32(); pool.valid_pk = in_bool();
    }
    if (CFG_YES_NO[cfg]) pool.yes_no = (int)in_range(0, 2);
    if (CFG_OOB[cfg]) { in_bytes(pool.oob, 16); pool.oob_present = in_bool(); }
    if (CFG_DB[cfg]) { in_bytes(pool.db_new_key, 16); pool.db_new_rand = in_u64(); pool.db_new_ediv = in_u16(); in_bytes(pool.db_key, 16); pool.db_found = in_bool(); }
}

/* ---------------------------------------------------------------------------------------------- environment stubs */
void vf_env_create_srand(uint8_t* out)   { cp(out, pool.srand, 16); cp(lg.srand, out, 16); ++lg.n_srand; }
void vf_env_create_passkey(uint8_t* out) { cp(out, pool.passkey, 16); cp(lg.passkey_rng, out, 16); ++lg.n_passkey_rng; }
void vf_env_c1(const uint8_t* k, const uint8_t* r, const uint8_t* p1, const uint8_t* p2, uint8_t* out)
{
    const int i = lg.n_c1 == 0 ? 0 : 1;
    cp(out, pool.c1[i], 16);
    if (lg.n_c1 < 2) { struct c1_call* c = &lg.c1[i]; cp(c->k, k, 16); cp(c->r, r, 16); cp(c->p1, p1, 16); cp(c->p2, p2, 16); cp(c->res, out, 16); }
    else lg.overflow = 1;
    ++lg.n_c1;
}
void vf_env_s1(const uint8_t* k, const uint8_t* r1, const uint8_t* r2, uint8_t* out)
{
    const int i = lg.n_s1 == 0 ? 0 : 1;
    cp(out, pool.s1[i], 16);
    if (lg.n_s1 < 2) { struct s1_call* c = &lg.s1[i]; cp(c->k, k, 16); cp(c->r1, r1, 16); cp(c->r2, r2, 16); cp(c->res, out, 16); }
    else lg.overflow = 1;
    ++lg.n_s1;
}
int vf_env_is_valid_public_key(const uint8_t* pk) { cp(lg.valid_pk_arg, pk, 64); ++lg.n_valid_pk; lg.valid_pk_res = pool.valid_pk; return lg.valid_pk_res; }
void vf_env_generate_keys(uint8_t* pub, uint8_t* priv) { cp(pub, pool.pub, 64); cp(priv, pool.priv, 32); cp(lg.pub, pub, 64); cp(lg.priv, priv, 32); ++lg.n_keys; }
void vf_env_select_random_nonce(uint8_t* out) { cp(out, pool.nonce, 16); cp(lg.nonce, out, 16); ++lg.n_nonce; }
void vf_env_p256(const uint8_t* priv, const uint8_t* pub, uint8_t* out)
{
    const int i = lg.n_p256 == 0 ? 0 : 1;
    cp(out, pool.p256[i], 32);
    if (lg.n_p256 < 2) { struct p256_call* c = &lg.p256[i]; cp(c->priv, priv, 32); cp(c->pub, pub, 64); cp(c->res, out, 32); }
    else lg.overflow = 1;
    ++lg.n_p256;
}
void vf_env_f4(const uint8_t* u, const uint8_t* v, const uint8_t* x, uint8_t z, uint8_t* out)
{
    const int i = lg.n_f4 == 0 ? 0 : 1;
    cp(out, pool.f4[i], 16);
    if (lg.n_f4 < 2) { struct f4_call* c = &lg.f4[i]; cp(c->u, u, 32); cp(c->v, v, 32); cp(c->x, x, 16); c->z = z; cp(c->res, out, 16); }
    else lg.overflow = 1;
    ++lg.n_f4;
}
void vf_env_f5(const uint8_t* dh, const uint8_t* n1, const uint8_t* n2, const uint8_t* a1, const uint8_t* a2, uint8_t* mackey, uint8_t* ltk)
{
    const int i = lg.n_f5 == 0 ? 0 : 1;
    cp(mackey, &pool.f5[i][0], 16); cp(ltk, &pool.f5[i][16], 16);
    if (lg.n_f5 < 2) { struct f5_call* c = &lg.f5[i]; cp(c->dh, dh, 32); cp(c->n1, n1, 16); cp(c->n2, n2, 16); cp(c->a1, a1, 7); cp(c->a2, a2, 7); cp(c->mackey, mackey, 16); cp(c->ltk, ltk, 16); }
    else lg.overflow = 1;
    ++lg.n_f5;
}
void vf_env_f6(const uint8_t* w, const uint8_t* n1, const uint8_t* n2, const uint8_t* r, const uint8_t* io, const uint8_t* a1, const uint8_t* a2, uint8_t* out)
{
    const int i = lg.n_f6 == 0 ? 0 : 1;
    cp(out, pool.f6[i], 16);
    if (lg.n_f6 < 2) { struct f6_call* c = &lg.f6[i]; cp(c->w, w, 16); cp(c->n1, n1, 16); cp(c->n2, n2, 16); cp(c->r, r, 16); cp(c->io, io, 3); cp(c->a1, a1, 7); cp(c->a2, a2, 7); cp(c->res, out, 16); }
    else lg.overflow = 1;
    ++lg.n_f6;
}
uint32_t vf_env_g2(const uint8_t* u, const uint8_t* v, const uint8_t* x, const uint8_t* y) { (void)u; (void)v; (void)x; (void)y; ++lg.n_g2; return pool.g2; }

void vf_env_numeric_output(int pass_key) { (void)pass_key; ++lg.n_numeric_output; }
int  vf_env_passkey(void) { ++lg.n_passkey_input; lg.passkey_input = pool.passkey_input; return (int)lg.passkey_input; }
/* the user is asked yes/no: answers inside the callback (1 yes, 0 no) or later (2) */
void vf_env_yes_no(void* response)
{
    ++lg.n_yes_no;
    const int d = pool.yes_no;
    lg.sync_answer = d;
    if (d == 2) pending_response = response;
    else { pending_response = 0; vf_sm_yes_no_response(response, d); }
}
int vf_env_oob_data(const uint8_t* addr7, uint8_t* out) { (void)addr7; ++lg.n_oob; cp(out, pool.oob, 16); cp(lg.oob, out, 16); lg.oob_present = pool.oob_present; return lg.oob_present; }

void vf_env_db_create_new_bond(const uint8_t* addr7, uint8_t* key, uint64_t* rand, uint16_t* ediv)
{
    (void)addr7; ++lg.n_db_create;
    cp(key, pool.db_new_key, 16); *rand = pool.db_new_rand; *ediv = pool.db_new_ediv;
    cp(lg.db_new_key, key, 16); lg.db_new_rand = *rand; lg.db_new_ediv = *ediv;
}
void vf_env_db_store_bond(const uint8_t* key, uint64_t rand, uint16_t ediv, const uint8_t* addr7)
{
    ++lg.n_db_store; cp(lg.db_stored_key, key, 16); lg.db_stored_rand = rand; lg.db_stored_ediv = ediv; cp(lg.db_stored_addr, addr7, 7);
}
int vf_env_db_find_key(uint16_t ediv, uint64_t rand, const uint8_t* addr7, uint8_t* key)
{
    ++lg.n_db_find;
    lg.db_find.ediv = ediv; lg.db_find.rand = rand; cp(lg.db_find.addr, addr7, 7);
    cp(key, pool.db_key, 16); cp(lg.db_find.key, key, 16);
    lg.db_find.found = pool.db_found;
    return lg.db_find.found;
}
void vf_env_db_restore_cccds(void) {}

/* ---------------------------------------------------------------------------------------------- reference automaton
 * responder side of SMP phase 1 + 2 (Vol 3 Part H 2.3.5, fig. C.1 ff):
 *   legacy:  Pairing Request -> [Response]   Confirm(Mconfirm) -> [Confirm(Sconfirm)]   Random(Mrand) -> verify Mconfirm -> [Random(Srand)]
 *   LESC  :  Pairing Request -> [Response]   Public Key -> [Public Key], [Confirm(Cb)]   Random(Na) -> [Random(Nb)]
 *            (numeric comparison: user confirms)   DHKey Check(Ea) -> verify Ea -> [DHKey Check(Eb)]
 */
enum { R_IDLE, R_DONE, R_L_REQ, R_L_CONF, R_S_REQ, R_S_PK, R_S_CONF, R_S_RAND };
enum { U_NONE, U_WAIT, U_YES, U_NO };

static struct {
    int st, user;
    /* values of the running pairing the later checks refer to */
    uint8_t local_addr[7], remote_addr[7];
    uint8_t p1[16], p2[16], srand[16], mconfirm[16], tk[16]; int tk_known;
    uint8_t local_priv[32], local_pub[64], remote_pub[64], nb[16], na[16], remote_io[3];
    int ea_received; uint8_t ea[16];      /* central's DHKey check received while the user had not answered yet */
    int ea_verified;                      /* a received Ea was compared equal with f6(MacKey, Na, Nb, 0, IOcapA, A, B) */
    int have_key; uint8_t key[16];        /* pairing completed: STK / LTK this pairing produced */
} g;

static int impl_state(void)
{
    uint8_t s = 0xff;
    vf_sm_field_get(cfg, F_STATE, &s, 1);
    return s;
}

static int ref_of_impl(int s, int* user)
{
    *user = U_NONE;
    switch (s) {
    case ST_IDLE: return R_IDLE;
    case ST_COMPLETED: return R_DONE;
    case ST_USER_WAIT: *user = U_WAIT; return R_S_RAND;
    case ST_USER_FAILED: *user = U_NO; return R_S_RAND;
    case ST_USER_SUCCESS: *user = U_YES; return R_S_RAND;
    case ST_L_REQUESTED: return R_L_REQ;
    case ST_L_CONFIRMED: return R_L_CONF;
    case ST_S_REQUESTED: return R_S_REQ;
    case ST_S_KEYS_EXCHANGED: return R_S_PK;
    case ST_S_CONFIRM_SEND: return R_S_CONF;
    case ST_S_RANDOM_EXCHANGED: return R_S_RAND;
    }
    return -1;
}

static void check_conformance(void)
{
    int u, r = ref_of_impl(impl_state(), &u);
    CHECK32(r == g.st && u == g.user, "pairing state of the implementation equals the state of the reference protocol automaton");
}

static void ref_abort(void)
{
    g.st = R_IDLE; g.user = U_NONE; g.ea_received = 0; g.ea_verified = 0; g.have_key = 0; g.tk_known = 0;
}

/* is `opc` the next PDU of the running pairing? (a new Pairing Request after a completed pairing is permitted by the spec) */
static int in_order(int opc)
{
    switch (opc) {
    case OP_REQUEST:     return g.st == R_IDLE || g.st == R_DONE;
    case OP_CONFIRM:     return g.st == R_L_REQ;
    case OP_RANDOM:      return g.st == R_L_CONF || g.st == R_S_CONF;
    case OP_PUBLIC_KEY:  return g.st == R_S_REQ;
    case OP_DHKEY_CHECK: return g.st == R_S_RAND;
    }
    return 0;
}

/* the central's confirm value was verified in this step: c1 over the received Mrand with this pairing's p1, p2 (and TK)
 * gave the Mconfirm received before */
static int mconfirm_verified(const uint8_t* mrand)
{
    int ok = 0;
    for (int i = 0; i < 2 && i < lg.n_c1; ++i) {
        const struct c1_call* c = &lg.c1[i];
        ok |= eq(c->r, mrand, 16) && eq(c->p1, g.p1, 16) && eq(c->p2, g.p2, 16) && eq(c->res, g.mconfirm, 16)
           && (!g.tk_known || eq(c->k, g.tk, 16));
    }
    return ok;
}

/* the central's DHKey check `ea` was verified in this step: Ea == f6(MacKey, Na, Nb, 0, IOcapA, A, B) with
 * (MacKey, LTK) = f5(DHKey, Na, Nb, A, B) and DHKey = P256(SKb, PKa); returns 1 + index of the f5 call (for the LTK), 0 if not */
static int ea_verified_now(const uint8_t* ea)
{
    int res = 0;
    for (int i = 0; i < 2 && i < lg.n_f6; ++i) {
        const struct f6_call* c = &lg.f6[i];
        if (!(eq(c->res, ea, 16) && eq(c->n1, g.na, 16) && eq(c->n2, g.nb, 16) && is_zero(c->r, 16) && eq(c->io, g.remote_io, 3)
              && eq(c->a1, g.remote_addr, 7) && eq(c->a2, g.local_addr, 7)))
            continue;
        for (int j = 0; j < 2 && j < lg.n_f5; ++j) {
            const struct f5_call* f = &lg.f5[j];
            if (!(eq(f->mackey, c->w, 16) && eq(f->n1, g.na, 16) && eq(f->n2, g.nb, 16) && eq(f->a1, g.remote_addr, 7) && eq(f->a2, g.local_addr, 7)))
                continue;
            for (int k = 0; k < 2 && k < lg.n_p256; ++k) {
                const struct p256_call* p = &lg.p256[k];
                if (eq(p->res, f->dh, 32) && eq(p->priv, g.local_priv, 32) && eq(p->pub, g.remote_pub, 64))
                    res = 1 + j;
            }
        }
    }
    return res;
}

/* the LTK belonging to an emitted Eb: f5 call of this step over this pairing's values; returns 1 + index, 0 if none */
static int ltk_call_now(void)
{
    int res = 0;
    for (int j = 0; j < 2 && j < lg.n_f5; ++j) {
        const struct f5_call* f = &lg.f5[j];
        if (!(eq(f->n1, g.na, 16) && eq(f->n2, g.nb, 16) && eq(f->a1, g.remote_addr, 7) && eq(f->a2, g.local_addr, 7)))
            continue;
        for (int k = 0; k < 2 && k < lg.n_p256; ++k) {
            const struct p256_call* p = &lg.p256[k];
            if (eq(p->res, f->dh, 32) && eq(p->priv, g.local_priv, 32) && eq(p->pub, g.remote_pub, 64))
                res = 1 + j;
        }
    }
    return res;
}

/* p1 = pres || preq || rat' || iat'   p2 = padding || ia || ra   (Vol 3 Part H 2.2.3), as little endian byte strings */
static void spec_p1_p2(const uint8_t* preq, const uint8_t* pres)
{
    g.p1[0] = g.remote_addr[6]; g.p1[1] = g.local_addr[6];
    cp(&g.p1[2], preq, 7); cp(&g.p1[9], pres, 7);
    cp(&g.p2[0], g.local_addr, 6); cp(&g.p2[6], g.remote_addr, 6);
    g.p2[12] = g.p2[13] = g.p2[14] = g.p2[15] = 0;
}

/* ---- judge the reaction to one incoming SMP PDU; `out`/`out_size` is what l2cap_input() produced */
static void judge_input(const uint8_t* pdu, size_t len, const uint8_t* out, size_t out_size)
{
    const int opc = len ? pdu[0] : -1;
    const int st  = impl_state();

    CHECK32(out_size <= MTU, "the response fits the channel MTU");
    CHECK(!lg.overflow, "at most two calls of one crypto function per PDU");

    if (out_size == 2 && out[0] == OP_FAILED) {
        /* rejected: always permitted (the spec lets a device fail a pairing at any time); must be back in idle */
        CHECK32(out[1] >= 0x01 && out[1] <= 0x0e, "Pairing Failed carries a defined reason code");
        CHECK32(st == ST_IDLE, "after answering with Pairing Failed the pairing state is idle");
        ref_abort();
        return;
    }

    /* not rejected: must be the next step of the protocol, well formed */
    CHECK32(in_order(opc), "a PDU that is not the next step of the running pairing is answered with Pairing Failed");
    CHECK32(opc >= 0 && opc < 16 && len == SMP_SIZE[opc & 15], "a PDU with a wrong length is answered with Pairing Failed");
    if (!(in_order(opc) && len == SMP_SIZE[opc & 15])) { ref_abort(); g.st = -1; return; }

    switch (opc) {
    case OP_REQUEST: {
        CHECK32(pdu[1] <= 4, "Pairing Request with a reserved IO capability is answered with Pairing Failed");
        CHECK32(pdu[2] <= 1, "Pairing Request with a reserved OOB data flag is answered with Pairing Failed");
        CHECK32(pdu[4] >= 7 && pdu[4] <= 16, "Pairing Request with a maximum key size outside 7..16 is answered with Pairing Failed");
        CHECK32(out_size == 7 && out[0] == OP_RESPONSE, "an accepted Pairing Request is answered with a Pairing Response");
        const int sc = (pdu[3] & 0x08) != 0;
        const int lesc = KIND == KIND_LESC || (KIND == KIND_COMBINED && sc);
        CHECK32(KIND != KIND_LESC || sc, "a LESC only device does not accept a Pairing Request without the SC flag");
        if (out_size == 7) {
            CHECK32(out[4] >= 7 && out[4] <= 16, "Pairing Response carries a maximum key size in 7..16");
            CHECK32(KIND == KIND_LEGACY || (out[3] & 0x08), "a LESC capable device sets the SC flag in its Pairing Response");
        }
        ref_abort();
        if (lesc) {
            g.st = R_S_REQ;
            cp(g.remote_io, &pdu[1], 3);
        } else {
            g.st = R_L_REQ;
            CHECK32(lg.n_srand == 1, "legacy pairing: a fresh Srand is created for every pairing");
            cp(g.srand, lg.srand, 16);
            if (out_size == 7) spec_p1_p2(pdu, out);
        }
        break;
    }
    case OP_CONFIRM: {
        CHECK32(out_size == 17 && out[0] == OP_CONFIRM, "an accepted Pairing Confirm is answered with the Sconfirm value");
        CHECK32(lg.n_c1 == 1 && eq(lg.c1[0].r, g.srand, 16) && eq(lg.c1[0].p1, g.p1, 16) && eq(lg.c1[0].p2, g.p2, 16) && out_size == 17 && eq(lg.c1[0].res, &out[1], 16),
              "Sconfirm is c1(TK, Srand, p1, p2)");
        cp(g.mconfirm, &pdu[1], 16);
        cp(g.tk, lg.c1[0].k, 16); g.tk_known = 1;
        g.st = R_L_CONF;
        break;
    }
    case OP_RANDOM:
        if (g.st == R_L_CONF) {
            CHECK32(out_size == 17 && out[0] == OP_RANDOM, "an accepted legacy Pairing Random is answered with Pairing Random");
            CHECK32(mconfirm_verified(&pdu[1]), "the peripheral reveals Srand only after c1(TK, Mrand, p1, p2) compared equal to the received Mconfirm");
            CHECK32(out_size == 17 && eq(&out[1], g.srand, 16), "the Pairing Random of the peripheral carries this pairing's Srand");
            CHECK(lg.n_s1 == 1 && eq(lg.s1[0].r1, g.srand, 16) && eq(lg.s1[0].r2, &pdu[1], 16) && (!g.tk_known || eq(lg.s1[0].k, g.tk, 16)),
                  "the STK is s1(TK, Srand, Mrand)");
            g.st = R_DONE; g.have_key = 1; cp(g.key, lg.s1[0].res, 16);
        } else {
            CHECK32(out_size == 17 && out[0] == OP_RANDOM, "an accepted LESC Pairing Random is answered with Pairing Random");
            CHECK32(out_size == 17 && eq(&out[1], g.nb, 16), "the Pairing Random of the peripheral carries this pairing's Nb");
            cp(g.na, &pdu[1], 16);
            g.st = R_S_RAND;
            g.user = U_NONE;
            if (lg.n_yes_no) {
                CHECK32(lg.n_yes_no == 1, "the user is asked once");
                g.user = lg.sync_answer == 2 ? U_WAIT : (lg.sync_answer == 1 ? U_YES : U_NO);
                CHECK32(g.user != U_NO, "numeric comparison refused by the user ends the pairing with Pairing Failed");
            }
        }
        break;
    case OP_PUBLIC_KEY:
        CHECK32(out_size == 65 && out[0] == OP_PUBLIC_KEY, "an accepted Pairing Public Key is answered with the own public key");
        CHECK32(lg.n_valid_pk >= 1 && lg.valid_pk_res && eq(lg.valid_pk_arg, &pdu[1], 64), "the central's public key is accepted only if it was validated");
        CHECK32(lg.n_keys == 1 && lg.n_nonce == 1 && out_size == 65 && eq(&out[1], lg.pub, 64), "the public key sent is the freshly generated one");
        cp(g.local_pub, lg.pub, 64); cp(g.local_priv, lg.priv, 32); cp(g.nb, lg.nonce, 16); cp(g.remote_pub, &pdu[1], 64);
        g.st = R_S_PK;
        break;
    case OP_DHKEY_CHECK:
        if (out_size == 0) {
            /* deferred: permitted only while the user has not answered; Ea must be verified before Eb is sent */
            CHECK32(g.user == U_WAIT, "a DHKey check is left unanswered only while waiting for the user's confirmation");
            g.ea_received = 1; cp(g.ea, &pdu[1], 16);
            if (ea_verified_now(&pdu[1])) g.ea_verified = 1;
        } else {
            CHECK32(out_size == 17 && out[0] == OP_DHKEY_CHECK, "an accepted DHKey check is answered with the own DHKey check");
            CHECK32(g.user == U_NONE || g.user == U_YES, "the own DHKey check is sent only after the user confirmed the numeric comparison");
            const int v = ea_verified_now(&pdu[1]);
            CHECK32(v != 0, "the peripheral sends its DHKey check only after f6(MacKey, Na, Nb, 0, IOcapA, A, B) compared equal to the received Ea");
            g.st = R_DONE; g.user = U_NONE; g.have_key = 1;
            cp(g.key, lg.f5[v ? v - 1 : 0].ltk, 16);
        }
        break;
    default:
        break;
    }
    if (g.st != -1) {
        int u; CHECK32(ref_of_impl(st, &u) == g.st && u == g.user, "after an accepted step the pairing state is the successor state of the protocol");
    }
}

/* ---- judge what l2cap_output() produced spontaneously */
static void judge_poll(const uint8_t* out, size_t out_size)
{
    const int st = impl_state();
    CHECK32(out_size <= MTU, "the PDU fits the channel MTU");
    CHECK(!lg.overflow, "at most two calls of one crypto function per poll");
    if (out_size == 0) {
        int u; CHECK32(ref_of_impl(st, &u) == g.st && u == g.user, "a poll without output leaves the pairing state unchanged");
        return;
    }
    if (out[0] == OP_FAILED) {
        CHECK32(out_size == 2 && out[1] >= 0x01 && out[1] <= 0x0e, "Pairing Failed carries a defined reason code");
        CHECK32(st == ST_IDLE, "after sending Pairing Failed the pairing state is idle");
        CHECK32(g.st == R_S_RAND && g.user == U_NO, "an unsolicited Pairing Failed is sent only when the user refused the numeric comparison");
        ref_abort();
    } else if (out[0] == OP_CONFIRM) {
        CHECK32(g.st == R_S_PK, "the LESC confirm value Cb is sent only right after the public key exchange");
        CHECK32(out_size == 17 && lg.n_f4 == 1 && eq(lg.f4[0].u, g.local_pub, 32) && eq(lg.f4[0].v, g.remote_pub, 32) && eq(lg.f4[0].x, g.nb, 16) && lg.f4[0].z == 0
              && eq(lg.f4[0].res, &out[1], 16), "Cb is f4(PKbx, PKax, Nb, 0)");
        g.st = R_S_CONF;
        CHECK32(st == ST_S_CONFIRM_SEND, "after Cb was sent the peripheral waits for Na");
    } else if (out[0] == OP_DHKEY_CHECK) {
        CHECK32(out_size == 17, "DHKey check PDU has 17 octets");
        CHECK32(g.st == R_S_RAND && g.user == U_YES, "an unsolicited DHKey check is sent only after the user confirmed the numeric comparison");
        CHECK32(g.ea_verified, "the peripheral sends its DHKey check only after it verified the DHKey check received from the central");
        const int v = ltk_call_now();
        CHECK(v != 0, "the LTK is f5(DHKey, Na, Nb, A, B)");
        g.st = R_DONE; g.user = U_NONE; g.have_key = 1;
        cp(g.key, lg.f5[v ? v - 1 : 0].ltk, 16);
        CHECK32(st == ST_COMPLETED, "after the DHKey check was sent the pairing is completed");
    } else {
        CHECK32(0, "no other SMP PDU is sent spontaneously on an unencrypted link");
    }
}

/* ---- the user answers an outstanding yes/no request */
static void user_answers(int yes)
{
    if (!pending_response || g.user != U_WAIT) return;        /* precondition of yes_no_response(): the request is outstanding */
    void* r = pending_response; pending_response = 0;
    vf_sm_yes_no_response(r, yes);
    g.user = yes ? U_YES : U_NO;
    check_conformance();
}

/* ---------------------------------------------------------------------------------------------- C33: key offer */
static void check_find_key(uint16_t ediv, uint64_t rand)
{
    uint8_t key[16];
    int found = vf_sm_find_key(cfg, ediv, rand, key);
    OBSERVE(found);
    if (found) OBSERVE_BYTES(key, 16);
    const int from_pairing = g.have_key && g.st == R_DONE && ediv == 0 && rand == 0 && eq(key, g.key, 16);
    const int from_db = CFG_DB[cfg] && lg.n_db_find == 1 && lg.db_find.found && lg.db_find.ediv == ediv && lg.db_find.rand == rand
                     && eq(lg.db_find.addr, g.remote_addr, 7) && eq(lg.db_find.key, key, 16);
    CHECK(!found || from_pairing || from_db,
          "a key is offered only after a completed pairing (EDIV = 0, Rand = 0, the STK / LTK that pairing produced) or from the bond data base entry for EDIV / Rand / peer");
    CHECK(lg.n_db_find == 0 || CFG_DB[cfg], "no data base lookup without a data base");
}

/* ---------------------------------------------------------------------------------------------- common set up */
static void draw_addresses(void)
{
    in_bytes(g.local_addr, 6);  g.local_addr[6]  = (uint8_t)in_bool();
    in_bytes(g.remote_addr, 6); g.remote_addr[6] = (uint8_t)in_bool();
    vf_sm_set_addresses(cfg, g.local_addr, g.remote_addr);
}

static void set_field(int id, const uint8_t* v, unsigned n) { vf_sm_field_set(cfg, id, v, n); }

/* arbitrary pairing state: every member the handlers read gets a symbolic value; the ghost is loaded with the same values
 * (abstraction: "the values of the running pairing are the ones stored in the connection data").
 * Invariant assumed: the state is one the manager kind can be in; user_response_* only with the yes/no input capability
 * (only pairing_yes_no<>::sm_pairing_request_yes_no() enters it). */
static void load_symbolic_state(void)
{
    /* all draws first and unconditionally (path independent input positions) */
    uint8_t s, algo_l, algo_s, passkey[16], key[16], oob[16], oob_present;
    uint8_t p1[16], p2[16], srand[16], mconfirm[16], priv[32], lpub[64], rpub[64], nb[16], na[16], rio[3];
    s = (uint8_t)in_range(0, 10);
    in_bytes(p1, 16); in_bytes(p2, 16); in_bytes(srand, 16); in_bytes(mconfirm, 16); in_bytes(passkey, 16); algo_l = (uint8_t)in_range(0, 3);
    in_bytes(priv, 32); in_bytes(lpub, 64); in_bytes(rpub, 64); in_bytes(nb, 16); in_bytes(na, 16); in_bytes(rio, 3); algo_s = (uint8_t)in_range(0, 4);
    in_bytes(key, 16); in_bytes(oob, 16); oob_present = (uint8_t)in_bool();

    if (KIND == KIND_LEGACY) ASSUME(s == ST_IDLE || s == ST_COMPLETED || s == ST_L_REQUESTED || s == ST_L_CONFIRMED);
    if (KIND == KIND_LESC) ASSUME(s != ST_L_REQUESTED && s != ST_L_CONFIRMED);
    if (!CFG_YES_NO[cfg]) ASSUME(s != ST_USER_WAIT && s != ST_USER_FAILED && s != ST_USER_SUCCESS);

    set_field(F_STATE, &s, 1);
    g.st = ref_of_impl(s, &g.user);
    g.ea_received = 0; g.ea_verified = 0; g.tk_known = 0;
    pending_response = (s == ST_USER_WAIT) ? vf_sm_yes_no_interface(cfg) : 0;      /* the request is outstanding */

    const int lesc_data = (s >= ST_S_REQUESTED || s == ST_USER_WAIT || s == ST_USER_FAILED || s == ST_USER_SUCCESS);

    /* the combined manager keeps legacy and LESC data in one union: write only the active member */
    if (KIND == KIND_LEGACY || (KIND == KIND_COMBINED && !lesc_data)) {
        cp(g.p1, p1, 16); set_field(F_C1_P1, p1, 16);
        cp(g.p2, p2, 16); set_field(F_C1_P2, p2, 16);
        cp(g.srand, srand, 16); set_field(F_SRAND, srand, 16);
        cp(g.mconfirm, mconfirm, 16); set_field(F_MCONFIRM, mconfirm, 16);
        set_field(F_PASSKEY, passkey, 16);
        set_field(F_LEGACY_ALGO, &algo_l, 1);
    }
    if (KIND == KIND_LESC || (KIND == KIND_COMBINED && lesc_data)) {
        cp(g.local_priv, priv, 32); set_field(F_LOCAL_PRIV, priv, 32);
        cp(g.local_pub, lpub, 64); set_field(F_LOCAL_PUB, lpub, 64);
        cp(g.remote_pub, rpub, 64); set_field(F_REMOTE_PUB, rpub, 64);
        cp(g.nb, nb, 16); set_field(F_LOCAL_NONCE, nb, 16);
        cp(g.na, na, 16); set_field(F_REMOTE_NONCE, na, 16);
        cp(g.remote_io, rio, 3); set_field(F_REMOTE_IO, rio, 3);
        set_field(F_LESC_ALGO, &algo_s, 1);
    }
    /* key of a completed pairing: the legacy manager keeps the STK in the union with the pairing data */
    if (s == ST_COMPLETED || KIND != KIND_LEGACY) {
        cp(g.key, key, 16); set_field(F_KEY, key, 16);
    }
    g.have_key = (s == ST_COMPLETED);
    if (CFG_OOB[cfg]) {
        set_field(F_OOB_DATA, oob, 16);
        set_field(F_OOB_PRESENT, &oob_present, 1);
    }
}

/* ---------------------------------------------------------------------------------------------- harness body
 * case parameters: CFG (see shims/sm.cpp), MODE
 *   MODE 0  inductive step: arbitrary pairing state, OP = 0: one incoming PDU with opcode OPC (255: any opcode, symbolic)
 *           and length LEN (exact-size object); OP = 1: one l2cap_output() poll; OP = 2: the user answers an outstanding yes/no request
 *   MODE 1  bounded history from reset: K symbolic operations (incoming PDU with symbolic opcode and length,
 *           l2cap_output() poll, user answers yes / no to an outstanding request)
 * SM_PROP 33 additionally asks find_key() with symbolic EDIV / Rand after every operation. */
static void do_input(const uint8_t* pdu, size_t len)
{
    uint8_t* out = (uint8_t*)vf_alloc(MTU);
    size_t out_size = MTU;
    vf_sm_l2cap_input(cfg, pdu, len, out, &out_size);
    OBSERVE(out_size);
    if (out_size <= MTU) OBSERVE_BYTES(out, out_size);
    OBSERVE(impl_state());
    judge_input(pdu, len, out, out_size);
}

static void do_poll(void)
{
    uint8_t* out = (uint8_t*)vf_alloc(MTU);
    size_t out_size = MTU;
    const int pre = impl_state();
    SM_KF_POLL(pre);              /* known-finding region hook, defined by the harness file (the driver scans that file) */
    vf_sm_l2cap_output(cfg, out, &out_size);
    OBSERVE(out_size);
    if (out_size <= MTU) OBSERVE_BYTES(out, out_size);
    OBSERVE(impl_state());
    judge_poll(out, out_size);
}

static void after_step(void)
{
#if SM_PROP == 33
    const int z1 = in_bool(), z2 = in_bool();
    uint16_t ediv = in_u16(); uint64_t rand = in_u64();
    if (z1) ediv = 0;
    if (z2) rand = 0;
    log_begin_step();
    const int pre = impl_state();
    uint8_t key_before[16]; vf_sm_field_get(cfg, F_KEY, key_before, 16);
    check_find_key(ediv, rand);
    uint8_t key_after[16]; vf_sm_field_get(cfg, F_KEY, key_after, 16);
    CHECK(impl_state() == pre && eq(key_before, key_after, 16), "looking up a key does not change the pairing state");
#endif
}

static void sm_harness_body(void)
{
    vf_global_ctors();
    cfg = (int)CASE(CFG);
    const int mode = (int)CASE(MODE);
    vf_sm_reset(cfg);
    pending_response = 0;
    ref_abort();
    draw_addresses();

    if (mode == 0) {
        load_symbolic_state();
        after_step();
        log_begin_step();
        if ((int)CASE(OP) == 0) {
            const size_t len = (size_t)CASE(LEN);
            uint8_t* pdu = (uint8_t*)vf_alloc(len);
            in_bytes(pdu, len);
            if (len) {
                if ((int)CASE(OPC) != 255) pdu[0] = (uint8_t)CASE(OPC);      /* 255: any opcode (symbolic) */
            }
            do_input(pdu, len);
        } else if ((int)CASE(OP) == 1) {
            do_poll();
        } else {
            const int yes = in_bool();
            ASSUME(g.user == U_WAIT);
            user_answers(yes);
        }
        after_step();
    } else {
        const int k = (int)CASE(K);
        check_conformance();                     /* base case: a new connection starts in idle */
        after_step();
        for (int s = 0; s < k; ++s) {
            uint8_t pdu[66];
            const int op = (int)in_range(0, 3);
            const unsigned opc = (unsigned)in_range(0, 15);
            const unsigned lc  = (unsigned)in_range(0, 3);
            in_bytes(pdu, 65);
            log_begin_step();         /* all draws of the step happen here, whatever the operation is */
            if (op == 0) {
                size_t len = SMP_SIZE[opc];
                if (lc == 1) len -= 1; else if (lc == 2) len += 1; else if (lc == 3) len = MTU;
                if (len > MTU) len = MTU;
                pdu[0] = (uint8_t)opc;
                do_input(pdu, len);
            } else if (op == 1) {
                do_poll();
            } else {
                user_answers(op == 2);
            }
            after_step();
        }
    }
    WITNESS();
}

#endif
