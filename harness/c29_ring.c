/* C29 (i) — the event mechanism of connection_callbacks: events raised by the link layer are delivered to the application once, in order.
 *
 * Real code: connection_callbacks<T,Obj>::connection_requested / _established / _attempt_timeout / _changed / _closed / procedure_rejected /
 * procedure_unknown / version_indication_received / remote_features_received / phy_update, handle_connection_events, details::ring<4,event_data>
 * (try_push / try_pop) — the real base class of the real link layer object (shim ll_d, VFD_CFG 0).
 *
 * case parameters: NOPS number of operations (1..8), POLLS bit mask: operation i is a poll of the application (handle_connection_events),
 *                  otherwise an event is raised (concrete schedule: with a symbolic schedule the ring indices become symbolic, 13 min / 3 GB for NOPS=4)
 * symbolic: per raised event: kind 1..10 (all callbacks share the ring) and argument
 * Oracle: FIFO model without capacity limit: at every poll the callbacks are exactly the events raised since the last poll, in order, with
 *         their arguments.  Property statement: every lifecycle event is reported exactly once and in order.
 * The ring holds max_events = 4 events: schedules with more than 4 raised events between two polls overflow it.
 */
#include "c27_common.h"

#define MAXN 8

void harness(void)
{
    vf_global_ctors();
    const unsigned nops = (unsigned)CASE(NOPS);
    const unsigned polls = (unsigned)CASE(POLLS);

    env_reset();

    unsigned kind[MAXN], arg[MAXN]; int poll[MAXN];
    for (unsigned i = 0; i < MAXN; ++i) { kind[i] = (unsigned)in_range(1, 10); arg[i] = in_u8(); poll[i] = (polls >> i) & 1; }

    /* model: events raised and not yet delivered */
    unsigned mk[MAXN], ma[MAXN], mn = 0, delivered = 0;
    CHECK(vfd_cb_pending() == 0, "no event is pending after construction");

    for (unsigned i = 0; i < nops && i < MAXN; ++i) {
        if (poll[i]) {
            vfd_cb_handle_events();
            CHECK(env_n_cb == delivered + mn, "a poll delivers every raised event exactly once");
            for (unsigned j = 0; j < mn; ++j) {
                const unsigned k = delivered + j;
                if (k < ENV_MAX_CB) {
                    CHECK(env_cb_kind[k] == mk[j], "events are delivered in the order they were raised");
                    if (mk[j] == VFD_CB_CLOSED || mk[j] == VFD_CB_REJECTED || mk[j] == VFD_CB_UNKNOWN)
                        CHECK(env_cb_a[k] == ma[j], "an event is delivered with its reason / error code");
                }
            }
            delivered += mn; mn = 0;
        } else {
            vfd_cb_push(kind[i], arg[i]);
            mk[mn] = kind[i]; ma[mn] = arg[i]; ++mn;
        }
    }
    vfd_cb_handle_events();
    OBSERVE(env_n_cb);
    CHECK(env_n_cb == delivered + mn, "the final poll delivers every raised event exactly once");
    for (unsigned j = 0; j < mn; ++j) {
        const unsigned k = delivered + j;
        if (k < ENV_MAX_CB) {
            CHECK(env_cb_kind[k] == mk[j], "events are delivered in the order they were raised (final poll)");
            OBSERVE(env_cb_kind[k]);
        }
    }
    CHECK(vfd_cb_pending() == 0, "no event is pending after a poll");
    WITNESS();
}
