/* C09 — client characteristic configuration is per connection and exact (shim att_d9).
 *
 * case parameters
 *   CFG   0: seven notify/indicate characteristics, default priorities   1: same with higher_outgoing_priority on a
 *            service and on the server (reorders the positions of the 2-bit fields)
 *   MODE  0: one write to an arbitrary handle by connection A or B, all 14 CCCDs (7 x 2 connections) read before and after
 *         1: association: optional CCCD write, then notify/indicate of characteristic j, queued for connection w:
 *            l2cap_output emits the PDU of characteristic j exactly if w's CCCD of characteristic j (as read back through
 *            ATT) has the matching bit
 *   OP    (MODE 0) 0 Write Request, 1 Write Command, 2 Prepare Write (symbolic offset) + Execute Write(1)
 *   LEN   number of value bytes written (0..3)
 * symbolic in every case: raw configuration bytes of both connections (incl. the unused padding bits), who writes,
 * the handle written (all 2^16 values), the value bytes, the offset (OP 2), the bound values; MODE 1 additionally the
 * characteristic j, notification or indication, the receiving connection w.
 *
 * Expected attribute table (derived by hand from the declaration in shims/att_d9.cpp, identical for both CFGs):
 *   characteristic k:   0   1   2   3   4   5   6
 *   value handle        3   6  11  14  18  21  24
 *   CCCD handle         4   7  12  15  19  22  25
 *   notify              x       x   x   x       x
 *   indicate                x   x           x   x
 */
#include "vf.h"

void     vf_d9_init(int cfg);
void     vf_d9_input(int cfg, int who, const uint8_t* in, size_t in_size, uint8_t* out, size_t* out_size);
void     vf_d9_output(int cfg, int who, uint8_t* out, size_t* out_size);
int      vf_d9_notify(int cfg, int k, int indicate);
int      vf_d9_queue(int cfg, int who, unsigned cccd_index, int indication);
unsigned vf_d9_get_config(int cfg, int who);
void     vf_d9_set_config(int cfg, int who, unsigned v);
void     vf_d9_set_values(const uint8_t* src);
unsigned vf_d9_config_size(int cfg);

#define NC 7
static const unsigned CCCD_H[NC]   = { 4, 7, 12, 15, 19, 22, 25 };
static const unsigned VAL_H[NC]    = { 3, 6, 11, 14, 18, 21, 24 };
static const int      CAN_NOTIFY[NC]   = { 1, 0, 1, 1, 1, 0, 1 };
static const int      CAN_INDICATE[NC] = { 0, 1, 1, 0, 0, 1, 1 };

static int cfg;

/* ------------------------------------------------------------------------------------------ environment */
static unsigned cb_count[3];             /* subscription-changed callbacks per connection (2: unknown connection) */
void vf_d9_env_cccd_updated(int c, int who)
{
    (void)c;
    if (who >= 0 && who < 3) ++cb_count[who];
}

static unsigned l2_calls, l2_attr, l2_index; static int l2_type;
int vf_d9_env_l2cap_notification(int c, unsigned attribute_index, unsigned cccd_index, int type)
{
    (void)c;
    ++l2_calls; l2_attr = attribute_index; l2_index = cccd_index; l2_type = type;
    return 1;
}

/* ------------------------------------------------------------------------------------------ helpers */
static uint8_t* rd_pdu; static uint8_t* rd_out;      /* exact-size buffers shared by all Read Requests */
static unsigned read_cccd(int who, int k)
{
    uint8_t* pdu = rd_pdu; uint8_t* out = rd_out;
    pdu[0] = 0x0a; pdu[1] = (uint8_t)CCCD_H[k]; pdu[2] = 0;
    size_t os = 23;
    vf_d9_input(cfg, who, pdu, 3, out, &os);
    OBSERVE(os); OBSERVE_BYTES(out, os);
    CHECK(os == 3 && out[0] == 0x0b, "reading a CCCD yields a Read Response with a two byte value");
    if (!(os == 3 && out[0] == 0x0b)) return 0xff;
    CHECK(out[2] == 0 && out[1] <= 3, "a CCCD value consists of the notification and indication bit only");
    return out[1];
}

static int cccd_index_of(unsigned h)
{
    for (int k = 0; k < NC; ++k) if (CCCD_H[k] == h) return k;
    return -1;
}

static unsigned f_old[2][NC], f_new[2][NC];

static void read_all(unsigned f[2][NC])
{
    for (int c = 0; c < 2; ++c)
        for (int k = 0; k < NC; ++k)
            f[c][k] = read_cccd(c, k);
}

void harness(void)
{
    vf_global_ctors();
    cfg = (int)CASE(CFG);
    int mode = (int)CASE(MODE), op = (int)CASE(OP);
    unsigned len = (unsigned)CASE(LEN);
    vf_d9_init(cfg);
    rd_pdu = vf_alloc(3); rd_out = vf_alloc(23);
    CHECK(vf_d9_config_size(cfg) == 2, "seven 2-bit fields occupy two bytes per connection");

    unsigned raw_old[2];
    for (int c = 0; c < 2; ++c) { raw_old[c] = (unsigned)in_u16(); vf_d9_set_config(cfg, c, raw_old[c]); }
    uint8_t vals[NC]; in_bytes(vals, NC); vf_d9_set_values(vals);

    if (mode == 0) {
        read_all(f_old);
        /* the 14 fields are independent: together they determine the 14 used bits */
        int who = in_bool();
        unsigned h = in_u16(), off = 0;
        uint8_t v[3]; in_bytes(v, 3);
        uint8_t* out = vf_alloc(23); size_t os = 23;
        int k = cccd_index_of(h);
        int accepted = 0;                 /* the write was executed */

        if (op == 0 || op == 1) {
            size_t n = 3 + len;
            uint8_t* pdu = vf_alloc(n);
            pdu[0] = op == 0 ? 0x12 : 0x52; pdu[1] = (uint8_t)h; pdu[2] = (uint8_t)(h >> 8);
            for (unsigned i = 0; i < 3; ++i) if (i < len) pdu[3 + i] = v[i];
            vf_d9_input(cfg, who, pdu, n, out, &os);
            OBSERVE(os); OBSERVE_BYTES(out, os);
            if (op == 1) CHECK(os == 0, "a Write Command is never answered");
            if (k >= 0) {
                accepted = len <= 2;
                if (op == 0 && accepted)  CHECK(os == 1 && out[0] == 0x13, "a CCCD write of at most two bytes is answered by a Write Response");
                if (op == 0 && !accepted) CHECK(os == 5 && out[0] == 0x01 && out[1] == 0x12 && out[4] == 0x0d, "a CCCD write of more than two bytes is refused with Invalid Attribute Value Length");
            }
        } else {
            off = in_u16();
            size_t n = 5 + len;
            uint8_t* pdu = vf_alloc(n);
            pdu[0] = 0x16; pdu[1] = (uint8_t)h; pdu[2] = (uint8_t)(h >> 8); pdu[3] = (uint8_t)off; pdu[4] = (uint8_t)(off >> 8);
            for (unsigned i = 0; i < 3; ++i) if (i < len) pdu[5 + i] = v[i];
            vf_d9_input(cfg, who, pdu, n, out, &os);
            OBSERVE(os); OBSERVE_BYTES(out, os);
            int prepared = os >= 1 && out[0] == 0x17;
            if (k >= 0) CHECK(prepared, "a Prepare Write to a CCCD is accepted (a Write Request would be)");
            /* nothing may have changed yet */
            CHECK(vf_d9_get_config(cfg, 0) == raw_old[0] && vf_d9_get_config(cfg, 1) == raw_old[1], "a Prepare Write changes no client configuration");
            CHECK(cb_count[0] + cb_count[1] + cb_count[2] == 0, "a Prepare Write does not invoke the subscription-changed callback");
            uint8_t* ex = vf_alloc(2); ex[0] = 0x18; ex[1] = 1;
            os = 23;
            vf_d9_input(cfg, who, ex, 2, out, &os);
            OBSERVE(os); OBSERVE_BYTES(out, os);
            if (k >= 0 && prepared) {
                accepted = off <= 2 && off + len <= 2;
                if (accepted)      CHECK(os == 1 && out[0] == 0x19, "an executed CCCD write inside the two bytes succeeds");
                else if (off > 2)  CHECK(os == 5 && out[0] == 0x01 && out[1] == 0x18 && out[4] == 0x07, "offset beyond the CCCD value yields Invalid Offset");
                else               CHECK(os == 5 && out[0] == 0x01 && out[1] == 0x18 && out[4] == 0x0d, "writing beyond the CCCD value yields Invalid Attribute Value Length");
            }
        }

        read_all(f_new);
        int changed = 0;
        for (int c = 0; c < 2; ++c) {
            for (int j = 0; j < NC; ++j) {
                unsigned exp = f_old[c][j];
                if (c == who && j == k && accepted && off == 0 && len >= 1) exp = v[0] & 3u;
                CHECK(f_new[c][j] == exp, "exactly the written connection's CCCD reads back the written notification/indication bits, every other CCCD and the other connection are unchanged");
                if (exp != f_old[c][j]) changed = 1;
            }
        }
        unsigned other = vf_d9_get_config(cfg, !who);
        OBSERVE(other);
        CHECK(other == raw_old[!who], "the configuration bytes of the other connection are untouched");
        OBSERVE(cb_count[0]); OBSERVE(cb_count[1]); OBSERVE(cb_count[2]);
        CHECK(cb_count[who] == (unsigned)changed, "the subscription-changed callback is invoked exactly once if the stored value changed and not at all otherwise");
        CHECK(cb_count[!who] == 0 && cb_count[2] == 0, "the subscription-changed callback names the connection that wrote");
    } else {
        /* association between CCCD handle and characteristic (matters with priorities) */
        int who = in_bool();
        int kw = (int)in_range(0, NC - 1);
        uint8_t wv = in_u8();
        if (in_bool()) {
            uint8_t* pdu = vf_alloc(5);
            pdu[0] = 0x12; pdu[1] = (uint8_t)CCCD_H[kw]; pdu[2] = 0; pdu[3] = wv; pdu[4] = 0;
            uint8_t* out = vf_alloc(23); size_t os = 23;
            vf_d9_input(cfg, who, pdu, 5, out, &os);
            CHECK(os == 1 && out[0] == 0x13, "CCCD write succeeds");
        }
        int w = in_bool();
        int j = (int)in_range(0, NC - 1);
        int ind = in_bool();
        ASSUME(ind ? CAN_INDICATE[j] : CAN_NOTIFY[j]);
        unsigned field = read_cccd(w, j);            /* what the client configured, as the client sees it */
        l2_calls = 0;
        int r = vf_d9_notify(cfg, j, ind);
        OBSERVE(r); OBSERVE(l2_calls); OBSERVE(l2_type);
        CHECK(l2_calls == 1 && r == 1, "notify/indicate reaches the link layer callback once");
        CHECK(l2_type == (ind ? 1 : 0), "callback carries the kind requested");
        /* the link layer queues the request for every connection; here: connection w */
        int qd = vf_d9_queue(cfg, w, l2_index, ind);
        CHECK(qd == 1, "request is new in an empty queue");
        uint8_t* out = vf_alloc(23); size_t os = 23;
        vf_d9_output(cfg, w, out, &os);
        OBSERVE(os); OBSERVE_BYTES(out, os);
        int subscribed = (field & (ind ? 2u : 1u)) != 0;
        if (subscribed) {
            CHECK(os == 4, "a subscribed connection gets the notification/indication of the characteristic");
            if (os == 4) {
                CHECK(out[0] == (ind ? 0x1d : 0x1b), "PDU kind matches the request");
                CHECK((unsigned)(out[1] | (out[2] << 8)) == VAL_H[j], "the PDU carries the value handle of the characteristic whose CCCD was configured");
                CHECK(out[3] == vals[j], "the PDU carries the value of that characteristic");
            }
        } else {
            CHECK(os == 0, "a connection that did not subscribe through this characteristic's CCCD gets nothing");
        }
    }
    WITNESS();
}
