/* C02 — Find Information / Read By Type / Read By Group Type return exactly the in-range matching attributes.
 *
 * MODE 0: one request with symbolic start/end handle, symbolic type UUID (2 or 16 byte form by LEN), symbolic
 *         bound values, against the real server (shims/att_b.cpp), response compared with the expected attribute
 *         table (c02_tables.h).
 * MODE 1: lemma over the oracle only (no bluetoe code): every sequence of responses that the MODE 0 oracle accepts,
 *         iterated "from the handle after the last returned one", enumerates every match exactly once.
 *
 * Oracle for a request (op, start, end, type), M = table rows with start <= handle <= end and matching type, ascending:
 *   M empty      -> Error Response (Attribute Not Found 0x0A, handle = start; for start == 0 or start > end: any
 *                   Error Response; Read By Group Type with a type other than the 16 bit <<Primary Service>>: Unsupported
 *                   Group Type 0x10 is accepted as well)
 *   M not empty  -> response opcode op+1, at least one entry, the entries are M[0], M[1], ... M[n-1] without omission
 *                   (n is free: "fewer than would fit" is accepted), all of one format / length, complete values
 *                   (truncated only by MTU), response not longer than the MTU.
 */
#include "c02_tables.h"

#if defined(VF_CBMC) && OPC == 0x04
/* (Find Information cases only: the loop is expensive where many value reads with symbolic length are unrolled)
 * CBMC's built-in memcpy model (array_copy / array_replace over a variable-length temporary) returns unconstrained bytes
 * when the length is not a constant and the destination is a local array (scattered_read_access() into the buffer of
 * write_128bit_uuid()): an over-approximation that makes Find Information fail spuriously (the counterexample does not
 * replay).  This byte loop is exact; its bound is set with --unwindset memcpy.0:22 (longest copy in the Find Information path: 19 byte characteristic declaration). */
void* memcpy(void* d, const void* s, size_t n)
{
    unsigned char* dd = (unsigned char*)d; const unsigned char* ss = (const unsigned char*)s;
    for (size_t i = 0; i < n; ++i) dd[i] = ss[i];
    return d;
}
#endif

#define NONE (-1)

static int in_range_match(const row_t* r, unsigned opc, unsigned start, unsigned end, req_type_t t)
{
    if (r->handle < start || r->handle > end) return 0;
    if (opc == 0x04) return 1;
    if (opc == 0x10) {
        /* grouping attributes of GATT: service declarations */
        if (r->kind != K_PRIMARY && r->kind != K_SECONDARY) return 0;
    }
    return row_has_type(r, t);
}

/* entries of one response must be of one shape: 16/128 bit format (Find Information), value length (others) */
static int same_shape(const row_t* a, const row_t* b, unsigned opc, unsigned mtu)
{
    if (opc == 0x04) return (a->type16 != 0) == (b->type16 != 0);
    unsigned cap = opc == 0x08 ? mtu - 4 : mtu - 6;
    unsigned la = a->vlen < cap ? a->vlen : cap, lb = b->vlen < cap ? b->vlen : cap;
    return la == lb;
}

static void lemma(int cfg);

void harness(void)
{
    vf_global_ctors();
    const int      cfg = (int)CASE(CFG);
    const unsigned opc = (unsigned)CASE(OPC);
    const size_t   len = (size_t)CASE(LEN);
    const unsigned mtu = (unsigned)CASE(MTU);
    if (CASE(MODE) == 1) { lemma(cfg); WITNESS(); return; }

    int n; const row_t* T = table_of(cfg, &n);
    CHECK(vf_b_config() == cfg, "C02: harness runs against the configuration of its case");

    uint8_t* in = vf_alloc(len);
    in_bytes(in, len);
    in[0] = (uint8_t)opc;
    uint8_t bound[8];
    in_bytes(bound, 8);
    vf_b_set_bound_values(cfg, bound);

    const unsigned start = rd16(in + 1), end = rd16(in + 3);
    req_type_t t; t.is16 = 1; t.u16 = 0; t.u128 = 0;
    if (opc != 0x04) t = req_type_from_pdu(in + 5, len == 21);

    /* reference: the matching rows of the range */
    uint8_t m[T_MAXROWS];
    int first = NONE;
    for (int i = n - 1; i >= 0; --i) { m[i] = (uint8_t)(start != 0 && in_range_match(&T[i], opc, start, end, t)); if (m[i]) first = i; }   /* start 0 is no valid range */

    /* known findings (see known_findings.d/C02.json); the regions are computed from the request and the table only.
       skip_region: after the first match, c matches of its shape (same UUID format / same value length) follow, then a
       match of another shape, then again one of the first shape - and the c+2 entries of the first shape fit the MTU */
    int skip_region = 0;
    if (first != NONE) {
        const unsigned cap = opc == 0x08 ? mtu - 4 : mtu - 6;
        const unsigned es = opc == 0x04 ? (T[first].type16 != 0 ? 4u : 18u)
                                        : (opc == 0x08 ? 2u : 4u) + (T[first].vlen < cap ? T[first].vlen : cap);
        int other = 0; unsigned same = 1;
        for (int i = 0; i < n; ++i) {
            if (i <= first || !m[i]) continue;
            if (!same_shape(&T[first], &T[i], opc, mtu)) other = 1;
            else if (!other) ++same;
            else if (2 + (same + 1) * es <= mtu) skip_region = 1;
        }
    }
    VF_KNOWN_FINDING(c02_find_info_skips_other_format, opc == 0x04 && skip_region);
    VF_KNOWN_FINDING(c02_read_by_type_skips_other_length, opc == 0x08 && skip_region);
    VF_KNOWN_FINDING(c02_read_by_type_128bit_never_matches, opc == 0x08 && !t.is16 && first != NONE);
    VF_KNOWN_FINDING(c02_group_type_128bit_encoding, opc == 0x10 && len == 21 && t.is16 && t.u16 == 0x2800 && first != NONE);

    uint8_t* out = vf_alloc(mtu);
    size_t os = mtu;
    vf_b_l2cap_input(cfg, in, len, out, &os, mtu);
    OBSERVE(os); OBSERVE_BYTES(out, os <= mtu ? os : 0);

    CHECK(os <= mtu, "C02: the response is not longer than the MTU");
    CHECK(os >= 1, "C02: a request is answered");
    if (os < 1 || os > mtu) { WITNESS(); return; }

    if (first == NONE) {
        if (start == 0 || start > end)
            CHECK(is_any_error(out, os, opc), "C02: invalid handle range is answered with an Error Response");
        else if (opc == 0x10 && (len == 21 || !(t.is16 && t.u16 == 0x2800)))
            CHECK(is_error(out, os, opc, start, 0x0A) || is_error(out, os, opc, start, 0x10),
                  "C02: no attribute of the group type in range: Attribute Not Found or Unsupported Group Type");
        else
            CHECK(is_error(out, os, opc, start, 0x0A), "C02: no matching attribute in range: Error Response Attribute Not Found");
        WITNESS(); return;
    }

    /* a match exists */
    if (opc == 0x10 && !(t.is16 && t.u16 == 0x2800) && is_error(out, os, opc, start, 0x10)) {
        /* latitude: bluetoe supports only <<Primary Service>> as group type (GATT defines no procedure that reads
           secondary services by group type); an explicit Unsupported Group Type is accepted */
        WITNESS(); return;
    }
    CHECK(!(os >= 1 && out[0] == 0x01), "C02: Attribute Not Found / error only when no matching attribute exists in the range");
    CHECK(out[0] == opc + 1, "C02: response opcode belongs to the request");
    if (out[0] != opc + 1 || os < 2) { CHECK(0, "C02: response has a format/length octet"); WITNESS(); return; }

    unsigned esize;                       /* size of one entry */
    if (opc == 0x04) {
        CHECK(out[1] == 1 || out[1] == 2, "C02: Find Information format is 1 or 2");
        esize = out[1] == 1 ? 4 : 18;
    } else {
        esize = out[1];
        CHECK(esize >= (opc == 0x08 ? 2u : 4u), "C02: entry length covers the handles");
        if (esize < (opc == 0x08 ? 2u : 4u)) { WITNESS(); return; }
    }
    const unsigned body = (unsigned)os - 2;
    CHECK(body >= esize && body % esize == 0, "C02: response consists of at least one and only whole entries");
    if (body < esize || body % esize != 0) { WITNESS(); return; }
    const unsigned cnt = body / esize;

    unsigned e = 0; int ok = 1;           /* entries consumed; still in step with the table */
    for (int i = 0; i < n; ++i) {
        if (!m[i] || e >= cnt || !ok) continue;
        const uint8_t* p = out + 2 + e * esize;
        const row_t* r = &T[i];
        ++e;
        CHECK(rd16(p) == r->handle, "C02: entries are the matching attributes of the range in ascending order, starting with the first, none skipped, none foreign");
        if (rd16(p) != r->handle) { ok = 0; continue; }
        if (opc == 0x04) {
            CHECK((out[1] == 1) == (r->type16 != 0), "C02: Find Information entry has the UUID format of its attribute");
            if (r->type16 != 0) CHECK(rd16(p + 2) == r->type16, "C02: Find Information 16 bit type UUID");
            else { int eq = 1; for (int j = 0; j < 16; ++j) if (out[1] == 2 && p[2 + j] != r->type128[j]) eq = 0;
                   CHECK(eq, "C02: Find Information 128 bit type UUID"); }
        } else {
            const unsigned hdr = opc == 0x08 ? 2 : 4;
            const unsigned cap = mtu - 2 - hdr;
            const unsigned want = r->vlen < cap ? r->vlen : cap;
            if (opc == 0x10) CHECK(rd16(p + 2) == r->group_end, "C02: group end handle is the last attribute of the service");
            CHECK(esize - hdr == want, "C02: entry carries the complete attribute value (cut only by the MTU)");
            if (esize - hdr == want) {
                int eq = 1; for (unsigned j = 0; j < want; ++j) if (p[hdr + j] != row_value_byte(r, (int)j, bound)) eq = 0;
                CHECK(eq, "C02: entry carries the value of its attribute");
            }
        }
    }
    CHECK(!ok || e == cnt, "C02: no entry beyond the last matching attribute of the range");
    WITNESS();
}

/* ---------------------------------------------------------------------------------------------------------------
 * MODE 1: the oracle composes.  A client repeats the request with start = last returned handle + 1.  Every accepted
 * response is a non-empty run M[j..j+c) of the matches of the current range.  Claim: the iteration terminates and
 * the returned handles are exactly the matches of the original range, each once, ascending. */
static void lemma(int cfg)
{
    int n; const row_t* T = table_of(cfg, &n);
    const unsigned opc = (unsigned)CASE(OPC);
    uint8_t ty[16]; in_bytes(ty, 16);
    req_type_t t = req_type_from_pdu(ty, CASE(LEN) == 21);
    const unsigned start0 = in_u16(), end = in_u16();
    ASSUME(start0 != 0 && start0 <= end);

    uint8_t tm[T_MAXROWS], seen[T_MAXROWS];     /* tm: type (and kind) matches, whatever the range */
    for (int i = 0; i < n; ++i) { tm[i] = (uint8_t)in_range_match(&T[i], opc, 0, 0xFFFF, t); seen[i] = 0; }
    unsigned start = start0; int done = 0; unsigned last = 0; int ordered = 1;
    for (int round = 0; round <= n && !done; ++round) {
        unsigned c = (unsigned)in_range(1, T_MAXROWS);  /* how many entries the server chooses to return this time */
        unsigned e = 0;
        for (int i = 0; i < n; ++i) {                   /* accepted response: the first c (or all) matches of start..end */
            if (!(tm[i] && T[i].handle >= start && T[i].handle <= end) || e >= c) continue;
            ++e; seen[i]++;
            if (T[i].handle <= last) ordered = 0;
            last = T[i].handle;
        }
        if (e == 0) { done = 1; break; }                /* Attribute Not Found: the client stops */
        if (last == 0xFFFF || last >= end) done = 1; else start = last + 1;
    }
    CHECK(done, "C02 lemma: the iteration terminates within (number of attributes + 1) requests");
    CHECK(ordered, "C02 lemma: handles are returned in strictly ascending order over the whole iteration");
    for (int i = 0; i < n; ++i)
        CHECK(seen[i] == (in_range_match(&T[i], opc, start0, end, t) ? 1 : 0), "C02 lemma: every matching attribute of the range is enumerated exactly once, nothing else");
}
