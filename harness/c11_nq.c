/* C11 (queue part) — indications are confirmed one at a time and never lost: the real bluetoe::notification_queue
 * (shim nq, the priority partitions of shims/nq.cpp).
 *
 * case parameters: CFG (priority partition), MODE
 *   MODE 0  flow control: arbitrary representable state in which an indication is outstanding; 2*total dequeues without
 *           a confirmation: no indication is returned, every pending notification is returned exactly once
 *           (notifications keep flowing), no pending indication is lost, the outstanding indication stays the same
 *   MODE 1  bounded liveness: arbitrary representable state; one more indication request (accepted iff not pending);
 *           the outstanding indication (if any) is confirmed; then 3*total rounds of "dequeue; an indication is confirmed
 *           right away or (symbolic choice) one dequeue later": every pending indication and notification - including the
 *           one just accepted - is returned exactly once, in the end the queue is empty and nothing is outstanding
 *   MODE 2  bounded history from reset: K symbolic operations (request indication / request notification / dequeue /
 *           confirmation): between an indication and the next confirmation no second indication is returned
 */
#include "vf.h"

int  vf_nq_queue_notification(int cfg, unsigned long idx);
int  vf_nq_queue_indication(int cfg, unsigned long idx);
int  vf_nq_dequeue(int cfg, unsigned long* idx);
void vf_nq_confirmed(int cfg);
void vf_nq_clear(int cfg);
unsigned long vf_nq_get_outstanding(int cfg);
void vf_nq_set_outstanding(int cfg, unsigned long v);
void vf_nq_get_level(int cfg, int level, uint64_t* next, uint32_t* bits);
void vf_nq_set_level(int cfg, int level, uint64_t next, uint32_t bits);

#define NCFG 6
#define MAXL 3
#define MAXN 7
static const int NLEVELS[NCFG]      = { 1, 1, 1, 2, 3, 2 };
static const int SIZES[NCFG][MAXL]  = { {3,0,0}, {1,0,0}, {5,0,0}, {1,2,0}, {2,1,1}, {4,3,0} };
#define NONE (~0ul)

static int pn[MAXN], pi[MAXN];           /* pending notification / indication per characteristic */
static int got_n[MAXN], got_i[MAXN];     /* how often returned by dequeue */
static unsigned long outstanding;
static int total, cfg;

/* write the pending sets into the real object; round robin positions and unused bits are arbitrary */
static void load_state(void)
{
    int o = 0;
    for (int l = 0; l < NLEVELS[cfg]; ++l) {
        int sz = SIZES[cfg][l];
        if (sz == 1) {
            vf_nq_set_level(cfg, l, 0, (pn[o] ? 1u : 0u) | (pi[o] ? 2u : 0u));
        } else {
            uint32_t bits = 0;
            for (int i = 0; i < sz; ++i) bits |= (uint32_t)((pn[o + i] ? 1 : 0) | (pi[o + i] ? 2 : 0)) << (2 * i);
            uint32_t junk = in_u32();
            uint32_t used = (1u << (sz * 2)) - 1u;
            bits |= junk & ~used;
            uint64_t next = in_range(0, sz - 1);
            vf_nq_set_level(cfg, l, next, bits);
        }
        o += sz;
    }
    vf_nq_set_outstanding(cfg, outstanding);
}

/* pending sets as stored in the real object */
static void read_pending(int* rn, int* ri)
{
    int o = 0;
    for (int l = 0; l < NLEVELS[cfg]; ++l) {
        int sz = SIZES[cfg][l];
        uint64_t next; uint32_t bits;
        vf_nq_get_level(cfg, l, &next, &bits);
        for (int i = 0; i < sz; ++i) { rn[o + i] = (bits >> (2 * i)) & 1; ri[o + i] = (bits >> (2 * i + 1)) & 1; }
        o += sz;
    }
}

void harness(void)
{
    vf_global_ctors();
    cfg = (int)CASE(CFG);
    const int mode = (int)CASE(MODE);
    total = 0;
    for (int l = 0; l < NLEVELS[cfg]; ++l) total += SIZES[cfg][l];
    for (int g = 0; g < MAXN; ++g) got_n[g] = got_i[g] = 0;
    outstanding = NONE;

    if (mode == 0) {
        for (int g = 0; g < total; ++g) { pn[g] = in_bool(); pi[g] = in_bool(); }
        outstanding = (unsigned long)in_range(0, total - 1);
        load_state();
        int ind_returned = 0, bad_index = 0;
        for (int s = 0; s < 2 * total; ++s) {
            unsigned long idx = 0; int kind = vf_nq_dequeue(cfg, &idx);
            OBSERVE(kind); OBSERVE(idx);
            if (kind == 2) ind_returned = 1;
            if (kind == 1) { if (idx < (unsigned long)total) ++got_n[idx]; else bad_index = 1; }
        }
        CHECK(!ind_returned, "no indication is returned while a confirmation is outstanding");
        CHECK(!bad_index, "a returned index is a characteristic of this queue");
        int rn[MAXN], ri[MAXN]; read_pending(rn, ri);
        for (int g = 0; g < total; ++g) {
            CHECK(got_n[g] == (pn[g] ? 1 : 0), "notifications keep flowing while a confirmation is outstanding: each pending one is returned exactly once");
            CHECK(ri[g] == (pi[g] ? 1 : 0), "a pending indication is not lost while it has to wait for a confirmation");
            CHECK(rn[g] == 0, "a returned notification is not pending any more");
        }
        CHECK(vf_nq_get_outstanding(cfg) == outstanding, "the outstanding indication stays outstanding until it is confirmed");
    } else if (mode == 1) {
        for (int g = 0; g < total; ++g) { pn[g] = in_bool(); pi[g] = in_bool(); }
        const int has_out = in_bool();
        const unsigned long o = (unsigned long)in_range(0, total - 1);
        const unsigned long j = (unsigned long)in_range(0, total - 1);
        int late[3 * MAXN]; for (int s = 0; s < 3 * MAXN; ++s) late[s] = in_bool();
        outstanding = has_out ? o : NONE;
        load_state();

        int r = vf_nq_queue_indication(cfg, j);
        OBSERVE(r);
        CHECK(r == !pi[j], "an indication request is accepted exactly if that indication is not pending yet");
        pi[j] = 1;
        if (has_out) vf_nq_confirmed(cfg);          /* the confirmation of the outstanding indication arrives */

        int bad = 0, second = 0, waiting = 0;
        for (int s = 0; s < 3 * total; ++s) {
            unsigned long idx = 0; int kind = vf_nq_dequeue(cfg, &idx);
            OBSERVE(kind); OBSERVE(idx);
            if (kind != 0 && idx >= (unsigned long)total) bad = 1;
            if (waiting) {                           /* a late confirmation: arrives after this dequeue */
                if (kind == 2) second = 1;
                vf_nq_confirmed(cfg); waiting = 0;
            } else if (kind == 2) {
                if (late[s]) waiting = 1; else vf_nq_confirmed(cfg);
            }
            if (kind == 1 && idx < (unsigned long)total) ++got_n[idx];
            if (kind == 2 && idx < (unsigned long)total) ++got_i[idx];
        }
        if (waiting) vf_nq_confirmed(cfg);
        CHECK(!bad, "a returned index is a characteristic of this queue");
        CHECK(!second, "no second indication is returned before the confirmation of the first arrived");
        for (int g = 0; g < total; ++g) {
            CHECK(got_i[g] == (pi[g] ? 1 : 0), "every accepted indication request is returned exactly once while confirmations keep arriving");
            CHECK(got_n[g] == (pn[g] ? 1 : 0), "every accepted notification request is returned exactly once");
        }
        unsigned long idx = 0;
        CHECK(vf_nq_dequeue(cfg, &idx) == 0, "after everything was returned the queue is empty");
        CHECK(vf_nq_get_outstanding(cfg) == NONE, "after the last confirmation nothing is outstanding");
    } else {
        const int k = (int)CASE(K);
        int out = 0, violated = 0;
        int ops[12]; unsigned long is[12];
        for (int s = 0; s < 12; ++s) { ops[s] = (int)in_range(0, 3); is[s] = (unsigned long)in_range(0, total - 1); }
        for (int s = 0; s < k; ++s) {
            if (ops[s] == 0) vf_nq_queue_indication(cfg, is[s]);
            else if (ops[s] == 1) vf_nq_queue_notification(cfg, is[s]);
            else if (ops[s] == 2) {
                unsigned long idx = 0; int kind = vf_nq_dequeue(cfg, &idx);
                OBSERVE(kind); OBSERVE(idx);
                if (kind == 2) { if (out) violated = 1; out = 1; }
            } else { vf_nq_confirmed(cfg); out = 0; }
        }
        CHECK(!violated, "between an indication and its confirmation no further indication is returned");
    }
    WITNESS();
}
