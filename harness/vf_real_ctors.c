/* the g++ build of a shim runs its static constructors itself */
#ifdef __cplusplus
extern "C"
#endif
void vf_global_ctors(void) {}
