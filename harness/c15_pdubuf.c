/* C15 / C16 / C17 — the real bluetoe::link_layer::ll_data_pdu_buffer between a host and a spec-conformant central.
 *
 * A bounded history of K connection events from reset_pdu_buffer().  Per event everything is symbolic:
 *   host:     commits a new PDU or not (LLID, length, tag), takes a received PDU or not (between the radio's buffer
 *             allocation and the reception)
 *   central:  sends a new data PDU or a new empty PDU when its previous one was acknowledged, otherwise the very same
 *             PDU again (Core spec Vol 6 Part B 4.5.9); may lack room for new data (does not advance its NESN)
 *   air c->p: OK / CRC error / MIC error (valid CRC, C16 and C17 only) / lost (peripheral does not transmit either)
 *   air p->c: delivered / lost
 * The harness plays the radio driver exactly as bluetoe's nrf52 binding does:
 *   buffer = allocate_receive_buffer() at the start of the event; no buffer or CRC error -> next_transmit();
 *   valid -> received(buffer); valid CRC but invalid MIC -> acknowledge(buffer); nothing received -> nothing called.
 *
 * Oracles (written from the property statements and the Core spec, not from the implementation):
 *   central model   c_sn / c_nesn, current PDU, retransmits until NESN of the peripheral differs from c_sn
 *   spec peripheral m_sn (transmitSeqNum) / m_nesn (nextExpectedSeqNum): advance only on acknowledgement resp. on a new PDU that was
 *                   validly received *and* could be taken over
 *   ghost tags      every PDU of either direction carries a unique tag in its first and (complemented) last payload byte
 *
 * case parameters: PROP (15, 16, 17: selects the fault model and the group of CHECKs), CFG (shims/pdubuf.cpp),
 *                  K events, MAXSZ (max_rx_size == max_tx_size, 29 is the default after reset), LMAX largest payload,
 *                  LMODE 0: payload lengths symbolic in 1..LMAX, 1: all LMAX, 2: each PDU 1 or LMAX (symbolic choice),
 *                  E0 -1: first event symbolic like the others; >= 0: commit | c_empty << 1 | fate << 2 of the first event are fixed
 *                  (the cases of one K enumerate all shapes, so the union is the same claim),
 *                  DRAIN number of PDUs the host takes after the last event
 */
#include "vf.h"

/* shim interface: buffers are byte offsets into the raw buffer; -1 is the internal empty PDU, -2 no buffer */
void vf_pb_reset(int cfg);
void vf_pb_set_max_sizes(int cfg, unsigned long rx, unsigned long tx);
void vf_pb_poke(int cfg, long off, unsigned char v);
unsigned char vf_pb_peek(int cfg, long off, unsigned long i);
long vf_pb_allocate_transmit_buffer(int cfg, unsigned long size, unsigned long* out_size);
void vf_pb_commit_transmit_buffer(int cfg, long off, unsigned long size);
int  vf_pb_pending_outgoing_data_available(int cfg);
long vf_pb_next_received(int cfg, unsigned long* out_size);
void vf_pb_free_received(int cfg);
long vf_pb_allocate_receive_buffer(int cfg, unsigned long* out_size);
long vf_pb_received(int cfg, long off, unsigned long size, unsigned long* out_size);
long vf_pb_acknowledge(int cfg, long off, unsigned long size, unsigned long* out_size);
long vf_pb_next_transmit(int cfg, unsigned long* out_size);
unsigned vf_pb_rx_counter(int cfg);
unsigned vf_pb_tx_counter(int cfg);

#define MAXEV 8
enum { F_OK = 0, F_CRC = 1, F_LOST = 2, F_MIC = 3 };

static int cfg, prop;
static unsigned lmax, maxsz;
static int lmode, e0, evno;

#define CHECK_TX(c, m)  do { if (prop == 15) CHECK(c, m); } while (0)
#define CHECK_RX(c, m)  do { if (prop == 15 || prop == 17) CHECK(c, m); } while (0)
#define CHECK_CNT(c, m) do { if (prop == 16) CHECK(c, m); } while (0)
#define CHECK_MIC(c, m) do { if (prop == 17) CHECK(c, m); } while (0)

struct pdu { int empty; int llid; unsigned len; uint8_t tag; };

/* host side ghost state */
static struct pdu P[MAXEV + 1];      /* PDUs committed by the host, in commit order */
static int np;                       /* number of committed PDUs */
static int hq[MAXEV + 1];            /* indices of central PDUs the peripheral has to hand to the host, in order */
static int hq_cnt, hq_head;

/* central model (Core spec Vol 6 Part B 4.5.9) */
static struct pdu C[MAXEV + 1];      /* PDUs the central has sent so far */
static int stored[MAXEV + 1];        /* C[j] was validly received as new while the peripheral had room */
static int nc, c_cur_valid;          /* C[nc-1] is the PDU in flight if c_cur_valid */
static int c_sn, c_nesn;
static int crx;                      /* number of non-empty PDUs the central accepted as new */

/* peripheral as the spec describes it */
static int m_sn, m_nesn;
static int inflight;                 /* 0: nothing transmitted yet / last one acknowledged, 1: empty PDU, 2: P[tx_head] */
static int tx_head;                  /* P[0..tx_head) are acknowledged */
static unsigned exp_rx, exp_tx;      /* expected packet counters */

struct ev_in {
    int commit, tllid, consume, c_empty, c_llid, md, fate, p2c_ok, c_room;
    unsigned tlen, c_len;
    uint8_t ttag, c_tag, g0, g1, g2;
};

/* ghost payload: the tag in the first payload byte, its complement in the last one (if there are two) */
static void fill_pdu(long off, uint8_t hdr0, const struct pdu* x)
{
    vf_pb_poke(cfg, off, hdr0); vf_pb_poke(cfg, off + 1, (uint8_t)x->len);
    if (x->len != 0) {
        vf_pb_poke(cfg, off + 2 + x->len - 1, (uint8_t)~x->tag);
        vf_pb_poke(cfg, off + 2, x->tag);
    }
}

/* hdr0/hdr1: the two header bytes already read from the buffer at off */
static int same_pdu(long off, unsigned long size, uint8_t hdr0, uint8_t hdr1, const struct pdu* x)
{
    if (off == -2 || size < (unsigned long)x->len + 2) return 0;
    if ((hdr0 & 3) != x->llid || hdr1 != x->len) return 0;
    if (x->len == 0) return 1;
    if (vf_pb_peek(cfg, off, 2) != x->tag) return 0;
    if (x->len > 1 && vf_pb_peek(cfg, off, 2 + x->len - 1) != (uint8_t)~x->tag) return 0;
    return 1;
}

static void host_consume(void)
{
    unsigned long sz = 0;
    const long p = vf_pb_next_received(cfg, &sz);
    OBSERVE(sz);
    if (hq_head < hq_cnt) {
        CHECK_RX(sz >= 2 && p >= 0 && same_pdu(p, sz, vf_pb_peek(cfg, p, 0), vf_pb_peek(cfg, p, 1), &C[hq[hq_head]]), "the host is handed the central's new non-empty PDUs in order, unchanged, each exactly once");
    } else {
        CHECK_RX(sz == 0, "nothing is handed to the host that is not a new non-empty PDU of the central (no retransmission, no empty PDU, no corrupted PDU)");
    }
    if (sz != 0) {
        vf_pb_free_received(cfg);
        if (hq_head < hq_cnt) ++hq_head;
    }
}

static void host_step(const struct ev_in* in)
{
    if (in->commit) {
        unsigned long got = 0;
        const long p = vf_pb_allocate_transmit_buffer(cfg, in->tlen + 2, &got);
        OBSERVE(got);
        CHECK_TX(got == 0 || (got == in->tlen + 2 && p >= 0), "allocate_transmit_buffer returns nothing or the requested size");
        if (got == in->tlen + 2 && p >= 0) {
            struct pdu* x = &P[np];
            x->empty = 0; x->llid = in->tllid; x->len = in->tlen; x->tag = (uint8_t)((in->ttag << 3) | np);
            fill_pdu(p, (uint8_t)x->llid, x);
            vf_pb_commit_transmit_buffer(cfg, p, got);
            ++np;
        }
    }
    if (in->consume) host_consume();
}

static void event(void)
{
    struct ev_in in;
    in.commit  = in_bool();
    in.tlen    = 1 + (unsigned)in_range(0, lmax - 1);   /* ranges start at 0: a replay file that ends early stays valid */
    in.tllid   = 1 + (int)in_range(0, 2);
    in.ttag    = in_u8();
    in.consume = in_bool();
    in.c_empty = in_bool();
    in.c_len   = 1 + (unsigned)in_range(0, lmax - 1);
    in.c_llid  = 1 + (int)in_range(0, 2);
    in.c_tag   = in_u8();
    in.md      = in_bool();
    in.fate    = (int)in_range(0, prop == 15 ? 2 : 3);
    in.p2c_ok  = in_bool();
    in.c_room  = in_bool();
    in.g0 = in_u8(); in.g1 = in_u8(); in.g2 = in_u8();
    if (evno == 0 && e0 >= 0) {       /* case split over the shape of the first event (keeps the ring pointers concrete one event longer) */
        in.commit  = e0 & 1;
        in.c_empty = (e0 >> 1) & 1;
        in.fate    = (e0 >> 2) & 3;
    }
    if (lmode == 1) {                 /* every PDU has the largest payload */
        in.tlen = in.c_len = lmax;
    } else if (lmode == 2) {          /* every PDU has either the smallest or the largest payload */
        in.tlen  = (in.tlen & 1) ? 1 : lmax;
        in.c_len = (in.c_len & 1) ? 1 : lmax;
    }

    /* the radio driver allocates the receive buffer when it sets the event up; the host runs before the radio event.
     * (host actions of event e are seen by the allocation of event e+1; with a lost packet in between that is the
     * order "host, then allocation, then reception") */
    unsigned long asz = 0;
    const long rb = vf_pb_allocate_receive_buffer(cfg, &asz);
    OBSERVE(asz);
    CHECK_RX(asz == 0 || (rb >= 0 && asz >= maxsz), "a receive buffer is either absent or large enough for the largest PDU");
    const int has_buf = asz != 0 && rb >= 0;
    host_step(&in);

    /* ---- central transmits: a new PDU if the last one was acknowledged, otherwise the same one again */
    if (!c_cur_valid) {
        struct pdu* x = &C[nc];
        x->empty = in.c_empty;
        x->llid  = in.c_empty ? 1 : in.c_llid;
        x->len   = in.c_empty ? 0 : in.c_len;
        x->tag   = (uint8_t)((in.c_tag << 3) | nc);
        stored[nc] = 0;
        ++nc; c_cur_valid = 1;
    }
    const int j = nc - 1;
    const struct pdu* cp = &C[j];
    const uint8_t hdr0 = (uint8_t)(cp->llid | (c_nesn << 2) | (c_sn << 3) | (in.md << 4));
    int fate = in.fate;
    if (fate == F_MIC && cp->empty) fate = F_OK;       /* an empty PDU carries no MIC */

    if (fate == F_LOST) return;                         /* nothing received: the peripheral does not transmit, the central repeats */

    const int ack_possible = inflight != 0 && c_nesn != m_sn;   /* the central acknowledges what the peripheral sent last */
    const int is_new       = c_sn == m_nesn;
    const int pre_nesn     = m_nesn;
    const unsigned pre_rx  = vf_pb_rx_counter(cfg);

    long out; unsigned long osz = 0;
    int processed = 0;
    if (!has_buf) {
        out = vf_pb_next_transmit(cfg, &osz);
    } else if (fate == F_CRC) {
        vf_pb_poke(cfg, rb, in.g0); vf_pb_poke(cfg, rb + 1, in.g1); vf_pb_poke(cfg, rb + 2, in.g2);   /* whatever the radio wrote */
        out = vf_pb_next_transmit(cfg, &osz);
    } else {
        fill_pdu(rb, hdr0, cp);
        if (fate == F_MIC) {
            vf_pb_poke(cfg, rb + 2, (uint8_t)(cp->tag ^ (in.g2 | 1)));   /* payload does not decrypt to what was sent */
            out = vf_pb_acknowledge(cfg, rb, asz, &osz);
        } else {
            out = vf_pb_received(cfg, rb, asz, &osz);
        }
        processed = 1;
    }
    OBSERVE(osz);
    CHECK(out != -2 && osz >= 2, "there is always a PDU to transmit with at least a header");
    if (out == -2 || osz < 2) return;
    const uint8_t oh0 = vf_pb_peek(cfg, out, 0), oh1 = vf_pb_peek(cfg, out, 1);
    const int o_llid = oh0 & 3, o_nesn = (oh0 >> 2) & 1, o_sn = (oh0 >> 3) & 1;
    const unsigned o_len = oh1;
    OBSERVE(oh0); OBSERVE(oh1);
    CHECK(osz >= 2ul + o_len, "the PDU to transmit is as long as its header says");

    /* ---- spec peripheral, transmit side: acknowledgement by the central */
    int acked = 0;
    if (processed && ack_possible)
        acked = fate == F_MIC ? (o_sn != m_sn) : 1;     /* on a MIC failure the acknowledgement may be honoured (C17: "may") */
    if (acked) {
        if (inflight == 2) { ++tx_head; ++exp_tx; }
        inflight = 0; m_sn ^= 1;
    }
    /* ---- spec peripheral, receive side: new PDU taken over */
    if (fate == F_OK && has_buf && is_new) {
        m_nesn ^= 1;
        if (!cp->empty) { ++exp_rx; hq[hq_cnt++] = j; stored[j] = 1; }
    }

    /* ---- what the peripheral transmits */
    CHECK_TX(o_sn == m_sn, "SN changes exactly when the PDU sent last was acknowledged by the central");
    if (inflight == 0) {
        if (tx_head < np) {
            CHECK_TX(same_pdu(out, osz, oh0, oh1, &P[tx_head]), "after an acknowledgement the oldest committed PDU is transmitted next, unchanged");
            inflight = 2;
        } else {
            CHECK_TX(o_len == 0 && o_llid == 1, "with nothing committed an empty PDU is transmitted");
            inflight = 1;
        }
    } else if (inflight == 2) {
        CHECK_TX(same_pdu(out, osz, oh0, oh1, &P[tx_head]), "a committed PDU is retransmitted unchanged until the central acknowledged it");
    } else {
        CHECK_TX(o_len == 0 && o_llid == 1, "an empty PDU is retransmitted until the central acknowledged it");
    }
    CHECK_RX(o_nesn == m_nesn, "NESN advances exactly when a new PDU arrived intact and was taken over: never for CRC or MIC failures, retransmissions or a full receive ring");
    if (fate == F_MIC && is_new) {
        CHECK_MIC(o_nesn == pre_nesn, "a new PDU with valid CRC but invalid MIC is not acknowledged");
        CHECK_MIC(vf_pb_rx_counter(cfg) == pre_rx, "a PDU failing its MIC does not advance the receive packet counter");
    }

    /* ---- central receives the peripheral's packet */
    if (in.p2c_ok) {
        if (o_sn == c_nesn && in.c_room) {
            if (o_len != 0) {
                CHECK_TX(crx < np && same_pdu(out, osz, oh0, oh1, &P[crx]), "the central receives the committed PDUs in commit order, unchanged, each exactly once");
                ++crx;
            }
            c_nesn ^= 1;
        }
        if (o_nesn != c_sn) {
            CHECK_RX(cp->empty || stored[j], "a PDU is acknowledged to the central only if it was stored for the host (not by a full ring, not after a CRC or MIC failure)");
            c_sn ^= 1; c_cur_valid = 0;
        }
    }

    CHECK_TX(tx_head <= crx, "a PDU is considered delivered only after the central accepted it");
    CHECK_TX(vf_pb_pending_outgoing_data_available(cfg) == (tx_head < np), "exactly the unacknowledged committed PDUs are pending");
    const unsigned rxc = vf_pb_rx_counter(cfg), txc = vf_pb_tx_counter(cfg);
    OBSERVE(rxc); OBSERVE(txc);
    CHECK_CNT(rxc == exp_rx, "receive packet counter advanced exactly once per new non-empty PDU taken over (not for retransmissions, empty PDUs, CRC or MIC failures)");
    CHECK_CNT(txc == exp_tx, "transmit packet counter advanced exactly once per acknowledged non-empty PDU (not for retransmissions or empty PDUs)");
}

void harness(void)
{
    vf_global_ctors();
    cfg   = (int)CASE(CFG);
    prop  = (int)CASE(PROP);
    maxsz = (unsigned)CASE(MAXSZ);
    lmax  = (unsigned)CASE(LMAX);
    lmode = (int)CASE(LMODE);
    e0    = (int)CASE(E0);
    const int k = (int)CASE(K);

    vf_pb_reset(cfg);
    if (maxsz != 29) vf_pb_set_max_sizes(cfg, maxsz, maxsz);

    np = hq_cnt = hq_head = nc = c_cur_valid = c_sn = c_nesn = crx = 0;
    m_sn = m_nesn = inflight = tx_head = 0; exp_rx = exp_tx = 0;

    for (evno = 0; evno < k; ++evno) event();

    /* nothing is lost: everything the peripheral took over is still there for the host, in order */
    for (int e = 0; e < (int)CASE(DRAIN); ++e) host_consume();
    CHECK_CNT(vf_pb_rx_counter(cfg) == exp_rx && vf_pb_tx_counter(cfg) == exp_tx, "packet counters are not touched by the host interface");
    WITNESS();
}
