/* C01 — ATT input handling is memory safe and well framed.
 *
 * One step of server::l2cap_input() from an arbitrary connection state.
 *
 * case parameters (compile time constants under CBMC):
 *   CFG    server configuration of shims/att_a.cpp (0..4)
 *   OPC    opcode of the incoming PDU (in[0]); all other PDU bytes are symbolic
 *   LEN    length of the incoming PDU; the PDU is a heap object of exactly LEN bytes
 *   OUTSZ  size of the output buffer handed to l2cap_input (heap object of exactly OUTSZ bytes, out_size = OUTSZ)
 *   NQ     cfg 2 only: number of elements in the prepared-write queue of the pre-state (0..5)
 *   CMTU   client MTU of the pre-state; 0 = symbolic (23..65535)
 *   CMDSYM 1: the command flag of the opcode is symbolic (opcodes without handler only)
 *
 * symbolic: PDU bytes 1..LEN-1, client MTU (>= 23), encryption / pairing state, CCCD bytes, all bound values,
 *           write queue (owner, elements: handle out of the writable ones, offset, size, data, junk behind the end),
 *           everything the user's read/write handlers and the link layer's notification callback return.
 *
 * memory safety: the PDU and the output buffer are exact-size objects, so CBMC's pointer checks inside the real code
 * fail on any read outside the PDU and any write outside the buffer (the handler stubs touch every byte they are
 * offered, so a handler being given a range outside the PDU / buffer fails too).
 */
#include "vf.h"

#if defined( VF_CBMC ) && !defined( CMDSYM )
#define CMDSYM 0
#endif

void     vf_att_input( int cfg, const uint8_t* in, size_t in_size, uint8_t* out, size_t* out_size );
void     vf_att_set_conn( int cfg, unsigned client_mtu, int encrypted, int pairing, const uint8_t* cccd );
unsigned vf_att_client_mtu( int cfg );
unsigned vf_att_server_mtu( int cfg );
void     vf_att_wq_set( int owner, unsigned buffer_end, const uint8_t* bytes );
void     vf_att_wq_get( int* owner, unsigned* buffer_end, uint8_t* bytes );
void     vf_att_set_values( const uint8_t* b );

/* ------------------------------------------------------------------------------------------- environment */
/* user read handler.  Documented contract (characteristic_value.hpp): at most read_size bytes are written to
 * out_buffer, out_size <= read_size; any return code. */
uint8_t vf_env_read( int id, size_t offset, size_t read_size, uint8_t* out_buffer, size_t* out_size )
{
    (void)id; (void)offset;
    size_t  n    = (size_t)in_range( 0, read_size );
    uint8_t fill = in_u8();
    /* the handler may write all of the read_size bytes it was offered */
    for ( size_t i = 0; i < read_size; ++i )
        out_buffer[ i ] = fill;
    *out_size = n;
    return in_u8();
}

/* user write handler: may read all write_size bytes of value; any return code */
static uint8_t env_sink;
uint8_t vf_env_write( int id, size_t offset, size_t write_size, const uint8_t* value )
{
    (void)id; (void)offset;
    for ( size_t i = 0; i < write_size; ++i )
        env_sink ^= value[ i ];
    return in_u8();
}

/* link layer callback for a Handle Value Confirmation */
int vf_env_notification_cb( int type )
{
    (void)type;
    return in_bool();
}

/* ------------------------------------------------------------------------------------------- write queue (cfg 2) */
#define WQ_SIZE 32
/* handles of cfg 2 for which a Prepare Write can be accepted: 40 byte value (3), its CCCD (4), 1 byte value (6),
 * value with write blob handler (8).  Everything else (declarations, read only cstring) is not writable. */
static int wq_writable( unsigned h ) { return h == 3 || h == 4 || h == 6 || h == 8; }

/* representation invariant of details::write_queue< shared_write_queue< 32 > > */
static int wq_inv( int owner, unsigned end, const uint8_t* b )
{
    if ( owner != 0 && owner != 1 && owner != 2 ) return 0;
    if ( end > WQ_SIZE ) return 0;
    if ( ( owner == 0 ) != ( end == 0 ) ) return 0;
    unsigned pos = 0;
    for ( int i = 0; i < 6 && pos < end; ++i )
    {
        if ( pos + 2 > end ) return 0;
        unsigned sz = b[ pos ] | ( (unsigned)b[ pos + 1 ] << 8 );
        if ( sz < 4 || pos + 2 + sz > end ) return 0;                           /* handle + offset at least */
        if ( !wq_writable( b[ pos + 2 ] | ( (unsigned)b[ pos + 3 ] << 8 ) ) ) return 0;
        pos += 2 + sz;
    }
    return pos == end;
}

static void wq_load( int nq )
{
    uint8_t  b[ WQ_SIZE ];
    in_bytes( b, WQ_SIZE );                                                     /* data and junk behind the end */
    unsigned pos = 0;
    for ( int i = 0; i < nq; ++i )
    {
        unsigned sz = (unsigned)in_range( 4, WQ_SIZE - 2 );
        ASSUME( pos + 2 + sz <= WQ_SIZE );
        unsigned h  = (unsigned)in_range( 3, 8 );
        ASSUME( wq_writable( h ) );
        b[ pos ] = (uint8_t)sz; b[ pos + 1 ] = 0;
        b[ pos + 2 ] = (uint8_t)h; b[ pos + 3 ] = 0;
        pos += 2 + sz;
    }
    int owner = nq == 0 ? 0 : (int)in_range( 1, 2 );
    ASSUME( wq_inv( owner, pos, b ) );
    vf_att_wq_set( owner, pos, b );
}

/* ------------------------------------------------------------------------------------------- oracle */
enum { K_REQUEST, K_NO_RESPONSE, K_CONFIRMATION, K_EITHER };

static int kind_of( uint8_t o )
{
    if ( o & 0x40 ) return K_NO_RESPONSE;          /* command flag: Write Command 0x52, Signed Write 0xD2, unknown commands */
    switch ( o )
    {
    case 0x01:                                      /* Error Response */
    case 0x1B: case 0x1D:                           /* Handle Value Notification / Indication */
        return K_NO_RESPONSE;
    case 0x1E:
        return K_CONFIRMATION;
    /* the requests ATT defines */
    case 0x02: case 0x04: case 0x06: case 0x08: case 0x0A: case 0x0C: case 0x0E: case 0x10: case 0x12: case 0x16: case 0x18:
    case 0x20:
        return K_REQUEST;
    /* response opcodes sent by a client and opcodes ATT does not define: the statement does not say; ATT says an
     * unsupported request is answered with an Error Response -> accept silence as well as an Error Response */
    default:
        return K_EITHER;
    }
}

static int is_error_response_for( const uint8_t* out, size_t os, uint8_t opc )
{
    return os == 5 && out[ 0 ] == 0x01 && out[ 1 ] == opc;
}

void harness( void )
{
    vf_global_ctors();
    const int    cfg   = (int)CASE( CFG );
    const size_t len   = (size_t)CASE( LEN );
    const size_t outsz = (size_t)CASE( OUTSZ );
    /* CMDSYM == 1: the command flag (bit 6) of the opcode is symbolic: the case covers OPC and OPC | 0x40 */
    const uint8_t opc  = (uint8_t)( CASE( OPC ) | ( CASE( CMDSYM ) ? ( in_bool() ? 0x40 : 0 ) : 0 ) );

    /* ---- pre-state */
    const unsigned smax = vf_att_server_mtu( cfg );
    /* Inv: client MTU >= 23.  CMTU == 0: fully symbolic client MTU; otherwise the concrete value of the case */
    const unsigned cmtu = CASE( CMTU ) ? (unsigned)CASE( CMTU ) : (unsigned)in_range( 23, 0xffff );
    const int      enc  = in_bool();
    const int      pair = (int)in_range( 0, 3 );
    uint8_t cccd[ 4 ];
    in_bytes( cccd, 4 );
    vf_att_set_conn( cfg, cmtu, enc, pair, cccd );

    uint8_t vals[ 100 ];
    in_bytes( vals, 100 );
    vf_att_set_values( vals );

    if ( cfg == 2 )
        wq_load( (int)CASE( NQ ) );

    /* ---- the PDU */
    uint8_t* in = vf_alloc( len );
    in_bytes( in, len );
    in[ 0 ] = opc;

    uint8_t* out = vf_alloc( outsz );
    size_t   os  = outsz;

    /* documented precondition of l2cap_input: the buffer is at least the default MTU */
    ASSUME( outsz >= 23 );

    VF_KNOWN_FINDING( c01_unknown_command_answered, ( opc & 0x40 ) && opc != 0x52 );

    vf_att_input( cfg, in, len, out, &os );

    /* ---- size */
    unsigned negotiated = smax < cmtu ? smax : cmtu;
    size_t   allowed    = outsz < negotiated ? outsz : negotiated;
    CHECK( os <= outsz, "response does not exceed the supplied output buffer" );
    CHECK( os <= allowed, "response is not longer than the negotiated ATT MTU" );
    OBSERVE( os );
    if ( os <= outsz ) OBSERVE_BYTES( out, os );

    /* ---- framing */
    switch ( kind_of( opc ) )
    {
    case K_REQUEST:
        CHECK( os >= 1, "a request gets a response" );
        if ( os >= 1 )
            CHECK( out[ 0 ] == (uint8_t)( opc + 1 ) || is_error_response_for( out, os, opc ),
                   "a request gets its matching response opcode or a 5 byte Error Response naming the request opcode" );
        break;
    case K_NO_RESPONSE:
        CHECK( os == 0, "commands, notifications, indications and error responses from the client get no response" );
        break;
    case K_CONFIRMATION:
        if ( len == 1 )
            CHECK( os == 0, "a Handle Value Confirmation gets no response" );
        else
            CHECK( os == 0 || is_error_response_for( out, os, opc ), "a malformed confirmation is ignored or rejected with an Error Response naming it" );
        break;
    default:
        CHECK( os == 0 || is_error_response_for( out, os, opc ), "an opcode that is no request is ignored or rejected with an Error Response naming it" );
        break;
    }

    /* ---- layout of the positive responses as ATT defines them */
    if ( os >= 1 && os <= outsz && kind_of( opc ) == K_REQUEST && out[ 0 ] == (uint8_t)( opc + 1 ) )
    {
        switch ( opc )
        {
        case 0x02: CHECK( os == 3, "Exchange MTU Response is 3 bytes" ); break;
        case 0x04: CHECK( os >= 6 && ( ( out[ 1 ] == 1 && ( os - 2 ) % 4 == 0 ) || ( out[ 1 ] == 2 && ( os - 2 ) % 18 == 0 ) ),
                          "Find Information Response: format 1 or 2 and a whole number of handle/UUID pairs, at least one" ); break;
        case 0x06: CHECK( os >= 5 && ( os - 1 ) % 4 == 0, "Find By Type Value Response: whole number of handle pairs, at least one" ); break;
        case 0x08: CHECK( os >= 4 && out[ 1 ] >= 2 && ( os - 2 ) >= out[ 1 ] && ( os - 2 ) % out[ 1 ] == 0,
                          "Read By Type Response: whole number of handle/value pairs of the announced length, at least one" ); break;
        case 0x10: CHECK( os >= 8 && ( out[ 1 ] == 6 || out[ 1 ] == 20 ) && ( os - 2 ) % out[ 1 ] == 0,
                          "Read By Group Type Response: whole number of entries of the announced length, at least one" ); break;
        case 0x12: CHECK( os == 1, "Write Response is 1 byte" ); break;
        case 0x18: CHECK( os == 1, "Execute Write Response is 1 byte" ); break;
        case 0x16: {
            CHECK( os == ( len < allowed ? len : allowed ), "Prepare Write Response echoes the request (clipped to the MTU)" );
            int same = 1;
            for ( size_t i = 1; i < os && i < len; ++i ) same = same && out[ i ] == in[ i ];
            CHECK( same, "Prepare Write Response carries handle, offset and value of the request" );
            break; }
        default: break;
        }
    }

    /* ---- invariants of the connection state are preserved */
    CHECK( vf_att_client_mtu( cfg ) >= 23, "client MTU stays >= 23" );
    if ( cfg == 2 )
    {
        int owner; unsigned end; uint8_t b[ WQ_SIZE ];
        vf_att_wq_get( &owner, &end, b );
        CHECK( wq_inv( owner, end, b ), "write queue invariant preserved" );
        OBSERVE( owner ); OBSERVE( end );
    }
    WITNESS();
}
