/* C20 — data channel selection equals Channel Selection Algorithm #1 (Core spec Vol 6 Part B 4.5.8.2).
 *
 * CSA#1: unmappedChannel(e) = (hop * (e + 1)) mod 37 for the e-th connection event (lastUnmappedChannel starts at 0);
 * if that channel is used it is the data channel, otherwise usedChannels[unmappedChannel mod numUsed], usedChannels being
 * the used channels in ascending order.
 *
 * Proving the real reset() against a from-scratch CSA#1 for all 2^37 maps in one query does not terminate (measured:
 * > 900 s per hop value), so the claim is decomposed into two lemmas about the real code; each is a solver query over
 * all channel maps:
 *   MODE 2  (table lemma) the real build_used_channel_map(map) returns numUsed = popcount(map[0..36]) and, for every j <
 *           numUsed (j symbolic), used[j] is the j-th used channel in ascending order (reference: scan).
 *   MODE 0  (selection lemma) reset(map, HOP), as done for a connect request, HOP concrete (0..31; 32 = any larger value,
 *           symbolic), map and previous table symbolic. Inside reset() the call to build_used_channel_map goes to a
 *           contract stub (ll2c `stubs`): it returns an arbitrary table satisfying exactly the postcondition that MODE 2
 *           proves for the real function (and nothing else; entries beyond numUsed are arbitrary).  Asserted: accepted <=>
 *           5 <= hop <= 16 and numUsed >= 2; accepted => data_channel(e) == CSA#1(map, hop, e) for all 37 positions e;
 *           rejected => the table in use is unchanged.
 *   MODE 1  the same for reset(map) as done for LL_CHANNEL_MAP_IND after a successful reset(map0, HOP).
 * MODE 2 + MODE 0/1 give data_channel(e) == CSA#1(map, hop, e) for the real code (assume-guarantee over a pure function).
 * MODE 3  end-to-end cross-check without the decomposition for one position POS of the sequence (thorough tier only).
 */
#include "vf.h"

int      cm_reset(const uint8_t* map, unsigned hop);
int      cm_reset_map(const uint8_t* map);
unsigned cm_data_channel(unsigned index);
unsigned cm_build_used(const uint8_t* map, uint8_t* used);
void     cm_set_raw(unsigned index, uint8_t v);
void     cm_set_hop(uint8_t hop);

static int used_bit(const uint8_t* map, unsigned ch) { return (map[ch >> 3] >> (ch & 7)) & 1; }

static unsigned count_used(const uint8_t* map)
{
    unsigned n = 0;
    for (unsigned ch = 0; ch < 37; ++ch) n += (unsigned)used_bit(map, ch);
    return n;
}

/* rank[ch] = number of used channels below ch.  "v is the j-th used channel in ascending order" <=> v is used and rank[v] == j */
static uint8_t rank_[38];
static void build_rank(const uint8_t* map)
{
    unsigned n = 0;
    for (unsigned ch = 0; ch < 37; ++ch) { rank_[ch] = (uint8_t)n; n += (unsigned)used_bit(map, ch); }
    rank_[37] = (uint8_t)n;
}
static int is_jth_used(const uint8_t* map, unsigned v, unsigned j)
{
    return v < 37 && used_bit(map, v) && rank_[v] == j;
}

/* c mod n for a constant c and 1 <= n <= 37 without a symbolic divider circuit */
static unsigned mod_small(unsigned c, unsigned n)
{
    unsigned r = 0;
    for (unsigned k = 1; k <= 37; ++k) if (n == k) r = c % k;
    return r;
}

/* CSA#1 as a predicate on the selected channel (rank_ built for map) */
static int is_csa1(const uint8_t* map, unsigned hop, unsigned event, unsigned ch)
{
    unsigned unmapped = (hop * (event + 1)) % 37;
    if (used_bit(map, unmapped)) return ch == unmapped;
    return is_jth_used(map, ch, mod_small(unmapped, rank_[37]));
}

/* ---- contract stub for channel_map::build_used_channel_map (name of the generated C function in VF_BUILD_USED).
 * Under CBMC in MODE 0/1/3 the call inside reset() lands here.  In MODE 2, in the native generated-C build it forwards to
 * the real body; the g++ build of the real code (VF_REAL) calls the real function anyway. */
#ifndef VF_REAL
#define VF_CAT2(a, b) a##b
#define VF_CAT(a, b) VF_CAT2(a, b)
uint32_t VF_CAT(VF_BUILD_USED, __real)(void* self, uint8_t* map, uint8_t* used);
static int use_contract;
#ifdef VF_CBMC
uint8_t nondet_u8_stub(void);
#endif
uint32_t VF_BUILD_USED(void* self, uint8_t* map, uint8_t* used)
{
#ifdef VF_CBMC
    if (use_contract) {
        build_rank(map);
        unsigned n = rank_[37];                                  /* postcondition 1 (MODE 2): numUsed == popcount */
        for (unsigned j = 0; j < 37; ++j) {
            uint8_t v = nondet_u8_stub();
            __CPROVER_assume(j >= n || is_jth_used(map, v, j));    /* postcondition 2 (MODE 2): used[j] is the j-th used channel */
            used[j] = v;
        }
        return n;
    }
#endif
    return VF_CAT(VF_BUILD_USED, __real)(self, map, used);
}
#endif

static unsigned pos_sel;   /* 37 = all positions */
static void check_table(const uint8_t* map, unsigned hop)
{
    build_rank(map);
    for (unsigned e = 0; e < 37; ++e) {
        if (pos_sel != 37 && e != pos_sel) continue;
        unsigned ch = cm_data_channel(e);
        OBSERVE(ch);
        CHECK(is_csa1(map, hop, e, ch), "data channel equals CSA#1");
    }
}

void harness(void)
{
    vf_global_ctors();
    const int mode = (int)CASE(MODE);
    const int hopc = (int)CASE(HOP);
    const unsigned pos = (unsigned)CASE(POS);
    pos_sel = pos;
    uint8_t* map = (uint8_t*)vf_alloc(5);
    uint8_t* map2 = (uint8_t*)vf_alloc(5);
    uint8_t before[37];
    in_bytes(map, 5);
    in_bytes(map2, 5);
    unsigned hop_hi = (unsigned)in_range(32, 0xffffffffu);
    unsigned jsym = (unsigned)in_range(0, 36);
    unsigned hop = hopc < 32 ? (unsigned)hopc : hop_hi;
    for (unsigned i = 0; i < 37; ++i) before[i] = (uint8_t)in_range(0, 36);
    uint8_t hop_before = (uint8_t)in_range(0, 255);

    if (mode == 2) {
        uint8_t* used = (uint8_t*)vf_alloc(37);
        for (unsigned i = 0; i < 37; ++i) used[i] = 0xee;
        unsigned n = cm_build_used(map, used);
        OBSERVE(n);
        build_rank(map);
        CHECK(n == count_used(map) && n == rank_[37], "numUsed is the number of used channels among channels 0..36");
        if (jsym < n) { OBSERVE(used[jsym]); CHECK(is_jth_used(map, used[jsym], jsym), "usedChannels[j] is the j-th used channel in ascending order"); }
        WITNESS();
        return;
    }

    /* arbitrary previous table (any earlier connection) */
    for (unsigned i = 0; i < 37; ++i) cm_set_raw(i, before[i]);
    cm_set_hop(hop_before);

    if (mode == 3) {
        int ok = cm_reset(map, hop);   /* real build_used_channel_map: no contract */
        build_rank(map);
        if (ok) { unsigned ch = cm_data_channel(pos); OBSERVE(ch); CHECK(is_csa1(map, hop, pos, ch), "data channel equals CSA#1 (end to end)"); }
        WITNESS();
        return;
    }

#ifndef VF_REAL
    use_contract = 1;
#endif
    unsigned numUsed = count_used(map);
    int ok = cm_reset(map, hop);
    OBSERVE(ok);
    int expect = hop >= 5 && hop <= 16 && numUsed >= 2;
    CHECK((ok != 0) == expect, "connect request parameters are accepted exactly for hop 5..16 and at least two used channels");
    if (mode == 0) {
        if (expect) check_table(map, hop);
        else for (unsigned i = 0; i < 37; ++i) { unsigned ch = cm_data_channel(i); OBSERVE(ch); CHECK(ch == before[i], "rejected parameters leave the channel table unchanged"); }
    } else {
        ASSUME(expect);
        uint8_t saved[37];
        for (unsigned i = 0; i < 37; ++i) saved[i] = (uint8_t)cm_data_channel(i);
        numUsed = count_used(map2);
        int ok2 = cm_reset_map(map2);
        OBSERVE(ok2);
        CHECK((ok2 != 0) == (numUsed >= 2), "channel map update is applied exactly when it leaves at least two used channels");
        if (numUsed >= 2) check_table(map2, hop);
        else for (unsigned i = 0; i < 37; ++i) { unsigned ch = cm_data_channel(i); OBSERVE(ch); CHECK(ch == saved[i], "a rejected channel map update leaves the channel table unchanged"); }
    }
    WITNESS();
}
