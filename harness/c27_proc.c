/* C27 — procedure response timeout of peripheral initiated procedures (Core spec Vol 6 Part B 5.2: 40 s).
 *
 * Real code: link_layer::transmit_pending_control_pdus (MODE 0), link_layer::timeout (MODE 1), link_layer::end_event (MODE 2) with
 * force_disconnect and the connection callbacks, real link layer (shim ll_d, VFD_CFG 0), state set directly, no received PDU.
 *
 * MODE 0  the request PDU of a pending peripheral initiated procedure is sent: the response timer is started with 40 s
 *         symbolic: which procedures are pending (connection parameter request, PHY request, version exchange), proposed parameters
 * MODE 1  timeout() (a connection event without any received PDU) with the response timer running: remaining time P in 1 us .. 40 s,
 *         time T since the last anchor symbolic: P <= T => the connection is closed with reason 0x22; T < P (and no supervision timeout) => stays open
 * MODE 2  end_event() (connection event took place, nothing received that answers): same, and the timer is reduced by the elapsed time
 */
#include "c27_common.h"

#define PROC_TIMEOUT_US 40000000u

void harness(void)
{
    vf_global_ctors();
    const int mode = (int)CASE(MODE);

    env_reset();
    vfd_reset_buffers();

    sym_misc(0);
    sym_parameters();
    st[VFD_USED_FEATURES] = cfg_features(0);
    const unsigned pending = (unsigned)in_range(0, 7);       /* bit0 connection parameter request, bit1 PHY request, bit2 version exchange */
    st[VFD_FLAGS]        = (pending & 1 ? 1u : 0u) | (pending & 2 ? 8u : 0u) | (pending & 4 ? 16u : 0u);
    st[VFD_PROPOSED_MIN] = in_u16(); st[VFD_PROPOSED_MAX] = in_u16(); st[VFD_PROPOSED_LATENCY] = in_u16(); st[VFD_PROPOSED_TIMEOUT] = in_u16();
    st[VFD_PHY_REQ_TX]   = (uint32_t)in_range(0, 3); st[VFD_PHY_REQ_RX] = (uint32_t)in_range(0, 3);
    const uint32_t P     = (uint32_t)in_range(1, PROC_TIMEOUT_US);
    const uint32_t T     = (uint32_t)in_range(0, 36000000u);
    const unsigned hop   = (unsigned)in_range(5, 16);
    const unsigned flags = (unsigned)in_range(0, 63);

    if (mode == 0) {
        st[VFD_PROC_TIMEOUT] = 0;
        vfd_set_state(st);
        VF_KNOWN_FINDING(phy_request_without_response_timeout, (pending & 1) == 0 && (pending & 2) != 0);
        vfd_transmit_pending_control_pdus();
        uint32_t post[VFD_NFIELDS];
        vfd_get_state(post);
        OBSERVE(env_n_tx); OBSERVE_BYTES(env_tx[0], 29); OBSERVE(post[VFD_PROC_TIMEOUT]); OBSERVE(post[VFD_FLAGS]);
        CHECK(env_n_tx == (pending ? 1u : 0u), "one request PDU is sent if a procedure is pending, nothing otherwise");
        if (env_n_tx == 1) {
            const unsigned ro = env_tx[0][2];
            CHECK(ro == 0x0F || ro == 0x16 || ro == 0x0C, "the PDU sent starts one of the pending procedures");
            CHECK((ro == 0x0F && (pending & 1)) || (ro == 0x16 && (pending & 2)) || (ro == 0x0C && (pending & 4)), "only a requested procedure is started");
            CHECK(post[VFD_PROC_TIMEOUT] == PROC_TIMEOUT_US, "sending the request of a peripheral initiated procedure starts the 40 s response timer");
        } else {
            CHECK(post[VFD_PROC_TIMEOUT] == 0, "no procedure started: no response timer");
        }
        WITNESS();
        return;
    }

    st[VFD_FLAGS]           = 0;
    st[VFD_PROC_TIMEOUT]    = P;
    st[VFD_TIME_SINCE_LAST] = T;
    const int map_ok = vfd_set_channel_map(FULL_MAP, hop);
    CHECK(map_ok, "a full channel map is accepted");
    vfd_set_state(st);

    if (mode == 1) vfd_timeout(); else vfd_end_event(flags);

    uint32_t post[VFD_NFIELDS];
    vfd_get_state(post);
    OBSERVE(post[VFD_STATE]); OBSERVE(post[VFD_PROC_TIMEOUT]); OBSERVE(env_n_cb);
    const int closed = post[VFD_STATE] == VFD_ST_ADVERTISING;
    const int supervision = mode == 1 && T >= st[VFD_CONN_TIMEOUT];

    if (P <= T) {
        CHECK(closed, "the response timeout of a peripheral initiated procedure (40 s) ends the connection");
        CHECK(env_n_cb == 1 && env_cb_kind[0] == VFD_CB_CLOSED && env_cb_a[0] == 0x22, "the connection is closed with reason 0x22 LL response timeout");
    } else {
        if (!supervision) {
            CHECK(!closed, "the connection is not ended before the response timeout elapsed");
            CHECK(post[VFD_PROC_TIMEOUT] == (mode == 2 ? P - T : P), "the response timer keeps running (reduced by the time that passed up to this connection event)");
        } else {
            CHECK(closed, "supervision timeout ends the connection");
        }
    }
    WITNESS();
}
