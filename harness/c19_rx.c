/* C19 (incoming) — the real bluetoe::link_layer::ll_l2cap_sdu_buffer<Radio, Callbacks, MTU>::next_ll_l2cap_received() /
 * free_ll_l2cap_received() / add_to_receive_buffer() fed by a (possibly malicious) central.
 *
 * From construction, K link layer PDUs arrive one after the other; after each arrival the link layer calls
 * next_ll_l2cap_received() (case parameter TW: twice, it is documented to return the same PDU until it is freed) and, when
 * something was returned, free_ll_l2cap_received().  The shape of the sequence (LLID 1 continuation / 2 start / 3 LL control and
 * payload size of every PDU) is the case split; all PDU bytes are symbolic, hence the L2CAP length field (any 16 bit value, also
 * larger than the MTU or smaller than what the fragments carry), the CID, overlong / short / orphaned / repeated fragments.
 * Every PDU is an exact-size object (reads beyond the PDU are caught by the pointer checks).
 *
 * Oracle (from the property statement; Core spec Vol 3 Part A 7.2.1 / Vol 6 Part B 2.4.1 for the roles of the LLIDs):
 *   - LL control PDUs are handed through unchanged, in order, exactly once; they may be interleaved with the fragments of an SDU
 *   - a start fragment whose L2CAP length + 4 equals its payload is handed through unchanged
 *   - a start fragment ends any reassembly in progress.  If it is too short for the L2CAP header or announces more than the MTU
 *     nothing is reassembled; else it opens a reassembly of announced length + 4 + LL header (+ layout overhead) bytes
 *   - a continuation without open reassembly is dropped; else it is appended.  When the announced length is reached the SDU is
 *     delivered: size exactly the announced one, bytes exactly the start fragment followed by the continuation payloads (one
 *     byte at a symbolic, i.e. universally quantified, position is compared)
 *   - permissive where the statement leaves latitude: when a fragment carries more than the announced rest (overlong
 *     continuation, or a start fragment longer than its own announcement) the implementation may deliver the SDU cut at the
 *     announced length or drop it
 *   - memory: remaining + used never exceed the reassembly buffer; every byte of the ll_l2cap_sdu_buffer object behind
 *     receive_buffer_ except receive_size_ and receive_buffer_used_ (padding, transmit_buffer_, transmit_size_,
 *     transmit_buffer_used_; filled with symbolic canary values) is unchanged after every call.  A copy runs upwards from inside
 *     receive_buffer_, so an overflow hits the canary directly behind it first.  Writes beyond the object are caught by CBMC's
 *     pointer checks (ASan in the replay).
 *
 * case parameters: CFG (shims/sdu.cpp), K number of PDUs (<= 4), T0..T3 / Z0..Z3: LLID / payload size of PDU i, TW,
 *                  MAXCOPY = largest PDU of the case (bound of the copy loop)
 */
#include "vf.h"

const uint8_t* vf_sdu_next_ll_l2cap_received(int cfg, unsigned long* out_size, int* where);
void vf_sdu_construct(int cfg);
void vf_sdu_free_ll_l2cap_received(int cfg);
unsigned long vf_sdu_geometry(int cfg, int what);
unsigned char vf_sdu_peek(int cfg, unsigned long off);
void vf_sdu_poke(int cfg, unsigned long off, unsigned char v);
unsigned long vf_sdu_receive_size(int cfg);
unsigned long vf_sdu_receive_buffer_used(int cfg);

#ifdef VF_CBMC
/* CBMC's built-in memmove models a copy of symbolic length with array theory and does not finish; the copies of the SDU buffer
 * (std::copy of at most one PDU, case parameter MAXCOPY) are modelled by a byte loop covered by the unwinding assertions.
 * Source and destination are different objects (PDU of the radio -> reassembly buffer), asserted, so that a forward copy is
 * memmove.  No pointer -> integer conversions. */
void* memmove(void* d, const void* s, size_t n)
{
    uint8_t* dp = (uint8_t*)d; const uint8_t* sp = (const uint8_t*)s;
    __CPROVER_assert(n <= MAXCOPY, "VFCHECK memmove: the SDU buffer never copies more than one PDU at once");
    __CPROVER_assert(n == 0 || __CPROVER_POINTER_OBJECT(d) != __CPROVER_POINTER_OBJECT(s), "VFCHECK memmove: source and destination are distinct objects");
    for (size_t i = 0; i < MAXCOPY && i < n; ++i) dp[i] = sp[i];
    return d;
}
#endif

#define NCFG 3
static const unsigned MTU[NCFG]  = { 65, 65, 40 };
static const unsigned LOVH[NCFG] = { 0, 1, 0 };      /* layout overhead: bytes between the 2 byte LL header and the payload */

#define MAXK 4
static int cfg;
static unsigned mtu, llo;       /* llo: LL header + layout overhead = offset of the payload in a PDU */

/* ---- environment: the radio's receive queue */
static uint8_t* q_pdu[MAXK];
static unsigned long q_size[MAXK];
static int q_head, q_tail;
static int n_free, n_cb;

uint8_t* vf_sdu_env_allocate_transmit_buffer(unsigned long size, unsigned long* out_size) { (void)size; *out_size = 0; return 0; }
void vf_sdu_env_commit_transmit_buffer(uint8_t* buffer, unsigned long size) { (void)buffer; (void)size; CHECK(0, "nothing is transmitted while no SDU was committed"); }
unsigned long vf_sdu_env_max_tx_size(void) { return 27 + llo; }
const uint8_t* vf_sdu_env_next_received(unsigned long* out_size)
{
    if (q_head == q_tail) { *out_size = 0; return 0; }
    *out_size = q_size[q_head];
    return q_pdu[q_head];
}
void vf_sdu_env_free_received(void)
{
    CHECK(q_head != q_tail, "free_received() of the radio is only called when a PDU is pending");
    if (q_head != q_tail) ++q_head;
    ++n_free;
}
void vf_sdu_env_pdu_receive_data_callback(const uint8_t* buffer, unsigned long size) { (void)buffer; (void)size; ++n_cb; }

/* ---- canaries: the object behind the reassembly buffer */
static unsigned long g_size, g_rb, g_rbsize, g_rs, g_ru;
static uint8_t snap[256];

static int canary(unsigned long o)
{
    return o >= g_rb + g_rbsize && !(o >= g_rs && o < g_rs + 2) && !(o >= g_ru && o < g_ru + 8);
}
static int memory_ok(void)
{
    int same = 1;
    for (unsigned long o = g_rb + g_rbsize; o < g_size; ++o) if (canary(o)) same &= snap[o] == vf_sdu_peek(cfg, o);
    CHECK(same, "reassembly writes nothing outside its buffer (bytes of the object behind receive_buffer_ other than its two counters are unchanged)");
    unsigned long used = vf_sdu_receive_buffer_used(cfg), rest = vf_sdu_receive_size(cfg);
    OBSERVE(used); OBSERVE(rest);
    int fits = used <= g_rbsize && rest <= g_rbsize && used + rest <= g_rbsize;
    CHECK(fits, "used plus remaining bytes of the SDU being reassembled never exceed the reassembly buffer");
    return same && fits;
}

void harness(void)
{
    vf_global_ctors();
    cfg = (int)CASE(CFG);
    const int k = (int)CASE(K);
    const int twice = (int)CASE(TW);
    const long ct[MAXK] = { CASE(T0), CASE(T1), CASE(T2), CASE(T3) };
    const long cz[MAXK] = { CASE(Z0), CASE(Z1), CASE(Z2), CASE(Z3) };
    mtu = MTU[cfg]; llo = 2 + LOVH[cfg];

    /* inputs: the content of every PDU, canary values, the compared position */
    for (int s = 0; s < k; ++s) {
        q_size[s] = llo + (unsigned long)cz[s];
        q_pdu[s] = (uint8_t*)vf_alloc(q_size[s]);
        in_bytes(q_pdu[s], q_size[s]);
    }
    const uint8_t cv = in_u8();
    const unsigned J = (unsigned)in_range(0, mtu + 4 + llo - 1);        /* the SDU byte that is compared */

    vf_sdu_construct(cfg);
    g_size = vf_sdu_geometry(cfg, 0); g_rb = vf_sdu_geometry(cfg, 1); g_rbsize = vf_sdu_geometry(cfg, 2);
    g_rs = vf_sdu_geometry(cfg, 3); g_ru = vf_sdu_geometry(cfg, 4);
    CHECK(g_rbsize == mtu + 4 + llo && g_size <= sizeof snap && g_rs >= g_rb + g_rbsize && g_ru >= g_rb + g_rbsize,
          "reassembly buffer holds an SDU of MTU size plus L2CAP and LL header; its counters lie behind it");
    if (!(g_rbsize == mtu + 4 + llo && g_size <= sizeof snap)) return;
    {
        /* transmit_size_ / transmit_buffer_used_ keep their constructed value; everything else behind receive_buffer_ gets a canary value */
        unsigned long ts = vf_sdu_geometry(cfg, 7), tu = vf_sdu_geometry(cfg, 8);
        for (unsigned long o = g_rb + g_rbsize; o < g_size; ++o) {
            if (!canary(o)) continue;
            if (!((o >= ts && o < ts + 2) || (o >= tu && o < tu + 8))) vf_sdu_poke(cfg, o, (unsigned char)(cv ^ (o * 7)));
            snap[o] = vf_sdu_peek(cfg, o);
        }
    }
    if (!memory_ok()) return;

    /* model */
    int open = 0;                 /* a reassembly is in progress */
    unsigned need = 0, have = 0;  /* announced total / collected so far (bytes of the delivered buffer) */
    int g_known = 0; uint8_t g_byte = 0;      /* byte J of the SDU under reassembly */

    q_head = q_tail = 0;
    for (int s = 0; s < k; ++s) {
        /* the PDU arrives */
        const unsigned size = (unsigned)q_size[s];
        uint8_t* pdu = q_pdu[s];
        const unsigned llid = (unsigned)ct[s];
        const unsigned body = size - llo;
        pdu[0] = (uint8_t)((pdu[0] & ~3u) | llid);
        pdu[1] = (uint8_t)body;
        q_tail = s + 1;
        const unsigned l2len = body >= 2 ? ((unsigned)pdu[llo] | ((unsigned)pdu[llo + 1] << 8)) : 0;

        /* what the model expects for this PDU: 0 nothing, 1 the PDU itself, 2 a reassembled SDU, 3 SDU cut at the announced size or nothing */
        int expect = 0;
        if (llid == 3) {
            expect = 1;
        } else if (llid == 2) {
            open = 0;
            if (body >= 4) {
                if (l2len + 4 == body) expect = 1;
                else if (l2len <= mtu) {
                    need = l2len + 4 + llo; have = size;
                    g_known = J < size; g_byte = J < size ? pdu[J] : 0;
                    if (have > need) expect = 3; else open = 1;
                }
            }
        } else if (open) {
            if (J >= have && J < have + body) { g_known = 1; g_byte = pdu[llo + (J - have)]; }
            have += body;
            if (have == need) expect = 2;
            else if (have > need) expect = 3;
        }

        unsigned long rsz = 7; int where = 9;
        const uint8_t* r = vf_sdu_next_ll_l2cap_received(cfg, &rsz, &where);
        OBSERVE(rsz); OBSERVE(where);
        if (!memory_ok()) return;
        if (twice) {
            unsigned long rsz2 = 7; int where2 = 9;
            const uint8_t* r2 = vf_sdu_next_ll_l2cap_received(cfg, &rsz2, &where2);
            CHECK(r2 == r && rsz2 == rsz && where2 == where, "next_ll_l2cap_received() returns the same PDU/SDU until it is freed");
            if (!memory_ok()) return;
        }

        if (expect == 0) {
            CHECK(where == 0 && rsz == 0, "nothing is delivered for a dropped or incomplete fragment");
        } else if (expect == 1) {
            CHECK(where == 2 && r == pdu && rsz == size, "LL control PDUs and unfragmented L2CAP PDUs are handed through unchanged and in order");
        } else {
            if (expect == 2) CHECK(where == 1, "the SDU is delivered when its announced length was received");
            if (where != 0) {
                CHECK(where == 1 && rsz == need, "a delivered SDU has exactly the length its L2CAP header announces");
                if (where == 1 && rsz == need && J < need) {
                    CHECK(g_known, "internal: compared byte was received");
                    CHECK(r[J] == g_byte, "a delivered SDU consists of the bytes of one start fragment followed by its continuations");
                    OBSERVE(r[J]);
                }
            }
            open = 0;
        }
        if (where != 0) {
            int before = n_free;
            vf_sdu_free_ll_l2cap_received(cfg);
            if (!memory_ok()) return;
            if (where == 2) CHECK(n_free == before + 1, "freeing a handed through PDU frees exactly this PDU of the radio");
            else            CHECK(n_free == before, "freeing a reassembled SDU frees no PDU of the radio");
        }
        CHECK(q_head == q_tail, "every received PDU is consumed exactly once");
        if (q_head != q_tail) return;
    }
    OBSERVE(n_cb);      /* the data callback is no part of the property (it is repeated when next_ll_l2cap_received() is repeated) */

    WITNESS();
}
