/* vf.h — harness API shared by every /verif harness.
 *
 * One harness source is built three ways:
 *   -DVF_CBMC    inputs are nondeterministic (solver variables); every input is also written to
 *                vf_input_log[] so that a counterexample trace can be turned into a replay file.
 *   native diff  inputs come from a seeded PRNG; every CHECK condition and OBSERVE value is folded
 *                into a hash.  Run once against the C generated from LLVM IR and once against the
 *                g++ build of the real shim: the outputs must be identical (translation validation).
 *   native replay inputs come from a replay file (solver counterexample); a failing CHECK, a
 *                sanitizer report or a crash confirms the violation against the real build.
 *
 * Rules for harness authors:
 *   - talk to the code under test only through the extern "C" functions of the shim;
 *   - take every input through in_*(): never call nondet_* directly;
 *   - case parameters (compile-time constants under CBMC) are read through CASE(NAME);
 *   - end harness() with WITNESS().
 */
#ifndef VF_H
#define VF_H
#include <stdint.h>
#include <stddef.h>
#include <string.h>

#ifdef __cplusplus
extern "C" {
#endif

void vf_global_ctors(void);

#ifdef VF_CBMC
/* ------------------------------------------------------------------------------------------ CBMC */
#include <stdlib.h>
uint64_t nondet_u64(void);
#ifndef VF_MAX_INPUTS
#define VF_MAX_INPUTS 256
#endif
extern uint64_t vf_input_log[VF_MAX_INPUTS];
extern unsigned vf_input_n;
static inline uint64_t vf_in(uint64_t v, uint64_t mask)
{
    v &= mask;
    if (vf_input_n < VF_MAX_INPUTS) vf_input_log[vf_input_n] = v;
    ++vf_input_n;
    return v;
}
#define in_u64()  ((uint64_t)vf_in(nondet_u64(), ~0ull))
#define in_u32()  ((uint32_t)vf_in(nondet_u64(), 0xffffffffull))
#define in_u16()  ((uint16_t)vf_in(nondet_u64(), 0xffffull))
#define in_u8()   ((uint8_t)vf_in(nondet_u64(), 0xffull))
#define in_bool() ((int)vf_in(nondet_u64(), 1ull))
static inline uint64_t in_range(uint64_t lo, uint64_t hi)
{
    uint64_t v = vf_in(nondet_u64(), ~0ull);
    __CPROVER_assume(v >= lo && v <= hi);
    return v;
}
#define ASSUME(c)      __CPROVER_assume(c)
#define CHECK(c, msg)  __CPROVER_assert((c), "VFCHECK " msg)
#ifdef VF_NO_WITNESS
#define WITNESS()      ((void)0)
#else
#define WITNESS()      __CPROVER_assert(0, "VF_WITNESS reachability")
#endif
#define OBSERVE(x)            ((void)(x))
#define OBSERVE_BYTES(p, n)   ((void)0)
static inline void* vf_alloc(size_t n)
{
    void* p = malloc(n);
    __CPROVER_assume(p != 0);
    return p;
}
#define CASE(name) (name)
#define VF_UNINTERPRETED(name) __CPROVER_uninterpreted_##name

#else
/* ---------------------------------------------------------------------------------------- native */
uint64_t vf_native_in(uint64_t mask);
uint64_t vf_native_range(uint64_t lo, uint64_t hi);
void     vf_native_assume(int c, const char* text, int line);
void     vf_native_check(int c, const char* msg, int line);
void     vf_native_observe(uint64_t v);
void     vf_native_observe_bytes(const void* p, size_t n);
void*    vf_native_alloc(size_t n);
long     vf_native_case(const char* name);
#define in_u64()  ((uint64_t)vf_native_in(~0ull))
#define in_u32()  ((uint32_t)vf_native_in(0xffffffffull))
#define in_u16()  ((uint16_t)vf_native_in(0xffffull))
#define in_u8()   ((uint8_t)vf_native_in(0xffull))
#define in_bool() ((int)vf_native_in(1ull))
#define in_range(lo, hi) vf_native_range((lo), (hi))
#define ASSUME(c)      vf_native_assume(!!(c), #c, __LINE__)
#define CHECK(c, msg)  vf_native_check(!!(c), msg, __LINE__)
#define WITNESS()      ((void)0)
#define OBSERVE(x)            vf_native_observe((uint64_t)(x))
#define OBSERVE_BYTES(p, n)   vf_native_observe_bytes((p), (n))
#define vf_alloc(n)    vf_native_alloc(n)
#define CASE(name)     vf_native_case(#name)
#endif

static inline void in_bytes(uint8_t* p, size_t n)
{
    for (size_t i = 0; i < n; ++i) p[i] = in_u8();
}

/* Known findings.  The driver passes -DKF_<id>=1 (exclude the region: prove the rest) or
 * -DKF_<id>=2 (restrict to the region: show the finding is still there) for every finding listed
 * in /verif/known_findings.json; for an unlisted id the macro is empty and the failure is
 * reported as a VIOLATION. Native builds get the mode through vf_native_case("KF_<id>"). */
#ifdef VF_CBMC
#define VF_KF_MODE(id) KF_##id
#define VF_KNOWN_FINDING(id, region) do { \
        if (VF_KF_MODE(id) == 1) ASSUME(!(region)); \
        else if (VF_KF_MODE(id) == 2) ASSUME(region); \
    } while (0)
#else
#define VF_KNOWN_FINDING(id, region) do { \
        long vf_kf_m = vf_native_case("KF_" #id); \
        if (vf_kf_m == 1) ASSUME(!(region)); \
        else if (vf_kf_m == 2) ASSUME(region); \
    } while (0)
#endif

#ifdef __cplusplus
}
#endif
#endif
