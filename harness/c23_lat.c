/* C23 — peripheral latency skips only permitted events; event counter, channel index and elapsed time move together.
 *
 * case parameters: INTERVAL (connection interval in units of 1.25 ms, concrete per query), CFG (0 listen_always, 1 strict, 2 strict_plus, 3 default, 4 configuration set with SEL = active member),
 *                  SEL (member of the set: 0 strict, 1 default, 2 listen_always, 3 strict_plus), MODE
 *   MODE 0  one plan_next_connection_event() from an arbitrary state: symbolic channel index, event counter, connection
 *           latency 0..499, all six event flags, pending instant (present?, value)
 *   MODE 1  the same followed by reschedule_on_pending_data() with a symbolic radio answer (disarm possible?, time since
 *           the anchor) — "a skipped event is pulled back because new data became pending"
 *   MODE 2  plan_next_connection_event_after_timeout() and reset_connection_state()
 */
#include "vf.h"

void lat_plan(int cfg, uint16_t latency, unsigned flags, uint32_t interval_us, int pending, uint16_t instant);
void lat_plan_after_timeout(int cfg, uint32_t interval_us);
int  lat_reschedule(int cfg, uint32_t interval_us);
void lat_reset(int cfg);
void lat_select(int which);
void lat_set(int cfg, unsigned channel_index, uint16_t counter, uint32_t time_us, int last_latency);
void lat_get(int cfg, unsigned* channel_index, uint16_t* counter, uint32_t* time_us, int* last_latency);

enum { F_UNACK = 1, F_RX_NOT_EMPTY = 2, F_TX_NOT_EMPTY = 4, F_MORE_DATA = 8, F_PENDING = 16, F_ERROR = 32 };

/* the listen conditions of the predefined configurations, from their documentation */
static unsigned listen_mask(int member)
{
    switch (member) {
    case 0: return F_PENDING | F_MORE_DATA;                                               /* strict */
    case 1: return F_PENDING | F_UNACK | F_RX_NOT_EMPTY | F_TX_NOT_EMPTY | F_MORE_DATA;   /* default */
    case 2: return ~0u;                                                                   /* listen_always */
    default: return F_RX_NOT_EMPTY | F_MORE_DATA;                                         /* strict_plus */
    }
}

static int disarm_ok; static uint32_t disarm_now; static int disarm_calls;
int vf_disarm_connection_event(uint32_t* now_usec) { ++disarm_calls; *now_usec = disarm_now; return disarm_ok; }

void harness(void)
{
    vf_global_ctors();
    const int cfg = (int)CASE(CFG), sel = (int)CASE(SEL), mode = (int)CASE(MODE);
    static const int member_of_cfg[4] = { 2, 0, 3, 1 };
    const int member = cfg == 4 ? sel : member_of_cfg[cfg];
    const int supports_pullback = cfg == 1 || cfg == 3 || cfg == 4;

    unsigned ch0 = (unsigned)in_range(0, 36);
    uint16_t cnt0 = in_u16();
    uint32_t t0 = in_u32();
    int last0 = (int)in_range(1, 500);
    uint16_t latency = (uint16_t)in_range(0, 499);
    unsigned flags = (unsigned)in_range(0, 63);
    /* the connection interval is a case parameter (units of 1.25 ms): a symbolic interval turns every check into a
       multiplier/divider equivalence problem that the SAT back end does not decide (no verdict in 35 min) */
    uint32_t interval = (uint32_t)CASE(INTERVAL) * 1250u;
    int pending = in_bool(); uint16_t instant = in_u16();
    disarm_ok = in_bool(); disarm_now = in_u32();

    if (cfg == 4) lat_select(sel);
    lat_set(cfg, ch0, cnt0, t0, last0);

    unsigned ch; uint16_t cnt; uint32_t t; int last;
    if (mode == 2) {
        lat_plan_after_timeout(cfg, interval);
        lat_get(cfg, &ch, &cnt, &t, &last);
        OBSERVE(ch); OBSERVE(cnt); OBSERVE(t);
        CHECK(cnt == (uint16_t)(cnt0 + 1) && ch == (ch0 + 1) % 37, "after a timeout exactly one event passes: counter and channel index advance by one");
        CHECK(t == t0 + interval, "after a timeout the time since the last anchor grows by one connection interval");
        lat_reset(cfg);
        lat_get(cfg, &ch, &cnt, &t, &last);
        CHECK(cnt == 0 && ch == 0 && t == 0, "a new connection starts with event counter 0 at the first entry of the hop sequence");
        WITNESS();
        return;
    }

    lat_plan(cfg, latency, flags, interval, pending, instant);
    lat_get(cfg, &ch, &cnt, &t, &last);
    OBSERVE(ch); OBSERVE(cnt); OBSERVE(t);
    unsigned d = (uint16_t)(cnt - cnt0);
    CHECK(d >= 1 && d <= (unsigned)latency + 1, "between 1 and latency+1 events pass: never more than the peripheral latency is skipped");
    if ((flags & listen_mask(member)) || (flags & F_ERROR))
        CHECK(d == 1, "the next event is not skipped when a configured listen condition held or an error occurred");
    CHECK(ch == (ch0 + d) % 37, "channel index advances by exactly the number of events that passed");
    CHECK(t == d * interval, "the next event is scheduled a whole number of intervals after the anchor, the number of events that passed");
    unsigned dist = (uint16_t)(instant - cnt0);
    if (pending && dist > 0) CHECK(d <= dist, "peripheral latency never skips a pending instant");
    if (supports_pullback) CHECK(last == (int)d, "the number of planned events is remembered for a later pull back");

    if (mode == 1) {
        /* radio contract: the event can only be disarmed while it is still ahead: now <= d * interval */
        ASSUME(!disarm_ok || disarm_now <= d * interval);
        int r = lat_reschedule(cfg, interval);
        OBSERVE(r);
        unsigned ch2; uint16_t cnt2; uint32_t t2; int last2;
        lat_get(cfg, &ch2, &cnt2, &t2, &last2);
        OBSERVE(ch2); OBSERVE(cnt2); OBSERVE(t2);
        unsigned d2 = (uint16_t)(cnt2 - cnt0);
        if (!supports_pullback || d == 1 || !disarm_ok) {
            CHECK(!r, "nothing is rescheduled without support, without skipped events or when the radio cannot disarm the event");
            CHECK(ch2 == ch && cnt2 == cnt && t2 == t, "the plan is unchanged when nothing is rescheduled");
            CHECK(supports_pullback && d > 1 ? disarm_calls == 1 : disarm_calls == 0, "the radio is asked only when a skipped event could be pulled back");
        } else {
            CHECK(r, "a disarmed event is rescheduled");
            CHECK(d2 >= 1 && d2 <= d, "a pulled back event is not later than planned and at least one event after the anchor");
            CHECK(ch2 == (ch0 + d2) % 37, "after the pull back the channel index still matches the event counter");
            CHECK(t2 == d2 * interval, "after the pull back the event time still matches the event counter");
            CHECK((uint64_t)d2 * interval >= disarm_now, "the pulled back event is not in the past");
            CHECK(d2 == 1 || (uint64_t)(d2 - 1) * interval < disarm_now, "the event is pulled back to the next possible connection event");
        }
    }
    WITNESS();
}
