/* C24 (a) — every advertising event uses exactly the enabled channels, ascending, at the configured rate.
 *
 * Real code: link_layer::run / adv_timeout, advertiser::handle_start_advertising / handle_adv_timeout,
 * variable_advertising_channel_map::{add_channel.., remove_channel.., next_channel, first_channel_selected},
 * advertiser_base::next_adv_event, variable_advertising_interval / advertising_interval<30>, no_auto_start_advertising::impl
 * on the real link_layer (shim ll_c, CFG 0: single advertising type, variable interval; CFG 1: four advertising types, 30 ms).
 *
 * case parameters: CFG, MAP (1..7, bit 0 = channel 37), MAP2 (0: no second phase; 1..7: map used after a stop / restart), NEV,
 *   EXTRA (0..2: advertisements of the event that is running when stop_advertising() is called, beyond its first one)
 *
 * Phase 1: the map is set to MAP through the public remove function (symbolic order), the interval to a symbolic value
 *   (CFG 0), the pseudo random perturbation state to a symbolic value; start_advertising() and run() in symbolic order;
 *   then NEV complete advertising events (+ the first PDU of the next) are driven through adv_timeout() (no request received).
 * Phase 2 (MAP2 != 0): stop_advertising(), one adv_timeout() (nothing may be scheduled any more), the map is changed
 *   MAP -> MAP2 through the public add / remove functions (MAP2 == MAP: no change), start_advertising(); one complete event
 *   (+ the first PDU of the next) is driven.
 *
 * Oracle (property statement; Core spec Vol 6 Part B 4.4.2): the i-th PDU of an event goes to the i-th enabled channel in ascending
 *   order, each enabled channel once, no disabled channel; PDUs inside an event follow immediately (delay 0 = delta_time::now(),
 *   what the scheduled radio interface documents); the first PDU of the next event is scheduled interval + d, 0 <= d <= 10 ms,
 *   after the previous event: the scheduled radio interface measures `when` from the previous advertisement (T0 = T0 + when),
 *   so `when` of the first PDU of an event must be in [interval, interval + 10 ms]. The first PDU after a start is immediate
 *   and begins a new advertising event (first enabled channel).
 */
#include "c24_common.h"

static unsigned expect_ch[4];
static unsigned expect_n;

static void check_pdu(unsigned rec, unsigned pos_in_event, uint32_t interval_us, int first_after_start)
{
    CHECK(env_n_adv == rec + 1, "exactly one advertisement is scheduled per start / per advertising timeout");
    if (rec >= ENV_MAX_REC) return;
    OBSERVE(env_ch[rec]); OBSERVE(env_when[rec]);
    CHECK(env_ch[rec] >= 37 && env_ch[rec] <= 39, "advertising only on the advertising channels 37..39");
    CHECK(env_ch[rec] == expect_ch[pos_in_event], "an advertising event uses exactly the enabled channels, ascending, each once");
    if (first_after_start || pos_in_event != 0)
        CHECK(env_when[rec] == 0, "first advertisement after start and advertisements inside an event are scheduled immediately");
    else
        CHECK(env_when[rec] >= interval_us && env_when[rec] <= interval_us + 10000u,
              "consecutive advertising events are separated by the advertising interval plus 0..10 ms");
}

void harness(void)
{
    vf_global_ctors();
    const int      cfg  = (int)CASE(CFG);
    const unsigned map  = (unsigned)CASE(MAP);
    const unsigned map2 = (unsigned)CASE(MAP2);
    const unsigned nev  = (unsigned)CASE(NEV);
    const unsigned extra = (unsigned)CASE(EXTRA);

    /* all inputs up front */
    const uint32_t perturbation = in_u32();
    const unsigned interval_ms  = (unsigned)in_range(20, 10240);
    const int      start_first  = in_bool();
    const int      descending1  = in_bool();
    const int      descending2  = in_bool();

    uint32_t f[VFC_NADV];
    vfc_get_adv(f);
    CHECK(f[VFC_LL_STATE] == 0, "link layer starts in the initial state");
    f[VFC_PERTURBATION] = perturbation;
    vfc_set_adv(f);

    uint32_t interval_us = 30000u;
    if (cfg == 0) { vfc_interval_ms(interval_ms); interval_us = interval_ms * 1000u; }

    change_map(7, map, descending1);
    expect_n = map_channels(map, expect_ch);

    if (start_first) { vfc_start_advertising(); CHECK(env_n_adv == 0, "nothing is scheduled before run()"); vfc_run(); }
    else             { vfc_run(); CHECK(env_n_adv == 0, "no_auto_start_advertising: run() does not start advertising"); vfc_start_advertising(); }

    unsigned rec = 0;
    check_pdu(rec++, 0, interval_us, 1);
    CHECK(env_n_aa == 1 && env_aa == 0x8E89BED6u && env_crc == 0x555555u, "advertising access address and CRC init are set at start");

    for (unsigned i = 1; i <= nev * expect_n; ++i) {
        vfc_adv_timeout();
        check_pdu(rec++, i % expect_n, interval_us, 0);
    }

    if (map2 != 0) {
        for (unsigned i = 1; i <= extra && i < expect_n; ++i) {       /* stop in the middle of an event */
            vfc_adv_timeout();
            check_pdu(rec++, i, interval_us, 0);
        }
        vfc_stop_advertising();
        vfc_adv_timeout();
        CHECK(env_n_adv == rec, "after stop_advertising() no further advertisement is scheduled");

        change_map(map, map2, descending2);
        expect_n = map_channels(map2, expect_ch);

        vfc_start_advertising();
        check_pdu(rec++, 0, interval_us, 1);
        for (unsigned i = 1; i <= expect_n; ++i) {
            vfc_adv_timeout();
            check_pdu(rec++, i % expect_n, interval_us, 0);
        }
    }

    vfc_get_adv(f);
    CHECK(f[VFC_LL_STATE] == 1, "still advertising");
    WITNESS();
}
