/* c02_tables.h — hand-written expected attribute tables for the servers of shims/att_b.cpp (B1..B7) and the
 * reference functions shared by the C02 / C03 / C04 harnesses.
 *
 * The tables are derived from the server *declarations* by the GATT rules (Core spec Vol 3 Part G 3.1-3.3) and
 * Bluetoe's documentation; nothing here is obtained from the implementation:
 *   - attributes in declaration order: service declaration, include declarations, then per characteristic:
 *     declaration, value, CCCD (if notify/indicate), user description (characteristic_name), descriptors;
 *   - handles are consecutive starting with 1 unless attribute_handle<H> (service declaration / characteristic
 *     declaration gets H, the following attributes follow consecutively) or attribute_handles<D,V,C> (declaration D,
 *     value V, CCCD C or, when there is no CCCD, the next attribute V+1) says otherwise;
 *   - the GAP service (0x1800: device name 0x2A00, appearance 0x2A01) is appended unless no_gap_service_for_gatt_servers;
 *   - a characteristic without UUID gets the service's 128 bit UUID with the last byte xor-ed with its 1-based position;
 *   - service declaration value = service UUID; group end = last attribute of the service;
 *   - include declaration value = handle of the included service declaration, its group end, and the UUID iff 16 bit;
 *   - characteristic declaration value = properties, handle of the value attribute, characteristic UUID.
 */
#ifndef C02_TABLES_H
#define C02_TABLES_H
#include "vf.h"

enum { K_PRIMARY = 1, K_SECONDARY, K_INCLUDE, K_CHARDECL, K_VALUE, K_CCCD, K_DESC };

typedef struct {
    uint16_t handle;
    uint16_t type16;        /* 16 bit attribute type; 0 = the type is the 128 bit UUID in type128 */
    uint8_t  type128[16];   /* little endian */
    uint16_t group_end;     /* service declarations: last handle of the service; otherwise 0 */
    uint8_t  kind;
    uint8_t  vlen;          /* length of the attribute value */
    int8_t   bound;         /* >= 0: the value is bound[bound .. bound+vlen) (bind_characteristic_value); -1: static */
    uint8_t  value[20];
} row_t;

#define NOT128 {0}
#define S_A9   {0xA9,0x3C,0xC7,0x5B,0xED,0x4E,0x8A,0xA2,0x9F,0x49,0xE2,0x0D,0x94,0x40,0x8B,0x8C}   /* 8C8B4094-0DE2-499F-A28A-4EED5BC73CA9 */
#define S_A9_X1 {0xA8,0x3C,0xC7,0x5B,0xED,0x4E,0x8A,0xA2,0x9F,0x49,0xE2,0x0D,0x94,0x40,0x8B,0x8C}  /* ... ^ 1 */
#define C_FF   {0xFF,0x3C,0xC7,0x5B,0xED,0x4E,0x8A,0xA2,0x9F,0x49,0xE2,0x0D,0x94,0x40,0x8B,0x8C}   /* 8C8B4094-0DE2-499F-A28A-4EED5BC73CFF */
#define C_F0   {0x2A,0xD9,0x91,0x11,0xAB,0x5B,0x58,0xB0,0x3B,0x4F,0x50,0x44,0x52,0x6E,0x42,0xF0}   /* F0426E52-4450-4F3B-B058-5BAB1191D92A */
#define S_D9   {0xEB,0x4F,0xF4,0xC4,0x2A,0x28,0x66,0x93,0x90,0x4D,0xD3,0xE7,0x00,0x3E,0x47,0xD9}   /* D9473E00-E7D3-4D90-9366-282AC4F44FEB */
#define S_D9_X1 {0xEA,0x4F,0xF4,0xC4,0x2A,0x28,0x66,0x93,0x90,0x4D,0xD3,0xE7,0x00,0x3E,0x47,0xD9}  /* ... ^ 1 */
#define C_D901 {0x01,0x4F,0xF4,0xC4,0x2A,0x28,0x66,0x93,0x90,0x4D,0xD3,0xE7,0x00,0x3E,0x47,0xD9}   /* D9473E00-E7D3-4D90-9366-282AC4F44F01 */

/* ---------------------------------------------------------------------------------------------- B1 (cfg 0) */
static const row_t table_b1[] = {
    /* service 8C8B4094-...-3CA9 */
    { 0x0001, 0x2800, NOT128, 0x000A, K_PRIMARY, 16, -1, S_A9 },
    { 0x0002, 0x2803, NOT128, 0, K_CHARDECL, 19, -1, { 0x1A, 0x03,0x00, 0xA8,0x3C,0xC7,0x5B,0xED,0x4E,0x8A,0xA2,0x9F,0x49,0xE2,0x0D,0x94,0x40,0x8B,0x8C } },
    { 0x0003, 0,      S_A9_X1, 0, K_VALUE,    4,  0, {0} },                       /* b1_v1, read/write/notify */
    { 0x0004, 0x2902, NOT128, 0, K_CCCD,      2, -1, { 0x00, 0x00 } },
    { 0x0005, 0x2901, NOT128, 0, K_DESC,      4, -1, { 'T','e','m','p' } },
    { 0x0006, 0x2803, NOT128, 0, K_CHARDECL,  5, -1, { 0x0A, 0x07,0x00, 0x19,0x2A } },
    { 0x0007, 0x2A19, NOT128, 0, K_VALUE,     1,  4, {0} },                       /* b1_v2 */
    { 0x0008, 0x2803, NOT128, 0, K_CHARDECL, 19, -1, { 0x02, 0x09,0x00, 0xFF,0x3C,0xC7,0x5B,0xED,0x4E,0x8A,0xA2,0x9F,0x49,0xE2,0x0D,0x94,0x40,0x8B,0x8C } },
    { 0x0009, 0,      C_FF,   0, K_VALUE,     1, -1, { 0x42 } },
    { 0x000A, 0x2904, NOT128, 0, K_DESC,      3, -1, { 0x08, 0x15, 0x47 } },
    /* service 0x1816 */
    { 0x000B, 0x2800, NOT128, 0x0010, K_PRIMARY, 2, -1, { 0x16, 0x18 } },
    { 0x000C, 0x2803, NOT128, 0, K_CHARDECL,  5, -1, { 0x2A, 0x0D,0x00, 0x5B,0x2A } },
    { 0x000D, 0x2A5B, NOT128, 0, K_VALUE,     2,  5, {0} },                       /* b1_v3, read/write/indicate */
    { 0x000E, 0x2902, NOT128, 0, K_CCCD,      2, -1, { 0x00, 0x00 } },
    { 0x000F, 0x2803, NOT128, 0, K_CHARDECL,  5, -1, { 0x02, 0x10,0x00, 0x5C,0x2A } },
    { 0x0010, 0x2A5C, NOT128, 0, K_VALUE,     2, -1, { 0x34, 0x12 } },
    /* GAP service, appended by default */
    { 0x0011, 0x2800, NOT128, 0x0015, K_PRIMARY, 2, -1, { 0x00, 0x18 } },
    { 0x0012, 0x2803, NOT128, 0, K_CHARDECL,  5, -1, { 0x02, 0x13,0x00, 0x00,0x2A } },
    { 0x0013, 0x2A00, NOT128, 0, K_VALUE,    14, -1, { 'B','l','u','e','t','o','e','-','S','e','r','v','e','r' } },
    { 0x0014, 0x2803, NOT128, 0, K_CHARDECL,  5, -1, { 0x02, 0x15,0x00, 0x01,0x2A } },
    { 0x0015, 0x2A01, NOT128, 0, K_VALUE,     2, -1, { 0x00, 0x00 } },
};

/* ---------------------------------------------------------------------------------------------- B2 (cfg 1) */
static const row_t table_b2[] = {
    /* service 0x180F, attribute_handle<0x10> */
    { 0x0010, 0x2800, NOT128, 0x0042, K_PRIMARY, 2, -1, { 0x0F, 0x18 } },
    /* attribute_handles<0x20,0x22>, notify, name */
    { 0x0020, 0x2803, NOT128, 0, K_CHARDECL,  5, -1, { 0x12, 0x22,0x00, 0x19,0x2A } },
    { 0x0022, 0x2A19, NOT128, 0, K_VALUE,     1, -1, { 0x42 } },
    { 0x0023, 0x2902, NOT128, 0, K_CCCD,      2, -1, { 0x00, 0x00 } },
    { 0x0024, 0x2901, NOT128, 0, K_DESC,      3, -1, { 'F','o','o' } },
    /* attribute_handles<0x30,0x32,0x34>, indicate, descriptor */
    { 0x0030, 0x2803, NOT128, 0, K_CHARDECL, 19, -1, { 0x2A, 0x32,0x00, 0x2A,0xD9,0x91,0x11,0xAB,0x5B,0x58,0xB0,0x3B,0x4F,0x50,0x44,0x52,0x6E,0x42,0xF0 } },
    { 0x0032, 0,      C_F0,   0, K_VALUE,     2,  0, {0} },                       /* b2_v1 */
    { 0x0034, 0x2902, NOT128, 0, K_CCCD,      2, -1, { 0x00, 0x00 } },
    { 0x0035, 0x2904, NOT128, 0, K_DESC,      2, -1, { 0x19, 0x04 } },
    /* no fixed handle: follows */
    { 0x0036, 0x2803, NOT128, 0, K_CHARDECL,  5, -1, { 0x02, 0x37,0x00, 0x1A,0x2A } },
    { 0x0037, 0x2A1A, NOT128, 0, K_VALUE,     1, -1, { 0x44 } },
    /* attribute_handle<0x40>, name */
    { 0x0040, 0x2803, NOT128, 0, K_CHARDECL,  5, -1, { 0x02, 0x41,0x00, 0x1B,0x2A } },
    { 0x0041, 0x2A1B, NOT128, 0, K_VALUE,     1, -1, { 0x45 } },
    { 0x0042, 0x2901, NOT128, 0, K_DESC,      3, -1, { 'B','a','r' } },
    /* service D9473E00-..., no fixed handle: follows */
    { 0x0043, 0x2800, NOT128, 0x0045, K_PRIMARY, 16, -1, S_D9 },
    { 0x0044, 0x2803, NOT128, 0, K_CHARDECL,  5, -1, { 0x02, 0x45,0x00, 0x1C,0x2A } },
    { 0x0045, 0x2A1C, NOT128, 0, K_VALUE,     1, -1, { 0x46 } },
    /* service 0x1801, attribute_handle<0x100>, attribute_handles<0x1000,0x2000,0x3000> */
    { 0x0100, 0x2800, NOT128, 0x3000, K_PRIMARY, 2, -1, { 0x01, 0x18 } },
    { 0x1000, 0x2803, NOT128, 0, K_CHARDECL,  5, -1, { 0x22, 0x00,0x20, 0x05,0x2A } },
    { 0x2000, 0x2A05, NOT128, 0, K_VALUE,     4, -1, { 0x01, 0x00, 0xFF, 0xFF } },
    { 0x3000, 0x2902, NOT128, 0, K_CCCD,      2, -1, { 0x00, 0x00 } },
};

/* ---------------------------------------------------------------------------------------------- B3 (cfg 2) */
static const row_t table_b3[] = {
    /* secondary service 0x18AA, attribute_handle<0x10> */
    { 0x0010, 0x2801, NOT128, 0x0012, K_SECONDARY, 2, -1, { 0xAA, 0x18 } },
    { 0x0011, 0x2803, NOT128, 0, K_CHARDECL,  5, -1, { 0x02, 0x12,0x00, 0xAA,0x2A } },
    { 0x0012, 0x2AAA, NOT128, 0, K_VALUE,     1, -1, { 0x11 } },
    /* primary service 0x18BB including 0x18AA and D9473E00-..., characteristic attribute_handle<0x20> */
    { 0x0013, 0x2800, NOT128, 0x0022, K_PRIMARY, 2, -1, { 0xBB, 0x18 } },
    { 0x0014, 0x2802, NOT128, 0, K_INCLUDE,   6, -1, { 0x10,0x00, 0x12,0x00, 0xAA,0x18 } },
    { 0x0015, 0x2802, NOT128, 0, K_INCLUDE,   4, -1, { 0x23,0x00, 0x25,0x00 } },
    { 0x0020, 0x2803, NOT128, 0, K_CHARDECL,  5, -1, { 0x1A, 0x21,0x00, 0xBB,0x2A } },
    { 0x0021, 0x2ABB, NOT128, 0, K_VALUE,     2,  0, {0} },                       /* b3_v1 */
    { 0x0022, 0x2902, NOT128, 0, K_CCCD,      2, -1, { 0x00, 0x00 } },
    /* secondary service D9473E00-... */
    { 0x0023, 0x2801, NOT128, 0x0025, K_SECONDARY, 16, -1, S_D9 },
    { 0x0024, 0x2803, NOT128, 0, K_CHARDECL, 19, -1, { 0x02, 0x25,0x00, 0x01,0x4F,0xF4,0xC4,0x2A,0x28,0x66,0x93,0x90,0x4D,0xD3,0xE7,0x00,0x3E,0x47,0xD9 } },
    { 0x0025, 0,      C_D901, 0, K_VALUE,     1, -1, { 0x33 } },
    /* primary service 8C8B4094-..., attribute_handle<0x40>, including 0x18AA */
    { 0x0040, 0x2800, NOT128, 0x0043, K_PRIMARY, 16, -1, S_A9 },
    { 0x0041, 0x2802, NOT128, 0, K_INCLUDE,   6, -1, { 0x10,0x00, 0x12,0x00, 0xAA,0x18 } },
    { 0x0042, 0x2803, NOT128, 0, K_CHARDECL,  5, -1, { 0x02, 0x43,0x00, 0xDD,0x2A } },
    { 0x0043, 0x2ADD, NOT128, 0, K_VALUE,     1, -1, { 0x44 } },
};

/* ---------------------------------------------------------------------------------------------- B4 (cfg 3) */
static const row_t table_b4[] = {
    /* secondary service D9473E00-... */
    { 0x0001, 0x2801, NOT128, 0x0003, K_SECONDARY, 16, -1, S_D9 },
    { 0x0002, 0x2803, NOT128, 0, K_CHARDECL, 19, -1, { 0x02, 0x03,0x00, 0xEA,0x4F,0xF4,0xC4,0x2A,0x28,0x66,0x93,0x90,0x4D,0xD3,0xE7,0x00,0x3E,0x47,0xD9 } },
    { 0x0003, 0,      S_D9_X1, 0, K_VALUE,    1, -1, { 0x42 } },
    /* primary service 8C8B4094-... including it */
    { 0x0004, 0x2800, NOT128, 0x0007, K_PRIMARY, 16, -1, S_A9 },
    { 0x0005, 0x2802, NOT128, 0, K_INCLUDE,   4, -1, { 0x01,0x00, 0x03,0x00 } },
    { 0x0006, 0x2803, NOT128, 0, K_CHARDECL, 19, -1, { 0x0A, 0x07,0x00, 0xA8,0x3C,0xC7,0x5B,0xED,0x4E,0x8A,0xA2,0x9F,0x49,0xE2,0x0D,0x94,0x40,0x8B,0x8C } },
    { 0x0007, 0,      S_A9_X1, 0, K_VALUE,    4,  0, {0} },                       /* b4_temperature */
    /* GAP service, server_name "B4" */
    { 0x0008, 0x2800, NOT128, 0x000C, K_PRIMARY, 2, -1, { 0x00, 0x18 } },
    { 0x0009, 0x2803, NOT128, 0, K_CHARDECL,  5, -1, { 0x02, 0x0A,0x00, 0x00,0x2A } },
    { 0x000A, 0x2A00, NOT128, 0, K_VALUE,     2, -1, { 'B','4' } },
    { 0x000B, 0x2803, NOT128, 0, K_CHARDECL,  5, -1, { 0x02, 0x0C,0x00, 0x01,0x2A } },
    { 0x000C, 0x2A01, NOT128, 0, K_VALUE,     2, -1, { 0x00, 0x00 } },
};

/* ---------------------------------------------------------------------------------------------- B5 (cfg 4) */
static const row_t table_b5[] = {
    { 0x0001, 0x2800, NOT128, 0x0006, K_PRIMARY, 16, -1, S_A9 },
    { 0x0002, 0x2803, NOT128, 0, K_CHARDECL, 19, -1, { 0x1A, 0x03,0x00, 0xA8,0x3C,0xC7,0x5B,0xED,0x4E,0x8A,0xA2,0x9F,0x49,0xE2,0x0D,0x94,0x40,0x8B,0x8C } },
    { 0x0003, 0,      S_A9_X1, 0, K_VALUE,    4,  0, {0} },                       /* b5_v1, read/write/notify */
    { 0x0004, 0x2902, NOT128, 0, K_CCCD,      2, -1, { 0x00, 0x00 } },
    { 0x0005, 0x2803, NOT128, 0, K_CHARDECL,  5, -1, { 0x0A, 0x06,0x00, 0x19,0x2A } },
    { 0x0006, 0x2A19, NOT128, 0, K_VALUE,     1,  4, {0} },                       /* b5_v2 */
    { 0x0007, 0x2800, NOT128, 0x000A, K_PRIMARY, 2, -1, { 0x16, 0x18 } },
    { 0x0008, 0x2803, NOT128, 0, K_CHARDECL, 19, -1, { 0x02, 0x09,0x00, 0xFF,0x3C,0xC7,0x5B,0xED,0x4E,0x8A,0xA2,0x9F,0x49,0xE2,0x0D,0x94,0x40,0x8B,0x8C } },
    { 0x0009, 0,      C_FF,   0, K_VALUE,     1, -1, { 0x42 } },
    { 0x000A, 0x2904, NOT128, 0, K_DESC,      3, -1, { 0x08, 0x15, 0x47 } },
};

/* ---------------------------------------------------------------------------------------------- B6 (cfg 5) */
static const row_t table_b6[] = {
    /* service 0x180F, attribute_handle<0x10> */
    { 0x0010, 0x2800, NOT128, 0x0034, K_PRIMARY, 2, -1, { 0x0F, 0x18 } },
    /* attribute_handles<0x20,0x22>, notify */
    { 0x0020, 0x2803, NOT128, 0, K_CHARDECL,  5, -1, { 0x12, 0x22,0x00, 0x19,0x2A } },
    { 0x0022, 0x2A19, NOT128, 0, K_VALUE,     1, -1, { 0x42 } },
    { 0x0023, 0x2902, NOT128, 0, K_CCCD,      2, -1, { 0x00, 0x00 } },
    /* attribute_handles<0x30,0x32,0x34>, indicate */
    { 0x0030, 0x2803, NOT128, 0, K_CHARDECL, 19, -1, { 0x2A, 0x32,0x00, 0x2A,0xD9,0x91,0x11,0xAB,0x5B,0x58,0xB0,0x3B,0x4F,0x50,0x44,0x52,0x6E,0x42,0xF0 } },
    { 0x0032, 0,      C_F0,   0, K_VALUE,     2,  0, {0} },                       /* b6_v1 */
    { 0x0034, 0x2902, NOT128, 0, K_CCCD,      2, -1, { 0x00, 0x00 } },
    /* service D9473E00-..., no fixed handle: follows; characteristic attribute_handle<0x40> */
    { 0x0035, 0x2800, NOT128, 0x0041, K_PRIMARY, 16, -1, S_D9 },
    { 0x0040, 0x2803, NOT128, 0, K_CHARDECL,  5, -1, { 0x02, 0x41,0x00, 0x1B,0x2A } },
    { 0x0041, 0x2A1B, NOT128, 0, K_VALUE,     1, -1, { 0x45 } },
};

/* ---------------------------------------------------------------------------------------------- B7 (cfg 6) */
static const row_t table_b7[] = {
    /* secondary service 0x18AA, attribute_handle<0x10> */
    { 0x0010, 0x2801, NOT128, 0x0012, K_SECONDARY, 2, -1, { 0xAA, 0x18 } },
    { 0x0011, 0x2803, NOT128, 0, K_CHARDECL,  5, -1, { 0x02, 0x12,0x00, 0xAA,0x2A } },
    { 0x0012, 0x2AAA, NOT128, 0, K_VALUE,     1, -1, { 0x11 } },
    /* primary service 0x18BB including 0x18AA, characteristic attribute_handle<0x20> */
    { 0x0013, 0x2800, NOT128, 0x0021, K_PRIMARY, 2, -1, { 0xBB, 0x18 } },
    { 0x0014, 0x2802, NOT128, 0, K_INCLUDE,   6, -1, { 0x10,0x00, 0x12,0x00, 0xAA,0x18 } },
    { 0x0020, 0x2803, NOT128, 0, K_CHARDECL,  5, -1, { 0x0A, 0x21,0x00, 0xBB,0x2A } },
    { 0x0021, 0x2ABB, NOT128, 0, K_VALUE,     2,  0, {0} },                       /* b7_v1 */
    /* primary service 8C8B4094-..., attribute_handle<0x40>, including 0x18AA, no characteristic */
    { 0x0040, 0x2800, NOT128, 0x0041, K_PRIMARY, 16, -1, S_A9 },
    { 0x0041, 0x2802, NOT128, 0, K_INCLUDE,   6, -1, { 0x10,0x00, 0x12,0x00, 0xAA,0x18 } },
};

/* ---------------------------------------------------------------------------------------------- B8 (cfg 7) */
static const row_t table_b8[] = {
    { 0x0001, 0x2800, NOT128, 0x0003, K_PRIMARY,   2, -1, { 0xA1, 0x18 } },
    { 0x0002, 0x2803, NOT128, 0, K_CHARDECL,  5, -1, { 0x02, 0x03,0x00, 0xA1,0x2A } },
    { 0x0003, 0x2AA1, NOT128, 0, K_VALUE,     1, -1, { 0x01 } },
    { 0x0004, 0x2801, NOT128, 0x0006, K_SECONDARY, 2, -1, { 0xA2, 0x18 } },
    { 0x0005, 0x2803, NOT128, 0, K_CHARDECL,  5, -1, { 0x02, 0x06,0x00, 0xA2,0x2A } },
    { 0x0006, 0x2AA2, NOT128, 0, K_VALUE,     1, -1, { 0x02 } },
    { 0x0007, 0x2800, NOT128, 0x0009, K_PRIMARY,   2, -1, { 0xA3, 0x18 } },
    { 0x0008, 0x2803, NOT128, 0, K_CHARDECL,  5, -1, { 0x02, 0x09,0x00, 0xA3,0x2A } },
    { 0x0009, 0x2AA3, NOT128, 0, K_VALUE,     1, -1, { 0x03 } },
};

/* ---------------------------------------------------------------------------------------------- B9 (cfg 8) */
static const row_t table_b9[] = {
    /* secondary service D9473E00-..., second characteristic at attribute_handle<0x10>: gap 0x04..0x0f inside the service */
    { 0x0001, 0x2801, NOT128, 0x0011, K_SECONDARY, 16, -1, S_D9 },
    { 0x0002, 0x2803, NOT128, 0, K_CHARDECL,  5, -1, { 0x02, 0x03,0x00, 0xC1,0x2A } },
    { 0x0003, 0x2AC1, NOT128, 0, K_VALUE,     1, -1, { 0x42 } },
    { 0x0010, 0x2803, NOT128, 0, K_CHARDECL,  5, -1, { 0x02, 0x11,0x00, 0xC2,0x2A } },
    { 0x0011, 0x2AC2, NOT128, 0, K_VALUE,     1, -1, { 0x43 } },
    /* primary service 0x18B1 including it (128 bit include: first and last handle only) */
    { 0x0012, 0x2800, NOT128, 0x0015, K_PRIMARY,   2, -1, { 0xB1, 0x18 } },
    { 0x0013, 0x2802, NOT128, 0, K_INCLUDE,   4, -1, { 0x01,0x00, 0x11,0x00 } },
    { 0x0014, 0x2803, NOT128, 0, K_CHARDECL,  5, -1, { 0x02, 0x15,0x00, 0xB1,0x2A } },
    { 0x0015, 0x2AB1, NOT128, 0, K_VALUE,     1, -1, { 0x44 } },
};

#define T_MAXROWS 21
#define NROWS(t) ((int)(sizeof(t) / sizeof((t)[0])))

static inline const row_t* table_of(int cfg, int* n)
{
    switch (cfg) {
    case 0:  *n = NROWS(table_b1); return table_b1;
    case 1:  *n = NROWS(table_b2); return table_b2;
    case 2:  *n = NROWS(table_b3); return table_b3;
    case 3:  *n = NROWS(table_b4); return table_b4;
    case 4:  *n = NROWS(table_b5); return table_b5;
    case 5:  *n = NROWS(table_b6); return table_b6;
    case 6:  *n = NROWS(table_b7); return table_b7;
    case 7:  *n = NROWS(table_b8); return table_b8;
    default: *n = NROWS(table_b9); return table_b9;
    }
}

/* shim interface (shims/att_b.cpp) */
void     vf_b_l2cap_input(int cfg, const uint8_t* in, size_t in_size, uint8_t* out, size_t* out_size, unsigned client_mtu);
unsigned vf_b_handle_by_index(int cfg, size_t index);
size_t   vf_b_first_index_by_handle(int cfg, unsigned handle);
size_t   vf_b_index_by_handle(int cfg, unsigned handle);
size_t   vf_b_number_of_attributes(int cfg);
void     vf_b_set_bound_values(int cfg, const uint8_t* bytes);
int      vf_b_config(void);     /* configuration the unit was built with */

/* Bluetooth base UUID 00000000-0000-1000-8000-00805F9B34FB, little endian; bytes 12,13 carry a 16 bit UUID */
static const uint8_t bt_base[16] = { 0xFB,0x34,0x9B,0x5F,0x80,0x00,0x00,0x80,0x00,0x10,0x00,0x00,0x00,0x00,0x00,0x00 };

/* a requested attribute type: either 16 bit (also when sent in its 128 bit form) or a proper 128 bit UUID */
typedef struct { int is16; uint16_t u16; const uint8_t* u128; } req_type_t;

static inline req_type_t req_type_from_pdu(const uint8_t* p, int is128)
{
    req_type_t t; t.is16 = 1; t.u16 = 0; t.u128 = p;
    if (!is128) { t.u16 = (uint16_t)(p[0] | (p[1] << 8)); return t; }
    int base = (p[14] == 0 && p[15] == 0);
    for (int i = 0; i < 12; ++i) if (p[i] != bt_base[i]) base = 0;
    if (base) { t.u16 = (uint16_t)(p[12] | (p[13] << 8)); return t; }
    t.is16 = 0;
    return t;
}

static inline int row_has_type(const row_t* r, req_type_t t)
{
    if (t.is16) return r->type16 != 0 && r->type16 == t.u16;
    if (r->type16 != 0) return 0;
    for (int i = 0; i < 16; ++i) if (r->type128[i] != t.u128[i]) return 0;
    return 1;
}

static inline uint8_t row_value_byte(const row_t* r, int j, const uint8_t* bound)
{
    return r->bound >= 0 ? bound[r->bound + j] : r->value[j];
}

static inline unsigned rd16(const uint8_t* p) { return (unsigned)p[0] | ((unsigned)p[1] << 8); }

/* is out[0..os) the Error Response {0x01, opcode, handle, code}? */
static inline int is_error(const uint8_t* out, size_t os, unsigned opcode, unsigned handle, unsigned code)
{
    return os == 5 && out[0] == 0x01 && out[1] == opcode && rd16(out + 2) == handle && out[4] == code;
}
static inline int is_any_error(const uint8_t* out, size_t os, unsigned opcode)
{
    return os == 5 && out[0] == 0x01 && out[1] == opcode;
}

#endif
