/* definitions needed by vf.h in CBMC builds */
#include "vf.h"
uint64_t vf_input_log[VF_MAX_INPUTS];
unsigned vf_input_n;
