/* C24 (b) — start / stop / count bound the number of advertisements (and hence of advertising events).
 *
 * Real code: no_auto_start_advertising::impl (start_advertising, start_advertising(count), stop_advertising,
 * begin_of_advertising_events, continued_advertising_events), advertiser::handle_start_advertising / handle_adv_timeout,
 * link_layer::run / adv_timeout on the real link_layer (shim ll_c, CFG 0 / 1).
 *
 * case parameters: CFG, MAP (1..7), K (history length)
 *
 * A bounded history of K symbolic operations from reset:
 *   0 run()   1 start_advertising()   2 start_advertising(count), count symbolic 1..4   3 stop_advertising()
 *   4 adv_timeout() (the radio reports the end of the scheduled advertisement; only when one is outstanding, otherwise no-op)
 *
 * Reference model (from the documentation of no_auto_start_advertising): `enabled` + `remaining` (0 = unlimited) + `running`.
 *   run(): starts the advertising if enabled. start: enables, (re)sets the remaining count; begins to advertise if it was not enabled
 *   and the link layer is running. stop: disables. Each scheduled advertisement consumes one of the remaining count; when the count
 *   is used up the advertising is disabled. adv_timeout(): schedules exactly one advertisement if enabled, none otherwise.
 *   Hence: after stop no advertisement is scheduled until the next start; start(count) is followed by exactly `count`
 *   advertisements (so by at most `count` advertising events); start() advertises until stopped.
 *   Latitude: the class documentation says "count advertising events", the implementation documentation and bluetoe's tests
 *   (stop_advertising_after_one_advertisements: 1 PDU) count advertising PDUs; the oracle follows the tests; in both readings the
 *   number of events is bounded by count.
 *   A start while the previous advertisement is still outstanding in the radio (stop, then start before the radio's timeout) may
 *   schedule the advertisement again (0 or 1 calls accepted).
 * Every scheduled advertisement must be on an enabled channel, immediately or after interval + 0..10 ms.
 */
#include "c24_common.h"

#define MAXK 8

void harness(void)
{
    vf_global_ctors();
    const int      cfg = (int)CASE(CFG);
    const unsigned map = (unsigned)CASE(MAP);
    const unsigned nops = (unsigned)CASE(K);

    unsigned kind[MAXK], cnt[MAXK];
    for (unsigned i = 0; i < MAXK; ++i) { kind[i] = (unsigned)in_range(0, 4); cnt[i] = (unsigned)in_range(1, 4); }
    const unsigned interval_ms = (unsigned)in_range(20, 10240);

    uint32_t interval_us = 30000u;
    if (cfg == 0) { vfc_interval_ms(interval_ms); interval_us = interval_ms * 1000u; }
    change_map(7, map, 0);

    int m_running = 0, m_enabled = 0, m_outstanding = 0;
    unsigned m_remaining = 0;
    unsigned since_counted_start = 0, counted = 0;      /* advertisements since the last start(count), count of that start (0: none) */

    for (unsigned i = 0; i < nops && i < MAXK; ++i) {
        const unsigned before = env_n_adv;
        unsigned lo = 0, hi = 0;                          /* expected number of schedule calls of this operation */
        switch (kind[i]) {
        case 0:
            if (!m_running && m_enabled) lo = hi = 1;
            m_running = 1;
            vfc_run();
            break;
        case 1: case 2: {
            const int was = m_enabled;
            m_enabled = 1; m_remaining = kind[i] == 2 ? cnt[i] : 0;
            counted = m_remaining; since_counted_start = 0;
            if (!was && m_running) { hi = 1; lo = m_outstanding ? 0 : 1; }
            if (kind[i] == 2) vfc_start_advertising_count(cnt[i]); else vfc_start_advertising();
            break; }
        case 3:
            m_enabled = 0; m_remaining = 0; counted = 0;
            vfc_stop_advertising();
            break;
        default:
            if (m_outstanding) {
                m_outstanding = 0;
                if (m_enabled) lo = hi = 1;
                vfc_adv_timeout();
            }
            break;
        }
        const unsigned n = env_n_adv - before;
        OBSERVE(n);
        CHECK(n >= lo, "advertising that is started and enabled schedules the next advertisement");
        CHECK(n <= hi, "no advertisement is scheduled while stopped / not started / after the count is used up, and at most one per step");
        if (n) {
            m_outstanding = 1;
            if (m_remaining) { --m_remaining; if (m_remaining == 0) m_enabled = 0; }
            since_counted_start += n;
            if (counted) CHECK(since_counted_start <= counted, "start_advertising(count) is followed by at most count advertisements");
            const unsigned r = env_n_adv - 1;
            if (r < ENV_MAX_REC) {
                OBSERVE(env_ch[r]); OBSERVE(env_when[r]);
                CHECK(env_ch[r] >= 37 && env_ch[r] <= 39 && ((map >> (env_ch[r] - 37)) & 1u), "advertisements only on enabled channels");
                CHECK(env_when[r] == 0 || (env_when[r] >= interval_us && env_when[r] <= interval_us + 10000u),
                      "advertisements are scheduled immediately or after the advertising interval plus 0..10 ms");
            }
        }
    }
    WITNESS();
}
