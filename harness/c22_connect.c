/* C22 (b) — a connection is only established from a connect request with valid timing parameters.
 *
 * Real code: link_layer::run (start advertising) + link_layer::adv_received on a CONNECT_IND (advertiser's
 * is_valid_connect_request, channel_map::reset, parse_timing_parameters_from_connect_request, check_timing_paremeters,
 * sleep_clock_accuracy, reset_connection_state, setup_next_connection_event) on the real link_layer (shim ll_b).
 *
 * case parameters: CFG, MODE
 *   MODE 0  symbolic request: header type/length concrete (CONNECT_IND, 34), AdvA = the device's own address, TxAdd/RxAdd as
 *           required; InitA, access address, CRC init, WinSize, WinOffset, Interval, Latency, Timeout, Hop, SCA symbolic;
 *           channel map concrete (all 37 channels; the map itself is C20's subject)
 *   MODE 1  direct call of parse_timing_parameters_from_connect_request with all 34 body bytes symbolic
 *   MODE 2  sanity (non-vacuity): the connect request used by bluetoe's own tests is accepted and its parameters taken over
 *
 * Oracle (Core spec Vol 6 Part B 2.3.3.1 CONNECT_IND, 4.5.2): established (state connecting, first event scheduled) only if
 *   Interval 6..3200, Latency <= 499, Timeout 10..3200, Timeout*10ms >= (1+Latency)*Interval*1.25ms*2,
 *   WinSize*1.25ms <= min(10 ms, Interval), WinOffset <= Interval, Hop 5..16.
 *   Permissive on the fine print: equality in the timeout relation, WinSize 0 and WinSize == Interval are not flagged.
 *   When established: the stored parameters are the carried ones, accumulated SCA = configured + table[SCA],
 *   the first event is scheduled to cover 1.25 ms + WinOffset .. + WinSize after the request.
 */
#include "c21_common.h"

static int timing_valid(const uint8_t* body)
{
    const uint32_t wsize = body[19], woff = body[20] | (body[21] << 8), itv = body[22] | (body[23] << 8);
    const uint32_t lat = body[24] | (body[25] << 8), to = body[26] | (body[27] << 8);
    return itv >= 6 && itv <= 3200 && lat <= 499 && to >= 10 && to <= 3200
        && to * 4u >= (1u + lat) * itv
        && wsize <= 8 && wsize <= itv && woff <= itv;
}

void harness(void)
{
    vf_global_ctors();
    const int cfg  = (int)CASE(CFG);
    const int mode = (int)CASE(MODE);
    env_reset();

    uint8_t pdu[36];
    uint8_t* body = pdu + 2;
    uint32_t post[VFB_NFIELDS];

    if (mode == 1) {
        in_bytes(body, 34);
        const int ok = vfb_parse_connect_request(cfg, body);
        OBSERVE(ok);
        if (ok) CHECK(timing_valid(body), "timing parameters of a connect request are accepted only if valid");
        WITNESS();
        return;
    }

    vfb_run(cfg);
    vfb_get_state(cfg, post);
    CHECK(post[VFB_STATE] == VFB_ST_ADVERTISING && env_n_adv == 1, "run() starts advertising");

    uint8_t own[6]; int own_random = 0;
    vfb_local_address(cfg, own, &own_random);

    if (mode == 0) {
        in_bytes(pdu, 36);
        for (int i = 0; i < 5; ++i) body[28 + i] = i < 4 ? 0xff : 0x1f;          /* channel map: all 37 data channels */
    } else {
        static const uint8_t test_req[36] = { 0xc5, 0x22, 0x3c, 0x1c, 0x62, 0x92, 0xf0, 0x48, 0, 0, 0, 0, 0, 0, 0x5a, 0xb3, 0x9a, 0xaf,
            0x08, 0x81, 0xf6, 0x03, 0x0b, 0x00, 0x18, 0x00, 0x00, 0x00, 0x48, 0x00, 0xff, 0xff, 0xff, 0xff, 0x1f, 0xaa };
        for (int i = 0; i < 36; ++i) pdu[i] = test_req[i];
    }
    pdu[0] = (uint8_t)((pdu[0] & 0x40) | 0x05 | (own_random ? 0x80 : 0x00));     /* CONNECT_IND, RxAdd = own address type */
    pdu[1] = 34;
    for (int i = 0; i < 6; ++i) body[6 + i] = own[i];                            /* AdvA */

    env_reset();
    vfb_adv_received(cfg, pdu, 36);
    vfb_get_state(cfg, post);
    for (int i = 0; i < VFB_NFIELDS; ++i) OBSERVE(post[i]);
    OBSERVE(env_n_evt); OBSERVE(env_start); OBSERVE(env_end); OBSERVE(env_interval);

    const int established = post[VFB_STATE] != VFB_ST_ADVERTISING || env_n_evt != 0;
    const uint32_t wsize = body[19], woff = body[20] | (body[21] << 8), itv = body[22] | (body[23] << 8);
    const uint32_t lat = body[24] | (body[25] << 8), to = body[26] | (body[27] << 8);
    const unsigned hop = body[33] & 0x1f, sca = body[33] >> 5;

    if (mode == 2) CHECK(established, "the connect request of bluetoe's own test suite is accepted");

    if (established) {
        CHECK(timing_valid(body), "a connection is established only from a connect request with valid timing parameters");
        CHECK(hop >= 5 && hop <= 16, "a connection is established only with a hop increment of 5..16");
        CHECK(post[VFB_STATE] == VFB_ST_CONNECTING && env_n_evt == 1, "connecting: the first connection event is scheduled");
        CHECK(post[VFB_INTERVAL] == itv * 1250u && post[VFB_LATENCY] == lat && post[VFB_TIMEOUT_VALUE] == to && post[VFB_CONN_TIMEOUT] == to * 10000u,
              "the connection uses the interval, latency and timeout of the request");
        CHECK(post[VFB_CUM_SCA] == vfb_configured_sca(cfg) + SCA_PPM[sca], "accumulated sleep clock accuracy = configured + central's SCA");
        CHECK(post[VFB_EVENT_COUNTER] == 0 && post[VFB_TIME_SINCE_LAST] == 0 && post[VFB_DEFERRED_SIZE] == 0, "connection state starts fresh");
        CHECK(env_interval == itv * 1250u, "the radio is told the connection interval");
        if (wsize != 0) {
            CHECK(env_start <= 1250u + woff * 1250u, "the first window opens no later than 1.25 ms + WinOffset after the request");
            CHECK(env_end >= 1250u + woff * 1250u + wsize * 1250u, "the first window covers the transmit window");
        }
    } else {
        CHECK(env_n_evt == 0 && post[VFB_DEFERRED_SIZE] == 0, "a rejected request leaves the device advertising");
    }
    WITNESS();
}
