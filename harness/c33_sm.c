/* C33 — a key is offered for link encryption (find_key) only after a successfully completed pairing on this connection
 * (EDIV = 0, Rand = 0, the STK / LTK this pairing produced) or from the bond data base.  Same environment and reference
 * automaton as C32 (c32_sm_model.h); the order / verification checks of C32 are not asserted here. */
#define SM_PROP 33
#include "c32_sm_model.h"

void harness(void)
{
    sm_harness_body();
}
