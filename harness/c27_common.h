/* c27_common.h — shared by the C27 / C28 / C29 harnesses: recording environment (stub radio, callbacks, encryption hardware, key data base)
 * for shim ll_d and helpers that build a symbolic link-layer state satisfying the representation invariant. */
#ifndef C27_COMMON_H
#define C27_COMMON_H
#include "vf.h"
#include "../shims/ll_d_api.h"

/* ------------------------------------------------------------------ environment: stub radio + callbacks (recording) */
static unsigned env_n_evt, env_channel;
static uint32_t env_start, env_end, env_interval;
static unsigned env_n_adv;
static unsigned env_n_phy, env_phy_rx, env_phy_tx;
static int      env_disarm_ok;
static uint32_t env_disarm_now;

/* callbacks, in call order */
#define ENV_MAX_CB 12
static unsigned env_n_cb, env_cb_kind[ENV_MAX_CB], env_cb_a[ENV_MAX_CB];

/* PDUs handed to the radio for transmission, in order (header 2 bytes + up to 27 bytes payload) */
#define ENV_MAX_TX 4
static unsigned env_n_tx;
static uint8_t  env_tx[ENV_MAX_TX][29];

/* encryption hardware + key data base */
static unsigned env_n_find_key, env_fk_ediv; static uint32_t env_fk_rand_lo, env_fk_rand_hi;
static int      env_key_found;          /* answer of the key data base (set by the harness, symbolic) */
static uint8_t  env_key[16];            /* the key it hands out (symbolic) */
static unsigned env_n_setup; static uint8_t env_setup_key[16]; static uint32_t env_setup_skdm_lo, env_setup_skdm_hi, env_setup_ivm;
static uint32_t env_skds_lo, env_skds_hi, env_ivs;       /* radio's contribution to the session key (symbolic) */
static int      env_rx_encrypted, env_tx_encrypted;       /* radio encryption switches */
static unsigned env_n_start_rx, env_n_start_tx;
static unsigned env_pairing_status;
static unsigned env_n_restore;

uint32_t vfd_env_sched_evt(unsigned channel, uint32_t start_us, uint32_t end_us, uint32_t interval_us)
{
    ++env_n_evt; env_channel = channel; env_start = start_us; env_end = end_us; env_interval = interval_us;
    return interval_us;
}
void vfd_env_sched_adv(unsigned channel, uint32_t when_us) { (void)channel; (void)when_us; ++env_n_adv; }
int  vfd_env_disarm(uint32_t* now_us) { *now_us = env_disarm_now; return env_disarm_ok; }
void vfd_env_set_phy(unsigned receive, unsigned transmit) { ++env_n_phy; env_phy_rx = receive; env_phy_tx = transmit; }
void vfd_env_callback(unsigned what, unsigned a, unsigned b, unsigned c)
{
    (void)b; (void)c;
    if (env_n_cb < ENV_MAX_CB) { env_cb_kind[env_n_cb] = what; env_cb_a[env_n_cb] = a; }
    ++env_n_cb;
}
void vfd_env_commit(const uint8_t* pdu, unsigned avail)
{
    if (env_n_tx < ENV_MAX_TX) {
        for (unsigned i = 0; i < 29 && i < avail; ++i) env_tx[env_n_tx][i] = pdu[i];
    }
    ++env_n_tx;
}
int vfd_env_find_key(unsigned ediv, uint32_t rand_lo, uint32_t rand_hi, uint8_t* key16)
{
    ++env_n_find_key; env_fk_ediv = ediv; env_fk_rand_lo = rand_lo; env_fk_rand_hi = rand_hi;
    if (env_key_found) for (int i = 0; i < 16; ++i) key16[i] = env_key[i];
    return env_key_found;
}
unsigned vfd_env_pairing_status(void) { return env_pairing_status; }
void vfd_env_restore_cccds(void) { ++env_n_restore; }
void vfd_env_setup_encryption(const uint8_t* key16, uint32_t skdm_lo, uint32_t skdm_hi, uint32_t ivm, uint32_t* skds_lo, uint32_t* skds_hi, uint32_t* ivs)
{
    ++env_n_setup;
    for (int i = 0; i < 16; ++i) env_setup_key[i] = key16[i];
    env_setup_skdm_lo = skdm_lo; env_setup_skdm_hi = skdm_hi; env_setup_ivm = ivm;
    *skds_lo = env_skds_lo; *skds_hi = env_skds_hi; *ivs = env_ivs;
}
void vfd_env_crypt(unsigned what)
{
    if (what == VFD_CRYPT_START_RX)      { env_rx_encrypted = 1; ++env_n_start_rx; }
    else if (what == VFD_CRYPT_START_TX) { env_tx_encrypted = 1; ++env_n_start_tx; }
    else if (what == VFD_CRYPT_STOP_RX)  env_rx_encrypted = 0;
    else if (what == VFD_CRYPT_STOP_TX)  env_tx_encrypted = 0;
}

static void env_reset(void)
{
    env_n_evt = env_n_adv = env_n_phy = 0;
    env_disarm_ok = 0; env_disarm_now = 0;
    env_n_cb = 0; env_n_tx = 0;
    env_n_find_key = env_n_setup = env_n_start_rx = env_n_start_tx = env_n_restore = 0;
    memset(env_tx, 0, sizeof env_tx);
}

static unsigned env_count_cb(unsigned kind)
{
    unsigned n = 0;
    for (unsigned i = 0; i < env_n_cb && i < ENV_MAX_CB; ++i) n += env_cb_kind[i] == kind;
    return n;
}

/* ------------------------------------------------------------------ constants of the Core specification */
static const uint16_t SCA_PPM[8] = { 500, 250, 150, 100, 75, 50, 30, 20 };   /* Vol 6 Part B 2.3.3.1, central SCA field */

/* link layer features (Vol 6 Part B 4.6) a configuration is documented to support (bluetoe: connection parameters request, extended reject,
 * ping; LE encryption when the server requires it; 2M PHY when the radio has it) */
#define FEAT_ENCRYPTION 0x001u
#define FEAT_CONN_PARAM 0x002u
#define FEAT_EXT_REJECT 0x004u
#define FEAT_PING       0x010u
#define FEAT_2M_PHY     0x100u
static unsigned cfg_features(int cfg)
{
    return FEAT_CONN_PARAM | FEAT_EXT_REJECT | FEAT_PING | (cfg == 2 ? FEAT_ENCRYPTION : 0u) | (cfg != 1 ? FEAT_2M_PHY : 0u);
}

/* ------------------------------------------------------------------ symbolic state under the representation invariant
 * Inv (what every history from a connect request establishes):
 *   connection parameters valid per Core spec (interval 6..3200, latency <= 499, timeout 10..3200, timeout >= 2*(1+latency)*interval),
 *   channel index < 37, accumulated SCA = 500 ppm (CFG default) + one of the eight SCA table values,
 *   used features are a subset of the supported features.
 */
static uint32_t st[VFD_NFIELDS];

static void sym_parameters(void)
{
    const uint32_t interval = (uint32_t)in_range(6, 3200);
    const uint32_t latency  = (uint32_t)in_range(0, 499);
    const uint32_t timeout  = (uint32_t)in_range(10, 3200);
    /* timeout[10ms] * 10000 us >= (1+latency) * interval[1.25ms] * 1250 us * 2   <=>   timeout*4 >= (1+latency)*interval */
    ASSUME(timeout * 4u >= (1u + latency) * interval);
    st[VFD_INTERVAL]      = interval * 1250u;
    st[VFD_LATENCY]       = latency;
    st[VFD_TIMEOUT_VALUE] = timeout;
    st[VFD_CONN_TIMEOUT]  = timeout * 10000u;
}

static void sym_misc(int cfg)
{
    memset(st, 0, sizeof st);
    st[VFD_STATE]            = VFD_ST_CONNECTED;
    st[VFD_EVENT_COUNTER]    = in_u16();
    st[VFD_CHANNEL_INDEX]    = (uint32_t)in_range(0, 36);
    st[VFD_LAST_LATENCY]     = (uint32_t)in_range(1, 500);
    st[VFD_CUM_SCA]          = 500u + SCA_PPM[in_range(0, 7)];
    st[VFD_USED_FEATURES]    = in_u16() & cfg_features(cfg);
    st[VFD_PENDING_EVENT]    = 1;
    st[VFD_DISC_REASON]      = 0x08;      /* set to "connection timeout" by the connect request */
}

static const uint8_t FULL_MAP[5] = { 0xff, 0xff, 0xff, 0xff, 0x1f };

#endif
