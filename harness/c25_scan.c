/* C25 (b) — the nRF52 radio answers a scan request itself (in the radio interrupt): only if it is a SCAN_REQ of length 12 addressed
 * to the device's own address and address type, the advertising type provides scan response data, and the link layer's scan
 * filter accepted the scanner's real address and address type.
 *
 * Real code: nrf52_radio_base::schedule_advertisment, ::radio_interrupt_handler (advertising states), ::is_valid_scan_request
 * (bluetoe/bindings/nordic/nrf52/include/bluetoe/nrf52.hpp) over a stub Hardware class (shim ll_c_nrf52).
 *
 * case parameters: GAP (0 plain PDU layout, 1 layout of the encrypting radio: one byte between header and body),
 *   HASRSP (1: the advertising type handed scan response data to the radio, 0: none = not scannable)
 *
 * symbolic: the whole receive buffer (2 + GAP + 34 bytes as provided by the link layer: header incl. PDU type, TxAdd, RxAdd, length
 *   field; ScanA; AdvA; rest), the scan response PDU (header incl. TxAdd = own address type, AdvA = own address, data), what the hardware
 *   reports about the reception (anchor / PDU / CRC valid), the answer of the scan filter, the answer of the identity resolving hardware.
 *
 * Oracle (property statement; Core spec Vol 6 Part B 2.3.2.1 SCAN_REQ, 4.3.2 scanner filter policy): a scan response is transmitted only if
 *   response data exists, the reception was valid, PDU type == 0b0011, length field == 12 (6 bit field, permissive), AdvA == own address,
 *   RxAdd == own address type, and the scan filter was asked about (ScanA, TxAdd of the request) and said yes. What is transmitted is the
 *   scan response data.
 */
#include "vf.h"

/* shim */
void vfn_schedule_advertisment(int gap, unsigned channel, const uint8_t* adv, size_t adv_n, const uint8_t* rsp, size_t rsp_n, uint8_t* rx, size_t rx_n);
void vfn_radio_interrupt(int gap);
int  vfn_is_valid_scan_request(int gap);
int  vfn_state(int gap);
int  vfn_flags(int gap);

/* environment */
static unsigned n_filter, n_final, n_train, n_stop;
static uint8_t  asked_addr[6]; static int asked_random;
static int      filter_answer, rx_flags, resolving_invalid;
static const uint8_t* final_ptr; static size_t final_size;

int vfn_env_scan_in_filter(const uint8_t* addr6, int is_random)
{
    ++n_filter; for (int i = 0; i < 6; ++i) asked_addr[i] = addr6[i]; asked_random = is_random; return filter_answer;
}
void vfn_env_final_transmit(const uint8_t* buffer, size_t size) { ++n_final; final_ptr = buffer; final_size = size; }
void vfn_env_transmit_train(const uint8_t* buffer, size_t size) { (void)buffer; (void)size; ++n_train; }
int  vfn_env_received_pdu(void) { return rx_flags; }
int  vfn_env_resolving_address_invalid(void) { return resolving_invalid; }
void vfn_env_stop_radio(void) { ++n_stop; }

static int eq6(const uint8_t* a, const uint8_t* b) { int r = 1; for (int i = 0; i < 6; ++i) r &= a[i] == b[i]; return r; }

void harness(void)
{
    vf_global_ctors();
    const int gap    = (int)CASE(GAP);
    const int hasrsp = (int)CASE(HASRSP);
    const size_t rx_n  = 2 + (size_t)gap + 34;
    const size_t rsp_n = 2 + (size_t)gap + 6 + 4;
    const size_t adv_n = 2 + (size_t)gap + 6 + 3;

    uint8_t* const rx  = (uint8_t*)vf_alloc(rx_n);
    uint8_t* const rsp = (uint8_t*)vf_alloc(rsp_n);
    uint8_t* const adv = (uint8_t*)vf_alloc(adv_n);
    in_bytes(rx, rx_n); in_bytes(rsp, rsp_n); in_bytes(adv, adv_n);
    filter_answer     = in_bool();
    rx_flags          = (int)in_range(0, 7);
    resolving_invalid = in_bool();
    const unsigned channel = (unsigned)in_range(37, 39);

    /* known finding: with identity resolving enabled, a PDU whose sender address the hardware could not resolve is answered with a scan response
     * whatever it is (is_valid_scan_request returns true before looking at the PDU) */
    VF_KNOWN_FINDING(c25_unresolved_address_answered, resolving_invalid != 0 && hasrsp);

    vfn_schedule_advertisment(gap, channel, adv, adv_n, hasrsp ? rsp : 0, hasrsp ? rsp_n : 0, rx, rx_n);
    CHECK(vfn_state(gap) == 1 && n_train == 1, "the advertisement is handed to the hardware");
    vfn_radio_interrupt(gap);                 /* advertisement transmitted: the radio switches to receiving */
    CHECK(vfn_state(gap) == 2 && n_final == 0 && n_filter == 0, "after the advertisement the radio listens for a request");
    vfn_radio_interrupt(gap);                 /* reception ended (PDU received, CRC error or timeout) */
    OBSERVE(n_final); OBSERVE(n_filter); OBSERVE(vfn_state(gap)); OBSERVE(vfn_flags(gap));

    const uint8_t* const scan_a = rx + 2 + gap;
    const uint8_t* const adv_a  = rx + 2 + gap + 6;
    const uint8_t* const own    = rsp + 2 + gap;
    const int own_random = (rsp[0] & 0x40) != 0;
    const int tx_add = (rx[0] & 0x40) != 0, rx_add = (rx[0] & 0x80) != 0;

    CHECK(n_final <= 1, "at most one response per advertisement");
    if (n_final) {
        CHECK(hasrsp, "a scan response is sent only by advertising types that provide scan response data");
        CHECK(rx_flags == 7, "a scan response is sent only after a valid reception (anchor, PDU, CRC)");
        CHECK((rx[0] & 0x0f) == 0x03, "a scan response is sent only to a SCAN_REQ (PDU type 0b0011)");
        CHECK((rx[1] & 0x3f) == 12, "a scan response is sent only to a SCAN_REQ with length 12");
        CHECK(eq6(adv_a, own), "a scan response is sent only if AdvA is the device's own address");
        CHECK(rx_add == own_random, "a scan response is sent only if RxAdd is the device's own address type");
        CHECK(n_filter == 1 && filter_answer, "a scan response is sent only if the scan filter accepted the scanner");
        CHECK(eq6(asked_addr, scan_a), "the scan filter is asked about the scanner's address (ScanA)");
        CHECK(!asked_random == !tx_add, "the scan filter is asked about the scanner's address type (TxAdd of the request)");
        CHECK(final_ptr == rsp && final_size == rsp_n, "what is transmitted is the scan response data");
        CHECK(vfn_state(gap) == 3, "transmitting the response");
    } else {
        CHECK(vfn_state(gap) == 0 && (vfn_flags(gap) == 1 || vfn_flags(gap) == 2), "without response the radio stops and reports the PDU or a timeout");
        if (vfn_flags(gap) == 2) CHECK(rx_flags == 7, "only a validly received PDU is passed to the link layer");
    }
    WITNESS();
}
