/* C21 lemma (a) — reception of an instant-carrying LL control PDU.
 *
 * Real code: link_layer::handle_ll_control_data (incl. phy_update_request_impl::handle_phy_request) of the real
 * link_layer<server, stub radio, ...>, state set directly (shim ll_b).
 *
 * case parameters: CFG (0 default options, 1 buffers 100/100 + strict latency + callbacks), OPC (0x00, 0x01, 0x18)
 * symbolic: every PDU byte except LLID/length/opcode, the event counter of the connection event in which the PDU arrived,
 *           connection parameters, features, flags, procedure timeout.
 *
 * Oracle (property statement + Core spec Vol 6 Part B 5.1.1/5.1.2/5.1.10, "instant passed" rule):
 *   d = (Instant - connEventCount) mod 65536, connEventCount = counter of the event in which the PDU was received.
 *   - the PDU is kept for later (deferred) only if 1 <= d <= 32767   (the instant is still ahead: it can be met;
 *     d = 32767 is "past" by the letter of the spec, deferring it is tolerated: it is then applied at its instant)
 *   - a valid indication that is not deferred ends the connection with reason 0x28 "Instant Passed"
 *   - the connection is not ended while 2 <= d <= 32766 (the instant can be met). d == 1 may go either way: bluetoe's own
 *     test suite (connection_update_request_invalid_instance) demands termination for Instant == connEventCount + 1.
 *   - the deferred PDU is the received one (same bytes, same instant), nothing is transmitted in response.
 */
#include "c21_common.h"

void harness(void)
{
    vf_global_ctors();
    const int      cfg = (int)CASE(CFG);
    const unsigned opc = (unsigned)CASE(OPC);
    const unsigned len = pdu_len_for(opc);
    const unsigned n   = 2u + len;

    env_reset();
    vfb_reset_buffers(cfg);

    sym_misc(cfg, (unsigned)in_range(0, 7));
    sym_parameters();
    st[VFB_STATE]        = in_bool() ? VFB_ST_CONNECTED : VFB_ST_DISCONNECTING;
    st[VFB_PROC_TIMEOUT] = in_u32();
    st[VFB_FLAGS]        = (uint32_t)in_range(0, 127);
    vfb_set_state(cfg, st);

    uint8_t* pdu = (uint8_t*)vf_alloc(n);
    in_bytes(pdu, n);
    pdu[0] = (uint8_t)((pdu[0] & 0xfc) | 3);          /* LLID = control */
    pdu[1] = (uint8_t)len;
    pdu[2] = (uint8_t)opc;

    const unsigned ipos    = instant_pos_for(opc);
    const uint16_t instant = (uint16_t)(pdu[ipos] | (pdu[ipos + 1] << 8));
    const uint16_t counter = (uint16_t)st[VFB_EVENT_COUNTER];
    const uint16_t d       = (uint16_t)(instant - counter);

    int valid = 1, takes_effect = 1;
    if (opc == OPC_PHY_UPDATE) {
        const unsigned c2p = pdu[3], p2c = pdu[4];
        valid        = (c2p == 0 || c2p == 1 || c2p == 2) && (p2c == 0 || p2c == 1 || p2c == 2);
        takes_effect = valid && !(c2p == 0 && p2c == 0);      /* both "unchanged": Instant field is reserved, nothing to apply */
    }

    const int disc = vfb_handle_ll_control_data(cfg, pdu, n) & 1;

    uint32_t post[VFB_NFIELDS];
    vfb_get_state(cfg, post);
    const int deferred = post[VFB_DEFERRED_SIZE] != 0;
    OBSERVE(disc); OBSERVE(deferred); OBSERVE(post[VFB_DEFERRED_INSTANT]); OBSERVE(post[VFB_DISC_REASON]);

    CHECK(!(deferred && disc), "a PDU is not both deferred and the reason to disconnect");
    if (takes_effect)
        CHECK(deferred || disc, "an instant-carrying indication is either kept until its instant or ends the connection");
    if (valid && !takes_effect)
        CHECK(!deferred && !disc, "a PHY update that changes nothing neither blocks reception nor ends the connection");

    if (deferred) {
        CHECK(d >= 1 && d <= 32767, "a PDU is deferred only if its instant is still ahead of the current connection event");
        CHECK(post[VFB_DEFERRED_INSTANT] == instant, "the deferred instant is the instant carried by the PDU");
        CHECK(post[VFB_DEFERRED_SIZE] == n, "the deferred PDU has the size of the received PDU");
        uint8_t copy[16];
        const unsigned got = vfb_get_deferred_bytes(cfg, copy, sizeof copy);
        CHECK(got == n, "deferred PDU readable");
        for (unsigned i = 0; i < n && i < sizeof copy; ++i)
            CHECK(copy[i] == pdu[i], "deferred PDU bytes equal the received bytes");
    }
    if (disc) {
        CHECK(post[VFB_DISC_REASON] == 0x28, "termination because of an unmeetable instant carries reason 0x28 Instant Passed");
        CHECK(!(d >= 2 && d <= 32766), "the connection is not terminated while the instant can still be met");
    }
    if (valid) {
        CHECK(!vfb_pending_outgoing(cfg), "no response PDU to an indication");
        CHECK(post[VFB_EVENT_COUNTER] == counter, "receiving does not move the event counter");
        CHECK(post[VFB_INTERVAL] == st[VFB_INTERVAL] && post[VFB_LATENCY] == st[VFB_LATENCY] && post[VFB_CONN_TIMEOUT] == st[VFB_CONN_TIMEOUT],
              "connection parameters are not changed before the instant");
        CHECK(env_n_phy == 0, "PHY is not switched before the instant");
    }
    WITNESS();
}
