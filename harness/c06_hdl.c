/* C06 — handler based characteristic values: permissions, handler invocation and declared properties (shims/att_c06.cpp, CFG 1).
 *
 * The user's read / write handlers are the environment: defined here, they record how they were called and answer with
 * symbolic data / result codes.  One request with concrete opcode and PDU length, handle / offset / data symbolic.
 * Model (from the statement and the documentation of the handler templates in characteristic_value.hpp):
 *   - a read of a readable value invokes exactly its read handler once (offset as requested for blob handlers; plain handlers
 *     get offset 0 only, a non-zero offset is answered Attribute Not Long without invoking them) and returns what the handler produced;
 *   - a read of a value that is not readable (no read handler, or no_read_access) is answered Read Not Permitted, no handler runs;
 *   - a write of a writable value invokes exactly its write handler once with exactly the written bytes; the response is the
 *     handler's verdict; a write to a value without write handler is answered Write Not Permitted, no handler runs;
 *   - the properties byte of every characteristic declaration equals the documented one and agrees with those permissions.
 *
 * case parameters: OPC (0x0A, 0x0C, 0x12, 0x52, 0x0E, 0x08), LEN
 */
#include "vf.h"

void vf_c06_input(const uint8_t* in, size_t in_size, uint8_t* out, size_t* out_size, int encrypted, int pairing);

#define MTU 23
#define NATTR 19
#define NID 8
/* per handler id: value handle, readable, writable, blob capable, fixed write size (0: any), properties, CCCD? */
static const int VH[NID]       = { 3, 5, 7, 9, 12, 14, 16, 19 };
static const int READABLE[NID] = { 1, 0, 1, 0, 0, 1, 1, 0 };
static const int WRITABLE[NID] = { 0, 1, 1, 0, 1, 1, 1, 1 };
static const int BLOB[NID]     = { 0, 0, 1, 0, 0, 0, 0, 0 };
static const int PROPS[NID]    = { 0x02, 0x08, 0x0a, 0x10, 0x0c, 0x0a, 0x3a, 0x04 };
static const int HAS_CCCD[NID] = { 0, 0, 0, 1, 0, 0, 1, 0 };

/* kind of attribute behind a handle: 0 none, 1 service, 2 declaration, 3 value, 4 CCCD; *id = characteristic */
static int kind_of(unsigned h, int* id)
{
    *id = -1;
    if (h == 1) return 1;
    for (int i = 0; i < NID; ++i) {
        if (h == (unsigned)VH[i] - 1) { *id = i; return 2; }
        if (h == (unsigned)VH[i])     { *id = i; return 3; }
        if (HAS_CCCD[i] && h == (unsigned)VH[i] + 1) { *id = i; return 4; }
    }
    return 0;
}

/* ---- environment */
static int     calls, call_id, call_is_write;
static size_t  call_offset, call_size;
static uint8_t call_data[MTU];
static uint8_t env_rc;            /* what the user's handler answers */
static uint8_t env_data[MTU];     /* what the user's read handler produces */
static size_t  env_len;

uint8_t vf_c06_env_read(int id, size_t offset, size_t read_size, uint8_t* o, size_t* out_size)
{
    ++calls; call_id = id; call_is_write = 0; call_offset = offset; call_size = read_size;
    size_t n = env_len < read_size ? env_len : read_size;      /* contract: out_size <= read_size */
    for (size_t i = 0; i < n && i < MTU; ++i) o[i] = env_data[i];
    *out_size = n;
    return env_rc;
}

uint8_t vf_c06_env_write(int id, size_t offset, size_t write_size, const uint8_t* value)
{
    ++calls; call_id = id; call_is_write = 1; call_offset = offset; call_size = write_size;
    for (size_t i = 0; i < write_size && i < MTU; ++i) call_data[i] = value[i];
    return env_rc;
}

uint8_t vf_c06_env_write_u16(int id, unsigned value)
{
    ++calls; call_id = id; call_is_write = 1; call_offset = 0; call_size = 2;
    call_data[0] = (uint8_t)value; call_data[1] = (uint8_t)(value >> 8);
    return env_rc;
}

static uint8_t* out;
static size_t   os;
static uint8_t  opc;

static void expect_error(uint16_t handle, uint8_t code)
{
    CHECK(os == 5 && out[0] == 0x01 && out[1] == opc, "Error Response naming the request");
    CHECK(out[2] == (handle & 0xff) && out[3] == (handle >> 8), "Error Response names the attribute handle");
    CHECK(out[4] == code, "Error Response carries the error code demanded by the permission rule / returned by the handler");
}

void harness(void)
{
    vf_global_ctors();
    opc = (uint8_t)CASE(OPC);
    size_t len = (size_t)CASE(LEN);

    for (int i = 0; i < NID; ++i) {
        CHECK(((PROPS[i] & 0x02) != 0) == READABLE[i], "declared Read property iff the value is readable");
        CHECK(((PROPS[i] & 0x0c) != 0) == WRITABLE[i], "declared Write / Write Without Response property iff the value is writable");
        CHECK(((PROPS[i] & 0x30) != 0) == HAS_CCCD[i], "declared Notify / Indicate property iff there is a client configuration");
    }

    uint8_t* in = vf_alloc(len);
    in_bytes(in, len);
    in[0] = opc;
    int encrypted = in_bool();
    int pairing = (int)in_range(0, 3);
    env_rc = in_u8();
    env_len = (size_t)in_range(0, MTU - 1);
    in_bytes(env_data, MTU - 1);

    uint16_t h = len >= 3 ? (uint16_t)(in[1] | (in[2] << 8)) : 0;
    int id; int kind = kind_of(h, &id);

    /* known finding: no_read_access is not enforced for handler based values (characteristic 0xD003, value handle 9) */
    int touches_9 = 0;
    if ((opc == 0x0a || opc == 0x0c) && h == 9) touches_9 = 1;
    if (opc == 0x0e) for (size_t k = 1; k + 1 < len; k += 2) if (in[k] == 9 && in[k + 1] == 0) touches_9 = 1;
    if (opc == 0x08 && len == 7 && in[5] == 0x03 && in[6] == 0xd0) touches_9 = 1;
    VF_KNOWN_FINDING(c06_handler_no_read_access, touches_9);

    calls = 0;
    out = vf_alloc(MTU);
    os = MTU;
    vf_c06_input(in, len, out, &os, encrypted, pairing);
    CHECK(os <= MTU, "response fits the MTU");
    if (os > MTU) os = MTU;
    OBSERVE(os); OBSERVE_BYTES(out, os); OBSERVE(calls); OBSERVE(call_id);

    if ((opc == 0x0a && len == 3) || (opc == 0x0c && len == 5)) {   /* ---------------- Read / Read Blob */
        unsigned off = opc == 0x0c ? (unsigned)(in[3] | (in[4] << 8)) : 0;
        uint8_t rsp = opc + 1;
        if (kind == 0) { expect_error(h, 0x01); CHECK(calls == 0, "no handler runs for an invalid handle"); }
        else if (kind == 2 && off == 0) {
            CHECK(calls == 0, "no handler runs for a declaration");
            CHECK(os == 6 && out[0] == rsp, "characteristic declaration with 16 bit UUID is 5 bytes");
            CHECK(out[1] == PROPS[id], "declared properties are the documented ones for the options given");
            CHECK(out[2] == VH[id] && out[3] == 0, "declaration names the value handle");
            CHECK(out[4] == id && out[5] == 0xd0, "declaration carries the characteristic UUID");
        } else if (kind == 3) {
            if (!READABLE[id]) { expect_error(h, 0x02); CHECK(calls == 0, "read handler of a value that is not readable is not invoked"); }
            else if (off != 0 && !BLOB[id]) { expect_error(h, 0x0b); CHECK(calls == 0, "plain read handler is not invoked with an offset"); }
            else {
                CHECK(calls == 1 && call_id == id && !call_is_write, "exactly the read handler of the addressed value runs once");
                CHECK(call_offset == off && call_size == MTU - 1, "read handler gets the requested offset and MTU-1 as size");
                if (env_rc != 0) expect_error(h, env_rc);
                else {
                    CHECK(os == 1 + env_len && out[0] == rsp, "response carries what the read handler produced");
                    for (size_t i = 0; i < env_len && i < MTU - 1; ++i) CHECK(out[1 + i] == env_data[i], "response bytes are the handler's bytes");
                }
            }
        } else {
            CHECK(calls == 0, "no handler runs for services, declarations and client configurations");
        }
    } else if ((opc == 0x12 || opc == 0x52) && len >= 3) {          /* ---------------- Write Request / Command */
        size_t n = len - 3;
        if (opc == 0x52) CHECK(os == 0, "Write Command is never answered");
        if (kind == 0) { if (opc == 0x12) expect_error(h, 0x01); CHECK(calls == 0, "no handler runs for an invalid handle"); }
        else if (kind == 3) {
            if (!WRITABLE[id]) { if (opc == 0x12) expect_error(h, 0x03); CHECK(calls == 0, "no handler runs for a value that is not writable"); }
            else if (id == 1 && n != 2) { if (opc == 0x12) expect_error(h, 0x0d); CHECK(calls == 0, "typed write handler is not invoked with a wrong size"); }
            else {
                CHECK(calls == 1 && call_id == id && call_is_write, "exactly the write handler of the addressed value runs once");
                CHECK(call_offset == 0 && call_size == n, "write handler gets offset 0 and the size of the written data");
                for (size_t i = 0; i < n && i < MTU; ++i) CHECK(call_data[i] == in[3 + i], "write handler gets exactly the written bytes");
                if (opc == 0x12) {
                    if (env_rc != 0) expect_error(h, env_rc);
                    else CHECK(os == 1 && out[0] == 0x13, "Write Response when the handler accepts");
                }
            }
        } else if (kind != 4) {
            if (opc == 0x12) expect_error(h, 0x03);
            CHECK(calls == 0, "no handler runs for services and declarations");
        } else {
            CHECK(calls == 0, "no value handler runs for a client configuration write");
        }
    } else if (opc == 0x0e && len >= 5 && (len & 1)) {              /* ---------------- Read Multiple: permission path */
        int expected_calls = 0, stop = 0;
        for (size_t k = 1; k + 1 < len && !stop; k += 2) {
            uint16_t hk = (uint16_t)(in[k] | (in[k + 1] << 8));
            int idk; int kk = kind_of(hk, &idk);
            if (kk == 0) { expect_error(hk, 0x01); stop = 1; }
            else if (kk == 3 && !READABLE[idk]) { expect_error(hk, 0x02); stop = 1; }
            else if (kk == 3) { ++expected_calls; if (env_rc != 0) { expect_error(hk, env_rc); stop = 1; } }
        }
        CHECK(calls == expected_calls, "Read Multiple invokes the read handlers of the readable values up to the first failure, and no other");
        if (!stop) CHECK(os >= 1 && out[0] == 0x0f, "Read Multiple Response when every handle is readable");
    } else if (opc == 0x08 && len == 7) {                           /* ---------------- Read By Type: permission path */
        if (os >= 2 && out[0] == 0x09) {
            unsigned el = out[1];
            CHECK(el >= 2 && (os - 2) % el == 0, "Read By Type Response is a list of equally sized elements");
            for (unsigned p = 2; el >= 2 && p + el <= os && p + el <= MTU; p += el) {
                uint16_t hk = (uint16_t)(out[p] | (out[p + 1] << 8));
                int idk; int kk = kind_of(hk, &idk);
                CHECK(kk != 0, "element names an attribute of the server");
                if (kk == 3) CHECK(READABLE[idk], "Read By Type never returns a value that is not readable");
            }
        }
        if (in[6] == 0xd0 && in[5] < NID && !READABLE[in[5]])
            CHECK(calls == 0, "Read By Type does not invoke the read handler of a value that is not readable");
    }
    CHECK(calls <= 3, "at most one handler invocation per accessed value");
    WITNESS();
}
