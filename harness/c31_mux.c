/* C31 (part 1) — the real details::l2cap<> multiplexer with three recording channels on a link-layer buffer stub.
 *
 * case parameters: CFG (channel set, see shims/l2cap_mux.cpp), MODE, N (size of the incoming frame), EXTRA (bytes the link
 * layer's buffer is larger than requested), NBUF (MODE 2: number of transmit buffers the link layer can provide)
 *   MODE 0  handle_l2cap_input() with one incoming frame of N bytes, every byte symbolic (length field, CID, payload)
 *   MODE 1  transmit_single_pending_l2cap_output(): symbolic set of channels with pending output
 *   MODE 2  transmit_pending_l2cap_output(): the same, the link layer provides NBUF buffers one after the other
 *
 * Environment (this file): the channels' l2cap_input / l2cap_output record what they are given and produce symbolic output of
 * symbolic size <= the size they are offered; the link layer hands out exact-size heap objects.
 * Contract of the link layer stub (taken from link_layer<>::allocate_l2cap_output_buffer, the only implementation in the
 * repository): allocate( n ) yields either { 0, nullptr } or a buffer of n + 4 (+ EXTRA) bytes (n = payload size, 4 = L2CAP header).
 */
#include "vf.h"

int  vf_mux_input(int cfg, const uint8_t* frame, unsigned long size);
int  vf_mux_poll_single(int cfg);
void vf_mux_poll_all(int cfg);
unsigned long vf_mux_min_mtu(int cfg);
unsigned long vf_mux_max_mtu(int cfg);

/* the channel sets, written down from the configuration (independent of the code under test) */
static const unsigned CIDS[2][3] = { { 4, 5, 6 }, { 0x0004, 0x0104, 0x0401 } };
static const unsigned MAXMTU[2]  = { 31, 29 };      /* largest maximum_channel_mtu_size of the set */

#define MAXOUT 36
#define MAXIN  32
#define NBUFS  4

static int           cfg;
static unsigned long bufsize;
static unsigned      nbuf;                  /* buffers the link layer is able to provide */
static uint8_t*      bufs[NBUFS];
static unsigned      commits;

/* what the channels were given */
static unsigned      ci_calls, ci_ch;
static unsigned long ci_in_size;
static uint8_t       ci_in[MAXIN];
static unsigned      co_calls;

/* what the channels answer */
static unsigned long rlen;                  /* MODE 0: size of the reply the addressed channel wants to give */
static uint8_t       rbytes[MAXOUT];
static int           pending[3];            /* MODE 1/2: channel has pending output */
static unsigned long plen[3];
static uint8_t       pbytes[3][MAXOUT];

/* output taken from a channel that is not yet committed to the link layer */
static int           prod_open, lost;
static unsigned      prod_ch;
static unsigned long prod_len;
static uint8_t       prod_bytes[MAXOUT];

static uint8_t* cur_buf(void)
{
    return commits == 0 ? bufs[0] : commits == 1 ? bufs[1] : commits == 2 ? bufs[2] : bufs[3];
}

uint8_t* vf_ll_allocate(unsigned long requested, unsigned long* got)
{
    OBSERVE(requested);
    if (commits >= nbuf || commits >= NBUFS || requested + 4 > bufsize) { *got = 0; return 0; }
    *got = bufsize;
    return cur_buf();
}

void vf_ll_commit(unsigned long size, uint8_t* p)
{
    const int mine = commits < nbuf && commits < NBUFS && p == cur_buf();
    OBSERVE(size);
    CHECK(mine, "only the buffer obtained from the link layer is committed, and only once");
    CHECK(size <= bufsize, "a transmitted frame fits the allocated buffer");
    CHECK(size >= 4, "a transmitted frame has a complete L2CAP header");
    CHECK(prod_open, "a frame is transmitted only for output that a channel produced");
    if (mine && size >= 4 && size <= bufsize && prod_open) {
        const unsigned len = (unsigned)p[0] | ((unsigned)p[1] << 8), cid = (unsigned)p[2] | ((unsigned)p[3] << 8);
        OBSERVE(len); OBSERVE(cid);
        CHECK(len == prod_len && size == prod_len + 4, "length field and size of a transmitted frame equal the size of the channel's output");
        CHECK(cid == (prod_ch == 0 ? CIDS[cfg][0] : prod_ch == 1 ? CIDS[cfg][1] : CIDS[cfg][2]), "a transmitted frame carries the CID of the channel that produced the output");
        for (unsigned i = 0; i < MAXOUT; ++i)
            if (i < prod_len && i + 4 < size) {
                OBSERVE(p[4 + i]);
                CHECK(p[4 + i] == prod_bytes[i], "payload of a transmitted frame is the channel's output");
            }
    }
    prod_open = 0;
    ++commits;
}

/* a channel writes `want` bytes (clipped to what it is offered) */
static unsigned long produce(unsigned l, uint8_t* out, unsigned long* out_size, unsigned long want, const uint8_t* bytes)
{
    const unsigned long offered = *out_size;
    const int room_ok = commits < nbuf && commits < NBUFS && out == cur_buf() + 4 && offered <= bufsize - 4;
    OBSERVE(offered);
    CHECK(room_ok, "the output area offered to a channel lies behind the L2CAP header inside the allocated buffer");
    if (prod_open) lost = 1;
    unsigned long r = want <= offered ? want : offered;
    if (!room_ok) r = 0;
    for (unsigned i = 0; i < MAXOUT; ++i)
        if (i < r) { out[i] = bytes[i]; prod_bytes[i] = bytes[i]; }
    *out_size = r;
    if (r) { prod_open = 1; prod_ch = l; prod_len = r; }
    return r;
}

void vf_ch_input(int ch, const uint8_t* in, unsigned long in_size, uint8_t* out, unsigned long* out_size)
{
    const unsigned l = (unsigned)(ch - 3 * cfg);
    ++ci_calls; ci_ch = l; ci_in_size = in_size;
    for (unsigned i = 0; i < MAXIN; ++i)
        if (i < in_size) ci_in[i] = in[i];
    produce(l, out, out_size, rlen, rbytes);
}

void vf_ch_output(int ch, uint8_t* out, unsigned long* out_size)
{
    const unsigned l = (unsigned)(ch - 3 * cfg);
    ++co_calls;
    if (l < 3 && pending[l]) {
        const unsigned long r = produce(l, out, out_size, plen[l], l == 0 ? pbytes[0] : l == 1 ? pbytes[1] : pbytes[2]);
        if (r) pending[l] = 0;
    } else
        *out_size = 0;
}

void harness(void)
{
    vf_global_ctors();
    cfg = (int)CASE(CFG);
    const int mode = (int)CASE(MODE);
    const unsigned n = (unsigned)CASE(N);
    bufsize = MAXMTU[cfg] + 4 + (unsigned long)CASE(EXTRA);
    OBSERVE(vf_mux_min_mtu(cfg)); OBSERVE(vf_mux_max_mtu(cfg));

    if (mode == 0) {
        /* ---------------------------------------------------------------- one incoming frame */
        uint8_t* frame = (uint8_t*)vf_alloc(n);
        in_bytes(frame, n);
        const int avail = in_bool();
        rlen = (unsigned long)in_range(0, MAXOUT);
        in_bytes(rbytes, MAXOUT);
        nbuf = (unsigned)avail;
        bufs[0] = (uint8_t*)vf_alloc(bufsize);

        /* what the frame says (read before the call; the frame is const for the code under test) */
        const int      has_header = n >= 4;
        const unsigned len = has_header ? ((unsigned)frame[0] | ((unsigned)frame[1] << 8)) : 0;
        const unsigned cid = has_header ? ((unsigned)frame[2] | ((unsigned)frame[3] << 8)) : 0;
        const int      valid = has_header && len == n - 4;
        int k = -1;
        for (int i = 0; i < 3; ++i) if (cid == CIDS[cfg][i]) k = i;

        const int consumed = vf_mux_input(cfg, frame, n);
        OBSERVE(consumed); OBSERVE(ci_calls); OBSERVE(commits);

        OBSERVE(co_calls);
        CHECK(!lost, "a reply taken from a channel is not overwritten");
        if (!valid || k < 0) {
            CHECK(ci_calls == 0, "a frame with incomplete header, wrong length field or unknown CID is delivered to no channel");
            CHECK(commits == 0, "nothing is transmitted for a dropped frame");
            if (avail) CHECK(consumed, "a dropped frame is consumed");
        } else {
            CHECK(ci_calls <= 1, "a frame is delivered at most once");
            if (ci_calls == 1) {
                CHECK(ci_ch == (unsigned)k, "a frame is delivered to exactly the channel its CID names");
                CHECK(ci_in_size == n - 4, "the channel is given exactly the payload size");
                for (unsigned i = 0; i < MAXIN; ++i)
                    if (i + 4 < n && i < ci_in_size) CHECK(ci_in[i] == frame[4 + i], "the channel sees exactly the payload bytes");
                CHECK(consumed, "a delivered frame is consumed");
                if (rlen == 0) CHECK(commits == 0, "nothing is transmitted when the channel has no reply");
                CHECK(!prod_open, "the reply of the channel is transmitted");
            } else {
                CHECK(!avail, "a well formed frame for an existing channel is delivered when the link layer has a buffer");
                CHECK(!consumed, "a well formed frame that could not be delivered is not consumed");
                CHECK(commits == 0, "nothing is transmitted when no channel was called");
            }
        }
    } else {
        /* ---------------------------------------------------------------- pending output of the channels */
        unsigned npend = 0;
        for (int i = 0; i < 3; ++i) {
            pending[i] = in_bool();
            plen[i] = (unsigned long)in_range(1, MAXOUT);
            in_bytes(pbytes[i], MAXOUT);
            npend += (unsigned)pending[i];
        }
        const int avail = in_bool();
        nbuf = mode == 1 ? (unsigned)avail : (unsigned)CASE(NBUF);
        for (unsigned i = 0; i < NBUFS; ++i) bufs[i] = (uint8_t*)vf_alloc(bufsize);

        if (mode == 1) {
            const int sent = vf_mux_poll_single(cfg);
            OBSERVE(sent); OBSERVE(commits);
            CHECK(commits <= 1, "a single poll transmits at most one frame");
            if (avail && npend) CHECK(commits == 1, "pending output of a channel is transmitted when the link layer has a buffer");
        } else {
            vf_mux_poll_all(cfg);
            OBSERVE(commits);
            CHECK(commits == (npend < nbuf ? npend : nbuf), "all pending output is transmitted as far as the link layer has buffers");
        }
        CHECK(ci_calls == 0, "no channel gets input while output is polled");
        CHECK(!lost && !prod_open, "every output taken from a channel is transmitted");
    }
    WITNESS();
}
