/* C36 — pairing method selection matches the IO capability mapping of the Core specification.
 *
 * Real code (shims/sm_b.cpp): details::io_capabilities_matrix<...> for the 6 local input x output configurations, and the
 * three security managers instantiated with these option sets (with / without require_man_in_the_middle_protection,
 * legacy / combined manager with an OOB callback).
 *
 * Oracle: Core spec Vol 3 Part H, 2.3.2 table 2.5 (input x output capability -> IO capability), 2.3.5.1 table 2.6 (legacy:
 * OOB if both devices have OOB data, else Just Works if neither device sets MITM, else IO capabilities), table 2.7 (LE secure
 * connections: OOB if at least one device has OOB data, else Just Works if neither sets MITM, else IO capabilities), table 2.8
 * (IO capability mapping, the device under test is the responder).  All written down here as tables, independent of the code.
 *
 * MODE 0  io_capabilities_matrix alone: get_io_capabilities(), select_legacy_pairing_algorithm(remote io),
 *         select_lesc_pairing_algorithm(remote io) against table 2.5 / table 2.8   (option list 0..9 symbolic, see shim)
 * MODE 1  legacy_select_pairing_algorithm / lesc_select_pairing_algorithm of a manager called directly with symbolic
 *         (remote io 0..4, OOB flag, AuthReq byte, has OOB data)                     (KIND; manager configuration symbolic)
 * MODE 2  a complete symbolic Pairing Request through l2cap_input() of a freshly connected manager: advertised IO capability
 *         of the Pairing Response = table 2.5, the pairing algorithm stored for the pairing = tables 2.6 / 2.7 / 2.8 applied to the
 *         request, the MITM flag of the response and "the OOB callback reported data for this peer"   (KIND, CFG)
 * STRICT 1: the spec mapping exactly.  STRICT 0: additionally accepts the table 2.8 method where the spec demands Just Works
 *         because neither side set MITM (known finding c36_mitm_flags_ignored) - so that every other deviation inside that
 *         region is still reported.
 */
#include "vf.h"

/* ------------------------------------------------------------------------------------------ shim API (shims/sm_b.cpp) */
int  vf_smb_matrix_io(int io);
int  vf_smb_matrix_legacy(int io, uint8_t remote_io);
int  vf_smb_matrix_lesc(int io, uint8_t remote_io);
void vf_smb_reset(int cfg);
void vf_smb_set_addresses(int cfg, const uint8_t* local7, const uint8_t* remote7);
void vf_smb_set_oob_present(int cfg, int present);
void vf_smb_l2cap_input(int cfg, const uint8_t* in, size_t in_size, uint8_t* out, size_t* out_size);
int  vf_smb_state(int cfg);
int  vf_smb_legacy_algo(int cfg);
int  vf_smb_lesc_algo(int cfg);
int  vf_smb_select_legacy(int cfg, uint8_t io_capability, uint8_t oob_data_flag, uint8_t auth_req, int has_oob_data);
int  vf_smb_select_lesc(int cfg, uint8_t io_capability, uint8_t oob_data_flag, uint8_t auth_req, int has_oob_data);

/* ------------------------------------------------------------------------------------------ the specification */
/* IO capability values, Vol 3 Part H 3.5.1 table 3.3 */
enum { DISPLAY_ONLY = 0, DISPLAY_YES_NO = 1, KEYBOARD_ONLY = 2, NO_IO = 3, KEYBOARD_DISPLAY = 4 };
/* pairing methods; passkey entry is split by the role of the responder (= the device under test) */
enum { JUST_WORKS = 0, OOB = 1, PASSKEY_RESPONDER_DISPLAYS = 2, PASSKEY_RESPONDER_INPUTS = 3, NUMERIC_COMPARISON = 4 };
enum { AUTH_BONDING = 0x01, AUTH_MITM = 0x04, AUTH_SC = 0x08, AUTH_KEYPRESS = 0x10 };
enum { IN_NONE = 0, IN_YES_NO = 1, IN_KEYBOARD = 2, OUT_NONE = 0, OUT_NUMERIC = 1 };

/* table 2.5: [input capability][output capability] */
static const int SPEC_IO_CAPABILITY[3][2] = {
    /* no input  */ { NO_IO,         DISPLAY_ONLY     },
    /* yes / no  */ { NO_IO,         DISPLAY_YES_NO   },
    /* keyboard  */ { KEYBOARD_ONLY, KEYBOARD_DISPLAY },
};

#define JW  JUST_WORKS
#define PRD PASSKEY_RESPONDER_DISPLAYS
#define PRI PASSKEY_RESPONDER_INPUTS
#define NC  NUMERIC_COMPARISON
/* table 2.8: [responder IO capability][initiator IO capability] */
static const int SPEC_LEGACY[5][5] = {
    /* initiator:            DisplayOnly  DisplayYesNo  KeyboardOnly  NoInputNoOutput  KeyboardDisplay */
    /* DisplayOnly     */ {  JW,          JW,           PRD,          JW,              PRD },
    /* DisplayYesNo    */ {  JW,          JW,           PRD,          JW,              PRD },
    /* KeyboardOnly    */ {  PRI,         PRI,          PRI,          JW,              PRI },
    /* NoInputNoOutput */ {  JW,          JW,           JW,           JW,              JW  },
    /* KeyboardDisplay */ {  PRI,         PRI,          PRD,          JW,              PRI },
};
static const int SPEC_LESC[5][5] = {
    /* DisplayOnly     */ {  JW,          JW,           PRD,          JW,              PRD },
    /* DisplayYesNo    */ {  JW,          NC,           PRD,          JW,              NC  },
    /* KeyboardOnly    */ {  PRI,         PRI,          PRI,          JW,              PRI },
    /* NoInputNoOutput */ {  JW,          JW,           JW,           JW,              JW  },
    /* KeyboardDisplay */ {  PRI,         NC,           PRD,          JW,              NC  },
};
#undef JW
#undef PRD
#undef PRI
#undef NC

/* tables 2.6 / 2.7.  `apply_mitm_rule` = 0 gives the method of table 2.8 even if neither side asked for MITM protection */
static int spec_method(int lesc, int local_io, int remote_io, int remote_oob, int local_oob, int remote_mitm, int local_mitm, int apply_mitm_rule)
{
    if (lesc ? (remote_oob || local_oob) : (remote_oob && local_oob)) return OOB;
    if (apply_mitm_rule && !remote_mitm && !local_mitm) return JUST_WORKS;
    return lesc ? SPEC_LESC[local_io][remote_io] : SPEC_LEGACY[local_io][remote_io];
}

/* ------------------------------------------------------------------------------------------ configurations of the shim */
enum { KIND_LEGACY = 0, KIND_LESC = 1, KIND_COMBINED = 2 };
/* io index 0..5 = input * 2 + output; 6..9: option lists that leave one or both capabilities to the default (= none) */
static const int IO_INPUT[10]  = { IN_NONE, IN_NONE, IN_YES_NO, IN_YES_NO, IN_KEYBOARD, IN_KEYBOARD, IN_NONE, IN_NONE, IN_YES_NO, IN_KEYBOARD };
static const int IO_OUTPUT[10] = { OUT_NONE, OUT_NUMERIC, OUT_NONE, OUT_NUMERIC, OUT_NONE, OUT_NUMERIC, OUT_NONE, OUT_NUMERIC, OUT_NONE, OUT_NONE };
/* manager configuration cfg = io + 6 * (require_man_in_the_middle_protection) */
#define CFG_IO(cfg)   ((cfg) % 6)
#define CFG_MITM(cfg) ((cfg) >= 6)

/* ------------------------------------------------------------------------------------------ environment */
static struct { uint8_t srand[16], oob[16]; int oob_present; } pool;
static int n_oob_calls;

void vf_env_create_srand(uint8_t* out)   { memcpy(out, pool.srand, 16); }
void vf_env_create_passkey(uint8_t* out) { memset(out, 0, 16); }
void vf_env_c1(const uint8_t* k, const uint8_t* r, const uint8_t* p1, const uint8_t* p2, uint8_t* out) { (void)k; (void)r; (void)p1; (void)p2; memset(out, 0, 16); }
void vf_env_s1(const uint8_t* k, const uint8_t* r1, const uint8_t* r2, uint8_t* out) { (void)k; (void)r1; (void)r2; memset(out, 0, 16); }
int  vf_env_is_valid_public_key(const uint8_t* pk) { (void)pk; return 0; }
void vf_env_generate_keys(uint8_t* pub, uint8_t* priv) { memset(pub, 0, 64); memset(priv, 0, 32); }
void vf_env_select_random_nonce(uint8_t* out) { memset(out, 0, 16); }
void vf_env_p256(const uint8_t* priv, const uint8_t* pub, uint8_t* out) { (void)priv; (void)pub; memset(out, 0, 32); }
void vf_env_f4(const uint8_t* u, const uint8_t* v, const uint8_t* x, uint8_t z, uint8_t* out) { (void)u; (void)v; (void)x; (void)z; memset(out, 0, 16); }
void vf_env_f5(const uint8_t* dh, const uint8_t* n1, const uint8_t* n2, const uint8_t* a1, const uint8_t* a2, uint8_t* mackey, uint8_t* ltk)
{ (void)dh; (void)n1; (void)n2; (void)a1; (void)a2; memset(mackey, 0, 16); memset(ltk, 0, 16); }
void vf_env_f6(const uint8_t* w, const uint8_t* n1, const uint8_t* n2, const uint8_t* r, const uint8_t* io, const uint8_t* a1, const uint8_t* a2, uint8_t* out)
{ (void)w; (void)n1; (void)n2; (void)r; (void)io; (void)a1; (void)a2; memset(out, 0, 16); }
uint32_t vf_env_g2(const uint8_t* u, const uint8_t* v, const uint8_t* x, const uint8_t* y) { (void)u; (void)v; (void)x; (void)y; return 0; }
void vf_env_numeric_output(int pass_key) { (void)pass_key; }
int  vf_env_passkey(void) { return 0; }
void vf_env_yes_no(void* response) { (void)response; }
/* the application's OOB callback: has / has not OOB data for this peer */
int  vf_env_oob_data(const uint8_t* addr7, uint8_t* out) { (void)addr7; ++n_oob_calls; memcpy(out, pool.oob, 16); return pool.oob_present; }

/* ------------------------------------------------------------------------------------------ harness */
static void check_method(int lesc, int method, int local_io, int remote_io, int remote_oob, int local_oob, int remote_mitm, int local_mitm, int strict)
{
    const int spec  = spec_method(lesc, local_io, remote_io, remote_oob, local_oob, remote_mitm, local_mitm, 1);
    const int table = spec_method(lesc, local_io, remote_io, remote_oob, local_oob, remote_mitm, local_mitm, 0);
    if (lesc) {
        if (strict) CHECK(method == spec, "the LESC pairing method is the one of Core spec tables 2.7 / 2.8 (OOB if one side has OOB data, Just Works if nobody asks for MITM protection, else by IO capabilities)");
        else        CHECK(method == spec || method == table, "the LESC pairing method is the one of Core spec tables 2.7 / 2.8, or the table 2.8 method where Just Works is demanded because no side set MITM");
    } else {
        if (strict) CHECK(method == spec, "the legacy pairing method is the one of Core spec tables 2.6 / 2.8 (OOB if both sides have OOB data, Just Works if nobody asks for MITM protection, else by IO capabilities)");
        else        CHECK(method == spec || method == table, "the legacy pairing method is the one of Core spec tables 2.6 / 2.8, or the table 2.8 method where Just Works is demanded because no side set MITM");
    }
}

/* region of the known finding: no side sets MITM, no OOB rule applies, and table 2.8 names an authenticated method */
static int mitm_region(int lesc, int local_io, int remote_io, int remote_oob, int local_oob, int remote_mitm, int local_mitm)
{
    return !remote_mitm && !local_mitm
        && spec_method(lesc, local_io, remote_io, remote_oob, local_oob, remote_mitm, local_mitm, 0) != JUST_WORKS
        && spec_method(lesc, local_io, remote_io, remote_oob, local_oob, remote_mitm, local_mitm, 0) != OOB;
}

void harness(void)
{
    vf_global_ctors();
    const int mode   = (int)CASE(MODE);
    const int kind   = (int)CASE(KIND);
    int       cfg    = (int)CASE(CFG);
    const int strict = (int)CASE(STRICT);

    if (mode == 0) {
        /* ---------------- the IO capability matrix on its own (option list 0..9 symbolic: the functions are tiny) */
        cfg = (int)in_range(0, 9);
        const uint8_t remote_io = (uint8_t)in_range(0, 4);
        const int local_io = SPEC_IO_CAPABILITY[IO_INPUT[cfg]][IO_OUTPUT[cfg]];
        const int adv = vf_smb_matrix_io(cfg);
        const int leg = vf_smb_matrix_legacy(cfg, remote_io);
        const int sc  = vf_smb_matrix_lesc(cfg, remote_io);
        OBSERVE(adv); OBSERVE(leg); OBSERVE(sc);
        CHECK(adv == local_io, "the IO capability of an input / output option pair is the one of Core spec table 2.5");
        CHECK(leg == SPEC_LEGACY[local_io][remote_io], "select_legacy_pairing_algorithm() returns the method of Core spec table 2.8 (legacy column)");
        CHECK(sc == SPEC_LESC[local_io][remote_io], "select_lesc_pairing_algorithm() returns the method of Core spec table 2.8 (secure connections column)");
    } else if (mode == 1) {
        /* ---------------- the managers' selection functions called directly (manager configuration symbolic) */
        const int io_pair = (int)in_range(0, kind == KIND_LEGACY ? 5 : 3);
        const int mitm_o  = in_bool();
        cfg = io_pair + 6 * mitm_o;
        const uint8_t remote_io   = (uint8_t)in_range(0, 4);
        const uint8_t remote_oob  = (uint8_t)in_bool();
        const uint8_t auth_req    = in_u8();
        const int     has_oob     = in_bool();
        const int local_io    = SPEC_IO_CAPABILITY[IO_INPUT[CFG_IO(cfg)]][IO_OUTPUT[CFG_IO(cfg)]];
        const int remote_mitm = (auth_req & AUTH_MITM) != 0;
        const int local_mitm  = CFG_MITM(cfg);
        if (strict)
            VF_KNOWN_FINDING(c36_mitm_flags_ignored,
                (kind != KIND_LESC && mitm_region(0, local_io, remote_io, remote_oob, has_oob, remote_mitm, local_mitm))
             || (kind != KIND_LEGACY && mitm_region(1, local_io, remote_io, remote_oob, has_oob, remote_mitm, local_mitm)));
        if (kind != KIND_LESC) {
            const int m = vf_smb_select_legacy(cfg, remote_io, remote_oob, auth_req, has_oob);
            OBSERVE(m);
            check_method(0, m, local_io, remote_io, remote_oob, has_oob, remote_mitm, local_mitm, strict);
        }
        if (kind != KIND_LEGACY) {
            const int m = vf_smb_select_lesc(cfg, remote_io, remote_oob, auth_req, has_oob);
            OBSERVE(m);
            check_method(1, m, local_io, remote_io, remote_oob, has_oob, remote_mitm, local_mitm, strict);
        }
    } else {
        /* ---------------- a Pairing Request through l2cap_input() */
        uint8_t local_addr[7], remote_addr[7], req[7];
        in_bytes(local_addr, 6);  local_addr[6]  = (uint8_t)in_bool();
        in_bytes(remote_addr, 6); remote_addr[6] = (uint8_t)in_bool();
        req[0] = 0x01;                               /* Pairing Request */
        req[1] = (uint8_t)in_range(0, 4);            /* IO capability */
        req[2] = (uint8_t)in_bool();                 /* OOB data flag */
        req[3] = in_u8();                            /* AuthReq: bonding, MITM, SC, keypress, RFU bits */
        req[4] = (uint8_t)in_range(7, 16);           /* maximum encryption key size */
        req[5] = (uint8_t)in_range(0, 15);           /* initiator key distribution */
        req[6] = (uint8_t)in_range(0, 15);           /* responder key distribution */
        const int stale_oob = in_bool();             /* what an earlier pairing attempt left behind */
        in_bytes(pool.srand, 16); in_bytes(pool.oob, 16); pool.oob_present = in_bool();
        n_oob_calls = 0;

        const int lesc        = kind == KIND_LESC || (kind == KIND_COMBINED && (req[3] & AUTH_SC));
        const int local_io    = SPEC_IO_CAPABILITY[IO_INPUT[CFG_IO(cfg)]][IO_OUTPUT[CFG_IO(cfg)]];
        const int remote_mitm = (req[3] & AUTH_MITM) != 0;
        /* the LESC only configurations have no OOB callback */
        const int has_oob_pre = kind == KIND_LESC ? 0 : pool.oob_present;
        if (strict)
            VF_KNOWN_FINDING(c36_mitm_flags_ignored, mitm_region(lesc, local_io, req[1], req[2], has_oob_pre, remote_mitm, CFG_MITM(cfg)));

        vf_smb_reset(cfg);
        vf_smb_set_addresses(cfg, local_addr, remote_addr);
        vf_smb_set_oob_present(cfg, stale_oob);

        uint8_t* out = (uint8_t*)vf_alloc(kind == KIND_LEGACY ? 23 : 65);
        size_t out_size = kind == KIND_LEGACY ? 23 : 65;
        vf_smb_l2cap_input(cfg, req, 7, out, &out_size);
        OBSERVE(out_size);
        if (out_size <= 23) OBSERVE_BYTES(out, out_size);

        if (kind == KIND_LESC && !(req[3] & AUTH_SC)) {
            /* a LESC only device rejects legacy pairing: no method is chosen */
            CHECK(out_size == 2 && out[0] == 0x05, "a LESC only device answers a Pairing Request without the SC flag with Pairing Failed");
        } else {
            CHECK(out_size == 7 && out[0] == 0x02, "a well formed Pairing Request is answered with a Pairing Response");
            if (out_size == 7 && out[0] == 0x02) {
                const int local_mitm = (out[3] & AUTH_MITM) != 0;
                const int has_oob    = kind == KIND_LESC ? 0 : (n_oob_calls ? pool.oob_present : stale_oob);
                const int method     = lesc ? vf_smb_lesc_algo(cfg) : vf_smb_legacy_algo(cfg);
                OBSERVE(method);
                CHECK(out[1] == local_io, "the IO capability advertised in the Pairing Response is the one Core spec table 2.5 assigns to the input / output capabilities");
                check_method(lesc, method, local_io, req[1], req[2], has_oob, remote_mitm, local_mitm, strict);
            }
        }
    }
    WITNESS();
}
