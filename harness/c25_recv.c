/* C25 (a) — while advertising, a connection is entered only for a correctly sized connect request that is addressed to the device
 * (and, for directed advertising, comes from the target) from an initiator that passes the connection filter; scan response data
 * is handed to the radio only by the scannable advertising types.
 *
 * Real code: link_layer::adv_received, advertiser<single / multiple>::handle_adv_receive / handle_adv_timeout,
 * advertising_type_base::is_valid_connect_request, connectable_directed_advertising::impl::is_valid_connect_request,
 * scannable / non connectable ::is_valid_connect_request, white_list_implementation<3,true>::is_connection_request_in_filter /
 * is_scan_request_in_filter, link_layer::run / start_advertising_impl on the real link_layer (shim ll_c).
 *
 * case parameters: CFG (link layer option set, see ll_c_api.h), ADV (advertising type 0 connectable undirected, 1 connectable directed,
 *   2 scannable undirected, 3 non connectable; selected with change_advertising<>() in CFG 1, fixed by the option set otherwise),
 *   LEN (size of the received buffer in bytes, exact-size object), WLN (white list entries in use: 0 or 3; the 3 entries are arbitrary and may be
 *   equal, which covers lists of 1 and 2 different entries), MODE
 *   MODE 0  advertiser::handle_adv_receive() directly: accepted <=> oracle (the <= direction is a sanity / non-vacuity check)
 *   MODE 1  link_layer::adv_received(): a connection is entered only if the oracle holds
 *   MODE 2  (sanity) the connect request of bluetoe's own tests, re-addressed, enters a connection when the oracle holds
 *   MODE 3  is_connection_request_in_filter / is_scan_request_in_filter of the link layer answer from the list and the switches
 *
 * symbolic: every byte of the received buffer (header type, TxAdd, RxAdd, length field, InitA, AdvA, LLData), the device's own address
 *   and address type, the directed advertising target and its type (and whether one was set), the white list (entries incl. type; number in use by case split) and both filter switches.
 *
 * Oracle (property statement, Core spec Vol 6 Part B 2.3.3.1 / 4.4.2 / 4.3.2): accepted only if
 *   buffer size == 2 + 34, PDU type == 0b0101, length field == 34 (the 6 bit length field of the 4.x layout; the two upper bits of the
 *   second header byte are not looked at: permissive reading), AdvA == own address, RxAdd == own address type, advertising type
 *   connectable; directed: a target is set, InitA == target, TxAdd == target type; connection filter: off or (InitA, TxAdd) in the list.
 */
#include "c24_common.h"

static int addr_eq(const uint8_t* a, const uint8_t* b) { int r = 1; for (int i = 0; i < 6; ++i) r &= a[i] == b[i]; return r; }

void harness(void)
{
    vf_global_ctors();
    const int      cfg  = (int)CASE(CFG);
    const int      adv  = (int)CASE(ADV);
    const unsigned len  = (unsigned)CASE(LEN);
    const int      mode = (int)CASE(MODE);

    /* ---- all inputs up front */
    uint8_t own[6], dir[6], wl[3][6], in[48];
    int wl_rnd[3];
    in_bytes(own, 6);            int own_rnd = in_bool();
    in_bytes(dir, 6);            const int dir_rnd = in_bool();   const int dir_set = in_bool();
    for (int i = 0; i < 3; ++i) { in_bytes(wl[i], 6); wl_rnd[i] = in_bool(); }
    const unsigned wl_n        = (unsigned)CASE(WLN);      /* entries in use: concrete (a symbolic end pointer of the list search costs minutes) */
    const int      conn_filter = in_bool();
    const int      scan_filter = in_bool();
    in_bytes(in, 48);

    uint8_t* const pdu = (uint8_t*)vf_alloc(len ? len : 1);
    if (mode == 2) {
        static const uint8_t test_req[36] = { 0xc5, 0x22, 0x3c, 0x1c, 0x62, 0x92, 0xf0, 0x48, 0, 0, 0, 0, 0, 0, 0x5a, 0xb3, 0x9a, 0xaf,
            0x08, 0x81, 0xf6, 0x03, 0x0b, 0x00, 0x18, 0x00, 0x00, 0x00, 0x48, 0x00, 0xff, 0xff, 0xff, 0xff, 0x1f, 0xaa };
        for (unsigned i = 0; i < len && i < 36; ++i) pdu[i] = i < 14 ? in[i] : test_req[i];   /* header + InitA + AdvA symbolic */
    } else {
        for (unsigned i = 0; i < len && i < 48; ++i) pdu[i] = in[i];
    }

    /* ---- configuration through the public functions; white list content through raw members (its semantics: C26) */
    /* OWN 0: the device's default address (static random address derived from the radio's seed); 1: symbolic address and type set with
     * local_address() (minutes per case: byte-wise reasoning about 7 byte address objects); 2: a concrete public address */
    const int own_mode = (int)CASE(OWN);
    if (own_mode == 2) { static const uint8_t pub[6] = { 0x66, 0x55, 0x44, 0x33, 0x22, 0x11 }; for (int i = 0; i < 6; ++i) own[i] = pub[i]; own_rnd = 0; }
    if (own_mode != 0) vfc_set_local_address(own, own_rnd);
    else vfc_get_local_address(own, &own_rnd);
    if (cfg != 5) {
        for (unsigned i = 0; i < 3; ++i) vfc_wl_set_entry(i, wl[i], wl_rnd[i]);
        vfc_wl_set_raw(3 - wl_n, conn_filter, scan_filter);
    }
    if (cfg == 1) vfc_change_advertising(adv);
    const int directed = adv == VFC_TYPE_CONN_DIRECTED;
    static const uint8_t zero[6] = { 0, 0, 0, 0, 0, 0 };
    const int dir_valid = dir_set && !(addr_eq(dir, zero) && dir_rnd);   /* device_address() = random 00:00:00:00:00:00 means "no address" */
    if (directed && dir_set) vfc_directed_address(dir, dir_rnd);
    if (cfg == 0 || cfg == 1) vfc_start_advertising();
    vfc_run();

    uint32_t f[VFC_NADV];
    vfc_get_adv(f);
    CHECK(f[VFC_LL_STATE] == 1, "run() enters the advertising state");
    if (directed && !dir_valid) {
        CHECK(env_n_adv == 0, "directed advertising without a target address does not advertise");
        WITNESS();
        return;
    }
    CHECK(env_n_adv == 1, "advertising started");
    OBSERVE(env_rsp_size[0]);
    const int scannable = adv == VFC_TYPE_CONN_UNDIRECTED || adv == VFC_TYPE_SCANNABLE;
    if (env_rsp_ptr[0] != 0 && env_rsp_size[0] != 0)
        CHECK(scannable, "scan response data is handed to the radio only by scannable advertising types");

    /* ---- oracle */
    const uint8_t* const init_a = in + 2;
    const uint8_t* const adv_a  = in + 8;
    const int tx_add = (in[0] & 0x40) != 0, rx_add = (in[0] & 0x80) != 0;
    int in_list = 0;
    for (unsigned i = 0; i < 3; ++i) in_list |= i < wl_n && addr_eq(wl[i], init_a) && wl_rnd[i] == tx_add;
    const int filter_ok   = cfg == 5 || !conn_filter || in_list;
    const int connectable = adv == VFC_TYPE_CONN_UNDIRECTED || adv == VFC_TYPE_CONN_DIRECTED;
    const int addressed   = len == 36 && (in[0] & 0x0f) == 0x05 && (in[1] & 0x3f) == 34 && addr_eq(adv_a, own) && rx_add == own_rnd;
    const int from_target = !directed || (addr_eq(init_a, dir) && tx_add == dir_rnd);
    const int may_connect = addressed && connectable && from_target && filter_ok;

    if (mode == 0) {
        uint8_t remote[6]; int remote_rnd = 0;
        const int accepted = vfc_handle_adv_receive(pdu, len, remote, &remote_rnd);
        OBSERVE(accepted); OBSERVE(env_n_adv);
        if (accepted) {
            CHECK(len == 36 && (in[0] & 0x0f) == 0x05 && (in[1] & 0x3f) == 34, "a connect request is accepted only as CONNECT_IND with length 34");
            CHECK(addr_eq(adv_a, own), "a connect request is accepted only if AdvA is the device's own address");
            CHECK(rx_add == own_rnd, "a connect request is accepted only if RxAdd is the device's own address type");
            CHECK(connectable, "a connect request is accepted only by connectable advertising types");
            CHECK(from_target, "directed advertising accepts a connect request only from the target address and address type");
            CHECK(filter_ok, "a connect request is accepted only if the initiator (InitA, TxAdd) passes the connection filter");
            CHECK(addr_eq(remote, init_a) && remote_rnd == tx_add, "the reported remote address is InitA with the type from TxAdd");
            CHECK(env_n_adv == 1, "an accepted connect request does not schedule a further advertisement");
        } else {
            CHECK(!may_connect, "(sanity) a properly addressed and permitted connect request is accepted");
            CHECK(env_n_adv == 2, "a request that is not accepted is followed by the next advertisement");
        }
    } else if (mode == 3) {
        /* the filter questions the radio / advertiser ask are answered from the list and the switches */
        CHECK(!vfc_conn_in_filter(init_a, tx_add) == !filter_ok, "connection filter: off or initiator in the white list");
        CHECK(!vfc_scan_in_filter(init_a, tx_add) == !(cfg == 5 || !scan_filter || in_list), "scan filter: off or scanner in the white list");
    } else {
        vfc_adv_received(pdu, len);
        vfc_get_adv(f);
        OBSERVE(f[VFC_LL_STATE]); OBSERVE(env_n_evt); OBSERVE(env_n_adv);
        const int entered = f[VFC_LL_STATE] != 1 || env_n_evt != 0;
        if (entered) {
            CHECK(may_connect, "a connection is entered only for a correctly sized connect request addressed to the device from a permitted initiator");
            CHECK(f[VFC_LL_STATE] == 2 && env_n_evt == 1 && env_n_adv == 1, "connecting: first connection event scheduled, no further advertisement");
        } else if (!may_connect) {
            /* (a properly addressed and permitted request whose LLData is invalid is dropped by link_layer::adv_received without
             * scheduling anything; whether the device should go on advertising then is not part of this property) */
            CHECK(env_n_adv == 2, "a request that is not addressed to the device or not permitted is followed by the next advertisement");
        }
        if (mode == 2 && may_connect) CHECK(entered, "(sanity) the valid connect request of bluetoe's tests enters a connection");
    }
    WITNESS();
}
