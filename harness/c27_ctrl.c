/* C27 — every received LL control PDU gets its specified response.
 *
 * Real code: link_layer::handle_ll_control_data (with handle_encryption_pdus, handle_phy_request, handle_connection_parameters_request,
 * reject, the connection_callbacks push functions) on the real link_layer<server, stub radio, ...>, state set directly (shim ll_d).
 *
 * case parameters: CFG (0 2M radio + callbacks, 1 radio without 2M, 2 encryption), OPC (0x00..0x25 concrete; -1: symbolic opcode >= 0x26),
 *                  LEN (payload length incl. the opcode, 1..27)
 * symbolic: all payload bytes, header bits NESN/SN/MD, link layer state (connecting/connected/disconnecting/connection_changed), event counter,
 *           used features (subset of the supported), procedure flags (bits of VFD_FLAGS), procedure timeout, proposed parameters,
 *           encryption flags (CFG 2), answers of the radio / key data base.
 *
 * Oracle: table written from Core spec Vol 6 Part B 2.4.2 / 5.1 for a peripheral (see expected() below).
 *   Latitude taken (permissive reading, stated in props/C27.py):
 *   - a malformed request may be answered with LL_UNKNOWN_RSP(opcode) or LL_REJECT_EXT_IND(opcode, x) (2.4.2 allows both)
 *   - PDUs that only a peripheral sends (LL_ENC_RSP, LL_START_ENC_REQ ...) and response PDUs the configuration never asked for
 *     (LL_FEATURE_RSP, LL_PING_RSP, LL_PHY_RSP, LL_CONNECTION_PARAM_RSP, LL_LENGTH_RSP ...) may be ignored or answered with
 *     LL_UNKNOWN_RSP(opcode) (2.4.2: "not supported" PDUs shall get LL_UNKNOWN_RSP). They are never answered with anything else.
 *   - LL_UNKNOWN_RSP (any length), well-formed LL_REJECT_IND / LL_REJECT_EXT_IND: never answered at all.
 *   - a second LL_VERSION_IND may be ignored or get LL_UNKNOWN_RSP, but never another LL_VERSION_IND.
 */
#include "c27_common.h"

enum { K_REQ = 1, K_IND, K_RSP, K_REJ };

/* Core spec 5.3 Vol 6 Part B 2.4.2: opcode -> (payload length incl. opcode, kind as seen by a peripheral that receives it) */
static const struct { uint8_t len, kind; } OPS[0x26] = {
    /* 00 LL_CONNECTION_UPDATE_IND */ { 12, K_IND }, /* 01 LL_CHANNEL_MAP_IND */ { 8, K_IND },  /* 02 LL_TERMINATE_IND */ { 2, K_IND },
    /* 03 LL_ENC_REQ */ { 23, K_REQ },               /* 04 LL_ENC_RSP */ { 13, K_RSP },         /* 05 LL_START_ENC_REQ */ { 1, K_REQ },
    /* 06 LL_START_ENC_RSP */ { 1, K_RSP },          /* 07 LL_UNKNOWN_RSP */ { 2, K_REJ },      /* 08 LL_FEATURE_REQ */ { 9, K_REQ },
    /* 09 LL_FEATURE_RSP */ { 9, K_RSP },            /* 0A LL_PAUSE_ENC_REQ */ { 1, K_REQ },    /* 0B LL_PAUSE_ENC_RSP */ { 1, K_RSP },
    /* 0C LL_VERSION_IND */ { 6, K_REQ },            /* 0D LL_REJECT_IND */ { 2, K_REJ },       /* 0E LL_PERIPHERAL_FEATURE_REQ */ { 9, K_REQ },
    /* 0F LL_CONNECTION_PARAM_REQ */ { 24, K_REQ },  /* 10 LL_CONNECTION_PARAM_RSP */ { 24, K_RSP }, /* 11 LL_REJECT_EXT_IND */ { 3, K_REJ },
    /* 12 LL_PING_REQ */ { 1, K_REQ },               /* 13 LL_PING_RSP */ { 1, K_RSP },         /* 14 LL_LENGTH_REQ */ { 9, K_REQ },
    /* 15 LL_LENGTH_RSP */ { 9, K_RSP },             /* 16 LL_PHY_REQ */ { 3, K_REQ },          /* 17 LL_PHY_RSP */ { 3, K_RSP },
    /* 18 LL_PHY_UPDATE_IND */ { 5, K_IND },         /* 19 LL_MIN_USED_CHANNELS_IND */ { 3, K_IND }, /* 1A LL_CTE_REQ */ { 2, K_REQ },
    /* 1B LL_CTE_RSP */ { 1, K_RSP },                /* 1C LL_PERIODIC_SYNC_IND */ { 35, K_IND }, /* 1D LL_CLOCK_ACCURACY_REQ */ { 2, K_REQ },
    /* 1E LL_CLOCK_ACCURACY_RSP */ { 2, K_RSP },     /* 1F LL_CIS_REQ */ { 36, K_REQ },         /* 20 LL_CIS_RSP */ { 9, K_RSP },
    /* 21 LL_CIS_IND */ { 16, K_IND },               /* 22 LL_CIS_TERMINATE_IND */ { 4, K_IND }, /* 23 LL_POWER_CONTROL_REQ */ { 4, K_REQ },
    /* 24 LL_POWER_CONTROL_RSP */ { 5, K_RSP },      /* 25 LL_POWER_CHANGE_IND */ { 5, K_IND }
};

/* is the PDU one the configuration implements as receiver (documented feature set)? */
static int supported(int cfg, unsigned opc)
{
    switch (opc) {
    case 0x00: case 0x01: case 0x02: case 0x07: case 0x08: case 0x0C: case 0x0D: case 0x0F: case 0x11: case 0x12: return 1;
    case 0x03: case 0x06: case 0x0A: case 0x0B: return cfg == 2;
    case 0x16: case 0x18: return cfg != 1;
    default: return 0;
    }
}

static unsigned rd16(const uint8_t* p) { return (unsigned)p[0] | ((unsigned)p[1] << 8); }

void harness(void)
{
    vf_global_ctors();
    const int      cfg = (int)CASE(CFG);
    const int      opc_case = (int)CASE(OPC);
    const unsigned len = (unsigned)CASE(LEN);
    const unsigned n   = 2u + len;

    env_reset();
    vfd_reset_buffers();

    /* ---- inputs (all drawn up front) */
    sym_misc(cfg);
    sym_parameters();
    st[VFD_STATE]        = (uint32_t)in_range(VFD_ST_CONNECTING, VFD_ST_CHANGED);
    st[VFD_PROC_TIMEOUT] = in_u32();
    st[VFD_FLAGS]        = (uint32_t)in_range(0, 127);
    st[VFD_PROPOSED_MIN] = in_u16(); st[VFD_PROPOSED_MAX] = in_u16(); st[VFD_PROPOSED_LATENCY] = in_u16(); st[VFD_PROPOSED_TIMEOUT] = in_u16();
    st[VFD_HAS_KEY]      = (uint32_t)in_bool();
    st[VFD_ENC_IN_PROGRESS] = (uint32_t)in_bool();
    st[VFD_ENCRYPTED]    = (uint32_t)in_bool();
    st[VFD_PAIRING_STATUS] = (uint32_t)in_range(0, 3);
    env_key_found = in_bool();
    in_bytes(env_key, 16);
    env_skds_lo = in_u32(); env_skds_hi = in_u32(); env_ivs = in_u32();
    env_pairing_status = (unsigned)in_range(0, 3);
    const unsigned opc_sym = (unsigned)in_range(0x26, 0xff);

    uint8_t* pdu = (uint8_t*)vf_alloc(n);
    in_bytes(pdu, n);
    pdu[0] = (uint8_t)((pdu[0] & 0x1c) | 3);          /* LLID = control, NESN/SN/MD symbolic, RFU 0 */
    pdu[1] = (uint8_t)len;
    const unsigned opc = opc_case >= 0 ? (unsigned)opc_case : opc_sym;
    pdu[2] = (uint8_t)opc;

    vfd_set_state(st);
    const unsigned used_pre = st[VFD_USED_FEATURES];
    const unsigned sup      = cfg_features(cfg);
    CHECK((unsigned)vfd_supported_features() == sup, "the configuration announces the documented feature set");

    /* ---- the step */
    const int r    = vfd_handle_ll_control_data(pdu, n);
    const int disc = r & 1;
    CHECK((r & 2) == 0, "a transmit buffer is available in an empty transmit ring");

    uint32_t post[VFD_NFIELDS];
    vfd_get_state(post);
    OBSERVE(r); OBSERVE(env_n_tx); OBSERVE_BYTES(env_tx[0], 29); OBSERVE(post[VFD_USED_FEATURES]); OBSERVE(post[VFD_FLAGS]); OBSERVE(post[VFD_PROC_TIMEOUT]);

    /* ---- the response, as handed to the radio */
    CHECK(env_n_tx <= 1, "at most one PDU is sent in response to one received PDU");
    const int      none = env_n_tx == 0;
    const uint8_t* R    = env_tx[0];
    const unsigned rl   = R[1], ro = R[2];
    if (!none) {
        CHECK((R[0] & 3) == 3, "a response to a control PDU is a control PDU");
        CHECK(rl >= 1 && rl <= 27, "response payload length is 1..27");
    }
    const int unknown_rsp = !none && rl == 2 && ro == 0x07 && R[3] == opc;
    const int reject_ext  = !none && rl == 3 && ro == 0x11 && R[3] == opc;
    const int reject_any  = reject_ext || (!none && rl == 2 && ro == 0x0D);

    const int known = opc < 0x26;
    const int well  = known && len == OPS[known ? opc : 0].len;
    const int kind  = known ? OPS[opc].kind : K_REQ;
    const int sup_op = known && supported(cfg, opc);

    if (opc == 0x07) {
        CHECK(none, "LL_UNKNOWN_RSP (any length) is never answered");
        /* an LL_UNKNOWN_RSP that names a PDU type the peripheral never sends as a request is no answer to a pending peripheral
           initiated procedure: the 40 s procedure response timer keeps running (request types a peripheral may have outstanding:
           0x08/0x0E feature, 0x0C version, 0x0F connection parameter, 0x12 ping, 0x14 length, 0x16 phy) */
        if (len == 2) {
            const unsigned t = pdu[3];
            if (t != 0x08 && t != 0x0E && t != 0x0C && t != 0x0F && t != 0x12 && t != 0x14 && t != 0x16)
                CHECK(post[VFD_PROC_TIMEOUT] == st[VFD_PROC_TIMEOUT], "an LL_UNKNOWN_RSP for a PDU type that is no request of the peripheral does not stop the procedure response timer");
        }
    } else if (kind == K_REJ) {
        if (well) CHECK(none, "LL_REJECT_IND / LL_REJECT_EXT_IND is never answered");
        if (well && opc == 0x11) {
            const unsigned t = pdu[3];
            if (t != 0x08 && t != 0x0E && t != 0x0C && t != 0x0F && t != 0x12 && t != 0x14 && t != 0x16)
                CHECK(post[VFD_PROC_TIMEOUT] == st[VFD_PROC_TIMEOUT], "an LL_REJECT_EXT_IND for a PDU type that is no request of the peripheral does not stop the procedure response timer");
        }
        else      CHECK(none || unknown_rsp, "a malformed reject is ignored or answered with LL_UNKNOWN_RSP naming it");
    } else if (kind == K_RSP && !(sup_op && well)) {
        CHECK(none || unknown_rsp, "a response PDU that is not expected is ignored or answered with LL_UNKNOWN_RSP naming it, nothing else");
    } else if (!sup_op || !well) {
        /* unknown opcode, unsupported request / indication, or malformed request / indication */
        if (kind == K_IND && sup_op)
            CHECK(none || unknown_rsp || reject_ext, "a malformed indication is ignored or answered with LL_UNKNOWN_RSP / LL_REJECT_EXT_IND naming it");
        else
            CHECK(unknown_rsp || reject_ext, "an unknown, unsupported or malformed request gets LL_UNKNOWN_RSP (or LL_REJECT_EXT_IND) naming its opcode");
    } else {
        /* supported and well-formed */
        switch (opc) {
        case 0x00: case 0x01: case 0x02:
            CHECK(none, "LL_CONNECTION_UPDATE_IND / LL_CHANNEL_MAP_IND / LL_TERMINATE_IND are not answered");
            break;
        case 0x18: {
            const int valid = pdu[3] <= 2 && pdu[4] <= 2;      /* bluetoe: 1M and 2M; at most one bit per direction */
            if (valid) CHECK(none, "a valid LL_PHY_UPDATE_IND is not answered");
            else       CHECK(none || unknown_rsp || reject_ext, "an invalid LL_PHY_UPDATE_IND is ignored or rejected");
            break; }
        case 0x08: {
            CHECK(!none && ro == 0x09 && rl == 9, "LL_FEATURE_REQ is answered with LL_FEATURE_RSP");
            const unsigned remote = rd16(&pdu[3]);
            CHECK(R[3] == ((used_pre & remote) & 0xff), "LL_FEATURE_RSP: FeatureSet[0] is the intersection of both sides' features");
            CHECK((R[3] & ~(sup & pdu[3])) == 0, "LL_FEATURE_RSP: no feature is used that one side does not support");
            CHECK(R[4] == (sup >> 8) || R[4] == ((sup >> 8) & pdu[4]), "LL_FEATURE_RSP: FeatureSet[1] is the supported set (or its intersection)");
            for (int i = 5; i <= 10; ++i) CHECK(R[i] == 0, "LL_FEATURE_RSP: no unsupported feature announced in FeatureSet[2..7]");
            CHECK(post[VFD_USED_FEATURES] == (used_pre & remote), "the features used on the connection are the intersection");
            if (cfg != 1) CHECK(env_count_cb(VFD_CB_REMOTE_FEATURES) <= 1, "remote features reported at most once");
            break; }
        case 0x0C:
            if (!(st[VFD_FLAGS] & 32)) {
                CHECK(!none && ro == 0x0C && rl == 6, "the first LL_VERSION_IND is answered with LL_VERSION_IND");
                CHECK(R[3] == vfd_version() && rd16(&R[4]) == vfd_company(), "LL_VERSION_IND carries the link layer's version and company id");
                CHECK(R[3] >= 6 && R[3] <= 0x0f, "VersNr is an assigned number");
            } else {
                CHECK(none || unknown_rsp, "a further LL_VERSION_IND is not answered with another LL_VERSION_IND");
            }
            break;
        case 0x0F: {
            const unsigned imin = rd16(&pdu[3]), imax = rd16(&pdu[5]), lat = rd16(&pdu[7]), to = rd16(&pdu[9]);
            const int valid = imin >= 6 && imax <= 3200 && imin <= imax && lat <= 499 && to >= 10 && to <= 3200;
            const int rsp = !none && ro == 0x10 && rl == 24;
            CHECK(rsp || reject_any, "LL_CONNECTION_PARAM_REQ is answered with LL_CONNECTION_PARAM_RSP or rejected");
            if (!valid) CHECK(reject_any, "LL_CONNECTION_PARAM_REQ with parameters outside the ranges of the specification is rejected");
            if (rsp) {
                const unsigned rmin = rd16(&R[3]), rmax = rd16(&R[5]), rlat = rd16(&R[7]);
                CHECK(rmin >= 6 && rmax <= 3200 && rmin <= rmax && rlat <= 499, "LL_CONNECTION_PARAM_RSP carries valid parameters");
            }
            break; }
        case 0x12:
            CHECK(!none && ro == 0x13 && rl == 1, "LL_PING_REQ is answered with LL_PING_RSP");
            break;
        case 0x16:
            CHECK(!none && ro == 0x17 && rl == 3, "LL_PHY_REQ is answered with LL_PHY_RSP when the radio supports the 2M PHY");
            CHECK(R[3] != 0 && R[4] != 0 && (R[3] & ~3u) == 0 && (R[4] & ~3u) == 0, "LL_PHY_RSP names at least one and only supported PHYs per direction");
            break;
        case 0x03:
            CHECK(!none && ro == 0x04 && rl == 13, "LL_ENC_REQ is answered with LL_ENC_RSP");
            CHECK((R[3] | (R[4] << 8) | (R[5] << 16) | ((uint32_t)R[6] << 24)) == env_skds_lo
               && (R[7] | (R[8] << 8) | (R[9] << 16) | ((uint32_t)R[10] << 24)) == env_skds_hi
               && (R[11] | (R[12] << 8) | (R[13] << 16) | ((uint32_t)R[14] << 24)) == env_ivs, "LL_ENC_RSP carries the radio's SKDs and IVs");
            break;
        case 0x0A:
            CHECK(!none && ro == 0x0B && rl == 1, "LL_PAUSE_ENC_REQ is answered with LL_PAUSE_ENC_RSP");
            break;
        case 0x06:
            CHECK(none || unknown_rsp || reject_any || (ro == 0x06 && rl == 1), "LL_START_ENC_RSP is answered with LL_START_ENC_RSP, or refused (C28 decides when)");
            break;
        case 0x0B:
            CHECK(none, "LL_PAUSE_ENC_RSP is not answered");
            break;
        default:
            CHECK(0, "harness: opcode table incomplete");
        }
    }

    /* the link is ended only by LL_TERMINATE_IND (with its reason) or by an indication whose instant can not be met */
    if (disc) {
        CHECK(well && (opc == 0x02 || opc == 0x00 || opc == 0x01 || (opc == 0x18 && cfg != 1)), "only LL_TERMINATE_IND or an unmeetable instant end the connection");
        if (opc == 0x02 && well) CHECK(post[VFD_DISC_REASON] == pdu[3], "the reason of LL_TERMINATE_IND is kept for the host");
    }
    if (opc == 0x02 && well) CHECK(disc, "LL_TERMINATE_IND ends the connection");
    WITNESS();
}
