/* C30 (sequential part) — the real bluetoe::details::ring<S,int> against a FIFO model.
 * case parameters: S (capacity 1..3), K (number of operations)
 * Start state: arbitrary read/write positions inside the ring with an arbitrary content (every state any history
 * can reach: read_ptr_, write_ptr_ in 0..S), then K symbolic push/pop operations compared with a FIFO model.
 * This harness is also the translation validation (generated C vs. the g++ build) for the functions that the
 * interleaving harness c30_ring_il.c drives through their resumable rendering.
 */
#include "vf.h"

#define DECL(N) int ring##N##_push(int v); int ring##N##_pop(int* out); void ring##N##_reset(void); \
                void ring##N##_set(int rd, int wr); void ring##N##_get(int* rd, int* wr);
DECL(1) DECL(2) DECL(3)

static int cap;
static int r_push(int v)            { switch (cap) { case 1: return ring1_push(v); case 2: return ring2_push(v); default: return ring3_push(v); } }
static int r_pop(int* o)            { switch (cap) { case 1: return ring1_pop(o); case 2: return ring2_pop(o); default: return ring3_pop(o); } }
static void r_set(int rd, int wr)   { switch (cap) { case 1: ring1_set(rd, wr); break; case 2: ring2_set(rd, wr); break; default: ring3_set(rd, wr); break; } }
static void r_get(int* rd, int* wr) { switch (cap) { case 1: ring1_get(rd, wr); break; case 2: ring2_get(rd, wr); break; default: ring3_get(rd, wr); break; } }

#define MAXQ 16
static int model[MAXQ]; static int mhead, mtail;   /* FIFO model */

void harness(void)
{
    vf_global_ctors();
    cap = (int)CASE(CAP); const int S = cap;
    int nops = (int)CASE(K);
    int len = S + 1;
    /* arbitrary reachable start state: fill through the real API from an arbitrary position */
    int rd = (int)in_range(0, S);
    r_set(rd, rd);
    int fill = (int)in_range(0, S);
    for (int i = 0; i < fill; ++i) {
        int v = (int)in_u32();
        int ok = r_push(v);
        CHECK(ok, "push into a ring holding fewer than S elements succeeds");
        model[mtail++] = v;
    }
    for (int k = 0; k < nops; ++k) {
        if (in_bool()) {
            int v = (int)in_u32();
            int ok = r_push(v);
            OBSERVE(ok);
            CHECK(ok == (mtail - mhead < S), "push succeeds exactly when the ring holds fewer than S elements");
            if (ok) model[mtail++] = v;
        } else {
            int out = 0x5a5a5a5a;
            int ok = r_pop(&out);
            OBSERVE(ok); OBSERVE(ok ? out : 0);
            CHECK(ok == (mtail != mhead), "pop succeeds exactly when an element is pending");
            if (ok) { CHECK(out == model[mhead], "pop returns the oldest pushed element"); ++mhead; }
            else CHECK(out == 0x5a5a5a5a, "failed pop does not touch the output");
        }
        int r, w; r_get(&r, &w);
        CHECK(r >= 0 && r < len && w >= 0 && w < len, "read and write positions stay inside the ring");
        CHECK((w - r + len) % len == mtail - mhead, "positions encode the number of pending elements");
    }
    WITNESS();
}
