/* C32 — SMP pairing messages are accepted only in protocol order; Srand / the own DHKey check are revealed only after
 * the central's confirm value / DHKey check was verified.  Real security managers (shims/sm.cpp) against the reference
 * responder automaton and the ghost crypto log of c32_sm_model.h. */
#define SM_PROP 32
/* known finding (region: an l2cap_output() poll while the pairing state is user_response_success): the own DHKey check Eb is
 * sent and the pairing completed although no DHKey check Ea of the central was verified */
#define SM_KF_POLL(pre) VF_KNOWN_FINDING(c32_dhkey_check_unverified_after_user_confirmation, (pre) == ST_USER_SUCCESS)
#include "c32_sm_model.h"

void harness(void)
{
    sm_harness_body();
}
