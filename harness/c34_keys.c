/* C34 — distributed keys (LTK = Encryption Information, EDIV + Rand = Central Identification) are transmitted only while the
 * link is encrypted, each item at most once per pairing, and only after pairing completed.
 *
 * Real security managers of shims/sm.cpp with a bonding data base (cfg 4 legacy, 7 LESC, 10 combined; the others never
 * distribute keys and are checked for exactly that); environment stubs and reference responder automaton of c32_sm_model.h
 * (its protocol-order checks belong to C32 and are not asserted here; the automaton tells when a pairing completed).
 *
 * Every PDU the manager emits - as answer of l2cap_input() or spontaneously from l2cap_output() - is watched:
 *   opcode 0x06 Encryption Information : link encrypted now, a pairing completed before on this connection, not sent yet since the last completion
 *   opcode 0x07 Central Identification : same
 *   opcodes 0x08, 0x09, 0x0a (identity information / address, signing information: not implemented) : link encrypted, a pairing completed
 *
 * MODE 0  inductive step: arbitrary pairing state + symbolic pending-distribution flags / pending key / encryption flag, symbolic
 *         ghost (a pairing completed earlier, item already sent) tied to the flags by the invariant
 *             pending_encryption_information -> completed && !sent(LTK)       pending_central_identification -> completed && !sent(EDIV/Rand)
 *         one operation: OP 0 PDU (opcode OPC, length LEN), OP 1 l2cap_output poll, OP 2 user answer, OP 3 encryption change;
 *         the property and the invariant are asserted afterwards.
 * MODE 1  bounded history from reset: K symbolic operations (PDU / poll / user answer / encryption on / encryption off).
 */
#define SM_PROP 34
#include "c32_sm_model.h"

static int enc;                    /* ghost: the link is encrypted (what the link layer told the connection data) */
static int armed;                  /* ghost: a pairing completed on this connection */
static int sent_ltk, sent_id;      /* ghost: item transmitted since the last completed pairing */

static int flag(int id) { uint8_t v = 0; vf_sm_field_get(cfg, id, &v, 1); return v; }

static int inv34(void)
{
    int ok = 1;
    if (CFG_DB[cfg]) {
        const int pe = flag(F_PENDING_ENC_INFO), pc = flag(F_PENDING_CENTRAL_ID);
        ok &= pe <= 1 && pc <= 1;
        ok &= !pe || (armed && !sent_ltk);
        ok &= !pc || (armed && !sent_id);
    }
    ok &= g.st != R_DONE || armed;
    ok &= flag(F_LINK_ENCRYPTED) == enc;
    return ok;
}

static void watch_output(const uint8_t* out, size_t out_size)
{
    if (out_size == 0 || out_size > MTU) return;
    const int opc = out[0];
    if (opc == OP_ENC_INFO) {
        CHECK(enc, "Encryption Information (LTK) is transmitted only while the link is encrypted");
        CHECK(armed, "Encryption Information (LTK) is transmitted only after a pairing completed");
        CHECK(!sent_ltk, "Encryption Information (LTK) is transmitted at most once per pairing");
        CHECK(out_size == 17, "Encryption Information has 17 octets");
        sent_ltk = 1;
    } else if (opc == OP_CENTRAL_ID) {
        CHECK(enc, "Central Identification (EDIV, Rand) is transmitted only while the link is encrypted");
        CHECK(armed, "Central Identification (EDIV, Rand) is transmitted only after a pairing completed");
        CHECK(!sent_id, "Central Identification (EDIV, Rand) is transmitted at most once per pairing");
        CHECK(out_size == 11, "Central Identification has 11 octets");
        sent_id = 1;
    } else if (opc == OP_ID_INFO || opc == OP_ID_ADDR || opc == OP_SIGN_INFO) {
        CHECK(enc && armed, "identity / signing keys are transmitted only on an encrypted link after a pairing completed");
    }
}

static void completed_now(int pre_st)
{
    if (g.st == R_DONE && pre_st != R_DONE) { armed = 1; sent_ltk = 0; sent_id = 0; }     /* a new pairing: its keys may be sent once */
}

static void op_input(const uint8_t* pdu, size_t len)
{
    uint8_t* out = (uint8_t*)vf_alloc(MTU);
    size_t out_size = MTU;
    const int pre_st = g.st;
    vf_sm_l2cap_input(cfg, pdu, len, out, &out_size);
    OBSERVE(out_size);
    if (out_size <= MTU) OBSERVE_BYTES(out, out_size);
    OBSERVE(impl_state());
    watch_output(out, out_size);            /* the link state at the time of the transmission counts */
    judge_input(pdu, len, out, out_size);
    completed_now(pre_st);
}

static void op_poll(void)
{
    uint8_t* out = (uint8_t*)vf_alloc(MTU);
    size_t out_size = MTU;
    const int pre_st = g.st;
    vf_sm_l2cap_output(cfg, out, &out_size);
    OBSERVE(out_size);
    if (out_size <= MTU) OBSERVE_BYTES(out, out_size);
    OBSERVE(impl_state());
    watch_output(out, out_size);
    judge_poll(out, out_size);
    completed_now(pre_st);
}

static void op_encryption(int on)
{
    vf_sm_set_encrypted(cfg, on);
    enc = on;
}

void harness(void)
{
    vf_global_ctors();
    cfg = (int)CASE(CFG);
    const int mode = (int)CASE(MODE);
    vf_sm_reset(cfg);
    pending_response = 0;
    ref_abort();
    enc = 0; armed = 0; sent_ltk = 0; sent_id = 0;
    draw_addresses();

    if (mode == 0) {
        /* all draws first */
        uint8_t pe = (uint8_t)in_bool(), pc = (uint8_t)in_bool(), e = (uint8_t)in_bool(), pkey[16], prand[8], pediv[2];
        in_bytes(pkey, 16); in_bytes(prand, 8); in_bytes(pediv, 2);
        armed = in_bool(); sent_ltk = in_bool(); sent_id = in_bool();
        const int on = in_bool(), yes = in_bool();
        load_symbolic_state();
        if (CFG_DB[cfg]) {
            set_field(F_PENDING_ENC_INFO, &pe, 1); set_field(F_PENDING_CENTRAL_ID, &pc, 1);
            set_field(F_PENDING_KEY, pkey, 16); set_field(F_PENDING_RAND, prand, 8); set_field(F_PENDING_EDIV, pediv, 2);
        }
        set_field(F_LINK_ENCRYPTED, &e, 1); enc = e;
        ASSUME(inv34());

        log_begin_step();
        if ((int)CASE(OP) == 0) {
            const size_t len = (size_t)CASE(LEN);
            uint8_t* pdu = (uint8_t*)vf_alloc(len);
            in_bytes(pdu, len);
            if (len) {
                if ((int)CASE(OPC) != 255) pdu[0] = (uint8_t)CASE(OPC);
            }
            op_input(pdu, len);
        } else if ((int)CASE(OP) == 1) {
            op_poll();
        } else if ((int)CASE(OP) == 2) {
            ASSUME(g.user == U_WAIT);
            user_answers(yes);
        } else {
            op_encryption(on);
        }
        CHECK(inv34(), "invariant after the step: a pending key item implies a completed pairing whose item was not transmitted yet");
    } else {
        const int k = (int)CASE(K);
        CHECK(inv34(), "invariant on a new connection: nothing pending");
        for (int s = 0; s < k; ++s) {
            uint8_t pdu[66];
            const int op = (int)in_range(0, 5);
            const unsigned opc = (unsigned)in_range(0, 15);
            const unsigned lc  = (unsigned)in_range(0, 3);
            in_bytes(pdu, 65);
            log_begin_step();
            if (op == 0) {
                size_t len = SMP_SIZE[opc];
                if (lc == 1) len -= 1; else if (lc == 2) len += 1; else if (lc == 3) len = MTU;
                if (len > MTU) len = MTU;
                pdu[0] = (uint8_t)opc;
                op_input(pdu, len);
            } else if (op == 1) {
                op_poll();
            } else if (op == 2 || op == 3) {
                user_answers(op == 2);
            } else {
                op_encryption(op == 4);
            }
            CHECK(inv34(), "invariant after every operation of a history from reset");
        }
    }
    WITNESS();
}
