/* C11 (server / link layer part) — indications are confirmed one at a time and never lost (shim att_e10: the real
 * link_layer, whose queue_lcap_notification() queues requests and forwards confirmations, around a server with six
 * notify / indicate characteristics).
 *
 * case parameters
 *   CFG   server declaration (0 no priorities, 1 service + server priorities, 2 service priorities), one unit per CFG
 *   MODE  0: Handle Value Confirmation of LEN octets from an arbitrary state: LEN == 1 -> no response, nothing outstanding
 *            afterwards, pending requests untouched; LEN != 1 -> Error Response (Invalid PDU), state unchanged
 *         1: K symbolic steps (poll l2cap_output / confirmation / confirmation with wrong length / request) from an arbitrary
 *            state: between an indication PDU and the next well-formed confirmation no further indication PDU is sent,
 *            notifications may be
 *         2: liveness: arbitrary set of at most NP pending requests, arbitrary client configuration; NP polls, every
 *            indication PDU is confirmed: every pending request of a subscribed characteristic has been sent exactly once,
 *            afterwards the queue is empty and nothing is outstanding
 * The state is built through the API (requests by UUID for a symbolic subset of the 8 possible (characteristic, kind) pairs),
 * the round robin positions and the outstanding indication are set raw (arbitrary).
 *
 * Expected table (hand written, see shims/att_e10.cpp): value handles 3 6 9 12 16 19, CCCD handles 4 7 10 13 17 20;
 * priority levels by documentation of higher_outgoing_priority: CFG 0 {6}, CFG 1 {2,1,1,2}, CFG 2 {1,5}.
 */
#include "vf.h"

int      vf_e10_part(void);
int      vf_e10_request(int cfg, int k, int indicate, int by_uuid);
void     vf_e10_output(int cfg, uint8_t* out, size_t* out_size);
void     vf_e10_input(int cfg, const uint8_t* in, size_t in_size, uint8_t* out, size_t* out_size);
unsigned vf_e10_get_config(int cfg);
unsigned vf_e10_configured(int cfg, int k);
void     vf_e10_set_config(int cfg, unsigned v);
void     vf_e10_set_values(const uint8_t* src);
int      vf_e10_level_size(int cfg, int level);
void     vf_e10_get_level(int cfg, int level, uint64_t* next, uint32_t* bits);
void     vf_e10_set_level(int cfg, int level, uint64_t next, uint32_t bits);
unsigned long vf_e10_get_outstanding(int cfg);
void     vf_e10_set_outstanding(int cfg, unsigned long v);

#define NC 6
#define NREQ 8
#define MAXL 4
#define NONE (~0ul)
static const unsigned VAL_H[NC]  = { 3, 6, 9, 12, 16, 19 };
static const int REQ_K[NREQ]   = { 0, 2, 3, 4, 1, 2, 4, 5 };
static const int REQ_IND[NREQ] = { 0, 0, 0, 0, 1, 1, 1, 1 };
static const int NLEVELS[3]      = { 1, 4, 2 };
static const int SIZES[3][MAXL]  = { { 6, 0, 0, 0 }, { 2, 1, 1, 2 }, { 1, 5, 0, 0 } };
#define NVAL 39

static unsigned cancelations;
void vf_e10_env_event_cancelation(void) { ++cancelations; }

static int cfg;
static uint64_t next0[MAXL]; static uint32_t bits0[MAXL];

static int char_of_handle(unsigned h)
{
    for (int k = 0; k < NC; ++k) if (VAL_H[k] == h) return k;
    return -1;
}

/* Handle Value Confirmation of len octets; returns the size of the response */
static size_t confirmation(unsigned len, const uint8_t* junk, uint8_t** resp)
{
    uint8_t* pdu = vf_alloc(len); uint8_t* out = vf_alloc(23); size_t os = 23;
    pdu[0] = 0x1e;
    for (unsigned i = 1; i < 23; ++i) if (i < len) pdu[i] = junk[i];
    vf_e10_input(cfg, pdu, len, out, &os);
    OBSERVE(os);
    if (os <= 23) OBSERVE_BYTES(out, os);
    *resp = out;
    return os;
}

/* one poll; returns 0 nothing, 1 notification, 2 indication; *k the characteristic the PDU belongs to (by value handle) */
static int poll(int* k)
{
    uint8_t* out = vf_alloc(23); size_t os = 23;
    vf_e10_output(cfg, out, &os);
    OBSERVE(os);
    *k = -1;
    CHECK(os == 0 || (os >= 3 && os <= 23), "l2cap_output yields nothing or a PDU with opcode and handle");
    if (!(os >= 3 && os <= 23)) return 0;
    OBSERVE_BYTES(out, os);
    CHECK(out[0] == 0x1b || out[0] == 0x1d, "a PDU produced by l2cap_output is a Handle Value Notification or Indication");
    *k = char_of_handle((unsigned)(out[1] | (out[2] << 8)));
    CHECK(*k >= 0, "the PDU carries the value handle of a characteristic");
    return out[0] == 0x1d ? 2 : 1;
}

/* arbitrary state: pending requests through the API, round robin positions and outstanding indication raw */
static void build_state(const int* want, int has_out, unsigned long o)
{
    for (int m = 0; m < NREQ; ++m)
        if (want[m]) vf_e10_request(cfg, REQ_K[m], REQ_IND[m], 1);
    for (int l = 0; l < NLEVELS[cfg]; ++l) {
        uint64_t next; uint32_t bits;
        CHECK(vf_e10_level_size(cfg, l) == SIZES[cfg][l], "the priority levels have the documented sizes");
        vf_e10_get_level(cfg, l, &next, &bits);
        uint64_t nn = in_range(0, SIZES[cfg][l] - 1);
        vf_e10_set_level(cfg, l, nn, bits);
        next0[l] = SIZES[cfg][l] == 1 ? 0 : nn; bits0[l] = bits;
    }
    CHECK(vf_e10_level_size(cfg, NLEVELS[cfg]) == 0, "there are no further priority levels");
    vf_e10_set_outstanding(cfg, has_out ? o : NONE);
}

static int state_unchanged(unsigned long outst, unsigned raw)
{
    int same = 1;
    for (int l = 0; l < NLEVELS[cfg]; ++l) {
        uint64_t next; uint32_t bits;
        vf_e10_get_level(cfg, l, &next, &bits);
        if (next != next0[l] || bits != bits0[l]) same = 0;
    }
    return same && vf_e10_get_outstanding(cfg) == outst && vf_e10_get_config(cfg) == raw;
}

void harness(void)
{
    vf_global_ctors();
    cfg = (int)CASE(CFG);
    const int mode = (int)CASE(MODE);
    CHECK(vf_e10_part() == cfg, "the unit was built for this configuration");

    /* inputs common to all modes */
    const unsigned raw = in_u16();
    uint8_t vals[NVAL]; in_bytes(vals, NVAL);
    int want[NREQ]; for (int m = 0; m < NREQ; ++m) want[m] = in_bool();
    const int has_out = in_bool();
    const unsigned long o = (unsigned long)in_range(0, NC - 1);
    vf_e10_set_config(cfg, raw);
    vf_e10_set_values(vals);

    if (mode == 0) {
        const unsigned len = (unsigned)CASE(LEN);
        uint8_t junk[23]; in_bytes(junk, 23);
        build_state(want, has_out, o);
        const unsigned long before = has_out ? o : NONE;
        uint8_t* resp;
        size_t os = confirmation(len, junk, &resp);
        if (len == 1) {
            CHECK(os == 0, "a Handle Value Confirmation is not answered");
            CHECK(vf_e10_get_outstanding(cfg) == NONE, "after a Handle Value Confirmation no indication is outstanding");
            CHECK(state_unchanged(NONE, raw), "a Handle Value Confirmation leaves pending requests and the client configuration untouched");
        } else {
            CHECK(os == 5 && resp[0] == 0x01 && resp[1] == 0x1e && resp[2] == 0 && resp[3] == 0 && resp[4] == 0x04,
                  "a Handle Value Confirmation with a wrong length is rejected with an Error Response: Invalid PDU");
            CHECK(state_unchanged(before, raw), "a rejected confirmation changes nothing: an outstanding indication stays outstanding");
        }
    } else if (mode == 1) {
        const int k_steps = (int)CASE(K);
        int ops[8], rq[8]; uint8_t junk[23]; in_bytes(junk, 23);
        for (int s = 0; s < 8; ++s) { ops[s] = (int)in_range(0, 3); rq[s] = (int)in_range(0, NREQ - 1); }
        build_state(want, has_out, o);
        int out = has_out, second = 0, answered = 0;
        for (int s = 0; s < k_steps; ++s) {
            if (ops[s] == 0) {
                int k; int kind = poll(&k);
                if (kind == 2) { if (out) second = 1; out = 1; }
            } else if (ops[s] == 1) {
                uint8_t* resp; if (confirmation(1, junk, &resp) != 0) answered = 1;
                out = 0;
            } else if (ops[s] == 2) {
                uint8_t* resp; if (confirmation(2, junk, &resp) != 5) answered = 1;
            } else {
                vf_e10_request(cfg, REQ_K[rq[s]], REQ_IND[rq[s]], 1);
            }
        }
        CHECK(!second, "after an indication was sent no further indication is sent until a Handle Value Confirmation arrives");
        CHECK(!answered, "confirmations are not answered, confirmations with a wrong length get an Error Response");
    } else {
        const int np = (int)CASE(NP);
        int n_want = 0; for (int m = 0; m < NREQ; ++m) n_want += want[m];
        ASSUME(n_want <= np);
        uint8_t junk[23]; in_bytes(junk, 23);
        build_state(want, 0, o);                    /* the last indication has been confirmed */
        /* the subscriptions as the application sees them (server::configured_for_notifications / _indications< UUID >; that this
         * is what the client configured through the CCCD handles is the subject of C09 / C10) */
        unsigned sub[NC];
        for (int k = 0; k < NC; ++k) { sub[k] = vf_e10_configured(cfg, k); OBSERVE(sub[k]); }
        int got[NC][2]; for (int k = 0; k < NC; ++k) got[k][0] = got[k][1] = 0;
        for (int s = 0; s < np; ++s) {
            int k; int kind = poll(&k);
            if (kind != 0 && k >= 0) ++got[k][kind - 1];
            if (kind == 2) { uint8_t* resp; confirmation(1, junk, &resp); }     /* the client confirms every indication */
        }
        for (int m = 0; m < NREQ; ++m) {
            const int k = REQ_K[m], ind = REQ_IND[m];
            const int expected = want[m] && (sub[k] & (ind ? 2u : 1u)) != 0;
            if (ind) CHECK(got[k][1] == expected, "every accepted indication request of a subscribed characteristic is transmitted exactly once while confirmations keep arriving");
            else     CHECK(got[k][0] == expected, "every accepted notification request of a subscribed characteristic is transmitted exactly once");
        }
        int n_got = 0, n_exp = 0;
        for (int k = 0; k < NC; ++k) n_got += got[k][0] + got[k][1];
        for (int m = 0; m < NREQ; ++m) n_exp += want[m] && (sub[REQ_K[m]] & (REQ_IND[m] ? 2u : 1u)) != 0;
        CHECK(n_got == n_exp, "nothing but the requested notifications and indications is transmitted");
        int k; CHECK(poll(&k) == 0, "after all requests were served nothing is left to send");
        CHECK(vf_e10_get_outstanding(cfg) == NONE, "after the last confirmation no indication is outstanding");
    }
    WITNESS();
}
