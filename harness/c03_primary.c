/* C03 — primary service discovery reports exactly the declared primary services, never a secondary one.
 *
 * One request against the real server (shims/att_b.cpp):
 *   OPC 0x10  Read By Group Type, group type <<Primary Service>> (0x2800), LEN 7    "Discover All Primary Services"
 *   OPC 0x06  Find By Type Value, type 0x2800, LEN 7 + length of the UUID value     "Discover Primary Service by UUID"
 * start / end handle and the UUID value are symbolic.  Oracle: P = rows of the expected table (c02_tables.h) that are
 * primary service declarations with start <= handle <= end (and, for 0x06, value == the given UUID bytes), ascending.
 *   P empty     -> Error Response (Attribute Not Found; for LEN other than 9 / 23 with 0x06 any Error Response)
 *   P not empty -> response with at least one entry; entries are P[0], P[1], ... without omission, each with the
 *                  declaration handle, the true last handle of that service and (0x10) its UUID, one UUID size per
 *                  response; fewer entries than would fit are accepted.
 * A secondary service, an include or any other attribute never appears because it is not in P.
 */
#include "c02_tables.h"

void harness(void)
{
    vf_global_ctors();
    const int      cfg = (int)CASE(CFG);
    const unsigned opc = (unsigned)CASE(OPC);
    const size_t   len = (size_t)CASE(LEN);
    const unsigned mtu = (unsigned)CASE(MTU);
    int n; const row_t* T = table_of(cfg, &n);
    CHECK(vf_b_config() == cfg, "C03: harness runs against the configuration of its case");

    uint8_t* in = vf_alloc(len);
    in_bytes(in, len);
    in[0] = (uint8_t)opc;
    in[5] = 0x00; in[6] = 0x28;                     /* <<Primary Service>> */
    const unsigned start = rd16(in + 1), end = rd16(in + 3);
    const unsigned vlen = (unsigned)len - 7;        /* 0x06: length of the value to find */

    uint8_t m[T_MAXROWS];
    int first = -1;
    for (int i = n - 1; i >= 0; --i) {
        int match = start != 0 && T[i].kind == K_PRIMARY && T[i].handle >= start && T[i].handle <= end;   /* start 0 is no valid range */
        if (match && opc == 0x06) {
            if (T[i].vlen != vlen) match = 0;
            else for (unsigned j = 0; j < vlen; ++j) if (T[i].value[j] != in[7 + j]) match = 0;
        }
        m[i] = (uint8_t)match;
        if (match) first = i;
    }

    uint8_t* out = vf_alloc(mtu);
    size_t os = mtu;
    vf_b_l2cap_input(cfg, in, len, out, &os, mtu);
    OBSERVE(os); OBSERVE_BYTES(out, os <= mtu ? os : 0);
    CHECK(os >= 1 && os <= mtu, "C03: the request is answered within the MTU");
    if (os < 1 || os > mtu) { WITNESS(); return; }

    if (first < 0) {
        if (start == 0 || start > end || (opc == 0x06 && len != 9 && len != 23))
            CHECK(is_any_error(out, os, opc), "C03: nothing to report: Error Response");
        else
            CHECK(is_error(out, os, opc, start, 0x0A), "C03: no primary service in range (with that UUID): Attribute Not Found, nothing else is reported");
        WITNESS(); return;
    }
    CHECK(out[0] != 0x01, "C03: a declared primary service in range is reported, not an error");
    CHECK(out[0] == opc + 1, "C03: response opcode belongs to the request");
    if (out[0] != opc + 1) { WITNESS(); return; }

    unsigned esize, off;
    if (opc == 0x10) {
        CHECK(os >= 2 && (out[1] == 6 || out[1] == 20), "C03: Read By Group Type entry length is 6 or 20");
        if (os < 2 || (out[1] != 6 && out[1] != 20)) { WITNESS(); return; }
        esize = out[1]; off = 2;
    } else { esize = 4; off = 1; }
    const unsigned body = (unsigned)os - off;
    CHECK(body >= esize && body % esize == 0, "C03: at least one and only whole entries");
    if (body < esize || body % esize != 0) { WITNESS(); return; }
    const unsigned cnt = body / esize;

    unsigned e = 0; int ok = 1;
    for (int i = 0; i < n; ++i) {
        if (!m[i] || e >= cnt || !ok) continue;
        const uint8_t* p = out + off + e * esize;
        ++e;
        CHECK(rd16(p) == T[i].handle, "C03: entries are exactly the declared primary services of the range, ascending from the first, none skipped, never a secondary service or another attribute");
        if (rd16(p) != T[i].handle) { ok = 0; continue; }
        CHECK(rd16(p + 2) == T[i].group_end, "C03: the reported end handle is the last attribute of that service");
        if (opc == 0x10) {
            CHECK(esize - 4 == T[i].vlen, "C03: one UUID size per response, the UUID is complete");
            if (esize - 4 == T[i].vlen) {
                int eq = 1; for (unsigned j = 0; j < T[i].vlen; ++j) if (p[4 + j] != T[i].value[j]) eq = 0;
                CHECK(eq, "C03: the reported UUID is the UUID of that service");
            }
        }
    }
    CHECK(!ok || e == cnt, "C03: no entry beyond the declared primary services of the range");
    WITNESS();
}
