#include <bluetoe/server.hpp>
#include <bluetoe/service.hpp>
#include <bluetoe/characteristic.hpp>
#include <cstdio>
std::uint8_t v0;
using c0 = bluetoe::characteristic< bluetoe::characteristic_uuid16< 0xC000 >, bluetoe::bind_characteristic_value< std::uint8_t, &v0 >, bluetoe::notify >;
using srv = bluetoe::server< bluetoe::no_gap_service_for_gatt_servers,
   bluetoe::service< bluetoe::service_uuid16< 0x1810 > >,
   bluetoe::service< bluetoe::service_uuid16< 0x1811 >, c0 > >;
struct S : srv { using srv::find_notification_data; };
int main(){ S s; auto d = s.find_notification_data( &v0 ); std::printf("attribute_table_index=%zu (value attribute is index 3: handles 1 svc,2 svc,3 decl,4 value)\n", d.attribute_table_index() ); return d.attribute_table_index()==3?0:1; }
