from vf.core import Property, Harness, Unit
from vf.ll2c import cid

BUILD_USED = '_ZNK7bluetoe10link_layer11channel_map22build_used_channel_mapEPKhPh'
CHMAP = Unit('chmap', repo_tus=['bluetoe/link_layer/channel_map.cpp'], clang_flags=['-fno-inline'], stubs=[BUILD_USED + '$'], description='bluetoe::link_layer::channel_map (channel_map.cpp unchanged)')

def cases(tier):
    """MODE 2: table lemma (one query over all maps). MODE 0 / 1: selection lemma, one query per (hop, position) for the hop
    values a connection can use (the position is a constant in each query, so the 37 positions are 37 cheaper queries instead of
    one that needs 6 CPU-minutes); invalid hop values: one query each with all positions (nothing is computed there).
    MODE 3: end-to-end cross-check without the contract stub."""
    cs = [{'MODE': 2, 'HOP': 0, 'POS': 0}]
    if tier == 'quick':
        for h in (0, 4, 17, 31, 32): cs.append({'MODE': 0, 'HOP': h, 'POS': 37})
        for h, ps in ((5, (0, 36)), (9, (5, 18)), (16, (0, 17, 36))):
            for p in ps: cs.append({'MODE': 0, 'HOP': h, 'POS': p})
        for h, p in ((5, 3), (16, 35)): cs.append({'MODE': 1, 'HOP': h, 'POS': p})
    else:
        for h in list(range(0, 5)) + list(range(17, 33)): cs.append({'MODE': 0, 'HOP': h, 'POS': 37})
        for h in range(5, 17):
            for p in range(37): cs.append({'MODE': 0, 'HOP': h, 'POS': p})
        for h in range(5, 17):
            for p in (0, 9, 18, 27, 36): cs.append({'MODE': 1, 'HOP': h, 'POS': p})
        for h, pos in ((5, 0), (7, 36), (16, 17)): cs.append({'MODE': 3, 'HOP': h, 'POS': pos})
    return cs

PROPERTY = Property(
    'C20',
    [Harness('c20_chmap', CHMAP, 'harness/c20_chmap.c', cases, unwind=39, timeout=900, flags=['-DVF_BUILD_USED=' + cid('@' + BUILD_USED)],
             description='channel_map::reset(map,hop), reset(map) and data_channel(i) against an independently written CSA#1, for all 2^37 channel maps (40 symbolic bits) per hop value',
             bounds='all channel maps (5 symbolic bytes incl. the 3 reserved bits) in every query; thorough: hop 0..31 and >31 (symbolic), for hop 5..16 each of the 37 positions of the hop sequence as its own query; quick: table lemma, invalid hops 0,4,17,31,>31, and hop 5,9,16 at positions 0,5,17,18,36; previous table symbolic')],
    functions=['channel_map::reset(const uint8_t*, unsigned)', 'channel_map::reset(const uint8_t*)', 'channel_map::data_channel', 'channel_map::build_used_channel_map'],
    bounds='every channel map x every hop value x every position 0..36 of the hop sequence (the sequence has period 37, so this covers every connection event counter once the counter-to-index mapping of C23 is given)',
    assumptions=['the map pointer addresses 5 readable bytes (exact-size object)', 'data_channel is called with index < 37 (documented precondition; the index is the event counter modulo 37, see C23)'],
    explanation='the 5 map bytes are symbolic, so every query covers all 2^37 maps. Lemma 1: the real build_used_channel_map returns the used channels in ascending order and their number. Lemma 2: reset(), with its call to build_used_channel_map replaced by a contract stub that guarantees exactly lemma 1, fills every position of the hop sequence with the CSA#1 channel (declarative form: the unmapped channel if used, else the used channel with rank unmapped mod numUsed) and accepts exactly hop 5..16 with at least two used channels; rejected parameters leave the table in use unchanged. An end-to-end query without the stub cross-checks the decomposition',
    outside=['the mapping from connection event counter to table index (channel_index_ in peripheral_latency.hpp) is decided by C23', 'how link_layer reacts to a rejected connect request / channel map indication (C21, C22, C25)'],
)
