from vf.core import Property, Harness, Unit
from vf.ll2c import cid

BUILD_USED = '_ZNK7bluetoe10link_layer11channel_map22build_used_channel_mapEPKhPh'
CHMAP = Unit('chmap', repo_tus=['bluetoe/link_layer/channel_map.cpp'], clang_flags=['-fno-inline'], stubs=[BUILD_USED + '$'], description='bluetoe::link_layer::channel_map (channel_map.cpp unchanged)')

def cases(tier):
    cs = []
    hops0 = [4, 5, 9, 16, 17, 0, 31, 32] if tier == 'quick' else list(range(0, 33))
    hops1 = [5, 11, 16] if tier == 'quick' else list(range(5, 17))
    cs.append({'MODE': 2, 'HOP': 0, 'POS': 0})
    for h in hops0: cs.append({'MODE': 0, 'HOP': h, 'POS': 0})
    for h in hops1: cs.append({'MODE': 1, 'HOP': h, 'POS': 0})
    if tier == 'thorough':
        for h, pos in ((5, 0), (7, 36), (16, 17)): cs.append({'MODE': 3, 'HOP': h, 'POS': pos})
    return cs

PROPERTY = Property(
    'C20',
    [Harness('c20_chmap', CHMAP, 'harness/c20_chmap.c', cases, unwind=39, timeout=900, flags=['-DVF_BUILD_USED=' + cid('@' + BUILD_USED)],
             description='channel_map::reset(map,hop), reset(map) and data_channel(i) against an independently written CSA#1, for all 2^37 channel maps (40 symbolic bits) per hop value',
             bounds='all channel maps (5 symbolic bytes incl. the 3 reserved bits); hop 0..31 each as its own query (quick: boundary values 0,4,5,9,16,17,31 and >31), hop > 31 symbolic; all 37 positions of the hop sequence; previous table symbolic')],
    functions=['channel_map::reset(const uint8_t*, unsigned)', 'channel_map::reset(const uint8_t*)', 'channel_map::data_channel', 'channel_map::build_used_channel_map'],
    bounds='every channel map x every hop value x every position 0..36 of the hop sequence (the sequence has period 37, so this covers every connection event counter once the counter-to-index mapping of C23 is given)',
    assumptions=['the map pointer addresses 5 readable bytes (exact-size object)', 'data_channel is called with index < 37 (documented precondition; the index is the event counter modulo 37, see C23)'],
    explanation='the 5 map bytes are symbolic, so one query per hop value covers all 2^37 maps; the result table is compared position by position with CSA#1 written from the Core specification; rejected parameters must leave the table in use unchanged',
    outside=['the mapping from connection event counter to table index (channel_index_ in peripheral_latency.hpp) is decided by C23', 'how link_layer reacts to a rejected connect request / channel map indication (C21, C22, C25)'],
)
