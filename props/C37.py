from vf.core import Property, Harness, Unit, REPO, VERIF

# bluetoe/bindings/nordic/nrf52/security_tool_box.cpp, unchanged, against the host stand-in for <nrf.h> in /verif/stubs.
# micro-ecc (bluetoe/bindings/nordic/uECC/uECC.c) is not linked: the uECC_* functions are contract stubs in the harness.
NRF52_STB = Unit('nrf52_stb', repo_tus=['bluetoe/bindings/nordic/nrf52/security_tool_box.cpp', 'bluetoe/utility/address.cpp'],
                 includes=['stubs', REPO + '/bluetoe/bindings/nordic/include', REPO + '/bluetoe/bindings/nordic/nrf52/include', REPO + '/bluetoe/bindings/nordic/uECC'],
                 description='bluetoe::nrf52_details::security_tool_box, aes_le, random_number32/64 (security_tool_box.cpp unchanged; registers of /verif/stubs/nrf.h; ECB, RNG and uECC are the environment)')

STB_FLAGS = ['-include', VERIF + '/harness/c37_mmio.h', '-DVF_MAX_INPUTS=512']

FN = {'e': 1, 'c1': 2, 's1': 3, 'f4': 4, 'f5': 5, 'f6': 6, 'g2': 7, 'is_valid_public_key': 8, 'p256': 9, 'generate_keys': 10, 'nonces': 11, 'long_term_key': 12, 'random': 13}

def cases(tier):
    import os
    only = os.environ.get('C37_FN')      # debugging aid (e.g. C37_FN=f4,g2): restrict the run to some functions
    return [{'FN': v} for n, v in FN.items() if not only or n in only.split(',')]

PROPERTY = Property(
    'C37',
    [Harness('c37_stb', NRF52_STB, 'harness/c37_stb.c', cases, unwind=82, timeout=600, flags=STB_FLAGS, diff_iters=40, diff_cases=13,
             description='every function of the nRF52 security tool box against the formula of the Core specification (AES-CMAC per RFC 4493), AES-128 being one uninterpreted function shared by the emulated ECB peripheral and the reference; one query per function, every input octet symbolic',
             bounds='no bound on the inputs: all octets of all keys, nonces, addresses (incl. address type), IO capabilities, coordinates, RNG bytes and uECC results are symbolic; message lengths are those the functions use (CMAC over 32, 53, 65 and 80 octets)')],
    functions=['nrf52_details::aes_le (ECB peripheral driver, security function e / session key SK = e(LTK, SKD))',
               'security_tool_box::c1', 'security_tool_box::s1', 'security_tool_box::f4', 'security_tool_box::f5 (f5_key, f5_cmac)', 'security_tool_box::f6', 'security_tool_box::g2',
               'aes_cmac_k1_subkey_generation / aes_cmac_k2_subkey_generation / left_shift / xor_ (through f4, f5, f6, g2)',
               'security_tool_box::is_valid_public_key', 'security_tool_box::p256', 'security_tool_box::generate_keys',
               'security_tool_box::create_srand', 'security_tool_box::select_random_nonce', 'security_tool_box::create_long_term_key',
               'nrf52_details::random_number32 / random_number64 (random_number8/16, RNG peripheral driver)'],
    bounds='all inputs symbolic, one solver query per tool box function; AES-128 uninterpreted (the equalities hold for every block cipher)',
    assumptions=['ECB peripheral: TASKS_STARTECB encrypts CLEARTEXT with KEY of the block ECBDATAPTR points to into CIPHERTEXT (FIPS-197 byte order) and raises EVENTS_ENDECB at once; EVENTS_ERRORECB is never raised (the source asserts that)',
                 'RNG peripheral: TASKS_START makes the next byte of an arbitrary byte stream available in VALUE and raises EVENTS_VALRDY',
                 'uECC_valid_public_key / uECC_make_key / uECC_shared_secret are arbitrary functions of their arguments in the key format of micro-ecc (X | Y, big endian); uECC_make_key and uECC_shared_secret return 1 (the source asserts that) and uECC_make_key obtains its randomness through the function registered with uECC_set_rng',
                 '32-bit bus address of the ECB data block: stubs/nrf.h maps reinterpret_cast<std::uint32_t>(pointer) to a handle the emulation resolves (the host has 64-bit pointers)'],
    explanation='each tool box function is run on fully symbolic inputs; its AES operations go through the real register-level driver (aes_le) into an emulated ECB peripheral that applies an uninterpreted function AES(key, block); the expected value is computed by a reference written from the Core specification (Vol 3 Part H 2.2.1-2.2.9) and RFC 4493 in the specification\'s own most-significant-octet-first notation using the same uninterpreted AES, so equality for all inputs and every block cipher is decided by the solver; the reference\'s byte order conventions are validated in the native runs against the sample data of the specification (FIPS-197, RFC 4493 examples 1-4, c1, s1, Appendix D f4/f5/f6/g2, LL session key sample) with a real AES-128, and the tool box itself is run on the same sample data. Public key validation, ECDH and key generation are checked for delegation to micro-ecc with the correct byte order of every coordinate',
    outside=['AES-128 itself (performed by the ECB hardware) and the P-256 arithmetic of micro-ecc (uECC.c): only wiring and byte order are decided (DESIGN.md 8)',
             'construction of p1 / p2 for c1 from the pairing PDUs and addresses, and of IOcap for f6: done in bluetoe/sm/include/bluetoe/security_manager.hpp, identical for all bindings',
             'session key derivation: the concatenation SKD = SKDm || SKDs, IV = IVm || IVs and the CCM data structure are built in nrf52.cpp (radio_hardware_with_crypto_support::setup_encryption), which is not part of this unit; decided here are its ingredients from security_tool_box.cpp: SK = aes_le(LTK, SKD) is the security function e, and random_number64/32 (SKDs, IVs) deliver fresh RNG bytes',
             'behaviour when uECC_shared_secret / uECC_make_key fail (return 0): the release build ignores the return value',
             'timing (busy waiting on the peripherals), concurrent use of the ECB by CCM/AAR (EVENTS_ERRORECB)'],
)
