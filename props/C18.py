from vf.core import Property, Harness, Unit, REPO

RING_PDU = Unit('ring_pdu', includes=['stubs', REPO + '/bluetoe/bindings/nordic/include'],
                description='bluetoe::link_layer::pdu_ring_buffer<Size, read_buffer, Layout> for Size 40, 64 with default_pdu_layout and nrf_details::encrypted_pdu_layout, Size 12 and 29 with default_pdu_layout; storage supplied by the harness')

SIZES = {0: 40, 1: 64, 2: 40, 3: 64, 4: 12, 5: 29}
OVH = {0: 2, 1: 2, 2: 3, 3: 3, 4: 2, 5: 2}


def cases(tier):
    cs = []
    def sym(cfg, k, drain=2):
        cs.append({'CFG': cfg, 'K': k, 'DRAIN': drain, 'S0': -1, 'S1': -1, '_unwind': max(k, drain) + 2})
    if tier == 'quick':
        for cfg in (4, 5):
            sym(cfg, 3)
    else:
        for cfg in (0, 1, 2, 3, 4, 5):
            sym(cfg, 6)
    return cs


PROPERTY = Property(
    'C18',
    [Harness('c18_ring', RING_PDU, 'harness/c18_ring.c', cases, unwind=12, unwindset=['in_bytes.0:70'], timeout=900, diff_iters=400, diff_cases=6,
             description='real pdu_ring_buffer driven by K symbolic producer/consumer steps from reset on an exact-size storage object, compared with a FIFO list',
             bounds='TODO')],
    functions=['pdu_ring_buffer::reset', 'pdu_ring_buffer::alloc_front', 'pdu_ring_buffer::push_front', 'pdu_ring_buffer::next_end', 'pdu_ring_buffer::pop_end',
               'pdu_ring_buffer::more_than_one', 'pdu_ring_buffer::pdu_length', 'default_pdu_layout::header/body/data_channel_pdu_memory_size',
               'nrf_details::encrypted_pdu_layout::header/body/data_channel_pdu_memory_size'],
    bounds='TODO',
    assumptions=[],
    explanation='TODO',
    outside=[],
)
