import os
from vf.core import Property, Harness, Unit, REPO

RING_PDU = Unit('ring_pdu', includes=['stubs', REPO + '/bluetoe/bindings/nordic/include'],
                description='bluetoe::link_layer::pdu_ring_buffer<Size, read_buffer, Layout> for Size 40, 64 with default_pdu_layout and nrf_details::encrypted_pdu_layout, Size 12 and 29 with default_pdu_layout; storage supplied by the harness')

SIZES = {0: 40, 1: 64, 2: 40, 3: 64, 4: 12, 5: 29}
OVH = {0: 2, 1: 2, 2: 3, 3: 3, 4: 2, 5: 2}


def words(length):
    """all orders of `length` operations (bit i set: operation i is a commit, else a pop) in which no prefix pops more than was committed"""
    r = []
    for w in range(1 << length):
        bal = 0
        for i in range(length):
            bal += 1 if (w >> i) & 1 else -1
            if bal < 0: break
        else:
            r.append(w)
    return r


# history length per configuration
DEPTH = {'quick':    {4: 5, 5: 5, 0: 4, 2: 4, 1: 3, 3: 3},
         'thorough': {4: 7, 5: 6, 0: 5, 2: 5, 1: 5, 3: 4}}


def cases(tier):
    cs = []
    only = os.environ.get('C18_CFGS')        # debugging aid: restrict the configurations
    for cfg, length in DEPTH[tier].items():
        if only and str(cfg) not in only.split(','): continue
        for w in words(length):
            cs.append({'CFG': cfg, 'L': length, 'W': w, 'EXTRA': 1, '_unwind': length + 2})
    return cs


BOUNDS = ('rings: Size 12 and 29 (default layout), 40 and 64 (default_pdu_layout and nrf_details::encrypted_pdu_layout), Buffer = read_buffer (the only one bluetoe instantiates); '
          'histories from reset() of L state changing operations (commit = alloc_front + fill + push_front, pop = next_end + pop_end) in every order that never pops an empty ring, '
          'quick: L = 5 (Size 12, 29), 4 (Size 40), 3 (Size 64); thorough: L = 7 (Size 12), 6 (Size 29), 5 (Size 40, Size 64 default layout), 4 (Size 64 encrypted layout); '
          'a history ends at the first failing allocation (ring unchanged); all requested sizes memory_size(0)..Size+2, committed length fields 1..size-overhead, headers, '
          'initial storage content and two payload bytes per PDU symbolic; an additional uncommitted alloc_front() of another size before every commit')

PROPERTY = Property(
    'C18',
    [Harness('c18_ring', RING_PDU, 'harness/c18_ring.c', cases, unwind=12, unwindset=['in_bytes.0:70'], timeout=900, diff_iters=300, diff_cases=6,
             description='real pdu_ring_buffer driven from reset by every order of L commits/pops (case split over the order, everything else symbolic) on an exact-size storage object, compared with a FIFO list of (offset, length, header, one byte at a universally quantified position)',
             bounds=BOUNDS)],
    functions=['pdu_ring_buffer::reset', 'pdu_ring_buffer::alloc_front', 'pdu_ring_buffer::push_front', 'pdu_ring_buffer::next_end', 'pdu_ring_buffer::pop_end',
               'pdu_ring_buffer::more_than_one', 'pdu_ring_buffer::pdu_length', 'default_pdu_layout::header/body/data_channel_pdu_memory_size',
               'nrf_details::encrypted_pdu_layout::header/body/data_channel_pdu_memory_size'],
    bounds=BOUNDS,
    assumptions=['documented preconditions: the same storage pointer of Size bytes on every call; alloc_front(size) with size >= Layout::data_channel_pdu_memory_size(0); push_front() of the buffer alloc_front() returned, length field != 0 and memory size of the length field <= allocated size; pop_end() only when a PDU is stored',
                 'producer and consumer calls do not interleave inside each other (sequential histories)',
                 'oracle for "may fail": empty ring: requests <= Size-1 must succeed (class documentation); otherwise a request strictly smaller than a free contiguous region in ring order must succeed; exact fits are left to the implementation (permissive reading of the one-byte-gap rule)'],
    explanation='the storage is an exact-size heap object with symbolic content, so CBMC\'s pointer checks inside the real code decide "nothing is accessed outside the storage"; the order of commits and pops is enumerated (all orders of length L, shorter ones are prefixes), sizes, length fields, headers and bytes are solver variables; after every operation next_end()/more_than_one() and the bytes of every stored PDU are compared with a FIFO list, every allocated buffer is checked to lie inside the storage and to be disjoint from all stored PDUs, and a failing allocation is checked against the documented rules',
    outside=['rings larger than 64 bytes, in particular PDUs with a memory size above 255 (pdu_length(const P&) returns std::uint8_t: a length field of 254/255 would be truncated; not reachable with Size <= 64 and not through ll_data_pdu_buffer, whose maximum PDU size is 251)',
             'histories longer than the stated L; concurrent producer/consumer (ISR) access',
             'Buffer = write_buffer (push_front does not compile for it; bluetoe only uses read_buffer)'],
)
