import os
from vf.core import Property, Harness, Unit, REPO

RING_PDU = Unit('ring_pdu', includes=['stubs', REPO + '/bluetoe/bindings/nordic/include'],
                description='bluetoe::link_layer::pdu_ring_buffer<Size, read_buffer, Layout> for Size 40, 64 with default_pdu_layout and nrf_details::encrypted_pdu_layout, Size 12 and 29 with default_pdu_layout; storage supplied by the harness')

SIZES = {0: 40, 1: 64, 2: 40, 3: 64, 4: 12, 5: 29}
OVH = {0: 2, 1: 2, 2: 3, 3: 3, 4: 2, 5: 2}


def words(length):
    """all orders of `length` operations (bit i set: operation i is a commit, else a pop) in which no prefix pops more than was committed"""
    r = []
    for w in range(1 << length):
        bal = 0
        for i in range(length):
            bal += 1 if (w >> i) & 1 else -1
            if bal < 0: break
        else:
            r.append(w)
    return r


# history length per configuration
DEPTH = {'quick':    {4: 6, 5: 5, 0: 5, 2: 5, 1: 4, 3: 4},
         'thorough': {4: 8, 5: 6, 0: 6, 2: 6, 1: 5, 3: 5}}


def cases(tier):
    cs = []
    only = os.environ.get('C18_CFGS')        # debugging aid: restrict the configurations
    for cfg, length in DEPTH[tier].items():
        if only and str(cfg) not in only.split(','): continue
        for w in words(length):
            cs.append({'CFG': cfg, 'L': length, 'W': w, 'EXTRA': 1, '_unwind': length + 2})
    return cs


PROPERTY = Property(
    'C18',
    [Harness('c18_ring', RING_PDU, 'harness/c18_ring.c', cases, unwind=12, unwindset=['in_bytes.0:70'], timeout=900, diff_iters=400, diff_cases=6,
             description='real pdu_ring_buffer driven by K symbolic producer/consumer steps from reset on an exact-size storage object, compared with a FIFO list',
             bounds='TODO')],
    functions=['pdu_ring_buffer::reset', 'pdu_ring_buffer::alloc_front', 'pdu_ring_buffer::push_front', 'pdu_ring_buffer::next_end', 'pdu_ring_buffer::pop_end',
               'pdu_ring_buffer::more_than_one', 'pdu_ring_buffer::pdu_length', 'default_pdu_layout::header/body/data_channel_pdu_memory_size',
               'nrf_details::encrypted_pdu_layout::header/body/data_channel_pdu_memory_size'],
    bounds='TODO',
    assumptions=[],
    explanation='TODO',
    outside=[],
)
