from vf.core import Property, Harness, Unit

LLB = Unit('ll_b',
           repo_tus=['bluetoe/link_layer/delta_time.cpp', 'bluetoe/link_layer/channel_map.cpp',
                     'bluetoe/link_layer/connection_details.cpp', 'bluetoe/utility/address.cpp'],
           description='real link_layer<server, stub scheduled radio>: CFG0 default options (61 byte buffers, 500 ppm, default latency configuration); '
                       'CFG1 buffer_sizes<100,100>, sleep_clock_accuracy_ppm<50>, peripheral_latency_strict, connection_callbacks')

OPCS = [0x00, 0x01, 0x18]      # LL_CONNECTION_UPDATE_IND, LL_CHANNEL_MAP_IND, LL_PHY_UPDATE_IND


def recv_cases(tier):
    return [{'CFG': c, 'OPC': o} for c in (0, 1) for o in OPCS]


def step_cases(tier):
    """ULAT: carried latency of a connection update as case constant (>= 0, enables the 'valid parameters must be applied' check) or -1
    (latency symbolic, no must-apply claim); MAPSYM: number of symbolic bytes of a carried channel map; OLDMAP: which concrete old map"""
    cs = []
    def add(cfg, opc, step, oldmap=0, mapsym=0, ulat=-1):
        cs.append({'CFG': cfg, 'OPC': opc, 'STEP': step, 'OLDMAP': oldmap, 'MAPSYM': mapsym, 'ULAT': ulat})
    if tier == 'quick':
        # measured (one full core): PHY ~30 s, connection update 70-85 s per case; channel map with 1 symbolic byte: several minutes
        add(0, 0x00, 0, ulat=-1); add(0, 0x00, 0, ulat=3); add(0, 0x00, 1, ulat=0)
        add(0, 0x01, 0, 0, 1)
        add(0, 0x18, 0); add(0, 0x18, 1); add(1, 0x18, 0)
    else:
        for c in (0, 1):
            for s in (0, 1):
                for u in (-1, 0, 1, 3, 100, 499):
                    add(c, 0x00, s, ulat=u)
                for m in (0, 1, 2):
                    add(c, 0x01, s, m, 2)
                add(c, 0x18, s)
    return cs


# (P1, P2) payload lengths of the PDUs consumed before, (L1, L2, L3) of the PDUs received while the procedure is pending.
# All lengths concrete: with symbolic lengths the ring offsets inside the link layer object become symbolic and CBMC's byte
# updates on the whole object do not finish (> 6 min for K=2).  The combinations put the indication at different ring offsets
# and let the ring wrap around with small and maximum size PDUs.
MEM_LEN = [(13, 13, 8, 27, 27), (27, 1, 1, 27, 27), (1, 1, 27, 27, 27), (20, 20, 10, 10, 27), (27, 27, 27, 27, 27), (5, 9, 3, 27, 2)]


def mem_cases(tier):
    cs = []
    def add(cfg, opc, lens, pre=2, k=2):
        cs.append({'CFG': cfg, 'OPC': opc, 'PRE': pre, 'K': k, 'P1': lens[0], 'P2': lens[1], 'L1': lens[2], 'L2': lens[3], 'L3': lens[4]})
    if tier == 'quick':
        pass        # every case of this harness needs > 5 min of solver time (measured): thorough tier only
    else:
        for c in (0, 1):
            for o in OPCS:
                add(c, o, MEM_LEN[0], pre=2, k=0); add(c, o, MEM_LEN[0], pre=0, k=0)
        for l in MEM_LEN:
            add(0, 0x00, l, k=2)
    return cs


def cancel_cases(tier):
    # try_event_cancelation() from state connection_changed (5) and connected (3); the connected case divides the time since the anchor by
    # the (symbolic) interval and multiplies back: cvc5 with bit-vectors as integers
    cs = [{'CFG': c, 'STATE': 5, 'SCA': 0} for c in (0, 1)]
    # (STATE 3, connected: no verdict within 25 min with any back end; the pull back arithmetic is decided at unit level by C23)
    return cs


PROPERTY = Property(
    'C21',
    [Harness('c21_recv', LLB, 'harness/c21_recv.c', recv_cases, unwind=40, timeout=3000,
             description='lemma (a): handle_ll_control_data on a symbolic LL_CONNECTION_UPDATE_IND / LL_CHANNEL_MAP_IND / LL_PHY_UPDATE_IND: '
                         'deferred only if the instant is ahead, otherwise terminated with 0x28',
             bounds='all 2^16 x 2^16 (instant, event counter) pairs, all payload bytes, all feature / flag / procedure-timeout states'),
     Harness('c21_cancel', LLB, 'harness/c21_cancel.c', cancel_cases, unwind=40, timeout=3000,
             description='lemma (e): try_event_cancelation() (pending data pulls the planned event closer) never touches the event planned at the instant of a '
                         'connection update; in state connected a pulled back event stays on the interval grid',
             bounds='state connection_changed and connected; all valid connection parameters, planned distance 1..latency+1, radio disarm answer (possible?, time since anchor) symbolic'),
     Harness('c21_step', LLB, 'harness/c21_step.c', step_cases, unwind=40, timeout=3000,
             description='lemmas (b)+(c): one end_event() / timeout() with a deferred PDU: the counter never passes the instant; at the instant '
                         'exactly the carried parameters are in force and the deferral is cleared; before it nothing changes',
             bounds='instant 1..32767 events ahead, latency 0..499, all event flag combinations, interval/timeout inside Core spec ranges; '
                    'connection update: all carried values symbolic; the check "valid carried parameters are applied, not rejected" only for carried latency in '
                    '{0, 3, 499} (quick) / {0, 1, 3, 100, 499} (thorough); '
                    'old channel map: one of three concrete maps with symbolic hop 5..16; carried channel map: first MAPSYM bytes symbolic '
                    '(quick 1-2, thorough 3), rest a fixed pattern; central SCA fixed'),
     Harness('c21_defer_mem', LLB, 'harness/c21_defer_mem.c', mem_cases, unwind=40, timeout=3000,
             description='lemma (d): bounded history on the real receive ring: PRE consumed PDUs, the indication, K further PDUs of symbolic '
                         'type/length/content: the deferred PDU bytes stay intact',
             bounds='PRE <= 2 earlier PDUs, K <= 3 later PDUs, payload lengths from the six listed combinations (MEM_LEN; all PDU contents, LLID and NESN/MD bits symbolic), '
                    'receive buffers of 61 and 100 bytes')],
    functions=['link_layer::handle_ll_control_data', 'phy_update_request_impl::handle_phy_request', 'phy_update_request_impl::handle_pending_phy_request',
               'link_layer::handle_pending_ll_control', 'link_layer::handle_received_data', 'link_layer::end_event', 'link_layer::timeout',
               'link_layer::parse_timing_parameters_from_connection_update_request', 'link_layer::setup_next_connection_event',
               'connection_state_base::plan_next_connection_event (pending instant clamp)', 'connection_state_base::plan_next_connection_event_after_timeout',
               'channel_map::reset', 'll_data_pdu_buffer::allocate_receive_buffer / received / next_received / free_received', 'pdu_ring_buffer'],
    bounds='single steps from every state satisfying the invariant (instant 1..32767 events ahead of the counter, valid connection parameters); '
           'receive-ring histories of <= 2 + 1 + 3 PDUs; two link-layer configurations',
    assumptions=['representation invariant Inv: a deferred PDU has its instant 1..32767 events ahead of the event counter (established by lemma (a), preserved by lemma (b)); '
                 'connection parameters valid per Core spec; channel index < 37; no deferred PDU while handle_ll_control_data runs (guard in handle_received_data)',
                 'only valid PHY encodings reach the deferral (checked in lemma (a)); carried channel maps have >= 2 used channels',
                 'stub radio records schedule_connection_event / radio_set_phy; disarm_connection_event not exercised',
                 'latitude: Instant == connEventCount + 1 may be deferred or terminated (bluetoe test connection_update_request_invalid_instance demands termination); '
                 'distance 32767 may be deferred'],
    explanation='Induction over connection events. (a) When an indication is received in event C, handle_ll_control_data defers it only if its instant is 1..32767 events ahead '
                '(Inv holds) and otherwise ends the connection with reason 0x28. (b) From any state with Inv, end_event()/timeout() advance the counter by k with 1 <= k <= distance to '
                'the instant (latency clamped; lost events advance by exactly 1), so the counter reaches the instant exactly; while k < distance nothing of the procedure is applied and '
                'the deferred PDU, parameters, channel map and PHY are unchanged (Inv preserved). (c) In the step where the counter becomes the instant the carried interval/latency/timeout '
                '(+ transmit window), channel map (vs. an independent CSA#1) or PHY are in force for the event scheduled with that counter and the deferral is cleared, so received data is '
                'processed again from the next event on: the procedure blocks reception for at most distance <= 32767 events, i.e. never beyond its instant. (d) The bytes interpreted at the '
                'instant are still those of the received indication although the central keeps sending PDUs into the receive ring.',
    outside=['QUICK TIER: lemma (d) (c21_defer_mem) has no quick case (every case needs > 5 min of solver time; no verdict obtained within 13 min); the defect it targets was '
             'confirmed by replaying a hand-written scenario on the real build (replays/C21-c21_defer_mem-handmade.replay) and fixed',
             'try_event_cancelation()/reschedule_on_pending_data moving the planned event back after a procedure was applied (C23 territory)',
             'more than 3 PDUs received while a procedure is pending; PDU sizes above the default 27 byte payload (data length extension)',
             'carried channel maps with more than 3 symbolic bytes, fully symbolic old channel map (37 symbolic divisions per map: no verdict in 12 min)',
             'encryption enabled link layers (different PDU layout), other option sets'],
)
