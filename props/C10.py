from vf.core import Property, Harness
from .units_atte import ATT_E10


def cases_for(cfg):
    def cases(tier):
        cs = []
        for ind in (0, 1):
            for how in (0, 1):
                outs = [23] if tier == 'quick' else [23, 3, 4, 10, 2]
                for o in outs:
                    cs.append({'CFG': cfg, 'IND': ind, 'HOW': how, 'OUTSZ': o})
        return cs
    return cases


# development knob (mutation testing): VF_CASE_FILTER="c['CFG'] == 1" restricts the cases; never set in a real run
def _filtered(f):
    import os
    e = os.environ.get('VF_CASE_FILTER')
    return f if not e else (lambda tier: [c for c in f(tier) if eval(e, {'c': c})])


PROPERTY = Property(
    'C10',
    [Harness('c10_notify_%d' % n, ATT_E10[n], 'harness/c10_notify.c', _filtered(cases_for(n)), unwind=42, timeout=900, object_bits=11, diff_iters=100,
             description='request a notification / indication of an arbitrary characteristic by bound value or by UUID (optionally repeated) through the real link layer callback, '
                         'then l2cap_output twice: PDU kind, value handle and value against a hand written table; sent only if the client configuration read through ATT has the matching bit',
             bounds='six characteristics, one connection (the link layer has one), output buffer 23 (quick) / 23, 10, 4, 3, 2 (thorough) bytes, empty queue before the request')
     for n in (0, 1, 2, 3, 4)],
    functions=['server::notify( const T& )', 'server::notify< UUID >()', 'server::indicate( const T& )', 'server::indicate< UUID >()', 'server::find_notification_data',
               'find_notification_data_in_list::find_notification_data / find_notification_data_by_index / cccd_indices', 'find_notification_by_uuid::data',
               'higher_outgoing_priority::characteristic_priority / numbers (compile time)', 'link_layer::queue_lcap_notification', 'server::l2cap_output',
               'notification_queue::queue_notification / queue_indication / dequeue_indication_or_confirmation', 'server::l2cap_input (Read Request on a CCCD, Handle Value Confirmation)',
               'bind_characteristic_value access (read)'],
    bounds='five server declarations (no priorities, service + server priorities, service priorities, include_service + priorities, empty service in front) with six characteristics; one request (optionally repeated once) from an empty queue; '
           'all client configuration bytes, all values',
    assumptions=['a notification / indication is only requested for a characteristic declared with notify / indicate (static_assert in the API)',
                 'the notification queue is empty before the request (state after connection set up)',
                 'the l2cap layer hands l2cap_output a buffer of the size given by the case parameter (23 = default MTU)'],
    explanation='the characteristic, the client configuration bytes and all values are symbolic; the request goes through the real server, the real link layer callback and the real queue; '
                'the PDU produced by l2cap_output must be the Handle Value Notification / Indication of exactly that characteristic (handle and value from a hand written table, value truncated to '
                'buffer - 3) if and only if the client configuration of that characteristic, as the client reads it through ATT, has the bit of that kind; a repetition of the request before '
                'transmission (by value or by UUID) is reported as already queued and a second poll yields nothing.',
    outside=['lower_outgoing_priority<> (declared in outgoing_priority.hpp without implementation: a server using it does not compile)',
             'servers with other characteristic sets / priority declarations', 'requests while other requests are pending (order: C12)', 'concurrent requests (C13)',
             'more than one connection (the link layer has exactly one)'],
)
