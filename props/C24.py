import os
from vf.core import Property, Harness
from .units_llc import LLC


def chan_cases(cfg):
    def f(tier):
        cs = []
        def add(m, m2, nev, extra=0): cs.append({'CFG': cfg, 'MAP': m, 'MAP2': m2, 'NEV': nev, 'EXTRA': extra})
        if tier == 'quick':
            if cfg == 0:
                for m in range(1, 8): add(m, 0, 2)
                for m, m2, e in ((7, 5, 1), (5, 2, 0), (1, 6, 0), (3, 4, 1), (2, 7, 0), (6, 1, 1), (4, 3, 0), (7, 7, 1), (7, 7, 2), (5, 5, 1), (2, 2, 0)): add(m, m2, 1, e)
            else:
                for m in (2, 5, 7): add(m, 0, 2)
                for m, m2, e in ((7, 5, 2), (5, 6, 1), (6, 6, 1)): add(m, m2, 1, e)
        else:
            for m in range(1, 8):
                add(m, 0, 3)
                for m2 in range(1, 8):
                    for e in range(0, bin(m).count('1')): add(m, m2, 2, e)
        flt = os.environ.get('VF_C24_FILTER')          # debugging aid: "MAP=7,MAP2=7,EXTRA=1"
        if flt:
            want = dict(kv.split('=') for kv in flt.split(','))
            cs = [c for c in cs if all(str(c.get(k)) == v for k, v in want.items())]
        return cs
    return f


def ctl_cases(cfg):
    def f(tier):
        if tier == 'quick':
            return [{'CFG': cfg, 'MAP': m, 'K': 5} for m in ((7, 5, 2) if cfg == 0 else (7,))]
        return [{'CFG': cfg, 'MAP': m, 'K': 6} for m in range(1, 8)]
    return f


def mk_chan(cfg):
    return Harness('c24_chan_cfg%d' % cfg, LLC[cfg], 'harness/c24_chan.c', chan_cases(cfg), unwind=12, timeout=600,
                   description='advertising events driven through adv_timeout() for a concrete channel map (case split) with symbolic interval / perturbation '
                               'state / call order; stop, map change through the public functions, restart',
                   bounds='all 7 non-empty maps; 2 (quick) / 3 (thorough) complete events plus the first advertisement of the next; second phase: stop, '
                          '(after 0..2 further advertisements of the running event), change to a second map (quick: 7 pairs + 4 unchanged; thorough: all 49 pairs x every stop position), restart, one complete event plus one advertisement; '
                          'advertising interval 20..10240 ms symbolic (CFG 0) / 30 ms (CFG 1); perturbation state any 32 bit value')


def mk_ctl(cfg):
    return Harness('c24_ctl_cfg%d' % cfg, LLC[cfg], 'harness/c24_ctl.c', ctl_cases(cfg), unwind=12, timeout=600,
                   description='bounded histories of run / start_advertising / start_advertising(count) / stop_advertising / adv_timeout from reset vs. '
                               'an enabled + remaining-count model',
                   bounds='K = 5 (quick) / 6 (thorough) symbolic operations from reset, count 1..4 symbolic; maps 7, 5, 2 (quick) / all 7 (thorough)')


PROPERTY = Property(
    'C24',
    [mk_chan(0), mk_chan(1), mk_ctl(0), mk_ctl(1)],
    functions=['variable_advertising_channel_map::next_channel', 'variable_advertising_channel_map::first_channel_selected',
               'variable_advertising_channel_map::add_channel_to_advertising_channel_map', 'variable_advertising_channel_map::remove_channel_from_advertsing_channel_map',
               'advertiser_base::next_adv_event', 'variable_advertising_interval::advertising_interval_ms', 'advertising_interval<30>::current_advertising_interval',
               'no_auto_start_advertising::impl (start_advertising, start_advertising(count), stop_advertising, begin_of_advertising_events, continued_advertising_events)',
               'advertiser<single type>::handle_start_advertising / handle_adv_timeout', 'advertiser<multiple types>::handle_start_advertising / handle_adv_timeout',
               'link_layer::run', 'link_layer::adv_timeout', 'link_layer::start_advertising_impl'],
    bounds='2 link layer configurations (single type + variable interval; 4 advertising types + advertising_interval<30>); all 7 non-empty channel maps; '
           '2..3 complete advertising events per run; one map change (all ordered pairs in the thorough tier); start/stop/count histories of 5..6 operations, count 1..4',
    assumptions=['stub scheduled radio: records every schedule_advertisment() call; adv_timeout() is only called when an advertisement is outstanding; no request is received',
                 'the channel map is only changed while the advertising is stopped (changing it during advertising is documented as not supported); '
                 'channels are added before others are removed so that the map is never empty (documented as not supported)',
                 '`when` of schedule_advertisment() is relative to the previous advertisement (scheduled_radio documentation): 0 inside an event, '
                 'interval + 0..10 ms for the first advertisement of the next event',
                 'count of start_advertising(count) counts advertising PDUs (implementation documentation and bluetoe tests); the class documentation says events; '
                 'in both readings the number of events is bounded by count'],
    explanation='For every non-empty advertising channel map (reached through the public remove/add functions from the default map) the real link layer is started and driven '
                'through adv_timeout(); every call made to the (stub) radio is compared with the enabled channels in ascending order and with the configured interval '
                '(symbolic) plus 0..10 ms, for any state of the pseudo random perturbation. After stop_advertising() nothing is scheduled; after a map change and restart the '
                'events follow the new map. Histories of start/stop/count/timeout operations are compared with an enabled + remaining-count model: no advertisement after stop, '
                'exactly count advertisements after start_advertising(count), exactly one per timeout while enabled.',
    outside=['changing the channel map while advertising is enabled (documented as not supported)', 'empty channel map (documented as not supported)',
             'more than 3 consecutive events per run (the channel/interval state after an event equals the state before it up to the perturbation value, which is symbolic)',
             'the radio: real timing of the scheduled advertisements', 'requests received while advertising (C25)', 'count > 4 and histories longer than 6 operations'],
)
