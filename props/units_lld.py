"""shim units of the link layer group D (C27 / C28 / C29): one real link_layer instance per unit, selected by -DVFD_CFG"""
from vf.core import Unit

_TUS = ['bluetoe/link_layer/delta_time.cpp', 'bluetoe/link_layer/channel_map.cpp',
        'bluetoe/link_layer/connection_details.cpp', 'bluetoe/utility/address.cpp']

LLD0 = Unit('ll_d0', shim='shims/ll_d.cpp', repo_tus=_TUS, flags=['-DVFD_CFG=0'],
            description='real link_layer<server, stub scheduled radio with 2M PHY, buffer_sizes<100,100>, connection_callbacks> (all callbacks recorded)')
LLD1 = Unit('ll_d1', shim='shims/ll_d.cpp', repo_tus=_TUS, flags=['-DVFD_CFG=1'],
            description='real link_layer<server, stub scheduled radio without 2M PHY> (default options)')
LLD2 = Unit('ll_d2', shim='shims/ll_d.cpp', repo_tus=_TUS, flags=['-DVFD_CFG=2'],
            description='real link_layer<server requiring encryption, encryption capable stub radio, stub security manager (find_key answered by the harness), connection_callbacks>')
UNITS = {0: LLD0, 1: LLD1, 2: LLD2}
