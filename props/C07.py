from vf.core import Property, Harness, Unit

U = Unit('att_d7', description='bluetoe::server<shared_write_queue<32|64>, max_mtu_size<65>, no GAP service, one service: bound values of 8/2/4(requires_encryption)/1(notify) bytes, '
         'a read-only value, one CCCD, a write-only free_write_blob_handler value>; two connection_data objects (A, B) with settable security_attributes()')

# The only loop of the real code that these requests reach is the walk over the write queue in handle_execute_write_request
# (everything of l2cap_input is inlined into the shim's w32::input / w64::input; loop numbers 0..3). Its bound is the largest
# number of queued elements + 1; unwinding assertions are on, a bound that is too small makes the run inconclusive.
def exec_loop(n):
    return ['_ZN3w%d5inputEiPKhmPhPm.%d:%d' % (q, i, n) for q in (32, 64) for i in range(4)]

def H(seq, k, cfg=0, vl=3, wl=2, mtu=23, sl=4):
    return {'CFG': cfg, 'MODE': 0, 'K': k, 'SEQ': seq, 'VL': vl, 'WL': wl, 'MTU': mtu, 'SL': sl}

def cases_a(tier):
    cs = []
    # MODE 1: prepare accepted <=> write permitted (self-composition), queue free or own
    for cfg in (0, 1):
        for vl in ((0, 2) if tier == 'quick' else (0, 1, 2, 9)):
            cs.append({'CFG': cfg, 'MODE': 1, 'K': 0, 'SEQ': 0, 'VL': vl, 'WL': 0, 'MTU': 23, 'SL': 4})
    # MODE 0: histories from reset; SEQ digit 0 = symbolic operation
    cs.append(H(1, 1))
    cs.append(H(0, 1, cfg=1))
    cs.append(H(0, 2, vl=10))            # two elements of 16 bytes fill the 32 byte queue exactly
    cs.append(H(0, 3))
    # 5 = malformed Prepare Write (SL octets, too short for handle + offset) followed by Execute Write: nothing may be queued / applied
    cs.append(H(25, 2, sl=4)); cs.append(H(215, 3, sl=3))
    if tier == 'thorough':
        cs.append(H(25, 2, sl=1)); cs.append(H(25, 2, sl=2)); cs.append(H(25, 2, cfg=1, sl=4))
        cs.append(H(0, 3, cfg=1))
        cs.append(H(0, 2, vl=0))
        cs.append(H(0, 2, cfg=1, vl=12, mtu=65))
        cs.append(H(0, 3, vl=0, wl=0))
        cs.append(H(0, 3, vl=10, wl=1))
        cs.append(H(0, 3, cfg=1, vl=10, wl=8))
    return cs

# 1 Prepare, 2 Execute, 3 Write Request, 4 disconnect, 5 malformed (short) Prepare; least significant digit is the first step
SHAPES4 = [2111, 1111, 1411, 2121, 2311, 1211]
SHAPES4_T = [1112, 4111, 1311, 2141, 2211, 1121, 2411, 3211]
SHAPES56 = [(21111, 5), (12111, 5), (21211, 5), (14111, 5), (211211, 6), (121411, 6), (212121, 6), (211111, 6)]

def cases_b(tier):
    cs = [H(s, 4) for s in SHAPES4]
    if tier == 'thorough':
        cs += [H(s, 4) for s in SHAPES4_T] + [H(s, 4, cfg=1, vl=10) for s in SHAPES4[:3]]
    return cs

def cases_c(tier):
    return [H(s, k) for s, k in SHAPES56] if tier == 'thorough' else []

# development knob (mutation testing): VF_CASE_FILTER="c['K'] <= 2" restricts the cases; never set in a real run
def _filtered(f):
    import os
    e = os.environ.get('VF_CASE_FILTER')
    return f if not e else (lambda tier: [c for c in f(tier) if eval(e, {'c': c})])

DESC = 'real server vs. reference model (owner + list of (handle, offset, bytes)); '
HARNESSES = [
    Harness('c07_wq', U, 'harness/c07_wq.c', _filtered(cases_a), unwind=16, unwindset=exec_loop(3), timeout=1500, object_bits=12, diff_iters=200,
            description=DESC + 'self-composition Prepare Write vs. Write Request; histories of up to 3 symbolic operations from reset',
            bounds='K <= 3 operations, each symbolic in {Prepare Write, Execute Write 0/1, Write Request, client_disconnected} x {A, B}; all handles/offsets/value bytes; value length per case'),
    Harness('c07_wq_k4', U, 'harness/c07_wq.c', _filtered(cases_b), unwind=16, unwindset=exec_loop(4), timeout=1500, object_bits=12, diff_iters=100, diff_cases=2,
            description=DESC + 'histories of 4 operations with a fixed sequence of operation kinds, acting client per step symbolic',
            bounds='K = 4, listed operation-kind sequences; who/handle/offset/value/flag symbolic'),
]
HARNESS_C = Harness('c07_wq_k6', U, 'harness/c07_wq.c', _filtered(cases_c), unwind=16, unwindset=exec_loop(6), timeout=2400, object_bits=12, diff_iters=100, diff_cases=2,
            description=DESC + 'histories of 5 and 6 operations with a fixed sequence of operation kinds',
            bounds='K = 5, 6, listed operation-kind sequences; who/handle/offset/value/flag symbolic')

# the K=5/6 harness has cases only in the thorough tier; it is registered only there so that the quick tier does not build it
import os, sys
_tier = 'thorough' if ('thorough' in sys.argv or '--tier=thorough' in sys.argv) else ('quick' if 'quick' in sys.argv else os.environ.get('VERIF_TIER', 'quick'))
if _tier == 'thorough':
    HARNESSES.append(HARNESS_C)

PROPERTY = Property(
    'C07', HARNESSES,
    functions=['server::handle_prepair_write_request (check_write permission probe)', 'server::handle_execute_write_request', 'details::write_queue_guard',
               'details::write_queue<shared_write_queue<S>>::allocate_from_write_queue / free_write_queue / first_write_queue_element / next_write_queue_element',
               'server::client_disconnected', 'server::handle_write_request', 'bind_characteristic_value::characteristic_value_access', 'CCCD generate_attribute::access',
               'value_handler_base::characteristic_value_access (free_write_blob_handler)', 'details::encryption_requirements::check'],
    bounds='queue sizes 32 and 64, MTU 23 (and 65 in one thorough case); histories from reset: every sequence of up to 3 operations (operation kind, client, handle, offset, value bytes, execute flag symbolic), '
           'sequences of 4 (quick) and up to 6 (thorough) operations for the listed operation-kind shapes with everything else symbolic; value length of Prepare/Write fixed per case (0..12 bytes); '
           'link security of each connection symbolic (unencrypted/no key, unencrypted/key, encrypted) and constant during a history; initial bound values and CCCD bits symbolic',
    assumptions=['the application write handler accepts every write (returns 0)', 'link security of a connection does not change between a Prepare Write and the Execute Write',
                 'Execute Write flag is 0 or 1', 'capacity: a Prepare Write by the owner (or into a free queue) must be accepted while the documented budget (7 + value bytes per element, write_queue.hpp) fits, cannot be accepted when the raw payload exceeds the queue, may go either way in between (model follows the response)',
                 'after an Execute Write that fails (Invalid Offset / Invalid Attribute Value Length) the attribute values are not compared (Core spec: undefined), the model is re-synchronised; response code, handle in error and queue release are checked'],
    explanation='two real connection objects drive one real server with a shared write queue; after every operation all bound values, both connections\' CCCD bits, the queue owner and fill level and the '
                'log of the application write handler are compared with a reference model that keeps the owner and the list of queued (handle, offset, bytes): prepares change nothing and echo the request, '
                'a foreign client gets Prepare Queue Full, Execute(1) applies the owner\'s list in order, Execute(0)/disconnect discard it, a non-owner\'s Execute/disconnect leaves it alone. '
                'Acceptance of a Prepare Write is compared with the real Write Request on a clone of the same state (self-composition) for all handles and link security states.',
    outside=['histories of 4 or more operations other than the listed shapes (fully symbolic K=4: symbolic execution alone took 193 s, no verdict within the budget)', 'queue sizes other than 32/64',
             'more than two connections', 'link security changing while writes are queued', 'values of the attributes after a failed Execute Write'],
)
