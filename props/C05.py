import os
from vf.core import Property, Harness, Unit

DESC = ('bluetoe::server<> with shared_write_queue<32>, two services, 6 characteristics (5 bound values, 1 read/write handler pair, '
         '3 CCCDs) in two variants of requires_encryption / no_encryption_required / may_require_encryption on server, service and characteristic level; '
         'one variant per unit')
U0 = Unit('att_c05_0', shim='shims/att_c05.cpp', flags=['-DVF_C05_CFG=0'], description=DESC)
U1 = Unit('att_c05_1', shim='shims/att_c05.cpp', flags=['-DVF_C05_CFG=1'], description=DESC)
UPL = [Unit('att_c05pl_%d' % sopt, shim='shims/att_c05pl.cpp', flags=['-DVF_C05_S=%d' % sopt],
            description='16 one-characteristic servers: server option %d of {none, requires_encryption, no_encryption_required, may_require_encryption}, '
                        'every placement of the four alternatives on service x characteristic level' % sopt) for sopt in range(4)]

U2 = Unit('att_c05_2', shim='shims/att_c05.cpp', flags=['-DVF_C05_CFG=2'],
          description='small server for the range requests: one service, a protected (requires_encryption, with CCCD) and an unprotected characteristic of the same UUID and size')

# direct requests on the mixed servers (CFG 0, 1): Read, Read Blob, Write, Write Command, Prepare Write; Execute Write is MODE 1.
# (opcode, length, H1, H2, H3): Hn != 0 fixes the n-th 16 bit field of the PDU, 0 leaves it symbolic.
# Read Multiple and the range requests with *symbolic* handles do not finish in the quick budget on the 17 attribute servers
# (measured on the loaded machine: > 900 s per case; the loops of the inlined handlers get explicit bounds: 21 > number of attributes, 5 > handles); quick fixes the handle list / range per case (all other bytes, the type UUID,
# all values and the pairing status stay symbolic), thorough adds the fully symbolic forms on the small server with a long timeout.
def direct(q):
    cs = [(0x0a, 3), (0x0c, 5), (0x12, 4), (0x12, 7), (0x52, 7), (0x16, 7)]
    cs += [(0x0e, 5, 6, 3), (0x0e, 5, 3, 6), (0x0e, 5, 12, 17), (0x0e, 7, 12, 6, 14), (0x0e, 7, 14, 3, 9)]
    cs += [(0x08, 7, 1, 0xffff), (0x08, 7, 5, 14)]
    if not q:
        cs += [(0x0a, 2), (0x0a, 4), (0x0c, 4), (0x0c, 6), (0x12, 3), (0x12, 5), (0x12, 8), (0x12, 23), (0x52, 3), (0x52, 5), (0x52, 23),
               (0x16, 5), (0x16, 6), (0x16, 9), (0x16, 23), (0xd2, 19), (0x0e, 4), (0x0e, 5, 4, 7), (0x0e, 5, 7, 4), (0x0e, 7, 3, 6, 9), (0x0e, 7, 6, 4, 3),
               (0x08, 7, 1, 9), (0x08, 7, 10, 17), (0x08, 7, 3, 3), (0x08, 21, 1, 0xffff), (0x04, 5, 1, 0xffff), (0x06, 9, 1, 0xffff), (0x10, 7, 1, 0xffff)]
    return cs


# small server (CFG 2)
def ranges(q):
    cs = [(0x08, 7, 1, 0xffff), (0x08, 7, 3, 6), (0x06, 9), (0x0a, 3), (0x12, 5), (0x0e, 5, 6, 3), (0x0e, 5)]
    if not q:
        cs += [(0x08, 7), (0x08, 21), (0x04, 5), (0x06, 7), (0x06, 11), (0x10, 7), (0x0c, 5), (0x0e, 7), (0x12, 3), (0x12, 7), (0x52, 5)]
    return cs


def cases_for(cfg):
    return lambda tier: cases(tier, cfg)


def cases(tier, cfg):
    q = tier == 'quick'
    cs = []
    for t in (ranges(q) if cfg == 2 else direct(q)):
        t = tuple(t) + (0, 0, 0)
        cs.append({'CFG': cfg, 'MODE': 0, 'OPC': t[0], 'LEN': t[1], 'H1': t[2], 'H2': t[3], 'H3': t[4], 'QN': 0, 'QL': 0})
    if cfg != 2:
        # Execute Write on a symbolic queue: (elements, data bytes per element)
        for qn, ql in ([(1, 2)] if q else [(1, 0), (1, 1), (1, 4), (1, 20), (2, 2), (3, 1)]):
            cs.append({'CFG': cfg, 'MODE': 1, 'OPC': 0x18, 'LEN': 2, 'H1': 0, 'H2': 0, 'H3': 0, 'QN': qn, 'QL': ql})
    cs.append({'CFG': cfg, 'MODE': 2, 'OPC': 0, 'LEN': 0, 'H1': 0, 'H2': 0, 'H3': 0, 'QN': 0, 'QL': 0})
    only = os.environ.get('C05_ONLY_OPC')          # debugging aid: restrict to some opcodes, e.g. C05_ONLY_OPC=22,24
    if only:
        cs = [c for c in cs if str(c['OPC']) in only.split(',')]
    return cs


def placements_for(sopt):
    # one query per placement (a symbolic placement id over 16 servers did not finish in 600 s); quick: a 16 of 64 subset in which every
    # option appears 4 times on every level ((s + v + c) % 4 == 0), thorough: all 64
    return lambda tier: [{'S': sopt, 'VC': vc} for vc in range(16) if tier != 'quick' or (sopt + (vc >> 2) + (vc & 3)) % 4 == 0]


PROPERTY = Property(
    'C05',
    [Harness('c05_enc%d' % c, u, 'harness/c05_enc.c', cases_for(c), unwind=40, unwindset=['vf_c05_input.0:21', 'vf_c05_input.1:21', 'vf_c05_input.2:5'], timeout=1800, object_bits=13, diff_cases=2, diff_iters=60,
             description='self-composition on an unencrypted link (server variant %d): same request on two server states that differ only in protected values / protected '
                         'CCCD bits / what the protected read handler returns; outputs identical, protected state unchanged, protected handlers not invoked, '
                         'unprotected post-state identical; rejection code 0x05 without key / 0x0F with key for direct access' % c,
             bounds='request opcode x length from the case table (all other PDU bytes symbolic); client MTU 23; Read Multiple up to 3 handles; '
                    'Execute Write on queues of 1..3 well-formed elements; l2cap_output with one queued notification or indication')
     for c, u in ((0, U0), (1, U1), (2, U2))] +
    [Harness('c05_inherit%d' % sopt, UPL[sopt], 'harness/c05_inherit.c', placements_for(sopt), unwind=8, timeout=600, object_bits=12, diff_cases=1, diff_iters=100,
             description='server level option %d x all 16 placements of {none, requires_encryption, no_encryption_required, may_require_encryption} on service x characteristic: '
                         'read and write access to the value attribute and to the CCCD, link security symbolic, accepted iff the documented inheritance rule says so' % sopt,
             bounds='one characteristic with a 1 byte bound value and a CCCD; access through server::attribute_at(i).access(), the call every ATT handler makes')
     for sopt in range(4)],
    functions=['details::characteristic_requires_encryption', 'details::encryption_default', 'details::encryption_requirements<>::check',
               'bind_characteristic_value::value_impl::characteristic_value_access', 'value_handler_base::value_impl::characteristic_value_access',
               'CCCD generate_attribute<>::access', 'server::l2cap_input and all request handlers', 'server::l2cap_output',
               'details::collect_attributes (Read By Type)', 'server::handle_prepair_write_request / handle_execute_write_request'],
    bounds='two mixed servers (17 attributes, 3 CCCDs, write queue of 32 bytes) and 64 one-characteristic servers; default ATT MTU (23); one request per query; '
           'PDU lengths from the case table; link not encrypted (pairing status symbolic) in the self-composition harness, link security fully symbolic in the placement harness',
    assumptions=['pre-state of the write queue for Execute Write is a well-formed chain of elements whose handles are handles of the server (Prepare Write stores nothing else)',
                 'Prepare Write addressed to an *unprotected* CCCD is excluded (null client configuration dereference in the prepare probe, a memory-safety defect recorded under C01)',
                 'may_require_encryption is read as "does not change whether encryption is required" (encryption.hpp: it only forces the support code in)',
                 'the user read/write handlers of the handler based characteristic are stubs in the harness; the read handler returns a per-run secret'],
    explanation='noninterference by self-composition: every request kind is executed by the real l2cap_input / l2cap_output on two states that differ only in the '
                'protected part; equality of outputs and of the unprotected post-state shows nothing protected is returned or copied, the per-run frame checks show '
                'nothing protected is modified and no protected user handler runs; direct accesses are additionally checked for the mandated error code; '
                'the option inheritance is decided for all 64 placements against the documented rule',
    outside=['sequences of requests other than (arbitrary queue state, Execute Write) and (arbitrary CCCD state, queue, output): the server keeps no other state between requests',
             'encrypted links in the mixed servers (covered for value semantics by C06 and for the placements by c05_inherit)',
             'MTU other than 23; Read Multiple with more than 3 handles', 'quick tier: Read Multiple handle lists and Read By Type ranges are the ones of the case table (type UUID symbolic); 16 of the 64 placements',
             'authentication / authorisation levels beyond "encrypted": bluetoe has no such options'],
)
