from vf.core import Property, Harness, Unit
U = Unit('att_smoke')
def cases(tier): return [{'OPC': o, 'LEN': l} for o in (0x0a, 0x16, 0x08) for l in (3, 7)]
PROPERTY = Property('SMOKE', [Harness('smoke_att', U, 'harness/smoke_att.c', cases, unwind=24)], explanation='smoke', bounds='')
