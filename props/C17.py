from vf.core import Property, Harness
from .units_pdubuf import PDUBUF, pdubuf_cases, PDUBUF_FUNCTIONS, PDUBUF_ASSUMPTIONS, PDUBUF_BOUNDS, PDUBUF_KW

def cases(tier):
    return pdubuf_cases(17, tier)

PROPERTY = Property(
    'C17',
    [Harness('c15_pdubuf', PDUBUF, 'harness/c15_pdubuf.c', cases,
             description='real ll_data_pdu_buffer driven as the nrf52 radio ISR drives it (valid CRC + invalid MIC -> acknowledge(read_buffer)) by a spec-conformant central model over a link with CRC errors, MIC errors and losses',
             bounds=PDUBUF_BOUNDS, **PDUBUF_KW)],
    functions=PDUBUF_FUNCTIONS,
    bounds=PDUBUF_BOUNDS,
    assumptions=PDUBUF_ASSUMPTIONS,
    explanation='every history of K connection events from reset is explored symbolically; any non-empty PDU of the central (new or retransmitted) may arrive with valid CRC and invalid MIC, in which case the harness calls acknowledge(read_buffer) like the nrf52 ISR. Asserted: the NESN transmitted afterwards is unchanged when the PDU was new (it may be honoured as acknowledgement of the peripheral\'s own data - both outcomes are accepted), the receive packet counter is unchanged, the corrupted payload is never handed to the host, a PDU the central sees acknowledged was stored for the host, and the retransmission that follows is delivered exactly once and in order',
    outside=['the dispatch inside nrf52_radio_base::radio_interrupt_handler (valid_crc && !valid_pdu -> acknowledge()) and received_pdu() of the nRF register level: the harness reproduces the dispatch by hand, the nRF register stub unit is not built',
             'MIC-failed PDUs whose header was forged (SN/NESN different from what the central sent)', 'dropping the link on MIC failure (bluetoe does not; the statement allows either)',
             'buffer configurations other than the listed ones', 'histories longer than K events'],
)
