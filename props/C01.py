from vf.core import Property, Harness, Unit

# one shim source, one unit per server configuration (built in parallel): ATT_A_PART selects the configuration
CFG_DESCRIPTION = {
    0: 'cfg0: two services (128/16 bit UUID), bound values 1/4/20 bytes, const, fixed, cstring, blob, user description, descriptor, GAP service appended',
    1: 'cfg1: fixed handles with gaps (attribute_handle<>, attribute_handles<> with and without CCCD), notify + indicate',
    2: 'cfg2: shared_write_queue<32> + max_mtu_size<65>, 40 byte value with notify, 1 byte value, write blob handler, 66 byte cstring',
    3: 'cfg3: five notify/indicate characteristics in two services (CCCD bits cross a byte)',
    4: 'cfg4: handler based characteristics (free/blob/mixin read and write handlers, no_read_access + notify, only_write_without_response)',
    5: 'cfg5: cfg0 + max_mtu_size<40>',
    6: 'cfg6: small server, one service (128 bit UUID), 4 byte value (128 bit UUID, notify), 20 byte value, no GAP service',
}
ATT_A = {n: Unit('att_a%d' % n, shim='shims/att_a.cpp', flags=['-DATT_A_PART=%d' % n],
                 description='bluetoe::server<> ' + d + '; connection = server::channel_data_t<link_state> (real notification queue)')
         for n, d in CFG_DESCRIPTION.items()}

# boundary lengths per handled opcode: around every length the handler distinguishes, plus 1 and the default MTU
BOUNDARY = {
    0x02: [1, 2, 3, 4, 23],
    0x04: [1, 4, 5, 6, 23],
    0x06: [1, 7, 8, 9, 10, 22, 23],
    0x08: [1, 6, 7, 8, 20, 21, 22, 23],
    0x0A: [1, 2, 3, 4, 23],
    0x0C: [1, 4, 5, 6, 23],
    0x0E: [1, 3, 4, 5, 6, 7, 8, 9, 11],
    0x10: [1, 6, 7, 8, 20, 21, 22, 23],
    0x12: [1, 2, 3, 4, 5, 23],
    0x52: [1, 2, 3, 4, 5, 23],
    0x16: [1, 4, 5, 6, 7, 23],
    0x18: [1, 2, 3, 23],
    0x1E: [1, 2, 23],
    0x01: [1, 5],
    0x1B: [1, 3, 5],
    0x1D: [1, 3, 5],
}
# quick tier, first configuration: the regular length(s) and the neighbours that must be rejected
QUICK0 = {0x02: [2, 3], 0x04: [5, 6], 0x06: [8, 9], 0x08: [6, 7, 21], 0x0A: [2, 3], 0x0C: [4, 5], 0x0E: [4, 5, 7],
          0x10: [7, 8], 0x12: [2, 3, 23], 0x52: [2, 5], 0x16: [4, 5, 23], 0x18: [2], 0x1E: [1, 2], 0x01: [5], 0x1B: [3], 0x1D: [3]}
# regular lengths
MAIN = {0x02: [3], 0x04: [5], 0x06: [9], 0x08: [7, 21], 0x0A: [3], 0x0C: [5], 0x0E: [5], 0x10: [7], 0x12: [3, 5],
        0x52: [5], 0x16: [5, 7], 0x18: [2], 0x1E: [1], 0x01: [5], 0x1B: [3], 0x1D: [3]}
# opcodes the server does not implement: Signed Write Command, unknown commands, unknown requests, responses, later spec versions
HANDLED = sorted(BOUNDARY)
MAXLEN = {0: 23, 1: 23, 2: 65, 3: 23, 4: 23, 6: 23}
READ_MULTIPLE_MAX = {'quick': 7, 'thorough': 11}     # 3 / 5 handles
# client MTU of the pre-state: 0 = fully symbolic (23..65535).  For the 65 byte server a symbolic MTU makes the list
# requests too expensive (Read By Type: no verdict in 600 s), there the client MTU is a concrete value per case.
SYMBOLIC_MTU_OK_65 = (0x02, 0x0A, 0x0C, 0x12, 0x52, 0x18, 0x1E, 0x01, 0x1B, 0x1D)


# requests that walk the attribute table: with a symbolic client MTU no verdict in 600 s even on the 23 byte servers.  There the client
# MTU is the concrete value 23; for a 23 byte server every client MTU >= 23 yields the same negotiated MTU (checked separately by C08,
# exchange step: negotiated_mtu() == min(server maximum, client MTU)) and l2cap_input reads the client MTU only through negotiated_mtu().
LIST_REQUESTS = (0x04, 0x06, 0x08, 0x0E, 0x10)


def case(cfg, opc, length, outsz=None, nq=0, cmtu=None, cmdsym=0):
    if cmtu is None:
        cmtu = 65 if cfg == 2 else 23 if opc in LIST_REQUESTS else 0
    return {'CFG': cfg, 'OPC': opc, 'LEN': length, 'OUTSZ': outsz if outsz is not None else MAXLEN[cfg], 'NQ': nq, 'CMTU': cmtu, 'CMDSYM': cmdsym}


def all_cases(tier):
    cs = []
    q = tier == 'quick'
    # ---- cfg 0
    for opc in HANDLED:
        for l in (QUICK0[opc] if q else range(1, 24)):
            if opc == 0x0E and l > READ_MULTIPLE_MAX[tier]:
                continue
            cs.append(case(0, opc, l))
    # ---- cfg 1, 3, 4
    for cfg in (1, 3, 4):
        for opc in HANDLED:
            for l in (MAIN[opc] if q else BOUNDARY[opc]):
                if q and (opc not in (0x04, 0x08, 0x0A, 0x0C, 0x10, 0x12, 0x16, 0x52, 0x0E) or l != MAIN[opc][0]):
                    continue
                cs.append(case(cfg, opc, l))
        if q:
            cs += [case(cfg, 0x0A, 2), case(cfg, 0x52, 2)]    # one byte short
    # ---- cfg 2 (MTU up to 65, write queue)
    for opc in HANDLED:
        if opc == 0x18:
            continue                                      # below, with queue contents
        lens = MAIN[opc] if q else sorted(set(BOUNDARY[opc] + [24, 25, 33, 64, 65]))
        for l in lens:
            if opc == 0x0E and l > READ_MULTIPLE_MAX[tier]:
                continue
            cs.append(case(2, opc, l))
            if not q and l in MAIN[opc]:
                cs.append(case(2, opc, l, cmtu=23))
                cs.append(case(2, opc, l, cmtu=40))
                if opc in SYMBOLIC_MTU_OK_65:
                    cs.append(case(2, opc, l, cmtu=0))
    if q:
        cs += [case(2, 0x16, 65), case(2, 0x12, 65), case(2, 0x0A, 3, cmtu=0), case(2, 0x08, 7, cmtu=23), case(2, 0x0C, 5, cmtu=40)]
    # Execute Write / Prepare Write / Write with prepared writes in the queue
    for nq in ((0, 1, 2, 3) if q else (0, 1, 2, 3, 4, 5)):
        for l in ((2,) if q and nq else (1, 2, 3) if q else (1, 2, 3, 23, 65)):
            cs.append(case(2, 0x18, l, nq=nq))
        if nq in (1, 3) or (nq and not q):
            for l in ((7,) if q else (4, 5, 7, 23, 33, 65)):
                cs.append(case(2, 0x16, l, nq=nq))
            if not q:
                cs.append(case(2, 0x12, 5, nq=nq))
    # ---- output buffer larger / smaller than the negotiated MTU
    for opc, l in (((0x0A, 3), (0x16, 23)) if q else ((0x0A, 3), (0x08, 7), (0x04, 5), (0x10, 7), (0x0C, 5), (0x16, 23), (0x0E, 5))):
        cs.append(case(0, opc, l, outsz=40))
        cs.append(case(2, opc, l, outsz=23))
        if not q:
            cs.append(case(2, opc, l, outsz=80))
            cs.append(case(3, opc, l, outsz=27))
    # ---- opcodes without handler.  Opcodes are taken without the command flag (bit 6); the flag is symbolic in these cases,
    # so every case covers the opcode as request/unknown PDU and as command (known finding: commands are answered)
    if q:
        for opc in (0x03, 0x14, 0x20, 0x25, 0x92, 0xBF):
            cs.append(case(0, opc, 1, cmdsym=1))
        cs.append(case(2, 0x92, 5))                       # symbolic command flag: no verdict in 1500 s with unwind 70
    else:
        for opc in range(256):
            if opc & 0x40 or opc in HANDLED or (opc | 0x40) in HANDLED:
                continue
            cs.append(case(0, opc, 3, cmdsym=1))
            if opc % 16 in (0, 2, 5):
                cs.append(case(2, opc, 1))
                cs.append(case(4, opc, 23))
        cs += [case(0, 0xD2, 15), case(0, 0x12 | 0x80, 5)]
    return cs


# measured (loaded machine, 600 s limit): no verdict for the accepted lengths of the requests that walk the attribute table on the
# configurations with 11..24 attributes, for 65 byte writes and for Execute Write with queued elements on cfg 2.  The quick tier runs
# them on the small configuration 6 only; the thorough tier keeps them for all configurations (with a 1500 s limit).
def heavy(c):
    if c['OPC'] in (0x08, 0x0E) and c['LEN'] in MAIN[c['OPC']] + [7, 9, 11]:
        return True                                       # cfg 6: Read Multiple 270..355 s / 4 GB per case, Read By Type more
    if c['CFG'] == 6:
        return False
    if c['OPC'] == 0x04 and c['LEN'] == 5:
        return True
    if c['CFG'] == 2 and (c['LEN'] > 33 or (c['OPC'] == 0x18 and c['NQ'] > 0) or c['NQ'] > 1):
        return True
    return False


def quick_small():
    cs = []
    for opc in HANDLED:
        for l in sorted(set(QUICK0[opc] + MAIN[opc])):
            cs.append(case(6, opc, l))
    cs += [case(6, 0x0A, 3, outsz=40), case(6, 0x04, 5, outsz=40), case(6, 0x25, 3, cmdsym=1)]
    return cs


def cases_of(cfgs):
    def f(tier):
        cs = all_cases(tier) + quick_small()
        if tier == 'quick':
            cs = [c for c in cs if not heavy(c)]
        return [c for c in cs if c['CFG'] in cfgs]
    return f


COMMON = dict(timeout=1500, flags=['-DVF_MAX_INPUTS=512'], diff_iters=200, diff_cases=4, unwindset=['in_bytes.0:101'])

PROPERTY = Property(
    'C01',
    [Harness('c01_att_cfg%d' % n, ATT_A[n], 'harness/c01_att.c', cases_of((n,)), unwind=70 if n == 2 else 26 if n == 6 else 34,
             description='one l2cap_input() step from an arbitrary connection state, ' + CFG_DESCRIPTION[n],
             bounds='opcode and PDU length concrete per case (see property bounds)', **COMMON) for n in (0, 1, 2, 3, 4, 6)],
    functions=['server::l2cap_input', 'server::handle_exchange_mtu_request', 'server::handle_find_information_request', 'server::handle_find_by_type_value_request',
               'server::handle_read_by_type_request', 'server::handle_read_request', 'server::handle_read_blob_request', 'server::handle_read_by_group_type_request',
               'server::handle_read_multiple_request', 'server::handle_write_request', 'server::handle_write_command', 'server::handle_prepair_write_request',
               'server::handle_execute_write_request', 'server::handle_value_confirmation', 'server::check_size_and_handle(_range)', 'server::error_response',
               'details::write_queue<shared_write_queue<32>>', 'characteristic / characteristic_value / service attribute access functions of the listed configurations',
               'details::handle_index_mapping', 'details::attribute_access_arguments'],
    bounds='6 server configurations; every opcode (thorough) x concrete PDU length 1..23 (1..65 for the 65 byte MTU server); all other PDU bytes, client MTU 23..65535, '
           'security state, CCCD bytes, bound values, write queue contents symbolic; Read Multiple with at most 5 handles',
    assumptions=['output buffer handed to l2cap_input is at least 23 bytes (documented precondition, assert in l2cap_input)',
                 'client MTU of the pre-state >= 23 (invariant, re-established by every step; default after construction is 23)',
                 'write queue of the pre-state satisfies its representation invariant: owner none iff empty, well formed chain of length-prefixed elements, '
                 'every element names a handle a Prepare Write can be accepted for (re-established by every step)',
                 'user read handlers write at most read_size bytes and report out_size <= read_size (documented handler contract); handlers return any code',
                 'in_size equals the size of the PDU object, in_size >= 1'],
    explanation='l2cap_input is run once on a PDU with concrete opcode and length and otherwise symbolic content, from an arbitrary connection/server state that satisfies the '
                'stated invariants; PDU and output buffer are exact-size heap objects so every access of the real code is bounds-checked by CBMC; asserted are: '
                'out_size <= min(buffer, negotiated MTU), the response opcode discipline of the statement (request -> opcode+1 or 5 byte Error Response naming it; commands, '
                'confirmation, notification/indication and Error Response -> nothing), the ATT layout of positive responses, and the invariants afterwards, so the result '
                'extends to request histories of any length by induction',
    outside=['server configurations other than the six listed', 'quick tier: accepted-length Read By Type and Read Multiple Requests are not run at all (cfg 6: 270..355 s and 4 GB per Read Multiple case, Read By Type more; cfg 0: no verdict in 1500 s), accepted-length Find Information only on the small configuration 6, no 65 byte writes and no Execute Write with queued elements on cfg 2 (no verdict in 600 s on the loaded machine); all of these are kept in the thorough tier with a 1500 s limit', 'Read Multiple Requests with more than 5 handles', 'PDUs longer than 65 bytes',
             'include declarations / secondary services and encryption requirements (C03, C05)', 'undefined and response opcodes: silence and an Error Response are both accepted'],
)
