from vf.core import Property, Harness
from .C21 import LLB


def sched_cases(tier):
    """WIN: 0 connecting (transmit window of the connect request), 1 connected (no window), 2 connection_changed (window of an update)"""
    cs = []
    def add(cfg, sca, win, mode):
        cs.append({'CFG': cfg, 'SCA': sca, 'WIN': win, 'MODE': mode})
    if tier == 'quick':
        # measured (one full core): MODE 0 without transmit window ~35 s, MODE 2 ~70 s; cases with a transmit window (WIN 0 / 2 in
        # MODE 0 / 1) need more than 4 min each: thorough tier only
        for sca in range(8):
            add(0, sca, 1, 0)
        add(1, 0, 1, 0)
        # MODE 1 (timeout(): lost event, supervision timeout) gave no verdict on the fixed tree within 14 min of solver time (only the
        # seeded supervision bug was found, in 16 s): listed in the thorough tier, not proved
        add(0, 0, 1, 2); add(1, 7, 0, 2)
    else:
        for cfg in (0, 1):
            for sca in range(8):
                for win in (0, 1, 2):
                    for mode in (0, 1, 2):
                        if mode != 0 and sca not in (0, 3, 7): continue
                        add(cfg, sca, win, mode)
    return cs


def ppm_cases(tier):
    if tier == 'quick':
        return [{'CFG': 0, 'SCA': 0}, {'CFG': 0, 'SCA': 7}, {'CFG': 1, 'SCA': 0}, {'CFG': 1, 'SCA': 7}]
    return [{'CFG': c, 'SCA': s} for c in (0, 1) for s in range(8)]


def connect_cases(tier):
    return [{'CFG': c, 'MODE': m} for c in (0, 1) for m in (0, 1, 2)]


PROPERTY = Property(
    'C22',
    [Harness('c22_sched', LLB, 'harness/c22_sched.c', sched_cases, unwind=40, timeout=3000,
             description='setup_next_connection_event / timeout() / end_event() from an arbitrary state: scheduled receive window vs. '
                         'elapsed time x combined sleep clock accuracy, whole number of intervals, supervision timeout',
             bounds='time since the last anchor 0..36 s (supervision timeout max 32 s + one interval of max 4 s); interval 6..3200 x 1.25 ms; '
                    'latency 0..499; timeout 10..3200 x 10 ms; transmit window size 1..8, offset 0..3201 x 1.25 ms or absent; '
                    'central SCA index case split 0..7 and link state (connecting / connected / connection_changed) case split: quick: all 8 SCA values for the 500 ppm '
                    'configuration without transmit window in MODE 0, a selection for the other combinations; thorough: all 8 x 3 x 2 in MODE 0, SCA 0/3/7 in MODE 1/2'),
     Harness('c22_ppm', LLB, 'harness/c22_ppm.c', ppm_cases, unwind=40, timeout=3000,
             description='delta_time::ppm for every elapsed time on the 1.25 ms grid: t*ppm/10^6 - 2 us < ppm(t) <= t*ppm/10^6',
             bounds='elapsed time u x 1.25 ms, u = 0..65535 (81.9 s); ppm = local (500 / 50) + central SCA table value: quick 4 of the 16 sums, thorough all 16'),
     Harness('c22_connect', LLB, 'harness/c22_connect.c', connect_cases, unwind=40, timeout=3000,
             description='adv_received() on a symbolic CONNECT_IND addressed to the device, and parse_timing_parameters_from_connect_request '
                         'on 34 symbolic bytes: established / accepted only with valid timing parameters',
             bounds='all values of InitA, access address, CRC init, WinSize, WinOffset, Interval, Latency, Timeout, Hop, SCA, TxAdd; '
                    'channel map fixed to all 37 channels in MODE 0 (map validity is C20); header type/length fixed to CONNECT_IND/34')],
    functions=['link_layer::setup_next_connection_event', 'link_layer::timeout', 'link_layer::end_event', 'link_layer::adv_received',
               'link_layer::parse_timing_parameters_from_connect_request', 'link_layer::check_timing_paremeters', 'link_layer::sleep_clock_accuracy',
               'connection_state_base::plan_next_connection_event', 'connection_state_base::plan_next_connection_event_after_timeout',
               'delta_time::ppm', 'delta_time::operator+= / -= / *=', 'advertising_type_base::is_valid_connect_request'],
    bounds='elapsed time since the last anchor <= 36 s; connection parameters inside the Core spec ranges for the scheduling lemmas; all 34 body bytes for '
           'the parameter check; two link-layer configurations (500 ppm default options; 50 ppm, strict latency, callbacks, 100 byte buffers)',
    assumptions=['representation invariant for the scheduling lemmas: connection parameters valid per Core spec (established by the connect request / update checks), '
                 'channel index < 37, accumulated SCA = configured + SCA table value, no LL procedure timeout running, receive buffer empty, no deferred PDU',
                 'stub radio: schedule_connection_event records its arguments and returns the interval; no packets pending',
                 'window widening oracle tolerates truncation: w > t*ppm/10^6 - 2 us (the code multiplies by 140737488/2^47 and truncates: up to 1.0002 us below exact)',
                 'the scheduling queries compare the scheduled window with delta_time::ppm itself (same real function) and assume ppm(t) <= t; both facts are proved separately by lemma c22_ppm (assume-guarantee)',
                 'elapsed times are multiples of 1.25 ms (sums of intervals, window offsets and sizes)',
                 'fine print of CONNECT_IND validity taken permissively: equality in timeout >= 2*(1+latency)*interval, WinSize 0 and WinSize == Interval not flagged'],
    explanation='The scheduling call made to the (stub) radio is checked for one step from every state satisfying the invariant: direct call, after a lost event '
                '(timeout(): time grows by exactly one interval) and after an event with a packet (end_event(): time restarts at n intervals, 1 <= n <= latency+1). '
                'By induction over events every scheduled event is at the last anchor plus a whole number of intervals (plus transmit window after connect/update), and its '
                'receive window is widened on both sides by more than elapsed x (local + central ppm) / 10^6 - 2 us, for each of the 8 central SCA values. timeout() drops the '
                'link only when the time since the last anchor has reached the supervision timeout (or 6 windows of a new connection were missed). adv_received() on a symbolic '
                'CONNECT_IND establishes a connection only if the timing parameters satisfy the Core spec validity predicate.',
    outside=['QUICK TIER: only scheduling without transmit window (setup_next_connection_event, end_event) is proved; the cases with a transmit window (WIN 0/2) and the '
             'timeout() step incl. the supervision timeout rule (MODE 1) are listed in the thorough tier but gave no verdict within 4..14 min of solver time each on the fixed tree '
             '(a seeded supervision bug was found in 16 s)',
             'accuracy of the real radio timer and of the anchor measured by the radio driver', 'connection parameters outside the Core spec ranges in the scheduling lemmas '
             '(excluded by the validity lemma)', 'elapsed times above 36 s', 'other link layer option sets', 'channel map content of the connect request (C20)'],
)
