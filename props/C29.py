from vf.core import Property, Harness
from .units_lld import LLD0


def ring_cases(tier):
    """NOPS operations, bit i of POLLS: operation i is a poll. At most 4 events are raised between two polls (capacity of the ring).
    measured (loaded machine): NOPS=2 68 s / 0.6 GB, NOPS=4 410 s / 2 GB of solver time"""
    if tier == 'quick':
        return [{'NOPS': 2, 'POLLS': 0}, {'NOPS': 3, 'POLLS': 0b010}]
    return [{'NOPS': 2, 'POLLS': 0}, {'NOPS': 3, 'POLLS': 0b010}, {'NOPS': 4, 'POLLS': 0}, {'NOPS': 6, 'POLLS': 0b000100},
            {'NOPS': 7, 'POLLS': 0b0010000}, {'NOPS': 8, 'POLLS': 0b00100100}]


def step_cases(tier):
    """measured (loaded machine, one core): calls without a received PDU 70-120 s of solver time each; every case with a PDU in the receive
    ring (end_event -> handle_received_data) gave no verdict within 16-23 min -> thorough tier only"""
    cs = []
    def add(step, pre, opc=-1, ln=1):
        cs.append({'STEP': step, 'PRE': pre, 'OPC': opc, 'LEN': ln})
    pres = (2, 3, 4, 5)
    for pre in pres:
        if pre != 4 or tier != 'quick':      # end_event() while disconnecting (LL_TERMINATE_IND is sent): no verdict within 18 min
            add(0, pre)
        add(1, pre)
    add(2, 1); add(3, 3)
    if tier != 'quick':
        for pre in pres:
            for opc, ln in ((0x02, 2), (0x0C, 6), (0x0D, 2), (0x07, 2), (0x08, 9), (0x11, 3), (0x12, 1), (0x02, 3), (0x18, 5), (0x00, 12)):
                add(0, pre, opc, ln)
            add(3, pre)
    return cs


def burst_cases(tier):
    # every case (even LL_TERMINATE_IND alone) gave no verdict within 16 min of solver time (receive ring + end_event): thorough tier only, not
    # shown to finish; the loss of events with 4+1 PDUs was confirmed by replaying a hand-written input on the real build
    # (replays/C29-c29_burst-handmade.replay: fails before the fix, passes after it)
    if tier == 'quick':
        return []
    return [{'NK': k, 'PRE': p} for k in (0, 1, 2) for p in (2, 3)]


PROPERTY = Property(
    'C29',
    [Harness('c29_ring', LLD0, 'harness/c29_ring.c', ring_cases, unwind=10, timeout=1800, mem_gb=12,
             description='connection_callbacks event mechanism: symbolic events raised / polled with a concrete schedule; every event is delivered once, in order, with its argument',
             bounds='2..3 (quick) / up to 8 (thorough) operations, at most 4 events between two polls (ring capacity), all 10 event kinds symbolic'),
     Harness('c29_step', LLD0, 'harness/c29_step.c', step_cases, unwind=40, timeout=1800,
             description='one adv_received() / end_event() / timeout() / disconnect() from every link layer state: the lifecycle callbacks of the step follow '
                         'requested -> established | attempt_timeout -> changed* -> closed and agree with the state afterwards',
             bounds='quick: no received PDU in the connection event; thorough: 0 or 1 received control PDU (concrete opcode and length); everything else symbolic'),
     Harness('c29_burst', LLD0, 'harness/c29_burst.c', burst_cases, unwind=10, timeout=1800,
             description='K LL_REJECT_IND / LL_UNKNOWN_RSP followed by LL_TERMINATE_IND in one connection event: every event is reported, closed last',
             bounds='thorough tier only: K <= 2 PDUs before the LL_TERMINATE_IND; error codes, reason, kinds symbolic')],
    functions=['connection_callbacks::connection_requested/_established/_attempt_timeout/_changed/_closed/procedure_rejected/procedure_unknown/'
               'version_indication_received/remote_features_received/phy_update', 'connection_callbacks::handle_connection_events',
               'details::ring<4,event_data>::try_push/try_pop', 'link_layer::adv_received', 'link_layer::end_event', 'link_layer::timeout', 'link_layer::disconnect',
               'link_layer::handle_received_data', 'link_layer::handle_ll_control_data', 'link_layer::force_disconnect'],
    bounds='single link layer calls from every state satisfying the invariant; event ring histories of up to 8 operations; bursts of up to 2+1 control PDUs',
    assumptions=['the radio calls end_event() / timeout() only while a connection exists (state connecting/connected/disconnecting/connection_changed) and adv_received() only while advertising',
                 'the event ring is empty between two link layer calls (checked as post condition of every step)',
                 'at most 4 events are raised between two polls of the ring (ring unit harness); the link layer polls after every handled control PDU and at the end of every call',
                 'connection parameters valid per Core spec'],
    explanation='(i) The event mechanism delivers every raised event exactly once and in order as long as at most max_events = 4 events wait in the ring. '
                '(ii) Induction over link layer calls: the abstract connection state (none / requested / established) is a function of state_; every call from every state reports '
                'exactly the lifecycle callbacks the automaton requested (attempt_timeout | established changed* closed) allows for that state and ends in the matching state, '
                'with an empty ring. Hence every run reports each connection completely, once and in order, and nothing for a connection that was never requested.',
    outside=['QUICK TIER: connection events that carry received control PDUs (LL_TERMINATE_IND -> closed with its reason, bursts) are not decided: every such case needs more than 16-23 min of '
             'solver time (receive ring + end_event); they are listed in the thorough tier but were not shown to finish. That the fixed link layer polls the event ring after every control PDU is '
             'visible in the source and was replayed for 4+1 PDUs on the real build (replays/C29-c29_burst-handmade.replay)',
             'events raised by L2CAP/ATT traffic (none: only the link layer raises connection events)',
             'concurrent use of the ring from interrupt context (C30)'],
)
