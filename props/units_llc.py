"""shim units of the link layer group C (C24 / C25): one real link_layer instance per unit, selected by -DVFC_CFG (see shims/ll_c_api.h)"""
from vf.core import Unit

_TUS = ['bluetoe/link_layer/delta_time.cpp', 'bluetoe/link_layer/channel_map.cpp',
        'bluetoe/link_layer/connection_details.cpp', 'bluetoe/utility/address.cpp']

_DESC = {
    0: 'real link_layer<server, stub scheduled radio, variable_advertising_channel_map, no_auto_start_advertising, variable_advertising_interval, white_list<3>> '
       '(single type advertiser: connectable undirected)',
    1: 'real link_layer<server, stub scheduled radio, variable_advertising_channel_map, no_auto_start_advertising, advertising_interval<30>, white_list<3>, '
       'connectable_undirected + connectable_directed + scannable_undirected + non_connectable_undirected advertising> (multiple type advertiser)',
    2: 'real link_layer<server, stub scheduled radio, connectable_directed_advertising, white_list<3>>',
    3: 'real link_layer<server, stub scheduled radio, scannable_undirected_advertising, white_list<3>>',
    4: 'real link_layer<server, stub scheduled radio, non_connectable_undirected_advertising, white_list<3>>',
    5: 'real link_layer<server, stub scheduled radio> (all defaults)',
}

LLC = {c: Unit('ll_c%d' % c, shim='shims/ll_c.cpp', repo_tus=_TUS, flags=['-DVFC_CFG=%d' % c], description=_DESC[c]) for c in _DESC}
