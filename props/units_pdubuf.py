"""unit and case tables shared by C15, C16, C17 (ll_data_pdu_buffer on a stub radio)"""
from vf.core import Unit

PDUBUF = Unit('pdubuf', description='bluetoe::link_layer::ll_data_pdu_buffer<Tx,Rx,Radio> for <61,61>, <100,100>, <29,29>, <100,61> on a stub radio that counts increment_receive_packet_counter / increment_transmit_packet_counter and has an empty lock_guard')

PDUBUF_FUNCTIONS = ['ll_data_pdu_buffer::received', 'll_data_pdu_buffer::acknowledge(read_buffer)', 'll_data_pdu_buffer::acknowledge(bool)',
                    'll_data_pdu_buffer::next_transmit', 'll_data_pdu_buffer::set_next_expected_sequence_number',
                    'll_data_pdu_buffer::allocate_receive_buffer', 'll_data_pdu_buffer::allocate_transmit_buffer', 'll_data_pdu_buffer::commit_transmit_buffer',
                    'll_data_pdu_buffer::next_received', 'll_data_pdu_buffer::free_received', 'll_data_pdu_buffer::pending_outgoing_data_available',
                    'll_data_pdu_buffer::reset_pdu_buffer', 'll_data_pdu_buffer::max_rx_size/max_tx_size',
                    'pdu_ring_buffer::alloc_front/push_front/next_end/pop_end/more_than_one/reset', 'default_pdu_layout::header']

PDUBUF_ASSUMPTIONS = [
    'the radio driver uses the buffer as the nrf52 binding does: allocate_receive_buffer() once per event; received() for a valid PDU, acknowledge(read_buffer) for valid CRC + invalid MIC, next_transmit() when no buffer was available or the CRC failed, no call when nothing was received',
    'the central follows Core spec Vol 6 Part B 4.5.9 (retransmits the identical PDU until acknowledged, SN/NESN as specified, LLID 1..3, empty PDU = LLID 1 length 0, payload <= max_rx_size - 2)',
    'the host commits PDUs with LLID 1..3 and payload length 1..LMAX <= max_tx_size - 2 in a buffer allocated with exactly that size; calls free_received() only after next_received() returned a PDU',
    'host calls and radio calls do not interleave inside each other (lock_guard is empty)',
    'a MIC failure is only reported for non-empty PDUs (empty PDUs carry no MIC); the header of a MIC-failed PDU is the one the central sent',
]

PDUBUF_BOUNDS = ('configurations <61,61>, <100,100>, <29,29> (each ring holds one PDU), <100,61>; max_rx_size = max_tx_size = 29 (default after reset), and 50 on <100,100> (thorough); '
                 'histories of K connection events from reset_pdu_buffer(), every event fully symbolic (the shape of the first event is enumerated by case split): '
                 'quick: <29,29> K=3 with payload lengths symbolic in 1..27, <61,61> K=2 with symbolic lengths, <100,100> with max size 50 K=1 (all first events) and K=2 (first event a delivered or MIC-failed data PDU) with payload lengths symbolic in 1..48; '
                 'thorough: <29,29> K=4 symbolic lengths, <61,61> K=4 all payloads 27 bytes (ring fills after two PDUs) and K=3 symbolic lengths, <100,61> K=3 each payload 1 or 27 bytes, <100,100> with size 50 K=3 each payload 1 or 48 bytes; '
                 'after the last event the host takes up to 2 more PDUs; payload identity is checked on header, first and last payload byte. '
                 'Note: on <29,29> the receive ring accepts exactly one PDU per connection (after it was freed the ring is empty with front_ == end_ in the middle and alloc_front() finds no 29 contiguous bytes), '
                 'so retransmissions reach received() only in the <61,61>/<100,*> cases')


def shapes(prop):
    """all shapes of the first event: commit | c_empty << 1 | fate << 2 (fate 0 ok, 1 crc, 2 lost, 3 mic; C15 has no MIC failures)"""
    r = []
    for fate in range(3 if prop == 15 else 4):
        for c_empty in (0, 1):
            if fate == 3 and c_empty: continue      # an empty PDU has no MIC: identical to fate 0
            for commit in (0, 1):
                r.append(commit | c_empty << 1 | fate << 2)
    return r


def pdubuf_cases(prop, tier):
    def split(c):
        return [dict(c, E0=e) for e in shapes(prop)]
    base = {'MAXSZ': 29, 'LMAX': 27, 'LMODE': 0, 'DRAIN': 2, 'E0': -1}
    cs = []
    if tier == 'quick':
        cs += split(dict(base, CFG=2, K=3))
        cs += [dict(base, CFG=0, K=2)]
        # data length extension: payload lengths above 27 (all lengths 1..48 symbolic) in short histories on <100,100>
        cs += split(dict(base, CFG=1, K=1, MAXSZ=50, LMAX=48))
        cs += [dict(base, CFG=1, K=2, MAXSZ=50, LMAX=48, E0=e) for e in shapes(prop) if (e >> 2) in (0, 3) and not (e & 2)]
    else:
        cs += split(dict(base, CFG=2, K=4))
        cs += split(dict(base, CFG=0, K=4, LMODE=1))
        cs += split(dict(base, CFG=0, K=3))
        cs += split(dict(base, CFG=3, K=3, LMODE=2))
        cs += split(dict(base, CFG=1, K=3, LMODE=2, MAXSZ=50, LMAX=48))
    for c in cs: c['PROP'] = prop
    return cs

PDUBUF_KW = dict(unwind=10, timeout=2400, diff_iters=400, diff_cases=4)
