import os
from vf.core import Property, Harness, Unit

U0 = Unit('att_c06_0', shim='shims/att_c06.cpp', flags=['-DVF_C06_CFG=0'],
          description='bluetoe::server<shared_write_queue<32>> with one service of 9 characteristics: bind_characteristic_value of 1/4/20 bytes, const bound value, '
                      'no_write_access, no_read_access, fixed_uint32_value, cstring_value, write_without_response, only_write_without_response')
U1 = Unit('att_c06_1', shim='shims/att_c06.cpp', flags=['-DVF_C06_CFG=1'],
          description='bluetoe::server<mixin<>> with one service of 8 handler based characteristics: free_read_handler, free_write_handler<uint16_t>, free_read/write_blob_handler, '
                      'free_raw_write_handler, mixin_read/write_handler, no_read_access + notify, notify + indicate, write_without_response, only_write_without_response')


def mem_cases(tier):
    q = tier == 'quick'
    cs = [{'OPC': 0x0a, 'LEN': l} for l in ([3] if q else [2, 3, 4])]
    cs += [{'OPC': 0x0c, 'LEN': l} for l in ([5] if q else [4, 5, 6])]
    cs += [{'OPC': 0x12, 'LEN': l} for l in ([3, 4, 5, 7, 8, 22, 23] if q else range(3, 24))]
    cs += [{'OPC': 0x52, 'LEN': l} for l in ([3, 4, 7, 8, 23] if q else range(3, 24))]
    cs += [{'OPC': 0x16, 'LEN': l} for l in ([5, 6, 23] if q else range(5, 24))]
    cs += [{'OPC': 0x0e, 'LEN': 5}]
    if not q:   # 3 handles / Read By Type with symbolic range over 19 attributes: thorough only
        cs += [{'OPC': 0x0e, 'LEN': 7}, {'OPC': 0x08, 'LEN': 7}]
    return only(cs)


def only(cs):
    o = os.environ.get('C06_ONLY_OPC')             # debugging aid: restrict to some opcodes, e.g. C06_ONLY_OPC=10,18
    return [c for c in cs if str(c['OPC']) in o.split(',')] if o else cs


def hdl_cases(tier):
    q = tier == 'quick'
    cs = [{'OPC': 0x0a, 'LEN': 3}, {'OPC': 0x0c, 'LEN': 5}]
    cs += [{'OPC': 0x12, 'LEN': l} for l in ([3, 4, 5, 6, 23] if q else range(3, 24))]
    cs += [{'OPC': 0x52, 'LEN': l} for l in ([3, 5, 23] if q else range(3, 24))]
    cs += [{'OPC': 0x0e, 'LEN': 5}]
    if not q:
        cs += [{'OPC': 0x0e, 'LEN': 7}, {'OPC': 0x08, 'LEN': 7}]
    return only(cs)


PROPERTY = Property(
    'C06',
    [Harness('c06_mem', U0, 'harness/c06_mem.c', mem_cases, unwind=40, unwindset=['vf_c06_input.0:21', 'vf_c06_input.1:21', 'vf_c06_input.2:5'], timeout=1800, diff_cases=2, diff_iters=60,
             description='memory bound, const, fixed and string values: symbolic pre-state of all bound values (37 bytes), one request (Read, Read Blob, Write Request, '
                         'Write Command, Prepare Write, Read Multiple, Read By Type) with symbolic handle / offset / data; response and post-state vs. model over the expected attribute table',
             bounds='19 attributes; opcode x PDU length from the case table; ATT MTU 23; Read Multiple 2 or 3 handles; Read By Type with 16 bit type'),
     Harness('c06_hdl', U1, 'harness/c06_hdl.c', hdl_cases, unwind=40, unwindset=['vf_c06_input.0:21', 'vf_c06_input.1:21', 'vf_c06_input.2:5'], timeout=1800, diff_cases=2, diff_iters=60,
             description='handler based values: user handlers are symbolic stubs that record their invocation; one request with symbolic handle / offset / data; which handler runs, '
                         'with which arguments, and the response vs. the permission table; properties byte of every declaration',
             bounds='19 attributes (8 characteristics, 2 CCCDs); opcode x PDU length from the case table; ATT MTU 23; Read Multiple 2 or 3 handles')],
    functions=['bind_characteristic_value::value_impl::characteristic_value_access / _read_access / _write_access', 'details::attribute_value_read_access',
               'fixed_value::value_impl', 'cstring_wrapper::value_impl', 'details::value_handler_base::value_impl::characteristic_value_access',
               'free_read_handler / free_read_blob_handler / free_write_handler / free_raw_write_handler / free_write_blob_handler / mixin_read_handler / mixin_write_handler',
               'details::deserialize', 'char_declaration_access (properties byte)', 'server::handle_read_request / handle_read_blob_request / handle_read_multiple_request / '
               'handle_read_by_type_request / handle_write_request / handle_write_command / handle_prepair_write_request'],
    bounds='two servers with 19 attributes each; one request per query from a symbolic value state (a single step from an arbitrary state: covers histories of any length, '
           'because the only state of these servers is the value memory itself); default MTU 23, so values longer than 22 bytes and their truncation are not exercised beyond the 20 byte value',
    assumptions=['user read handlers honour their documented contract out_size <= read_size; handlers may answer any result code',
                 'link security symbolic (no characteristic of these servers requires encryption)',
                 'Read Blob with offset == length may be answered by an empty response or by Invalid Offset (both allowed by the Core specification)',
                 'properties: Read bit <=> readable, (Write|Write Without Response) bits <=> writable, exact byte per documentation of write_without_response / only_write_without_response; '
                 'a Write Request to an only_write_without_response value and a Write Command to a value without that property are treated as permitted (the statement does not forbid it)'],
    explanation='every value binding offered by characteristic_value.hpp is driven through the real ATT handlers from an arbitrary value state; the response and the complete '
                'post-state are compared with a model derived from a hand-written attribute table (bytes at the position and nothing else; rejected writes change nothing; '
                'reads return current bytes from the offset truncated to MTU-1; Invalid Offset past the end; Read/Write Not Permitted per permission on each access path); '
                'for handler based values the environment handlers record that exactly the permitted handler runs with exactly the request data',
    outside=['Execute Write and queue semantics (C07)', 'client configuration descriptor writes (C09)', 'MTU other than 23 / long values over several Read Blob requests',
             'handler variants read_handler_c/_v/_cv, write_handler_*, mixin blob handlers, control point handlers: same code pattern, not instantiated',
             'Read By Type / Read Multiple are checked for permissions and value bytes, the exact discovery result is C02'],
)
