import os
from vf.core import Property, Harness, Unit

SVC_BL = Unit('svc_bl', shim='shims/svc_bl.cpp',
              description='bootloader::controller<Handler, white_list<...>, PageSize> (the mixin bootloader_service<> binds to its characteristics): '
                          'CFG0 regions [0x1000,0x2000)+[0x8000,0x8100) page 16; CFG1 [0x4000,0x4040) page 8; '
                          'CFG2 [2^64-0x100, 2^64-0x20) page 32; CFG3 [0x1004,0x1ffc) (not page aligned) page 16')


PAGE = {0: 16, 1: 8, 2: 32, 3: 16}


def cases(tier):
    """OPS: one hex digit per step (first step = most significant): 1..4 control point write of 1 / 9 / 17 / XLEN bytes,
    5/6 data write of DLEN / DLEN2 bytes, 7 progress, 8 data indication delivery, 9 control point notification delivery.
    From construction only a control point write changes anything, so histories start with one."""
    cs = []
    def add(cfg, ops, x=2, d=9, d2=3, off=-1):
        cs.append({'CFG': cfg, 'K': len(ops), 'OPS': int(ops, 16), 'XLEN': x, 'DLEN': d, 'DLEN2': d2, 'OFF': off})
    if tier == 'quick':
        # single control point write, every length class incl. odd lengths, all configurations
        for x in (0, 2, 8, 10, 16, 18, 20):
            add(0, '4', x=x)
        for cfg in (0, 1, 2, 3):
            for ops in ('1', '2', '3'):
                add(cfg, ops)
        # two step histories (page 8, region [0x4000,0x4040) and page 16)
        add(1, '25', d=9); add(1, '26', d2=20); add(1, '23'); add(0, '25', d=20)
        # three steps: a Read / Get CRC command, a second (possibly rejected) one, then the pending data indication is served
        add(1, '338'); add(0, '338')
    else:
        for cfg in (0, 1, 2, 3):
            for x in range(0, 21):
                add(cfg, '4', x=x)
            for ops in ('1', '2', '3'):
                add(cfg, ops)
            for ops in ('21', '22', '23', '24', '31', '32', '33'):
                add(cfg, ops, x=5)
            add(cfg, '25', d=20); add(cfg, '25', d=1); add(cfg, '26', d2=0); add(cfg, '26', d2=PAGE[cfg] + 1)
    only = os.environ.get('VF_C39_ONLY')          # debugging aid: one extra-tier case "cfg:ops:xlen:dlen:dlen2"
    if only:
        c, o, x, d, d2 = only.split(':')
        cs = []
        add(int(c), o, x=int(x), d=int(d), d2=int(d2))
    maxk = os.environ.get('VF_C39_MAXK')          # debugging aid: restrict the history length
    if maxk:
        cs = [c for c in cs if c['K'] <= int(maxk)]
    return cs


PROPERTY = Property(
    'C39',
    [Harness('c39_bl', SVC_BL, 'harness/c39_bl.c', cases, unwind=34, timeout=3000,
             unwindset=['vf_bl_write_data.%d:5' % i for i in range(4)],
             description='real bootloader controller under symbolic histories of control point writes, data writes, progress / response / '
                         'data-indication deliveries; the flash handler is the recording environment that asserts every touched range',
             bounds='histories of up to 2 operations from construction (plus the 3-step shape control point write, control point write, data indication delivery); the shape of every step is a case parameter: control point write of '
                    '1, 9, 17 or XLEN (0..20) bytes (symbolic opcode and parameters, exact-size objects), data write of DLEN or DLEN2 bytes (<= 20, all bytes symbolic), progress, '
                    'data indication delivery, control point notification delivery; quick: single writes (lengths 0,1,2,8,9,10,16,17,18,20) for CFG0 and lengths 1,9,17 for all configurations, four 2-step histories; '
                    'thorough: single writes of every length 0..20 for the 4 configurations, 2-step histories (control point write followed by control point or data write) for the 4 configurations')],
    functions=['bootloader::details::controller::bootloader_write_control_point', 'controller::bootloader_write_data', 'controller::find_next_buffer',
               'controller::bootloader_read_control_point', 'controller::bootloader_read_data', 'controller::bootloader_progress_data', 'controller::read_address',
               'details::flash_buffer::set_start_address / write_data / flush / free', 'white_list<memory_region<...>...>::acceptable'],
    bounds='4 configurations (2 regions/page 16, 1 region/page 8, region at the end of the address space/page 32, unaligned region/page 16); '
           'histories up to 2 operations; value sizes 0..20; 64 bit addresses',
    assumptions=['the user handler signals end_flash() (progress) at most once per start_flash() call',
                 'data indications / control point notifications are delivered only when the controller requested them; the response of an accepted control point write is read immediately after the write',
                 'memory content and the checksum functions are uninterpreted functions (mem(addr), crc(old, byte), crc(addr), crc(addr, size)); memory not flashed in the history keeps its content',
                 'read buffers handed to the read handlers are 20 bytes (ATT_MTU 23)',
                 'after a rejected data write the model no longer tracks the content of the session (the client can not know how much was consumed); range and memory-safety checks continue',
                 'empty ranges (size 0) touch no memory and are allowed anywhere',
                 'CBMC object granularity: an overflow from one member of the controller object into another member is not detected by pointer checks (read_mem/page bounds are asserted explicitly instead)'],
    explanation='every range handed to start_flash / read_mem / checksum32 / public_read_mem / public_checksum32 is asserted to lie inside one white-listed region; '
                'written values are exact-size objects so any read beyond them fails a pointer check inside the real code; a ghost model of the flash session '
                '(start address, received bytes, checksum chain over uninterpreted crc) is compared with the pages handed to start_flash and with the checksums announced '
                'in Start Flash / Flush / Get CRC responses and progress notifications',
    outside=['histories longer than 2 operations: 3-step histories (Start Flash, data, Flush/progress/second data; Get CRC or Read inside flash mode) were run by hand '
             '(25 case quick list on the original tree: all conclusive, 1-6 CPU minutes each) but are not part of the tiers: after the last harness change (page bytes '
             'copied with constant indices, see the comment in vf_bl_env_start_flash) they were not re-validated on the fixed tree inside the time box; '
             'the Get CRC / Read inside flash mode defect (fix 17a0155) needs 3 steps and is covered only by the hand written replay replays/C39-c39_bl-manual-getcrc-in-flash-mode.replay; '
             'write sizes above 20 bytes', 'the GATT plumbing around the controller (see C01/C06/C10)',
             'liveness (that all received data is eventually flashed without a Flush)', 'what run(address) starts (Start procedure is not range checked by the statement)',
             'page sizes / region lists other than the four configurations; 32 bit targets'],
)
