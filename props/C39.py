from vf.core import Property, Harness, Unit

SVC_BL = Unit('svc_bl', shim='shims/svc_bl.cpp',
              description='bootloader::controller<Handler, white_list<...>, PageSize> (the mixin bootloader_service<> binds to its characteristics): '
                          'CFG0 regions [0x1000,0x2000)+[0x8000,0x8100) page 16; CFG1 [0x4000,0x4040) page 8; '
                          'CFG2 [2^64-0x100, 2^64-0x20) page 32; CFG3 [0x1004,0x1ffc) (not page aligned) page 16')


def cases(tier):
    cs = []
    def add(cfg, k, x, d, d2):
        cs.append({'CFG': cfg, 'K': k, 'XLEN': x, 'DLEN': d, 'DLEN2': d2})
    if tier == 'quick':
        for x, d, d2 in [(0, 20, 3), (2, 16, 1), (8, 20, 12), (10, 17, 15), (16, 9, 7), (18, 20, 20), (20, 4, 0)]:
            add(0, 3, x, d, d2)
        add(1, 3, 5, 20, 8)
        add(2, 3, 9, 20, 13)
        add(3, 3, 3, 20, 12)
    else:
        for cfg in (0, 1, 2, 3):
            for x, d, d2 in [(0, 20, 3), (2, 16, 1), (8, 20, 12), (10, 17, 15), (16, 9, 7), (18, 20, 20), (20, 4, 0),
                             (3, 19, 2), (4, 18, 5), (5, 14, 6), (6, 13, 10), (7, 11, 8)]:
                add(cfg, 3, x, d, d2)
            for x, d, d2 in [(2, 20, 12), (16, 16, 3), (10, 8, 20)]:
                add(cfg, 4, x, d, d2)
    return cs


PROPERTY = Property(
    'C39',
    [Harness('c39_bl', SVC_BL, 'harness/c39_bl.c', cases, unwind=34, timeout=900,
             description='real bootloader controller under symbolic histories of control point writes, data writes, progress / response / '
                         'data-indication deliveries; the flash handler is the recording environment that asserts every touched range',
             bounds='histories of K=3 (quick) / 3 and 4 (thorough) operations from construction; each operation symbolic among: control point write of '
                    '1, 9, 17 or XLEN bytes (symbolic opcode and parameters, exact-size objects), data write of DLEN or DLEN2 bytes (<= 20), progress, '
                    'data indication delivery, control point notification delivery; 4 configurations (quick: mainly CFG0)')],
    functions=['bootloader::details::controller::bootloader_write_control_point', 'controller::bootloader_write_data', 'controller::find_next_buffer',
               'controller::bootloader_read_control_point', 'controller::bootloader_read_data', 'controller::bootloader_progress_data', 'controller::read_address',
               'details::flash_buffer::set_start_address / write_data / flush / free', 'white_list<memory_region<...>...>::acceptable'],
    bounds='4 configurations (2 regions/page 16, 1 region/page 8, region at the end of the address space/page 32, unaligned region/page 16); '
           'histories up to 4 operations; value sizes 0..20; 64 bit addresses',
    assumptions=['the user handler signals end_flash() (progress) at most once per start_flash() call',
                 'data indications / control point notifications are delivered only when the controller requested them; the response of an accepted control point write is read immediately after the write',
                 'memory content and the checksum functions are uninterpreted functions (mem(addr), crc(old, byte), crc(addr), crc(addr, size)); memory not flashed in the history keeps its content',
                 'read buffers handed to the read handlers are 20 bytes (ATT_MTU 23)',
                 'after a rejected data write the model no longer tracks the content of the session (the client can not know how much was consumed); range and memory-safety checks continue',
                 'empty ranges (size 0) touch no memory and are allowed anywhere',
                 'CBMC object granularity: an overflow from one member of the controller object into another member is not detected by pointer checks (read_mem/page bounds are asserted explicitly instead)'],
    explanation='every range handed to start_flash / read_mem / checksum32 / public_read_mem / public_checksum32 is asserted to lie inside one white-listed region; '
                'written values are exact-size objects so any read beyond them fails a pointer check inside the real code; a ghost model of the flash session '
                '(start address, received bytes, checksum chain over uninterpreted crc) is compared with the pages handed to start_flash and with the checksums announced '
                'in Start Flash / Flush / Get CRC responses and progress notifications',
    outside=['histories longer than 4 operations; write sizes above 20 bytes', 'the GATT plumbing around the controller (see C01/C06/C10)',
             'liveness (that all received data is eventually flashed without a Flush)', 'what run(address) starts (Start procedure is not range checked by the statement)',
             'page sizes / region lists other than the four configurations; 32 bit targets'],
)
