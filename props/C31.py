import os
from vf.core import Property, Harness, Unit

MUX = Unit('l2cap_mux', description='details::l2cap<link layer stub, connection data, 3 recording channels> for two channel sets: '
           'CIDs 4/5/6 (MTU min/max 23/31, 20/23, 25/27) and CIDs 0x0004/0x0104/0x0401 (23/23, 27/29, 24/26); channels and the '
           "link layer's buffer API are environment functions of the harness")
SIG = Unit('l2cap_sig', description='l2cap::signaling_channel<> with raw state access')


_DIFF = int(os.environ.get('C31_DIFF', '300'))     # debugging aid: fewer differential iterations on an overloaded machine


def _flt(cs):
    # debugging aid: C31_FILTER="c['MODE']==0 and c['N']==8" restricts the cases that are run (never set in a regular run)
    f = os.environ.get('C31_FILTER')
    return [c for c in cs if eval(f, {'c': c})] if f else cs


def mux_cases(tier):
    cs = []
    q = tier == 'quick'
    nmax = 31 if q else 36
    for cfg in (0, 1):
        # quick: for the first channel set every size around the header and a spread of larger ones, for the second a few; thorough: all
        sizes = range(0, nmax + 1) if not q else (0, 1, 2, 3, 4, 5, 6, 7, 8, 12, 16, 23, 27, 31) if cfg == 0 else (3, 4, 5, 12, 31)
        for n in sizes:
            cs.append({'CFG': cfg, 'MODE': 0, 'N': n, 'EXTRA': 0, 'NBUF': 1})
        for n in (((4, 31) if cfg == 0 else ()) if q else (0, 3, 4, 5, 6, 12, 31, 36)):
            cs.append({'CFG': cfg, 'MODE': 0, 'N': n, 'EXTRA': 3, 'NBUF': 1})
        for extra in ((0,) if q and cfg == 1 else (0, 3)):
            cs.append({'CFG': cfg, 'MODE': 1, 'N': 0, 'EXTRA': extra, 'NBUF': 1})
        for nbuf in ((2,) if q and cfg == 1 else range(0, 4) if q else range(0, 5)):
            it = min(nbuf, 3) + 2       # the poll loop runs once per transmitted frame (<= 3 channels, <= NBUF buffers) plus a last, empty round
            cs.append({'CFG': cfg, 'MODE': 2, 'N': 0, 'EXTRA': 0, 'NBUF': nbuf, '_unwindset': 'vf_mux_poll_all.0:%d,vf_mux_poll_all.1:%d' % (it, it)})
    return _flt(cs)


def sig_cases(tier):
    cs = []
    q = tier == 'quick'
    base = {'MODE': 0, 'OP': 0, 'CLS': 0, 'N': 0, 'OUTCAP': 23, 'K': 0}
    cs.append(dict(base))
    for cap in ((23,) if q else (12, 23, 65)):
        cs.append(dict(base, OP=1, OUTCAP=cap))
    # CLS 4 = command code fully symbolic (covers CLS 0..3 in one query); the thorough tier also runs the split by code
    for n in ((0, 1, 2, 3, 4, 5, 6, 7, 8, 12) if q else range(0, 17)):
        cs.append(dict(base, OP=2, CLS=4, N=n))
        if not q and 1 <= n <= 12:
            for cls in range(4):
                cs.append(dict(base, OP=2, CLS=cls, N=n))
    for k, ns in ((4, (6,)),) if q else ((4, (1, 2, 6, 8)), (5, (6,))):
        for n in ns:
            cs.append(dict(base, MODE=1, K=k, N=n))
    return _flt(cs)


PROPERTY = Property(
    'C31',
    [Harness('c31_mux', MUX, 'harness/c31_mux.c', mux_cases, unwind=40, timeout=300, diff_iters=_DIFF,
             description='real L2CAP multiplexer: one symbolic incoming frame per size (delivery, payload, reply framing, drop), '
                         'single poll and poll loop for pending channel output',
             bounds='two channel sets of three channels; incoming frame sizes 0..8, 12, 16, 23, 27, 31 (quick; second channel set 3, 4, 5, 12, 31) / every size 0..36 (thorough), every byte symbolic; '
                    'reply / pending output of symbolic size 0..36 clipped to what the channel is offered, symbolic bytes; link layer '
                    'buffer of exactly maximum MTU + 4 (+3) bytes or none; poll loop with 0..4 buffers and any subset of channels pending'),
     Harness('c31_sig', SIG, 'harness/c31_sig.c', sig_cases, unwind=26, timeout=300, diff_iters=_DIFF,
             description='real signaling channel: inductive step from every state satisfying the invariant with one operation, and '
                         'histories from construction against a black box model',
             bounds='step: every state (idle/queued/transmitted, identifier 1..255, any parameters) x {request with any parameters, '
                    'output poll into 23 (12, 65) bytes, incoming command of 0..8, 12 (quick) / 0..16 (thorough) bytes with symbolic code (thorough in addition split by code 0x01, 0x12, '
                    '0x13, other for 1..12 bytes), all other bytes symbolic}; histories: 4 (thorough also 5) symbolic operations from construction '
                    'with commands of 6 (thorough also 1, 2, 8) symbolic bytes')],
    functions=['details::l2cap<LinkLayer,ChannelData,Channels...>::handle_l2cap_input', 'details::l2cap<...>::transmit_single_pending_l2cap_output',
               'details::l2cap<...>::transmit_pending_l2cap_output', 'details::l2cap<...>::l2cap_input_handler::each', 'details::l2cap<...>::l2cap_output_handler::each',
               'details::l2cap<...>::minimum_mtu_size / maximum_mtu_size', 'details::read_16bit / write_16bit',
               'l2cap::signaling_channel<>::l2cap_input', 'l2cap::signaling_channel<>::l2cap_output', 'l2cap::signaling_channel<>::reject_command',
               'l2cap::signaling_channel<>::connection_parameter_update_request', 'l2cap::signaling_channel<>::signaling_channel'],
    bounds='multiplexer: 2 channel sets x frame sizes up to 31 (quick: 14 + 5 sizes) / every size 0..36 (thorough) x all contents; signaling channel: single step from all '
           'states satisfying the invariant (covers histories of any length by induction) for commands up to 12 (quick) / 16 (thorough) bytes, plus histories of 4/5 operations',
    assumptions=['link layer stub contract: allocate_l2cap_output_buffer( n ) returns { 0, nullptr } or a buffer of n + 4 (+3) bytes, i.e. n is the '
                 'payload size without L2CAP header (this is what link_layer<>::allocate_l2cap_output_buffer does); a buffer stays available until it is committed',
                 'channel stub contract: l2cap_input / l2cap_output write at most the number of bytes they are offered and report that size; '
                 'a channel with pending output delivers it at the first poll',
                 'signaling channel: representation invariant pending_status_ in {idle, queued, transmitted} and identifier_ != 0 (shown after '
                 'construction and re-established by every operation)',
                 'signaling channel: the output buffer offered is at least 12 bytes for l2cap_output (asserted precondition in the code) and 23 bytes '
                 '(minimum channel MTU) for l2cap_input',
                 'reading of "matching response": code 0x13 with identifier equal to the transmitted, unanswered request; with wrong length it may or may '
                 'not be accepted; reading of "advance": next identifier non-zero and different; Command Reject is required for well formed non-response '
                 'commands with non-zero identifier, silence is allowed for response codes, malformed commands and identifier 0'],
    explanation='Multiplexer: for every frame size one solver query with all bytes (length field, CID, payload) symbolic decides that a channel is '
                'called only for a complete header with matching length field and a CID of the set, that it is the named channel, that it sees exactly '
                'the payload, that the output area offered lies inside the exact-size buffer, and that what is committed is header(length, same CID) + '
                'the channel output, inside the buffer; polling is decided the same way for every subset of pending channels. Signaling channel: '
                'an inductive step from an arbitrary state decides request-once, response matching by code and identifier, identifier advance without 0, '
                'and the shape of every answer (Command Reject echoing a non-zero identifier); histories from construction repeat this black box.',
    outside=['channel sets other than the two listed; the composition used by link_layer<> (ATT server, signaling channel, security manager) is covered '
             'by the properties of those channels', 'fragmentation / reassembly of L2CAP frames (ll_l2cap_sdu_buffer, C19)',
             'a link layer whose allocate function returns exactly the requested number of bytes including the header (the mock in tests/l2cap_tests.cpp): '
             'handle_l2cap_input then offers the channel 4 bytes more than the buffer has',
             'retransmission / timeout of an unanswered request (not implemented: a request that is never answered blocks further requests)'],
)
