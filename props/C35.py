from vf.core import Property, Harness
from .units_sm import SM_LEGACY, SM_LESC, SM_COMB, KIND_CFGS, SMP_SIZE, HANDLED, history_cases, env_filter

# step harness: quick = the option sets where an authenticated method can be selected; thorough = all 12 configurations
QUICK_STEP = {0: [1, 3], 1: [6], 2: [9, 11]}
# histories from reset (they observe the temporary key of the legacy exchange): a legacy pairing needs 3 PDUs
# measured: combined manager, cfg 11, K=3: 837 s / 2.8 GB -> thorough only
QUICK_HIST = {0: [0, 1, 2, 3], 1: [], 2: []}
K = {'quick': {0: 4, 1: 2, 2: 3}, 'thorough': {0: 6, 1: 4, 2: 3}}


def mk_cases(kind):
    def cases(tier):
        quick = tier == 'quick'
        step_cfgs = QUICK_STEP[kind] if quick else KIND_CFGS[kind]
        hist_cfgs = QUICK_HIST[kind] if quick else KIND_CFGS[kind]
        mtu = 23 if kind == 0 else 65
        cs = []
        for cfg in step_cfgs:
            for opc in HANDLED[kind]:
                cs.append({'CFG': cfg, 'MODE': 0, 'OP': 0, 'OPC': opc, 'LEN': SMP_SIZE[opc], 'K': 0})
            for l in ([1, mtu] if quick else [0, 1, 7, 16, 17, mtu]):
                cs.append({'CFG': cfg, 'MODE': 0, 'OP': 0, 'OPC': 255, 'LEN': l, 'K': 0})
            cs.append({'CFG': cfg, 'MODE': 0, 'OP': 1, 'OPC': 0, 'LEN': 0, 'K': 0})          # l2cap_output poll
            if cfg in (6, 9):
                cs.append({'CFG': cfg, 'MODE': 0, 'OP': 2, 'OPC': 0, 'LEN': 0, 'K': 0})      # user answers yes / no
        return env_filter(cs + history_cases(hist_cfgs, K[tier][kind]))
    return cases


FLAGS = ['-DVF_MAX_INPUTS=4096']
CBMC = ['--max-field-sensitivity-array-size', '4096']
COMMON = dict(unwind=70, timeout=3600, flags=FLAGS, cbmc_flags=CBMC, object_bits=14, diff_iters=200, diff_cases=4)
PROPERTY = Property(
    'C35',
    [Harness('c35_status_legacy', SM_LEGACY, 'harness/c35_status.c', mk_cases(0),
             description='legacy manager: local_device_pairing_status() after one step from every pairing state, and after every operation of bounded histories from reset in which the source of the temporary key is observed',
             bounds='cfg 0..4 (quick: step 1, 3; histories 0..3); histories K=4 (quick) / 6 (thorough)', **COMMON),
     Harness('c35_status_lesc', SM_LESC, 'harness/c35_status.c', mk_cases(1),
             description='LESC manager: status after one step from every pairing state (synchronous / asynchronous / refused user confirmation)',
             bounds='cfg 5..7 (quick: 6 = numeric output + yes/no); histories (thorough only) K=4', **COMMON),
     Harness('c35_status_comb', SM_COMB, 'harness/c35_status.c', mk_cases(2),
             description='combined manager: same, legacy and LESC exchanges',
             bounds='cfg 8..11 (quick: step 9, 11); histories (thorough only) K=3', **COMMON)],
    functions=['details::legacy_security_connection_data::local_device_pairing_status', 'details::lesc_security_connection_data::local_device_pairing_status',
               'details::security_connection_data::local_device_pairing_status, ::legacy_pairing_completed, ::lesc_pairing_completed',
               'details::security_manager_base::legacy_create_temporary_key / legacy_temporary_key / legacy_handle_pairing_confirm / legacy_handle_pairing_random',
               'details::security_manager_base::lesc_handle_pairing_random / lesc_handle_pairing_dhkey_check / lesc_l2cap_output', 'pairing_yes_no::sm_pairing_request_yes_no, yes_no_response',
               'the pairing handlers of C32 (they decide when a pairing is completed)'],
    bounds='12 manager configurations of shims/sm.cpp (3 managers x IO / OOB / bonding option sets; quick: those where an authenticated method can be selected); step: every pairing state with all members symbolic x one PDU (handled opcodes at exact length; any opcode at lengths 1 and MTU, thorough also 0, 7, 16, 17) / one poll / one user answer; histories from reset: 4 / 6 operations (legacy manager, quick / thorough), 3 (combined, thorough only), 4 (LESC, thorough only)',
    assumptions=['as C32: crypto tool box, RNG, keyboard, OOB callback, bond data base arbitrary (every call returns unconstrained symbolic values, logged); yes_no_response() only while the request is outstanding',
                 '"pairing completed" = the reference responder automaton of c32_sm_model.h reached "completed" (the peripheral sent Srand after the confirm check / its DHKey check Eb) and no Pairing Failed / new pairing since',
                 'legacy: "authenticated" = the TK of both c1() computations was a generated / typed passkey or the OOB data of the callback while the request carried the OOB flag; LESC: = the user answered yes to the numeric comparison of this pairing, or f6 was called with r != 0',
                 'authenticated_key and authenticated_key_with_secure_connection both count as "authenticated"',
                 'step harness invariant: the algorithm member holds a value the selection functions of the configuration can return (OOB only with OOB data present); pairing state user_response_* only with algorithm numeric_comparison, lesc_pairing_random_exchanged only without; combined manager: pairing_status_ is a key status when completed; induction hypothesis: the status reported before the step is right',
                 'step harness, legacy exchange: the TK source is read from the algorithm member (abstraction); the histories check that abstraction against the observed RNG / keyboard / OOB calls'],
    explanation='local_device_pairing_status() is compared after every operation with what the reference automaton and the ghost log say about the exchange the central actually drove: no_key unless the automaton is in "completed"; after a completion, authenticated iff the executed exchange authenticated the peer (observed temporary key source for legacy; user confirmation of the numeric comparison for LESC), unauthenticated otherwise. The step harness starts from every pairing state under the induction hypothesis that the currently reported status is right and shows it is right after any one operation; the histories from reset observe the temporary key end to end.',
    outside=['LESC passkey entry and LESC OOB: not implemented by bluetoe (the Just Works exchange is executed when they are selected), so "a completed LESC passkey-entry or OOB protocol" never occurs; the oracle would accept it (f6 with r != 0)',
             'whether Eb is sent without a verified Ea after an asynchronous user confirmation (C32, known finding there)', 'pairing_keyboard with a LESC capable manager (does not compile)',
             'histories longer than the bounds that the step argument does not cover (TK observation of the legacy exchange)',
             'quick tier: the temporary key of the combined manager\'s legacy exchange is observed only in the thorough tier (history of 3 operations: 837 s, 2.8 GB); quick covers it in the step harness through the algorithm member and observes the key for the legacy manager, which instantiates the same security_manager_base handlers'],
)
