from vf.core import Property, Harness, Unit

DESCR = {0: 'B1: 2 primary services (128/16 bit), auto/16/128 bit characteristic UUIDs, CCCDs, user description, descriptor, default GAP service (21 attributes)',
         1: 'B2: attribute_handle<> on service and characteristic, attribute_handles<> with/without CCCD, gaps up to 0x3000 (21 attributes)',
         2: 'B3: primary + secondary services, include_service 16/128 bit, fixed handles (16 attributes)',
         3: 'B4: secondary service + include_service without fixed handles (documentation example), GAP service (12 attributes)'}
DESCR[7] = 'B8: primary, secondary, primary service, all with 16 bit UUIDs and one read-only characteristic each (9 attributes)'
DESCR[8] = 'B9: secondary service with 128 bit UUID and a handle gap inside the service (attribute_handle<> on its second characteristic), included by a primary service (9 attributes)'
UNITS = {c: Unit('att_b%d' % c, shim='shims/att_b.cpp', flags=['-DVF_BCFG=%d' % c], description=d) for c, d in DESCR.items()}


def cases_for(cfg):
    def cases(tier):
        cs = [{'CFG': cfg, 'MODE': 0, 'MTU': 23}]
        for mtu in ((23, 65) if tier == 'quick' else (23, 24, 40, 65)):
            cs.append({'CFG': cfg, 'MODE': 1, 'MTU': mtu})
        return cs
    return cases


PROPERTY = Property(
    'C04',
    [Harness('c04_handles_b%d' % c, UNITS[c], 'harness/c04_handles.c', cases_for(c), unwind=24, timeout=600,
             description='handle mapping functions and Read Request over all handles against the expected table of ' + DESCR[c],
             bounds='index: every attribute index; handle: all 2^16 values, one solver query each; Read Request: all 2^16 handles, bound values symbolic, MTU 23/65 (quick) 23/24/40/65 (thorough)')
     for c in sorted(UNITS)],
    functions=['details::handle_index_mapping::handle_by_index', 'details::handle_index_mapping::first_index_by_handle', 'details::handle_index_mapping::index_by_handle',
               'details::service_index_mapping / interate_characteristic_index_mappings / characteristic_index_mapping', 'server::handle_read_request', 'server::check_handle',
               'char_declaration_access', 'generate_attribute<include_service<...>>::access (details::service_handles)', 'generate_attribute<service_defintion_tag>::access', 'server::attribute_at'],
    bounds='server declarations B1..B4; all indices; all 16 bit handles; MTU 23..65 at the listed values',
    assumptions=['every attribute of the configurations is readable without encryption', 'CCCD values are those of a fresh connection (0x0000)',
                 'the expected handles follow the documentation of attribute_handle<> / attribute_handles<> and the GATT ordering rules (c02_tables.h)'],
    explanation='the three mapping functions of the real handle_index_mapping are evaluated for a symbolic index and a symbolic handle and compared with a hand-written '
                'attribute table per declaration (unique, non-zero, increasing handles, fixed handles honoured, gaps map to nothing); a Read Request for a symbolic handle '
                'must return exactly the value of the attribute the table has at that handle, which pins the value handle named by every characteristic declaration and '
                'the first/last handle and UUID named by every include declaration to the handles under which those attributes are really accessed',
    outside=['server declarations other than B1..B4', 'bluetoe::secondary_service<> (a server using it does not compile: handle_index_mapping has no specialisation for the derived class; service<is_secondary_service,...> is used)',
             'indices >= number of attributes'],
)
