# C19 - L2CAP fragmentation and reassembly are exact and memory safe (ll_l2cap_sdu_buffer.hpp)
import os
from vf.core import Property, Harness, Unit, REPO

SDU = Unit('sdu', includes=['stubs', REPO + '/bluetoe/bindings/nordic/include'],
           description='bluetoe::link_layer::ll_l2cap_sdu_buffer<Radio, Callbacks, MTU> for MTU 65 with default_pdu_layout and with nrf_details::encrypted_pdu_layout (layout overhead 1), MTU 40 with default_pdu_layout; the buffered radio below it is the environment')

LOVH = {0: 0, 1: 1, 2: 0}
MTU = {0: 65, 1: 65, 2: 40}
START, CONT, CTRL = 2, 1, 3
# the receive loop of next_ll_l2cap_received() (one inlined copy per configuration): at most one PDU is pending per call
RXLOOPS = ','.join('vf_sdu_next_ll_l2cap_received.%d:2' % i for i in range(3))
# try_send_pdus(): one outlined copy per configuration
TXFUNCS = ['_ZN7bluetoe10link_layer19ll_l2cap_sdu_bu_6eac0fa2', '_ZN7bluetoe10link_layer19ll_l2cap_sdu_bu_97e122cc', '_ZN7bluetoe10link_layer19ll_l2cap_sdu_bu_c13fa867']


def rx_case(cfg, shape, tw=0):
    c = {'CFG': cfg, 'K': len(shape), 'TW': tw, 'T0': 0, 'T1': 0, 'T2': 0, 'T3': 0, 'Z0': 0, 'Z1': 0, 'Z2': 0, 'Z3': 0}
    for i, (t, z) in enumerate(shape):
        c['T%d' % i] = t; c['Z%d' % i] = z
    mx = max(z for _, z in shape) + 2 + LOVH[cfg]
    c['MAXCOPY'] = mx
    c['_unwindset'] = RXLOOPS + ',memmove.0:%d,in_bytes.0:%d' % (mx + 1, mx + 1)
    return c


def rx_cases(tier):
    """the shape (LLID and payload size of every PDU) is the case split; L2CAP length field, CID, all bytes stay symbolic"""
    S, C, L = START, CONT, CTRL
    cs = [
        rx_case(2, [(S, 27), (C, 27)]),                     # MTU 40: second fragment is longer than the announced rest can be
        rx_case(2, [(C, 50)]),                              # orphaned continuation larger than the reassembly buffer
        rx_case(2, [(S, 27), (C, 10), (C, 5)], tw=1),
        rx_case(0, [(S, 27), (C, 27), (C, 27)]),
        rx_case(0, [(S, 27), (S, 10), (C, 27)]),            # repeated start
        rx_case(0, [(S, 27), (L, 5), (C, 27)]),             # LL control PDU between the fragments
        rx_case(0, [(C, 27), (S, 27), (C, 27)]),            # orphaned continuation first
        rx_case(1, [(S, 27), (C, 27), (C, 27)]),            # nRF encrypted layout
        rx_case(0, [(S, 3), (C, 27)]),                      # start without complete L2CAP header
        rx_case(0, [(S, 4), (C, 5), (C, 27)]),
        rx_case(0, [(S, 5), (C, 0), (C, 27)]),
        rx_case(0, [(L, 0), (S, 27), (L, 27), (C, 27)]),
    ]
    if tier == 'quick':
        return cs
    sizes = (0, 3, 4, 5, 13, 27)
    for cfg in (0, 1, 2):
        for a in sizes:
            for b in sizes:
                if cfg == 1 and a != b: continue        # nRF layout: diagonal only (same code, other constants)
                cs.append(rx_case(cfg, [(S, a), (C, b), (C, 27)]))
        for b in sizes:
            cs.append(rx_case(cfg, [(S, 27), (L, b), (C, 27)]))
            cs.append(rx_case(cfg, [(S, 27), (S, b), (C, 27)]))
            cs.append(rx_case(cfg, [(C, b), (S, 27), (C, 27)]))
        cs.append(rx_case(cfg, [(S, 27), (C, 27), (C, 27)], tw=1))
        cs.append(rx_case(cfg, [(S, 27), (C, 27), (S, 27), (C, 27)]))
        cs.append(rx_case(cfg, [(S, 27), (C, 13), (L, 2), (C, 27)]))
    # long PDUs (LE data packet length extension)
    for cfg in (0, 1, 2):
        cs.append(rx_case(cfg, [(S, 60), (C, 60)]))
        cs.append(rx_case(cfg, [(C, 251)]))
        cs.append(rx_case(cfg, [(S, 251)]))
    seen = set(); out = []
    for c in cs:
        k = tuple(sorted(c.items()))
        if k not in seen:
            seen.add(k); out.append(c)
    return out


def tx_case(cfg, payload, n, av, ll=5):
    txmax = payload + 2 + LOVH[cfg]
    frags = 2 + (n + 4 + payload - 1) // payload     # bound for the fragment loop
    uws = ['%s.0:%d' % (f, frags + 1) for f in TXFUNCS]
    uws += ['memmove.0:%d' % (txmax + 1), 'in_bytes.0:%d' % (MTU[cfg] + 4 + 2 + LOVH[cfg] + 1)]
    return {'CFG': cfg, 'TXMAX': txmax, 'ROUNDS': 3, 'N': n, 'AV': av, 'LL': ll, 'MAXCOPY': txmax, '_unwindset': ','.join(uws)}


def tx_cases(tier):
    cs = []
    if tier == 'quick':
        for n in (0, 22, 23, 24, 50, 65):
            cs.append(tx_case(0, 27, n, 0xffff))
        for n in (24, 65):
            cs.append(tx_case(0, 27, n, 0xfff5, ll=2))
        cs.append(tx_case(0, 27, 65, 0xffe0, ll=7))
        cs.append(tx_case(1, 27, 65, 0xffff))
        cs.append(tx_case(1, 27, 23, 0xfffe))
        cs.append(tx_case(2, 27, 40, 0xfff5))
        cs.append(tx_case(0, 30, 56, 0xffff))       # exact multiple: 60 = 2 * 30
        cs.append(tx_case(0, 30, 57, 0xffff))       # exact multiple + 1
        cs.append(tx_case(0, 100, 65, 0xffff))
        return cs
    for cfg in (0, 1, 2):
        for payload in (27, 30, 251):
            for n in range(0, MTU[cfg] + 1):
                if n not in (0, 1, 22, 23, 24, 25, 26, 27, 28, 40, 50, 52, 55, 56, 57, 58, 64, 65) and not (payload == 27 and cfg == 0): continue
                for av, ll in ((0xffff, 5), (0xfff5, 2)):
                    if av != 0xffff and not (n % 8 == 0 or n in (22, 23, 24, MTU[cfg])): continue
                    cs.append(tx_case(cfg, payload, n, av, ll))
        for av, ll in ((0xfffe, 0), (0xffe0, 7), (0xffe0, 0), (0xfeaa, 3)):
            for n in (23, 24, MTU[cfg]):
                cs.append(tx_case(cfg, 27, n, av, ll))
    return cs


RX_BOUNDS = ('MTU 65 (default and nRF encrypted layout), MTU 40; from construction K <= 4 PDUs; the shape (LLID and payload size of every PDU) is enumerated: quick 12 shapes (start/continuation sequences with '
             'payload sizes 0..27 and 50, repeated start, orphaned continuation, interleaved LL control PDU, call repeated); thorough: start/continuation/continuation with payload sizes from {0,1,3,4,5,13,26,27} '
             'in every combination, start-control-continuation, start-start-continuation, continuation-start-continuation with the middle/first PDU of every listed size, 4 PDU sequences, PDUs of 60 and 251 byte payload, '
             'for all three configurations; per case the L2CAP length field (any 16 bit value), CID and all PDU bytes are symbolic')
TX_BOUNDS = ('one SDU from construction; payload size N enumerated (quick: 0,22,23,24,50,65 and exact multiples of the fragment size; thorough: every 0..65 for MTU 65 / 27 byte fragments / default layout, 18 sizes around the multiples of the fragment size otherwise), max_tx_size 27/30/251 (quick also 100) byte payload, availability patterns of the '
             'radio\'s transmit buffers (always; first request refused; alternating; five refusals first), 3 further calls of next_ll_l2cap_received()/allocate_ll_transmit_buffer() (enumerated patterns); all SDU bytes symbolic')

PROPERTY = Property(
    'C19',
    [Harness('c19_rx', SDU, 'harness/c19_rx.c', rx_cases, unwind=8, unwindset=['harness.1:200', 'memory_ok.0:200'], timeout=600, diff_iters=300, diff_cases=6,
             flags=['-DVF_MAX_INPUTS=1024'],
             description='incoming: K PDUs of enumerated shape with symbolic content into the real next_ll_l2cap_received()/free_ll_l2cap_received(); deliveries compared with a reassembly written from the statement; all bytes of the object behind the reassembly buffer are canaries',
             bounds=RX_BOUNDS),
     Harness('c19_tx', SDU, 'harness/c19_tx.c', tx_cases, unwind=18, unwindset=['harness.1:80'], timeout=600, diff_iters=300, diff_cases=6,
             flags=['-DVF_MAX_INPUTS=512'],
             description='outgoing: one SDU with symbolic bytes through the real commit_l2cap_transmit_buffer()/try_send_pdus() into a stub radio that checks type, size and content of every fragment',
             bounds=TX_BOUNDS)],
    functions=['ll_l2cap_sdu_buffer::next_ll_l2cap_received', 'll_l2cap_sdu_buffer::add_to_receive_buffer', 'll_l2cap_sdu_buffer::free_ll_l2cap_received',
               'll_l2cap_sdu_buffer::allocate_l2cap_transmit_buffer', 'll_l2cap_sdu_buffer::commit_l2cap_transmit_buffer', 'll_l2cap_sdu_buffer::try_send_pdus',
               'll_l2cap_sdu_buffer::allocate_ll_transmit_buffer', 'll_l2cap_sdu_buffer::commit_ll_transmit_buffer'],
    bounds=RX_BOUNDS + ' | ' + TX_BOUNDS,
    assumptions=['the radio delivers PDUs with LLID 1..3 whose length field equals their payload size (LLID 0 is reserved and not generated)',
                 'the link layer calls free_ll_l2cap_received() after every delivered PDU/SDU before the next PDU arrives (at most one PDU is pending in the radio per call)',
                 'the L2CAP layer writes the L2CAP length field equal to the payload size it allocated',
                 'a new start fragment ends a reassembly in progress (Core spec: a start fragment begins a new L2CAP PDU); overlong fragments may be cut at the announced length or the SDU dropped (permissive)',
                 'memmove (std::copy) is modelled by a bounded byte loop under CBMC; source and destination are distinct objects (asserted)'],
    explanation='incoming PDUs are exact-size objects of the radio, their content symbolic; the oracle reassembles independently (start opens, continuations append, announced length closes) and compares size, origin and one universally quantified byte of every delivery; after every call receive_buffer_used_ + receive_size_ <= sizeof receive_buffer_ and all bytes of the ll_l2cap_sdu_buffer object behind receive_buffer_ other than the two counters (symbolic canary values) are compared (intra-object overflow detection; a copy starts inside the buffer and runs upwards, so an overflow hits the first canary); outgoing fragments are checked in the stub radio at commit time (type, length field, size <= max_tx_size, one universally quantified SDU byte, total)',
    outside=['payload sizes of the incoming PDUs outside the enumerated sets; more than 4 PDUs; more than one PDU pending in the radio when next_ll_l2cap_received() is called; LLID 0',
             'the specialisation for the default MTU 23 (pure forwarding)',
             'max_tx_size changing between the fragments of one SDU',
             'writes of try_send_pdus() behind the requested size but inside the radio\'s (max_tx_size large) transmit buffer'],
)
