import os
from vf.core import Property, Harness, Unit, REPO

SDU = Unit('sdu', includes=['stubs', REPO + '/bluetoe/bindings/nordic/include'],
           description='bluetoe::link_layer::ll_l2cap_sdu_buffer<Radio, Callbacks, MTU> for MTU 65 with default_pdu_layout and with nrf_details::encrypted_pdu_layout (layout overhead 1), MTU 40 with default_pdu_layout; the buffered radio below it is the environment')

LOVH = {0: 0, 1: 1, 2: 0}


def rx_cases(tier):
    """the shape (LLID and payload size of every PDU) is the case split; L2CAP length field, CID, all bytes stay symbolic"""
    cs = []
    def add(cfg, shape, payload=27):
        c = {'CFG': cfg, 'K': len(shape), 'RXMAX': payload + 2 + LOVH[cfg], 'T0': -1, 'T1': -1, 'T2': -1, 'T3': -1, 'Z0': -1, 'Z1': -1, 'Z2': -1, 'Z3': -1, '_unwind': 8}
        for i, (t, z) in enumerate(shape):
            c['T%d' % i] = t; c['Z%d' % i] = z
        cs.append(c)
    START, CONT, CTRL = 2, 1, 3
    sizes = (0, 3, 4, 5, 27) if tier == 'quick' else (0, 1, 3, 4, 5, 13, 26, 27)
    cfgs = (0,) if tier == 'quick' else (0, 1, 2)
    for cfg in cfgs:
        # start, continuation, continuation with every combination of the listed payload sizes
        for a in sizes:
            for b in sizes:
                add(cfg, [(START, a), (CONT, b), (CONT, 27)])
        # interleaved control PDU, repeated start, orphaned continuation
        for b in sizes:
            add(cfg, [(START, 27), (CTRL, b), (CONT, 27)])
            add(cfg, [(START, 27), (START, b), (CONT, 27)])
            add(cfg, [(CONT, b), (START, 27), (CONT, 27)])
    if tier != 'quick':
        for cfg in (0, 1):
            add(cfg, [(START, 251), (CONT, 251)], payload=251)
            add(cfg, [(CONT, 251), (START, 27)], payload=251)
    return cs


def tx_cases(tier):
    cs = []
    ns = (0, 1, 22, 23, 24, 50, 65) if tier == 'quick' else range(0, 66)
    for cfg in ((0,) if tier == 'quick' else (0, 1, 2)):
        for payload in (27, 100, 251):
            for n in ns:
                if n > {0: 65, 1: 65, 2: 40}[cfg]: continue
                for av in (0xffff, 0xfffe, 0xfff5, 0xffe0):
                    cs.append({'CFG': cfg, 'TXMAX': payload + 2 + LOVH[cfg], 'ROUNDS': 3, 'N': n, 'AV': av, '_unwind': 6})
    return cs


RX_BOUNDS = ('MTU 65 (default and nRF encrypted layout), MTU 40; from construction K = 3 PDUs (thorough: also 2 PDUs of 251 byte payload); the shape (LLID and payload size of every PDU) is enumerated: '
             'start/continuation/continuation with payload sizes from {0,3,4,5,27} (thorough {0,1,3,4,5,13,26,27}) in every combination, and start-control-continuation, start-start-continuation, '
             'continuation-start-continuation with the middle/first PDU of every listed size; per case the L2CAP length field (any 16 bit value), CID and all PDU bytes are symbolic; '
             'quick: default layout MTU 65 only')
TX_BOUNDS = ('one SDU from construction; payload size N enumerated (quick: 0,1,22,23,24,50,65; thorough: every 0..MTU), max_tx_size 27/100/251 byte payload, 4 availability patterns of the radio\'s transmit buffers '
             '(always; first request refused; alternating; five refusals first), 3 further calls of next_ll_l2cap_received()/allocate_ll_transmit_buffer() (symbolic choice); all SDU bytes symbolic')

PROPERTY = Property(
    'C19',
    [Harness('c19_rx', SDU, 'harness/c19_rx.c', rx_cases, unwind=8, unwindset=['in_bytes.0:66', 'harness.1:200', 'take_snapshot.0:200', 'check_memory.0:200'], timeout=900, diff_iters=300, diff_cases=6,
             flags=['-DVF_MAX_INPUTS=512'],
             description='incoming: K PDUs of enumerated shape with symbolic content into the real next_ll_l2cap_received()/free_ll_l2cap_received(); deliveries compared with a reassembly written from the statement; all bytes of the object outside the reassembly buffer are canaries',
             bounds=RX_BOUNDS),
     Harness('c19_tx', SDU, 'harness/c19_tx.c', tx_cases, unwind=6, unwindset=['in_bytes.0:76', 'harness.0:17', 'harness.1:9', 'harness.2:17', 'harness.3:17', 'harness.4:74'], timeout=900, diff_iters=300, diff_cases=6,
             flags=['-DVF_MAX_INPUTS=512'],
             description='outgoing: one SDU with symbolic bytes through the real commit_l2cap_transmit_buffer()/try_send_pdus() into a stub radio that checks type, size and content of every fragment',
             bounds=TX_BOUNDS)],
    functions=['ll_l2cap_sdu_buffer::next_ll_l2cap_received', 'll_l2cap_sdu_buffer::add_to_receive_buffer', 'll_l2cap_sdu_buffer::free_ll_l2cap_received',
               'll_l2cap_sdu_buffer::allocate_l2cap_transmit_buffer', 'll_l2cap_sdu_buffer::commit_l2cap_transmit_buffer', 'll_l2cap_sdu_buffer::try_send_pdus',
               'll_l2cap_sdu_buffer::allocate_ll_transmit_buffer', 'll_l2cap_sdu_buffer::commit_ll_transmit_buffer'],
    bounds=RX_BOUNDS + ' | ' + TX_BOUNDS,
    assumptions=['the radio delivers PDUs with LLID 1..3 whose length field equals their payload size, at most RXMAX bytes (LLID 0 is reserved and not generated)',
                 'the link layer calls free_ll_l2cap_received() after every delivered PDU/SDU before the next PDU arrives',
                 'the L2CAP layer writes the L2CAP length field equal to the payload size it allocated',
                 'a new start fragment ends a reassembly in progress (Core spec: a start fragment begins a new L2CAP PDU); overlong fragments may be cut at the announced length or the SDU dropped (permissive)'],
    explanation='incoming PDUs are exact objects of the radio, their content symbolic; the oracle reassembles independently (start opens, continuations append, announced length closes) and compares size, origin and one universally quantified byte of every delivery, and all bytes of the ll_l2cap_sdu_buffer object outside receive_buffer_ and its two counters before/after every call (intra-object overflow detection); outgoing fragments are checked in the stub radio at commit time',
    outside=['payload sizes of the incoming PDUs outside the enumerated sets; more than 3 PDUs; LLID 0',
             'the specialisation for the default MTU 23 (pure forwarding)',
             'max_tx_size changing between the fragments of one SDU'],
)
