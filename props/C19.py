import os
from vf.core import Property, Harness, Unit, REPO

SDU = Unit('sdu', includes=['stubs', REPO + '/bluetoe/bindings/nordic/include'],
           description='bluetoe::link_layer::ll_l2cap_sdu_buffer<Radio, Callbacks, MTU> for MTU 65 with default_pdu_layout and with nrf_details::encrypted_pdu_layout (layout overhead 1), MTU 40 with default_pdu_layout; the buffered radio below it is the environment')

LOVH = {0: 0, 1: 1, 2: 0}


def rx_cases(tier):
    cs = []
    def add(cfg, k, payload):
        cs.append({'CFG': cfg, 'K': k, 'RXMAX': payload + 2 + LOVH[cfg], '_unwind': 10})
    if tier == 'quick':
        add(0, 3, 27); add(1, 3, 27); add(2, 3, 27)
        add(0, 2, 251)
    else:
        add(0, 4, 27); add(1, 4, 27); add(2, 4, 27)
        add(0, 3, 251); add(1, 3, 251)
    return cs


def tx_cases(tier):
    cs = []
    for cfg in (0, 1, 2):
        for payload in (27, 100, 251):
            cs.append({'CFG': cfg, 'TXMAX': payload + 2 + LOVH[cfg], 'ROUNDS': 3 if tier == 'quick' else 4})
    return cs


PROPERTY = Property(
    'C19',
    [Harness('c19_rx', SDU, 'harness/c19_rx.c', rx_cases, unwind=10, unwindset=['in_bytes.0:66', 'memset.0:260'], timeout=900, diff_iters=400, diff_cases=4,
             flags=['-DVF_MAX_INPUTS=512'],
             description='TODO', bounds='TODO'),
     Harness('c19_tx', SDU, 'harness/c19_tx.c', tx_cases, unwind=18, unwindset=['in_bytes.0:76', 'memset.0:260'], timeout=900, diff_iters=400, diff_cases=4,
             flags=['-DVF_MAX_INPUTS=512'],
             description='TODO', bounds='TODO')],
    functions=[],
    bounds='TODO',
    assumptions=[],
    explanation='TODO',
    outside=[],
)
