from vf.core import Property, Harness, Unit

NQIL = Unit('nq_il', clang_flags=['-mllvm', '-inline-threshold=100000'], resumable=[r'nqil[0-3]_(qn|qi|dq)'], yield_filter=r'^uint8_t:',
            description='bluetoe::notification_queue for the partitions <3>, <1>, <5>, <1,2>; one wrapper per operation with the whole real operation inlined')

DQ_STEPS = {0: 6, 1: 3, 2: 8, 3: 8}   # upper bound of __step() calls per dequeue (checked by the unwinding assertion)

def cases(tier):
    cs = []
    for cfg in (0, 1, 2, 3):
        combos = [(1, 1)] if tier == 'quick' else [(1, 1), (2, 1), (1, 2), (2, 2)]
        for npr, ndq in combos:
            for kinds in range(1 << npr):
                cs.append({'CFG': cfg, 'NPR': npr, 'NDQ': ndq, 'KINDS': kinds,
                           '_unwindset': 'schedule_loop.0:%d' % (npr * 3 + ndq * DQ_STEPS[cfg] + 1)})
    return cs

PROPERTY = Property(
    'C13',
    [Harness('c13_nq_il', NQIL, 'harness/c13_nq_il.c', cases, unwind=49, timeout=900, gen_only=True,
             description='all interleavings of queue_notification/queue_indication calls with dequeue_indication_or_confirmation calls at single memory access granularity, from every representable queue state; conservation oracle',
             bounds='partitions <3>,<1>,<5>,<1,2>; 1 producer call x 1 dequeue (quick), up to 2 producer calls x 2 dequeues (thorough); scheduling points are the accesses to the queue bytes, the only locations both sides touch (partial order reduction: next_, the outstanding index and the out-parameter are private to the consumer); sequential consistency')],
    functions=['notification_queue::queue_notification', 'notification_queue::queue_indication', 'notification_queue::dequeue_indication_or_confirmation',
               'details::notification_queue_impl<Size,C>::add/remove/at', 'details::notification_queue_impl<1,C>'],
    bounds='4 priority partitions (1 to 5 characteristics, including a 2-byte bit field and a single-entry level); every start state; up to 2 producer calls against 2 dequeues; every interleaving of their memory accesses',
    assumptions=['one producer context and one consumer context', 'sequentially consistent memory; a byte load/store is indivisible',
                 'index < number of characteristics (documented precondition)'],
    explanation='the real enqueue and dequeue functions are executed one memory access at a time under a scheduler the solver controls; at quiescence every request must be accounted for exactly once (initially pending + newly queued == dequeued + still pending)',
    outside=['weak memory models', 'more than one producer', 'indication_confirmed()/clear racing with the queue (both only touch state the consumer owns or are documented as connection reset)'],
)
