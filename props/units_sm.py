"""security manager units + case split shared by C32 / C33 (owner: SM harness author)"""
from vf.core import Unit

REPO_TUS = ['bluetoe/utility/address.cpp']
SM_LEGACY = Unit('sm_legacy', shim='shims/sm.cpp', repo_tus=REPO_TUS, flags=['-DVF_SM_KIND=0'],
                 description='legacy_security_manager::impl<Functions, Options...>: no IO / numeric output / keyboard / OOB callback / bonding data base')
SM_LESC = Unit('sm_lesc', shim='shims/sm.cpp', repo_tus=REPO_TUS, flags=['-DVF_SM_KIND=1'],
               description='lesc_security_manager::impl<Functions, Options...>: no IO / numeric output + yes-no / bonding data base')
SM_COMB = Unit('sm_comb', shim='shims/sm.cpp', repo_tus=REPO_TUS, flags=['-DVF_SM_KIND=2'],
               description='security_manager::impl<Functions, Options...>: no IO / numeric output + yes-no / bonding data base / OOB callback')

KIND_CFGS = {0: [0, 1, 2, 3, 4], 1: [5, 6, 7], 2: [8, 9, 10, 11]}
SMP_SIZE = [1, 7, 7, 17, 17, 2, 17, 11, 17, 8, 17, 2, 65, 17, 2, 1]
PAIRING_OPCODES = [1, 3, 4, 12, 13]


HANDLED = {0: [1, 3, 4], 1: [1, 12, 4, 13], 2: [1, 3, 4, 12, 13]}


def step_cases(kind, cfgs, tier):
    """opcodes the manager handles at their exact length: one case each (exact-size PDU object);
    every other (opcode, length) pair: opcode symbolic (OPC=255), one case per length"""
    mtu = 23 if kind == 0 else 65
    lens = {0, 1, 6, 8, 16, 18, mtu}
    if kind != 0: lens |= {64}
    if tier == 'thorough': lens |= {2, 3, 7, 11, 17, mtu - 1}
    cs = []
    for cfg in cfgs:
        for opc in HANDLED[kind]:
            cs.append({'CFG': cfg, 'MODE': 0, 'OP': 0, 'OPC': opc, 'LEN': SMP_SIZE[opc], 'K': 0})
        for l in sorted(lens):
            cs.append({'CFG': cfg, 'MODE': 0, 'OP': 0, 'OPC': 255, 'LEN': l, 'K': 0})
        cs.append({'CFG': cfg, 'MODE': 0, 'OP': 1, 'OPC': 0, 'LEN': 0, 'K': 0})      # l2cap_output poll
        if cfg in (6, 9):
            cs.append({'CFG': cfg, 'MODE': 0, 'OP': 2, 'OPC': 0, 'LEN': 0, 'K': 0})  # user answers yes / no
    return cs


def history_cases(cfgs, k):
    return [{'CFG': cfg, 'MODE': 1, 'OP': 0, 'OPC': 0, 'LEN': 0, 'K': k} for cfg in cfgs]


def env_filter(cases):
    """debugging aid: VF_SM_CASES="CFG=6,OP=1" keeps only the matching cases"""
    import os
    f = os.environ.get('VF_SM_CASES')
    if not f: return cases
    want = dict(x.split('=') for x in f.split(','))
    return [c for c in cases if all(str(c.get(k)) == v for k, v in want.items())]
