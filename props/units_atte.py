"""shim units of the att_e group (C10, C11): the real link_layer around servers with six notify / indicate characteristics"""
from vf.core import Unit

E10_DESCRIPTION = {
    0: 'no outgoing priorities',
    1: 'higher_outgoing_priority< c3, c1 > on service S1 and higher_outgoing_priority< S2 > on the server (priority levels <2,1,1,2>)',
    2: 'higher_outgoing_priority< c2 > on service S1 (priority levels <1,5>)',
    3: 'include_service< S2 > as first attribute of S1 (all later handles + 1), priorities as in configuration 1',
    4: 'a service without characteristics (0x1810) in front of S1 (all handles + 1), no priorities',
}
LL_TUS = ['bluetoe/link_layer/delta_time.cpp', 'bluetoe/link_layer/channel_map.cpp', 'bluetoe/utility/address.cpp', 'bluetoe/link_layer/connection_details.cpp']
ATT_E10 = {n: Unit('att_e10_%d' % n, shim='shims/att_e10.cpp', flags=['-DE10_PART=%d' % n], repo_tus=LL_TUS,
                   description='bluetoe::link_layer::link_layer< bluetoe::server< no GAP service, service S1{c0 notify, c1 indicate, c2 notify+indicate (30 bytes), c3 notify}, '
                               'service S2{c4 notify+indicate, c5 indicate} >, stub radio >, ' + d)
           for n, d in E10_DESCRIPTION.items()}
