from vf.core import Property, Harness
from .units import NQ

def cases(tier):
    cs = []
    cfgs = [0, 1, 3, 4] if tier == 'quick' else [0, 1, 2, 3, 4, 5]
    for cfg in cfgs:
        for op in range(5):
            cs.append({'CFG': cfg, 'MODE': 0, 'OP': op, 'K': 0})
        cs.append({'CFG': cfg, 'MODE': 1, 'OP': 0, 'K': 5 if tier == 'quick' else 8})
        cs.append({'CFG': cfg, 'MODE': 2, 'OP': 0, 'K': 0})
        cs.append({'CFG': cfg, 'MODE': 3, 'OP': 0, 'K': 0})
    return cs

PROPERTY = Property(
    'C12',
    [Harness('c12_nq', NQ, 'harness/c12_nq.c', cases, unwind=16, timeout=600,
             description='real notification_queue vs. set model: inductive step from every representable state, bounded histories from reset, fairness within a level',
             bounds='priority partitions <3>,<1>,<5>,<1,2>,<2,1,1>,<4,3>; step: every state (pending bits, round-robin position, outstanding index, junk padding bits) x every operation; histories: K<=5 (quick) / 8 (thorough) symbolic operations from reset; fairness: 2*Size dequeues')],
    functions=['notification_queue::queue_notification', 'notification_queue::queue_indication', 'notification_queue::dequeue_indication_or_confirmation',
               'notification_queue::indication_confirmed', 'notification_queue::clear_indications_and_confirmations',
               'details::notification_queue_impl<Size,C> (add/remove/at)', 'details::notification_queue_impl<1,C>', 'details::notification_queue_impl_base (priority chaining)'],
    bounds='6 priority partitions with up to 7 characteristics; single step from all states; histories up to 8 operations',
    assumptions=['operations are called with index < number of characteristics (documented precondition)',
                 'representation invariant: round-robin position < Size of its level; outstanding index is none or < total'],
    explanation='the queue is driven from every representable state by every operation and compared with a set-of-pending-requests model; because the step harness starts from an arbitrary state satisfying the invariant and re-establishes it, the result extends to histories of any length for the listed partitions',
    outside=['partitions other than the six listed', 'concurrent access (see C13)'],
)
