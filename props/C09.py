from vf.core import Property, Harness, Unit

U = Unit('att_d9', description='bluetoe::server<no GAP service, shared_write_queue<16>, client_characteristic_configuration_update_callback, '
         'service S1{c0 notify, c1 indicate, plain, c2 notify+indicate, c3 notify}, service S2{c4 notify, c5 indicate, c6 notify+indicate}> '
         'without (cfg 0) and with (cfg 1) higher_outgoing_priority<c3,c1> on S1 and higher_outgoing_priority<S2> on the server; '
         'two channel_data_t connection objects per server')

def cases(tier):
    cs = []
    for cfg in (0, 1):
        for op in (0, 1, 2):
            lens = (0, 1, 2, 3) if (tier == 'thorough' or op == 0) else (1, 2)
            for ln in lens:
                cs.append({'CFG': cfg, 'MODE': 0, 'OP': op, 'LEN': ln})
        cs.append({'CFG': cfg, 'MODE': 1, 'OP': 0, 'LEN': 0})
    return cs

# development knob (mutation testing): VF_CASE_FILTER="c['K'] <= 2" restricts the cases; never set in a real run
def _filtered(f):
    import os
    e = os.environ.get('VF_CASE_FILTER')
    return f if not e else (lambda tier: [c for c in f(tier) if eval(e, {'c': c})])

# loops of the real code reached: the walk over the write queue in handle_execute_write_request (l2cap_input is inlined into the shim's
# vf_d9_input, loops 0..7 for the two servers); one element is queued at most, bound 2; unwinding assertions are on
PROPERTY = Property(
    'C09',
    [Harness('c09_cccd', U, 'harness/c09_cccd.c', _filtered(cases), unwind=9, unwindset=['vf_d9_input.%d:2' % i for i in range(8)], timeout=1500, object_bits=12, diff_iters=100,
             description='one write (Write Request / Write Command / Prepare+Execute with offset) to an arbitrary handle by connection A or B from arbitrary '
                         'configuration bytes of both connections; all 14 CCCDs read through ATT before and after; callback counted; '
                         'plus CCCD <-> characteristic association through notify<UUID>/indicate<UUID> and l2cap_output',
             bounds='7 CCCDs (2 configuration bytes per connection), 2 connections, value length 0..3 (case split), all 2^16 handles, all 2^16 offsets, all configuration bytes incl. padding bits')],
    functions=['details::client_characteristic_configuration::flags (get/set)', 'details::client_characteristic_configurations<7>',
               'characteristic.hpp generate_attribute<client_characteristic_configuration_parameter,...>::access (cccd_position via cccd_indices)',
               'find_notification_data_in_list::cccd_indices / find_notification_by_uuid / find_notification_data_by_index',
               'server::l2cap_input (Read Request, Write Request, Write Command, Prepare Write, Execute Write)', 'server::notification_subscription_changed',
               'server::notify<UUID>, server::indicate<UUID>, server::l2cap_output', 'notification_queue::queue_notification/queue_indication/dequeue_indication_or_confirmation'],
    bounds='two server configurations with seven CCCDs each (fields cross the 4-per-byte boundary), with and without outgoing priorities; one write per query from an arbitrary configuration state; value lengths 0..3',
    assumptions=['MODE 1: notification or indication is only requested for a characteristic declared with notify / indicate (static_assert in the API)',
                 'the link layer callback queues the request with the cccd index it was given (what link_layer::queue_lcap_notification does)',
                 'notification queues of both connections empty before the request (MODE 1)'],
    explanation='the configuration bytes of both connections are arbitrary; one write by an arbitrary connection to an arbitrary handle with arbitrary value '
                'bytes is executed by the real server; all fourteen CCCDs are read back through real Read Requests before and after and must equal: the written '
                'field = value & 3 for exactly the addressed CCCD of the writing connection (when the write is a valid CCCD write at offset 0 with at least one byte), '
                'everything else unchanged; the subscription-changed callback count must be 1 iff a field changed; because the pre-state is arbitrary the single step '
                'extends to write/read sequences of any length by induction. The association harness shows that the field read through CCCD handle of characteristic j '
                'is the one that gates notifications/indications of characteristic j (value handle and value in the PDU), also when priorities reorder the fields.',
    outside=['servers with other numbers of CCCDs than 7 / other priority declarations', 'notify(value) by bound-value address with priorities (property C10)',
             'encrypted CCCDs (C05)', 'concurrent access to the configuration bytes'],
)
