from vf.core import Property, Harness, Unit

U = Unit('att_e14', description='bluetoe::server<> with nine advertising related declarations: no name + service lists generated from the services '
         '(16 and 128 bit, GAP service appended); server_name of 36 / 26 / 10 / 6 / 4 characters; advertise_appearance with and without appearance option; '
         'list_of_16_bit_service_uuids with 12 and 1 UUIDs, list_of_128_bit_service_uuids with 0 and 2 UUIDs, no_list_of_service_uuids; '
         'peripheral_connection_interval_range with and without values; custom_advertising_data + custom_scan_response_data; '
         'runtime_custom_advertising_data + runtime_custom_scan_response_data')

NCFG = 9
CUSTOM = (5, 6)


def cases(tier):
    cs = [{'CFG': c, 'MODE': 0, 'SIZE': s} for c in range(NCFG) for s in range(32)]
    cs += [{'CFG': c, 'MODE': 1, 'SIZE': 0} for c in CUSTOM]
    return cs


# development knob (mutation testing): VF_CASE_FILTER="c['CFG'] == 1" restricts the cases; never set in a real run
def _filtered(f):
    import os
    e = os.environ.get('VF_CASE_FILTER')
    return f if not e else (lambda tier: [c for c in f(tier) if eval(e, {'c': c})])


PROPERTY = Property(
    'C14',
    [Harness('c14_adv', U, 'harness/c14_adv.c', _filtered(cases), unwind=42, timeout=300,
             description='advertising_data() and scan_response_data() of nine server declarations into exact-size buffers of 0..31 bytes; the result is parsed by a '
                         'reference AD structure parser and compared with a hand written table of the declared name / appearance / UUID lists / interval range / custom data',
             bounds='9 server declarations x buffer sizes 0..31 (case split, exact-size heap objects); run time custom data: all contents, lengths 0..35; '
                    'custom data additionally with a symbolic buffer size 0..31')],
    functions=['server::advertising_data', 'server::advertising_data_impl(auto_advertising_data)', 'server::scan_response_data', 'server::scan_response_data_impl',
               'details::copy_name', 'list_of_16_bit_service_uuids::advertising_data', 'list_of_128_bit_service_uuids::advertising_data', 'details::uuid_128_writer',
               'details::default_list_of_16_bit_service_uuids / default_list_of_128_bit_service_uuids', 'no_list_of_service_uuids', 'advertise_appearance::advertising_data',
               'peripheral_connection_interval_range::advertising_data', 'custom_advertising_data / custom_scan_response_data',
               'runtime_custom_advertising_data / runtime_custom_scan_response_data (set + get + dirty flag)', 'server::advertising_or_scan_response_data_has_been_changed'],
    bounds='nine server declarations; every buffer size 0..31; run time custom data of 0..35 arbitrary bytes',
    assumptions=['MODE 1: the custom data declared / set by the application is itself a well-formed sequence of AD structures (the application\'s part of the contract)',
                 'trailing zero octets behind a zero length octet are accepted as early termination (Core Spec Vol 3 Part C 11); bluetoe appends 00 00 on purpose',
                 'an absent name / UUID list (no room) is accepted; no order of the AD structures is demanded; the scan response need not carry flags'],
    explanation='for every declaration and every buffer size the real functions write into a heap object of exactly the given size (any write beyond it fails a pointer check '
                'inside the generated code) and the returned bytes are parsed by an independent AD parser: size <= buffer and <= 31, structures tile the payload exactly, '
                'flags present when size >= 3, names complete (0x09, equal to the declared name) or a proper prefix marked shortened (0x08), UUID lists marked complete contain '
                'exactly the declared set, incomplete lists a duplicate free subset, appearance and interval range carry the declared values, nothing else appears, and '
                'whatever fits completely is there completely. Custom data must arrive unchanged.',
    outside=['server declarations other than the nine listed (e.g. names containing multi byte UTF-8 sequences: a shortened name may be cut inside a character)',
             'buffer sizes above 31 (the link layer always passes 31)', 'the link layer\'s own framing of the advertising PDU (address, header)'],
)
