from vf.core import Property, Harness, Unit

NCFG = 9
CFG_DESCRIPTION = {
    0: 'no name option; services 0x1822 + one 128 bit service + GAP service: service lists generated from the services',
    1: 'server_name of 36 characters, no_list_of_service_uuids',
    2: 'server_name "Test", advertise_appearance + appearance::location_pod, list_of_16_bit_service_uuids with 12 UUIDs, list_of_128_bit_service_uuids<>, peripheral_connection_interval_range<0x10,0x20>',
    3: 'server_name "Thermo", list_of_16_bit_service_uuids<0x1809>, list_of_128_bit_service_uuids with 2 UUIDs',
    4: 'no name, 128 bit service, no GAP service, advertise_appearance (appearance unknown), peripheral_connection_interval_range<>',
    5: 'custom_advertising_data (12 octets) + custom_scan_response_data (9 octets)',
    6: 'runtime_custom_advertising_data + runtime_custom_scan_response_data',
    7: 'server_name of 26 characters, service lists generated from the services',
    8: 'server_name of 10 characters, appearance without advertise_appearance, service lists generated from the services (128 bit list does not fit)',
}
UNITS = {n: Unit('att_e14_%d' % n, shim='shims/att_e14.cpp', flags=['-DE14_PART=%d' % n], description='bluetoe::server<> ' + d)
         for n, d in CFG_DESCRIPTION.items()}

GROUP = 4          # buffer sizes per case
THOROUGH_ONLY = (4, 8)   # declarations for which the quick tier checks buffer sizes 28..31 only (quick tier budget)


def cases_for(cfg):
    def cases(tier):
        if tier == 'quick' and cfg in THOROUGH_ONLY:
            return [{'CFG': cfg, 'LO': 28, 'CNT': GROUP, 'RTLEN': 0}]
        rtlens = [0]
        if cfg == 6:
            rtlens = [35] if tier == 'quick' else [0, 12, 31, 35]
        return [{'CFG': cfg, 'LO': lo, 'CNT': GROUP, 'RTLEN': r} for r in rtlens for lo in range(0, 32, GROUP)]
    return cases


# development knob (mutation testing): VF_CASE_FILTER="c['CFG'] == 1" restricts the cases; never set in a real run
def _filtered(f):
    import os
    e = os.environ.get('VF_CASE_FILTER')
    return f if not e else (lambda tier: [c for c in f(tier) if eval(e, {'c': c})])


PROPERTY = Property(
    'C14',
    [Harness('c14_adv_%d' % n, UNITS[n], 'harness/c14_adv.c', _filtered(cases_for(n)), unwind=42, timeout=600, diff_iters=50,
             description='advertising_data() and scan_response_data() of declaration %d into exact-size buffers of 0..31 bytes; the result is parsed by a '
                         'reference AD structure parser and compared with a hand written table of the declared name / appearance / UUID lists / interval range / custom data' % n,
             bounds='buffer sizes 0..31 (4 concrete sizes per case, exact-size heap objects)' + ('; run time custom data: all contents, lengths 35 (quick) / 0, 12, 31, 35 (thorough)' if n == 6 else ''))
     for n in range(NCFG)],
    functions=['server::advertising_data', 'server::advertising_data_impl(auto_advertising_data)', 'server::scan_response_data', 'server::scan_response_data_impl',
               'details::copy_name', 'list_of_16_bit_service_uuids::advertising_data', 'list_of_128_bit_service_uuids::advertising_data', 'details::uuid_128_writer',
               'details::default_list_of_16_bit_service_uuids / default_list_of_128_bit_service_uuids', 'no_list_of_service_uuids', 'advertise_appearance::advertising_data',
               'peripheral_connection_interval_range::advertising_data', 'custom_advertising_data / custom_scan_response_data',
               'runtime_custom_advertising_data / runtime_custom_scan_response_data (set + get + dirty flag)', 'server::advertising_or_scan_response_data_has_been_changed'],
    bounds='nine server declarations (quick tier: declarations 4 and 8 with buffer sizes 28..31 only); every buffer size 0..31; run time custom data of arbitrary content with 35 (quick) / 0, 12, 31, 35 (thorough) octets',
    assumptions=['custom data (declarations 5, 6): the custom data declared / set by the application is itself a well-formed sequence of AD structures (the application\'s part of the contract)',
                 'trailing zero octets behind a zero length octet are accepted as early termination (Core Spec Vol 3 Part C 11); bluetoe appends 00 00 on purpose',
                 'an absent name / UUID list (no room) is accepted; no order of the AD structures is demanded; the scan response need not carry flags'],
    explanation='for every declaration and every buffer size the real functions write into a heap object of exactly the given size (any write beyond it fails a pointer check '
                'inside the generated code) and the returned bytes are parsed by an independent AD parser: size <= buffer and <= 31, structures tile the payload exactly, '
                'flags present when size >= 3, names complete (0x09, equal to the declared name) or a proper prefix marked shortened (0x08), UUID lists marked complete contain '
                'exactly the declared set, incomplete lists a duplicate free subset, appearance and interval range carry the declared values, nothing else appears, and '
                'whatever fits completely is there completely. Custom data must arrive unchanged.',
    outside=['server declarations other than the nine listed (e.g. names containing multi byte UTF-8 sequences: a shortened name may be cut inside a character)',
             'buffer sizes above 31 (the link layer always passes 31)', 'the link layer\'s own framing of the advertising PDU (address, header)'],
)
