from vf.core import Property, Harness, Unit

RING = Unit('ring', clang_flags=['-mllvm', '-inline-threshold=100000'], resumable=[r'ring[123]_(push|pop)'],
            description='bluetoe::details::ring<S,int> for S = 1, 2, 3')

def seq_cases(tier):
    return [{'CAP': s, 'K': 6 if tier == 'quick' else 10} for s in (1, 2, 3)]

def il_cases(tier):
    cs = []
    for s in (1, 2, 3):
        combos = [(2, 2), (3, 2), (2, 3)] if tier == 'quick' else [(2, 2), (3, 2), (2, 3), (3, 3), (4, 3), (3, 4)]
        for np_, nc in combos:
            for fill in range(0, s + 1):
                if tier == 'quick' and (np_, nc) != (2, 2) and (s == 3 or fill not in (0, s)): continue
                cs.append({'CAP': s, 'NP': np_, 'NC': nc, 'FILL': fill, '_unwind': np_ * 5 + nc * 6 + 2})
    return cs

PROPERTY = Property(
    'C30',
    [Harness('c30_ring_seq', RING, 'harness/c30_ring_seq.c', seq_cases, unwind=14, timeout=600,
             description='sequential FIFO behaviour from every reachable state, K symbolic operations vs. FIFO model; translation validation of try_push/try_pop',
             bounds='S in 1..3; all start positions and fill levels; K = 6 (quick) / 10 (thorough) operations'),
     Harness('c30_ring_il', RING, 'harness/c30_ring_il.c', il_cases, unwind=60, timeout=900, gen_only=True,
             description='all interleavings of NP try_push calls with NC try_pop calls at single memory access granularity (resumable rendering of the real functions, nondeterministic scheduler)',
             bounds='S in 1..3; start position 0..S symbolic; FILL 0..S elements present; (NP,NC) up to (3,2),(2,3) quick / (4,3),(3,4) thorough; sequential consistency')],
    functions=['bluetoe::details::ring<S,int>::try_push', 'bluetoe::details::ring<S,int>::try_pop'],
    bounds='capacities 1..3, int elements; up to 4 pushes interleaved with up to 4 pops from every start position / fill level; every interleaving of the atomic loads/stores and element copies',
    assumptions=['exactly one producer context and one consumer context (documented contract of the ring)',
                 'sequentially consistent memory, atomic_int loads/stores indivisible (they are seq_cst atomics; single-core Cortex-M)',
                 'register-only computation between two memory accesses is not observable by the other side'],
    explanation='try_push and try_pop of the real ring are executed one memory access at a time under a scheduler the solver controls, so every interleaving of the two sides within the bounds is covered; FIFO order, exactly-once delivery, and the justified-failure conditions are asserted; a sequential harness from every reachable state complements it',
    outside=['element types other than int (the event type used by connection_callbacks is a small POD copied the same way)', 'capacities above 3', 'weak memory models', 'more than one producer or consumer'],
)
