from vf.core import Property, Harness
from .units_sm import SM_LEGACY, SM_LESC, SM_COMB, KIND_CFGS, step_cases, history_cases, env_filter

# quick: one representative option set per manager plus the cheap legacy ones; thorough: all 12 configurations
QUICK_CFGS = {0: [0, 1, 4], 1: [6], 2: [9]}
# history length from reset: legacy pairing needs 3 PDUs; LESC needs request, public key, poll(Cb), random, DHKey check = 5
# operations (synchronous confirmation), 7 with an asynchronous user answer.  Measured: ~12 s CPU per operation (legacy),
# ~70 s per operation (LESC / combined: every operation explores all five handlers) -> K = 2 quick, 5 thorough there;
# the deeper LESC paths are covered by the inductive step cases, not by the histories.
K = {'quick': {0: 4, 1: 2, 2: 2}, 'thorough': {0: 6, 1: 5, 2: 5}}


def mk_cases(kind):
    def cases(tier):
        cfgs = QUICK_CFGS[kind] if tier == 'quick' else KIND_CFGS[kind]
        return env_filter(step_cases(kind, cfgs, tier) + history_cases(cfgs, K[tier][kind]))
    return cases


FLAGS = ['-DVF_MAX_INPUTS=4096']
# the input log stays field sensitive (all input positions are path independent -> constant indices): 45 s -> 1 s per case
CBMC = ['--max-field-sensitivity-array-size', '4096']
COMMON = dict(unwind=70, timeout=3600, flags=FLAGS, cbmc_flags=CBMC, object_bits=14, diff_iters=200, diff_cases=4)
PROPERTY = Property(
    'C32',
    [Harness('c32_sm_legacy', SM_LEGACY, 'harness/c32_sm.c', mk_cases(0),
             description='legacy_security_manager: one step from every pairing state x every opcode x length, and bounded histories from reset, against the reference responder automaton and the ghost crypto log',
             bounds='cfg 0..4 (quick: 0, 1, 4); step: handled opcodes at exact length (exact-size PDU object) + symbolic opcode at lengths 0,1,6,8,16,18,23 (thorough: also 2,3,7,11,17,22); poll; histories K=4 (quick) / 6 (thorough) operations', **COMMON),
     Harness('c32_sm_lesc', SM_LESC, 'harness/c32_sm.c', mk_cases(1),
             description='lesc_security_manager: same, plus asynchronous / synchronous yes-no answers',
             bounds='cfg 5..7 (quick: 6); lengths 0,1,6,8,16,18,64,65 (thorough: also 2,3,7,11,17); histories K=2 (quick) / 5 (thorough)', **COMMON),
     Harness('c32_sm_comb', SM_COMB, 'harness/c32_sm.c', mk_cases(2),
             description='security_manager (legacy + LESC): same',
             bounds='cfg 8..11 (quick: 9); lengths as LESC; histories K=2 (quick) / 5 (thorough)', **COMMON)],
    functions=['details::security_manager_base::legacy_handle_pairing_request / _confirm / _random', 'details::security_manager_base::lesc_handle_pairing_request / _public_key / _random / _dhkey_check',
               'details::security_manager_base::lesc_l2cap_output, lesc_security_manager_output_available, error_response, create_pairing_response, legacy_c1_p1, legacy_c1_p2, legacy_create_temporary_key',
               'details::legacy_security_manager_impl / lesc_security_manager_impl / security_manager_impl ::l2cap_input, ::l2cap_output', 'details::security_manager_impl::handle_pairing_request',
               'details::legacy_security_connection_data / lesc_security_connection_data / security_connection_data (state transitions, yes_no_response)',
               'pairing_yes_no::sm_pairing_request_yes_no, pairing_numeric_output::sm_pairing_numeric_compare_output, oob_authentication_callback, bonding_data_base::bonding_db_data_t'],
    bounds='12 manager configurations (3 managers x IO / OOB / bonding option sets); inductive step: every pairing state with all pairing data symbolic x one PDU (every opcode byte, lengths 0..MTU at the listed boundary values) or one l2cap_output poll or one user answer; histories from reset of 4 / 6 operations (legacy manager), 2 / 5 operations (LESC and combined manager) in quick / thorough, each a PDU with symbolic opcode / one of 4 length classes / symbolic content, a poll, or a user answer',
    assumptions=['crypto tool box (c1, s1, f4, f5, f6, g2, p256, is_valid_public_key, key / nonce / srand / passkey generation), OOB callback and bond data base are arbitrary: every call returns unconstrained symbolic values (logged)',
                 'representation invariant of the step harness: the pairing state is one of the enumerators the manager kind uses; user_response_* only with the pairing_yes_no input capability; all other members unconstrained',
                 'the application calls yes_no_response() at most once per request and only while the request is outstanding (pairing state user_response_wait: the assert in yes_no_response); inside the callback or at any later operation',
                 'a Pairing Failed answer is always permitted (the spec allows a device to fail a pairing at any time); a Pairing Request with the RFU bits of the key distribution fields set may be rejected or accepted',
                 'MTU handed to l2cap_input/l2cap_output is the manager\'s maximum_channel_mtu_size (23 legacy, 65 LESC/combined); incoming PDUs are at most that long'],
    explanation='the real managers run against a reference responder automaton written from Vol 3 Part H: a PDU is either answered with Pairing Failed (then the state must be idle) or it must be the next PDU of the running pairing with exact length and valid parameters, be answered with the right PDU and move to the successor state. The crypto functions return fresh symbolic values and are logged, so "Mconfirm was verified" (a c1 call over the received Mrand and this pairing\'s p1/p2/TK whose result equals the received Mconfirm) and "Ea was verified" (p256 -> f5 -> f6 over this pairing\'s keys, nonces, IO capabilities and addresses equal to a received Ea) are facts of the log; Srand (legacy Pairing Random) and Eb (DHKey check) may appear in any output only with that fact. The step harness starts from every pairing state and re-establishes the abstraction (implementation state == automaton state, stored values == values of the PDUs / stub results), so it extends to histories of any length; histories from reset cross-check reachability and the ghost bookkeeping end to end.',
    outside=['the values computed by the crypto tool box (C37) and the choice of the pairing method (C36)', 'key distribution on the encrypted link (C34): the link stays unencrypted here',
             'yes_no_response() called when no request is outstanding (e.g. after the pairing was aborted by a malformed PDU while the user was asked): with NDEBUG this forces the state to user_response_success/failed; the assert documents it as a precondition violation, not checked here',
             'LESC passkey entry / OOB are not implemented by bluetoe as separate protocols (they run the just-works exchange); only the exchange that is implemented is checked',
             'histories longer than the bound that are not covered by the inductive step argument (the ghost "Ea verified" has no counterpart in the implementation state: see the known finding)'],
)
