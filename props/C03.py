from vf.core import Property, Harness
from .C04 import UNITS, DESCR


def cases_for(cfg):
    def cases(tier):
        cs = []
        mtus = (23, 65) if tier == 'quick' else (23, 27, 43, 65)
        lens = (9, 23) if tier == 'quick' else (7, 9, 10, 23)
        for mtu in mtus:
            cs.append({'CFG': cfg, 'OPC': 0x10, 'LEN': 7, 'MTU': mtu})
            for ln in lens:
                cs.append({'CFG': cfg, 'OPC': 0x06, 'LEN': ln, 'MTU': mtu})
        return cs
    return cases


CFGS = (2, 3, 1, 0, 7, 8)
PROPERTY = Property(
    'C03',
    [Harness('c03_primary_b%d' % c, UNITS[c], 'harness/c03_primary.c', cases_for(c), unwind=24, timeout=600,
             description='Read By Group Type / Find By Type Value for <<Primary Service>> against the expected table of ' + DESCR[c],
             bounds='start, end handle and the 2 / 16 byte UUID value fully symbolic; MTU 23, 65 (quick) / 23, 27, 43, 65 (thorough); Find By Type Value lengths 9, 23 (quick) / 7, 9, 10, 23 (thorough)')
     for c in CFGS],
    functions=['server::handle_read_by_group_type_request', 'details::collect_primary_services', 'service::read_primary_service_response',
               'server::handle_find_by_type_value_request', 'server::all_services_by_group', 'details::services_by_group', 'details::value_filter',
               'details::collect_find_by_type_groups', 'generate_attribute<service_defintion_tag>::access', 'details::handle_index_mapping'],
    bounds='server declarations B3, B4 (primary and secondary services mixed, with and without fixed handles), B2, B1, B8 (a secondary service between two primary services of the same UUID width); every (start,end) pair; every UUID value of 2 and 16 bytes',
    assumptions=['a response may contain fewer services than would fit (ATT latitude); no declared primary service may be omitted before or between reported ones'],
    explanation='the real l2cap_input answers one Discover All Primary Services / Discover Primary Service By UUID request whose handle range and UUID value are solver variables; '
                'the response is compared with the primary service rows (handle, true group end, UUID) of a hand-written attribute table per declaration: Attribute Not Found iff '
                'no declared primary service matches, otherwise a gap-free run of the matching primary services starting with the first; secondary services are not rows of that set, '
                'so any appearance of one is a violation',
    outside=['server declarations other than B1..B4', 'Find By Type Value for types other than <<Primary Service>>', 'MTU above 65'],
)
