from vf.core import Property, Harness
from .units_sm import SM_LEGACY, SM_LESC, SM_COMB, KIND_CFGS, SMP_SIZE, HANDLED, history_cases, env_filter

QUICK_CFGS = {0: [1, 4], 1: [7], 2: [10]}
K = {'quick': {0: 4, 1: 2, 2: 2}, 'thorough': {0: 6, 1: 5, 2: 5}}


def mk_cases(kind):
    def cases(tier):
        cfgs = QUICK_CFGS[kind] if tier == 'quick' else KIND_CFGS[kind]
        mtu = 23 if kind == 0 else 65
        cs = []
        for cfg in cfgs:
            for opc in HANDLED[kind]:
                cs.append({'CFG': cfg, 'MODE': 0, 'OP': 0, 'OPC': opc, 'LEN': SMP_SIZE[opc], 'K': 0})
            for l in ([1, mtu] if tier == 'quick' else [0, 1, 7, 16, 17, mtu]):
                cs.append({'CFG': cfg, 'MODE': 0, 'OP': 0, 'OPC': 255, 'LEN': l, 'K': 0})
            cs.append({'CFG': cfg, 'MODE': 0, 'OP': 1, 'OPC': 0, 'LEN': 0, 'K': 0})
            if cfg in (6, 9):
                cs.append({'CFG': cfg, 'MODE': 0, 'OP': 2, 'OPC': 0, 'LEN': 0, 'K': 0})
        if tier == 'quick' and kind in (1, 2):
            # numeric comparison with asynchronous user confirmation (cfg 6 / 9): the poll and the user answer from every state,
            # i.e. the second place where a LESC pairing completes and stores its key
            cfg = 6 if kind == 1 else 9
            cs.append({'CFG': cfg, 'MODE': 0, 'OP': 1, 'OPC': 0, 'LEN': 0, 'K': 0})
            cs.append({'CFG': cfg, 'MODE': 0, 'OP': 2, 'OPC': 0, 'LEN': 0, 'K': 0})
        return env_filter(cs + history_cases(cfgs, K[tier][kind]))
    return cases


FLAGS = ['-DVF_MAX_INPUTS=4096']
CBMC = ['--max-field-sensitivity-array-size', '4096']
COMMON = dict(unwind=70, timeout=3600, flags=FLAGS, cbmc_flags=CBMC, object_bits=14, diff_iters=200, diff_cases=4)
PROPERTY = Property(
    'C33',
    [Harness('c33_sm_legacy', SM_LEGACY, 'harness/c33_sm.c', mk_cases(0),
             description='legacy manager: find_key(EDIV, Rand) before and after one step from every pairing state, and after every operation of bounded histories from reset',
             bounds='cfg 0..4 (quick: 1, 4 = with bond data base); histories K=4 / 6', **COMMON),
     Harness('c33_sm_lesc', SM_LESC, 'harness/c33_sm.c', mk_cases(1), description='LESC manager: same', bounds='cfg 5..7 (quick: 7 = with bond data base, plus poll / user answer steps of cfg 6 = numeric comparison); histories K=2 / 5', **COMMON),
     Harness('c33_sm_comb', SM_COMB, 'harness/c33_sm.c', mk_cases(2), description='combined manager: same', bounds='cfg 8..11 (quick: 10 = with bond data base, plus poll / user answer steps of cfg 9 = numeric comparison); histories K=2 / 5', **COMMON)],
    functions=['details::legacy_security_connection_data::find_key', 'details::lesc_security_connection_data::find_key', 'details::security_connection_data::find_key',
               'bonding_data_base::bonding_db_data_t::find_key', 'legacy_pairing_completed / lesc_pairing_completed (key stored)', 'the pairing handlers of C32 (they decide when a pairing is completed)'],
    bounds='12 manager configurations; EDIV / Rand symbolic (with 0 / 0 forced in a symbolic subset); step: every pairing state with symbolic key material x one PDU / poll / user answer; histories from reset of 4 / 6 operations (legacy), 2 / 5 operations (LESC, combined) in quick / thorough',
    assumptions=['as C32 (arbitrary crypto, OOB, bond data base; yes_no_response only while outstanding)',
                 '"pairing completed successfully" = the peripheral sent the last phase 2 PDU of the running pairing (legacy: Pairing Random with Srand after the confirm check; LESC: its DHKey check Eb) and no Pairing Failed / new pairing since; whether Eb was sent legitimately is C32\'s subject',
                 'the bond data base is arbitrary: any lookup may hit or miss with any key; a hit counts only if it was asked with the requested EDIV, Rand and the peer address of this connection'],
    explanation='after every operation find_key() is asked with symbolic EDIV / Rand. A returned key must be (a) the STK that s1(TK, Srand, Mrand) returned / the LTK that f5(P256(SKb, PKa), Na, Nb, A, B) returned in the step that completed the running pairing (read from the crypto log), requested with EDIV = 0 and Rand = 0, with the reference automaton in "completed", or (b) the key the bond data base stub returned for exactly this EDIV / Rand / peer. The step harness starts from every pairing state with symbolic key members and shows that entering "completed" stores the logged key and that nothing else changes it; histories from reset check the same end to end (aborted, failed, repeated pairings).',
    outside=['which key the link layer finally uses (C28)', 'keys distributed in phase 3 (C34)', 'histories beyond the bound not covered by the step argument'],
)
