from vf.core import Property, Harness
from .units_pdubuf import PDUBUF, pdubuf_cases, PDUBUF_FUNCTIONS, PDUBUF_ASSUMPTIONS, PDUBUF_BOUNDS, PDUBUF_KW

def cases(tier):
    return pdubuf_cases(16, tier)

PROPERTY = Property(
    'C16',
    [Harness('c15_pdubuf', PDUBUF, 'harness/c15_pdubuf.c', cases,
             description='real ll_data_pdu_buffer on a radio stub that counts increment_receive_packet_counter()/increment_transmit_packet_counter(), driven by a symbolic host and a spec-conformant central model over a lossy link; the counts are compared after every connection event with the counts the CCM nonce rules demand',
             bounds=PDUBUF_BOUNDS, **PDUBUF_KW)],
    functions=PDUBUF_FUNCTIONS + ['Radio::increment_receive_packet_counter / increment_transmit_packet_counter call sites in received() and acknowledge(bool)'],
    bounds=PDUBUF_BOUNDS,
    assumptions=PDUBUF_ASSUMPTIONS,
    explanation='every history of K connection events from reset is explored symbolically (host commits / consumes, central sends new empty or non-empty PDUs or retransmits per Core spec 4.5.9, packets arrive intact, with CRC error, with MIC error or not at all, the answer is delivered or lost). After every event the number of increment_receive_packet_counter() calls must equal the number of non-empty PDUs of the central that were received intact for the first time while a receive buffer was available (these are exactly the PDUs the central will see acknowledged and stop encrypting with that counter value), and the number of increment_transmit_packet_counter() calls must equal the number of non-empty committed PDUs whose acknowledgement by the central reached the peripheral; retransmissions, empty PDUs in either direction, CRC and MIC failures and host calls must not change the counters',
    outside=['nrf52.cpp counter::increment (the 39 bit counter arithmetic itself) and the wiring of the callbacks in the nrf52 radio', 'buffer configurations other than the listed ones',
             'histories longer than K events', 'stop_ll_pdu_buffer()', 'PDUs with the reserved LLID 0'],
)
