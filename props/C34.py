from vf.core import Property, Harness
from .units_sm import SM_LEGACY, SM_LESC, SM_COMB, KIND_CFGS, SMP_SIZE, HANDLED, history_cases, env_filter

# configurations with a bonding data base distribute keys: 4 (legacy), 7 (LESC), 10 (combined); the others are thorough only
QUICK_CFGS = {0: [4], 1: [7], 2: [10]}
# legacy: request, confirm, random, encryption on, poll, poll = 6 operations show LTK and EDIV/Rand; 7 show "not twice"
K = {'quick': {0: 6, 1: 2, 2: 2}, 'thorough': {0: 8, 1: 4, 2: 5}}


def mk_cases(kind):
    def cases(tier):
        quick = tier == 'quick'
        cfgs = QUICK_CFGS[kind] if quick else KIND_CFGS[kind]
        mtu = 23 if kind == 0 else 65
        cs = []
        for cfg in cfgs:
            for opc in HANDLED[kind]:
                cs.append({'CFG': cfg, 'MODE': 0, 'OP': 0, 'OPC': opc, 'LEN': SMP_SIZE[opc], 'K': 0})
            for l in ([1, mtu] if quick else [0, 1, 7, 16, 17, mtu]):
                cs.append({'CFG': cfg, 'MODE': 0, 'OP': 0, 'OPC': 255, 'LEN': l, 'K': 0})
            cs.append({'CFG': cfg, 'MODE': 0, 'OP': 1, 'OPC': 0, 'LEN': 0, 'K': 0})          # l2cap_output poll
            if cfg in (6, 9):
                cs.append({'CFG': cfg, 'MODE': 0, 'OP': 2, 'OPC': 0, 'LEN': 0, 'K': 0})      # user answers yes / no
            cs.append({'CFG': cfg, 'MODE': 0, 'OP': 3, 'OPC': 0, 'LEN': 0, 'K': 0})          # encryption change
        return env_filter(cs + history_cases(cfgs, K[tier][kind]))
    return cases


FLAGS = ['-DVF_MAX_INPUTS=4096']
CBMC = ['--max-field-sensitivity-array-size', '4096']
COMMON = dict(unwind=70, timeout=3600, flags=FLAGS, cbmc_flags=CBMC, object_bits=14, diff_iters=200, diff_cases=4)
PROPERTY = Property(
    'C34',
    [Harness('c34_keys_legacy', SM_LEGACY, 'harness/c34_keys.c', mk_cases(0),
             description='legacy manager with bonding data base: every emitted PDU watched for key distribution opcodes; one step from every state (pairing state, pending flags, encryption flag symbolic) and bounded histories from reset',
             bounds='cfg 4 (thorough: 0..4); histories K=6 (quick) / 8 (thorough) operations', **COMMON),
     Harness('c34_keys_lesc', SM_LESC, 'harness/c34_keys.c', mk_cases(1), description='LESC manager with bonding data base: same (it never distributes keys)',
             bounds='cfg 7 (thorough: 5..7); histories K=2 / 4', **COMMON),
     Harness('c34_keys_comb', SM_COMB, 'harness/c34_keys.c', mk_cases(2), description='combined manager with bonding data base: same',
             bounds='cfg 10 (thorough: 8..11); histories K=2 / 5', **COMMON)],
    functions=['bonding_data_base::bonding_db_data_t::distribute_keys', 'bonding_data_base::bonding_db_data_t::arm_key_distribution', 'no_bonding_data_base::bonding_db_data_t::distribute_keys',
               'details::legacy_security_manager_impl::l2cap_output', 'details::lesc_security_manager_impl::l2cap_output', 'details::security_manager_impl::l2cap_output',
               'details::security_manager_base::legacy_handle_pairing_random (arms the distribution)', 'details::link_state::is_encrypted / security_attributes', 'all l2cap_input handlers (their answers are watched too)'],
    bounds='bonding configurations 4 / 7 / 10 of shims/sm.cpp (thorough: all 12); step: every pairing state, pending flags, pending key, encryption flag symbolic x one PDU (handled opcodes at exact length; any opcode at lengths 1 and MTU, thorough also 0, 7, 16, 17) / one l2cap_output poll / one user answer / one encryption change; histories from reset of 6 / 8 (legacy), 2 / 4 (LESC), 2 / 5 (combined) operations, each a PDU (symbolic opcode, 4 length classes, symbolic content), a poll, a user answer, encryption on or off',
    assumptions=['as C32: crypto tool box, RNG, OOB callback and bond data base arbitrary',
                 '"the link is encrypted" = the encryption flag the link layer last wrote into the connection data (link_state::is_encrypted(bool)), at the time the PDU is handed out',
                 '"pairing completed" = the reference responder automaton reached "completed" at some earlier operation on this connection; "per pairing" = since the last such completion (a later Pairing Failed / aborted pairing does not forbid distributing the keys of the completed one: permissive reading)',
                 'l2cap_output() may be polled at any time (the link layer polls all channels whenever it can send)',
                 'step harness invariant: pending_encryption_information -> a pairing completed and its LTK was not transmitted yet; pending_central_identification likewise; automaton completed -> a pairing completed; ghost encryption flag = link_state flag'],
    explanation='every PDU that leaves the manager (answers of l2cap_input and spontaneous l2cap_output) is watched. Encryption Information / Central Identification may only appear while the encryption flag is set, after the reference automaton has seen a pairing complete, and once each since that completion. The step harness starts from every pairing state with symbolic pending flags and encryption flag, tied to the ghost by the invariant above, runs one arbitrary operation (PDU, poll, user answer, encryption change), asserts the property for the emitted PDU and re-establishes the invariant - hence all interleavings of any length; histories from reset cross-check reachability and the ghost bookkeeping end to end (pair, encrypt, poll, poll, poll, decrypt, poll).',
    outside=['the value of the distributed LTK / EDIV / Rand (that it is the one created by and stored in the bond data base)', 'identity and signing keys: not implemented by bluetoe (asserted never to appear unencrypted)',
             'which key encrypts the link when the keys are distributed (the statement only asks for an encrypted link; bluetoe would also distribute on a link encrypted with an older bond)', 'disconnect / new connection (connection data is value-initialised by the link layer)'],
)
