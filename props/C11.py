from vf.core import Property, Harness
from .units import NQ
from .units_atte import ATT_E10


def nq_cases(tier):
    cs = []
    cfgs = [0, 1, 3, 4] if tier == 'quick' else [0, 1, 2, 3, 4, 5]
    for cfg in cfgs:
        cs.append({'CFG': cfg, 'MODE': 0, 'K': 0})
        cs.append({'CFG': cfg, 'MODE': 1, 'K': 0})
        cs.append({'CFG': cfg, 'MODE': 2, 'K': 6 if tier == 'quick' else 9})
    return cs


def srv_cases_for(cfg):
    def cases(tier):
        cs = []
        lens = [1, 2] if tier == 'quick' else [1, 2, 3, 5, 23]
        for ln in lens:
            cs.append({'CFG': cfg, 'MODE': 0, 'LEN': ln, 'K': 0, 'NP': 0})
        cs.append({'CFG': cfg, 'MODE': 1, 'LEN': 0, 'K': 3 if tier == 'quick' else 5, 'NP': 0})
        cs.append({'CFG': cfg, 'MODE': 2, 'LEN': 0, 'K': 0, 'NP': 2 if tier == 'quick' else 4})
        return cs
    return cases


# development knob (mutation testing): VF_CASE_FILTER="c['CFG'] == 1" restricts the cases; never set in a real run
def _filtered(f):
    import os
    e = os.environ.get('VF_CASE_FILTER')
    return f if not e else (lambda tier: [c for c in f(tier) if eval(e, {'c': c})])


PROPERTY = Property(
    'C11',
    [Harness('c11_nq', NQ, 'harness/c11_nq.c', _filtered(nq_cases), unwind=24, timeout=600,
             description='real notification_queue: no indication while one is outstanding and notifications still flow (every state); bounded liveness: with confirmations '
                         'arriving (immediately or one dequeue late) every pending and every newly accepted request is returned exactly once within 3*Size dequeues; histories from reset',
             bounds='priority partitions <3>,<1>,<1,2>,<2,1,1> (quick) + <5>,<4,3> (thorough); every representable state (pending bits, round robin positions, outstanding index, junk bits); '
                    '2*total / 3*total dequeues; histories of 6 (quick) / 9 (thorough) operations')] +
    [Harness('c11_srv_%d' % n, ATT_E10[n], 'harness/c11_srv.c', _filtered(srv_cases_for(n)), unwind=42, timeout=1200, object_bits=11, diff_iters=100,
             description='real server + link layer callback: Handle Value Confirmation with correct / wrong length from an arbitrary state; K symbolic steps of poll / confirmation / '
                         'wrong confirmation / request: no second indication PDU before a confirmation; liveness: NP polls with confirmations serve every subscribed pending request',
             bounds='six characteristics, one connection; confirmation lengths 1, 2 (quick) / 1, 2, 3, 5, 23 (thorough); K = 3 / 5 steps; NP = 2 / 4 pending requests and polls')
     for n in (0, 1, 2)],
    functions=['notification_queue::dequeue_indication_or_confirmation', 'notification_queue::indication_confirmed', 'notification_queue::queue_indication / queue_notification',
               'details::notification_queue_impl<Size,C> / <1,C> / notification_queue_impl_base', 'server::handle_value_confirmation', 'server::l2cap_input (opcode 0x1E)',
               'server::error_response', 'link_layer::queue_lcap_notification (notification, indication, confirmation)', 'server::l2cap_output', 'server::indicate< UUID >, server::notify< UUID >'],
    bounds='queue: six priority partitions up to 7 characteristics, all states; server: three declarations with six characteristics, arbitrary pending sets / round robin positions / outstanding index / '
           'client configuration, 3-5 steps, 2-4 polls',
    assumptions=['queue operations are called with index < number of characteristics (documented precondition)',
                 'representation invariant of the start states: round robin position < Size of its level; outstanding index is none or < total',
                 'liveness: "confirmations keep arriving" = the client confirms every indication PDU it receives, immediately or (queue level) one dequeue later',
                 'server level liveness: at most NP requests are pending and NP polls are made; which characteristics are subscribed is taken from server::configured_for_notifications / configured_for_indications< UUID > (the association with the CCCD handles is checked by C09 / C10)'],
    explanation='queue level: from every representable state with an outstanding indication 2*total dequeues return no indication but every pending notification exactly once, and no pending '
                'indication is lost; with confirmations arriving every pending or newly accepted request is returned exactly once within 3*total dequeues and the queue ends empty. Server level: '
                'a Handle Value Confirmation of length 1 is not answered and clears the outstanding indication through the real link layer callback, any other length yields Error Response '
                '(0x01, 0x1E, 0x0000, Invalid PDU) and leaves the whole state untouched; over K arbitrary steps no second indication PDU leaves l2cap_output before a well-formed confirmation; '
                'with confirmations for every indication PDU, NP polls transmit every pending request of a subscribed characteristic exactly once.',
    outside=['interleavings at memory access granularity (C13)', 'more than one connection per server (the link layer has exactly one; state is per link layer object)',
             'the 30 s ATT transaction timeout (not implemented by bluetoe)', 'partitions / servers other than the listed ones'],
)
