from vf.core import Property, Harness
from .units_lld import LLD2
from .C27 import SPEC_LEN, lens

ENC = [0x03, 0x06, 0x0A, 0x0B]
OTHERS_QUICK = [(0x12, 1), (0x08, 9), (0x0C, 6), (0x02, 2), (0x07, 2), (0x0D, 2), (0x11, 3), (0x0F, 24), (0x00, 12), (0x18, 5), (0x04, 13), (0x05, 1)]


def step_cases(tier):
    cs = []
    for o in ENC:
        for l in lens(o, tier):
            cs.append({'STEP': 0, 'OPC': o, 'LEN': l})
    if tier == 'quick':
        for o, l in OTHERS_QUICK:
            cs.append({'STEP': 0, 'OPC': o, 'LEN': l})
    else:
        for o in range(0x26):
            if o in ENC: continue
            for l in lens(o, 'quick'):
                cs.append({'STEP': 0, 'OPC': o, 'LEN': l})
        cs.append({'STEP': 0, 'OPC': 0x77, 'LEN': 3})
    for s in (1, 2, 3, 4):
        cs.append({'STEP': s, 'OPC': 0x12, 'LEN': 1})
    return cs


PROPERTY = Property(
    'C28',
    [Harness('c28_step', LLD2, 'harness/c28_step.c', step_cases, unwind=40, timeout=900,
             description='inductive step over the encryption procedure state: one received control PDU / transmit_pending_security_pdus() / disconnect() / '
                         'supervision timeout from every state satisfying Inv; base case after construction',
             bounds='encryption opcodes with exact and off-by-one lengths, 12 (quick) / all 0x00..0x25 + one unknown (thorough) other opcodes; all payload bytes, '
                    'key data base answers, radio answers, procedure flags symbolic')],
    functions=['link_layer_security_impl::handle_encryption_pdus', 'link_layer_security_impl::transmit_pending_security_pdus', 'link_layer_security_impl::reset_encryption',
               'link_layer::handle_ll_control_data', 'link_layer::reject', 'link_layer::disconnect', 'link_layer::timeout', 'link_layer::force_disconnect',
               'details::link_state::is_encrypted'],
    bounds='single steps from every state satisfying the invariant Inv (see harness), one link layer configuration (server requiring encryption, stub security manager)',
    assumptions=['Inv: I1 encrypted => entered by LL_START_ENC_RSP after key supplied and LL_START_ENC_REQ sent; I2 has_key_ && !in_progress => key supplied and LL_START_ENC_REQ sent; '
                 'I3 in_progress => has_key_ == key supplied, LL_START_ENC_REQ not yet sent; I4 sent => supplied. Inv is checked after construction and after every step.',
                 'key data base (security manager find_key) and radio (setup_encryption) are stubs answering with symbolic values',
                 'the transmit ring is empty when security PDUs are sent'],
    explanation='The encryption procedure state (has_key_, encryption_in_progress_, is_encrypted) is symbolic together with a ghost state that records what the statement talks about '
                '(key supplied for the last LL_ENC_REQ, LL_START_ENC_REQ sent since, encrypted state entered legitimately). From every state satisfying the invariant one step is executed: '
                'any received control PDU, sending of the pending security PDU, local disconnect, supervision timeout. Asserted: the link is reported encrypted only if it was entered by '
                'LL_START_ENC_RSP while a key was supplied and LL_START_ENC_REQ had been sent; the key looked up is the one for the EDIV/Rand of the request and the radio gets exactly that key; '
                'unknown key => reject with 0x06 and no encryption; pause and disconnect => unencrypted and no procedure state survives; the invariant is re-established. '
                'Base case after construction. By induction the statement holds for every sequence of control PDUs and event boundaries.',
    outside=['ATT traffic between the control PDUs: is_encrypted( bool ) is only called from handle_encryption_pdus and reset_encryption (read in the source), L2CAP input is not executed in the harness',
             'the real security managers find_key (C33); only the link layer side with a symbolic key data base',
             'new connection via adv_received() (connection_data_ is re-constructed: unencrypted); covered only through the disconnect steps that precede it',
             'a transmit ring without room (transmit_pending_security_pdus then retries at the next event)'],
)
