from vf.core import Property, Harness, Unit

SVC_CSC = Unit('svc_csc', shim='shims/svc_csc.cpp',
               description='csc::details::implementation<Handler, Wheel, Crank, control_point_handler<...>> as selected by the real '
                           'csc::details::calculate_service<> for: CFG0 wheel+crank+3 sensor locations (sensor_position_handler), '
                           'CFG1 wheel only, one location (no_sensor_position_handler), CFG2 crank only + 2 sensor locations')


def cases(tier):
    cs = []
    cfgs = [0, 1, 2]
    lens = [0, 1, 2, 4, 5, 6] if tier == 'quick' else list(range(0, 9)) + [20]
    for cfg in cfgs:
        for l in lens:
            cs.append({'CFG': cfg, 'MODE': 0, 'LEN': l, 'K': 0})
        cs.append({'CFG': cfg, 'MODE': 1, 'LEN': 0, 'K': 0})
        cs.append({'CFG': cfg, 'MODE': 2, 'LEN': 0, 'K': 4 if tier == 'quick' else 6})
    return cs


PROPERTY = Property(
    'C40',
    [Harness('c40_csc', SVC_CSC, 'harness/c40_csc.c', cases, unwind=22, timeout=600,
             description='real CSC control point write / response-read handlers vs. a ghost "accepted procedure awaits its response" model: '
                         'inductive write step and response step from every state, bounded histories from construction with a final no-deadlock probe',
             bounds='3 service configurations; step: every state (pending flag, stored opcode, sensor positions) x write of LEN bytes '
                    '(quick: 0,1,2,4,5,6; thorough: 0..8,20; every byte incl. opcode symbolic, exact-size object) and response read with a 20 byte buffer; '
                    'histories: K<=4 (quick) / 6 (thorough) symbolic operations {write of 0..6 symbolic bytes, handler confirmation, indication delivery}')],
    functions=['csc::details::control_point_handler::csc_write_control_point', 'csc::details::control_point_handler::csc_read_control_point',
               'csc::details::implementation::csc_write_control_point / csc_read_control_point',
               'csc::details::sensor_position_handler::update_sensor_location_opcode_response / request_supported_sensor_locations_opcode_response / set_sensor_position',
               'csc::details::no_sensor_position_handler (responses)'],
    bounds='3 configurations; single write step for value lengths 0..8 and 20 and single response step from all states; histories up to 6 operations',
    assumptions=['the response read handler is invoked only to send a requested control point indication (characteristic has no_read_access), with a 20 byte buffer (ATT_MTU 23)',
                 'the user handler confirms every set_cumulative_wheel_revolutions() call exactly once (confirm_cumulative_wheel_revolutions), at an arbitrary later time',
                 'a write counts as accepted iff the handler returns ATT success; "procedure already in progress" is error code 0xFE (Core Specification Supplement) as used by bluetoe',
                 'well formed = Set Cumulative Value with 4 parameter bytes, Update Sensor Location with 1, Request Supported Sensor Locations with 0; for other opcodes either acceptance (answered "not supported") or rejection is allowed',
                 'representation invariant: procedure_in_progress_ is set exactly while an accepted procedure awaits its response, and then current_opcode_ is its opcode'],
    explanation='the write handler is run from every state on every value of a given length and the response handler from every pending state; '
                'the ghost model tracks whether an accepted procedure awaits its response. Asserted: 0xFE only while pending; well formed writes accepted when idle; '
                'accepted writes trigger exactly one response (indication request or handler call) and rejected ones none; rejected writes leave flag and stored opcode untouched; '
                'the response carries Response Code (16) and the accepted opcode, fits the buffer and clears the flag. The invariant is re-established by every step, so the '
                'result extends to histories of any length; bounded histories from construction cross-check reachability and probe that a new procedure is accepted after all due responses went out',
    outside=['the GATT plumbing around the handler (CCCD check, queueing of the indication in the server, ATT framing) - see C01/C10/C11',
             'loss of the pending indication on disconnect; procedure timeout (not implemented in bluetoe)',
             'write lengths above 20 bytes'],
)
