from vf.core import Property, Harness
from .units_lld import LLD0, LLD1, LLD2

# payload length (incl. opcode) per opcode, Core spec Vol 6 Part B 2.4.2 (capped at 27: no data length extension)
SPEC_LEN = {0x00: 12, 0x01: 8, 0x02: 2, 0x03: 23, 0x04: 13, 0x05: 1, 0x06: 1, 0x07: 2, 0x08: 9, 0x09: 9, 0x0A: 1, 0x0B: 1, 0x0C: 6, 0x0D: 2,
            0x0E: 9, 0x0F: 24, 0x10: 24, 0x11: 3, 0x12: 1, 0x13: 1, 0x14: 9, 0x15: 9, 0x16: 3, 0x17: 3, 0x18: 5, 0x19: 3, 0x1A: 2, 0x1B: 1,
            0x1C: 35, 0x1D: 2, 0x1E: 2, 0x1F: 36, 0x20: 9, 0x21: 16, 0x22: 4, 0x23: 4, 0x24: 5, 0x25: 5}
HANDLED = {0: [0x00, 0x01, 0x02, 0x07, 0x08, 0x0C, 0x0D, 0x0F, 0x11, 0x12, 0x16, 0x18],
           1: [0x16, 0x17, 0x18, 0x08],
           2: [0x03, 0x04, 0x05, 0x06, 0x0A, 0x0B, 0x08, 0x0D]}


def lens(opc, tier):
    l = SPEC_LEN[opc]
    s = {min(l, 27)}
    if l - 1 >= 1: s.add(min(l - 1, 27))
    if l + 1 <= 27: s.add(l + 1)
    if tier != 'quick':
        s.add(1); s.add(27)
        if l + 2 <= 27: s.add(l + 2)
    return sorted(s)


def ctrl_cases(cfg):
    def f(tier):
        cs = []
        for opc in range(0x26):
            if cfg != 0 and opc not in HANDLED[cfg] and tier == 'quick':
                continue
            # quick: PDUs the configuration does not implement get one length only (their handling does not depend on it)
            ls = lens(opc, tier) if (opc in HANDLED[cfg] or tier != 'quick') else [min(SPEC_LEN[opc], 27)]
            for l in ls:
                cs.append({'CFG': cfg, 'OPC': opc, 'LEN': l})
        if cfg == 0 or tier != 'quick':
            for l in ([1, 5] if tier == 'quick' else [1, 2, 5, 27]):
                cs.append({'CFG': cfg, 'OPC': -1, 'LEN': l})
        return cs
    return f


def mk(cfg, unit):
    return Harness('c27_ctrl_cfg%d' % cfg, unit, 'harness/c27_ctrl.c', ctrl_cases(cfg), unwind=40, timeout=600,
                   description='one handle_ll_control_data() on a symbolic control PDU (opcode and length by case split) from a symbolic link layer state: '
                               'the PDU handed to the radio in response equals the table of the Core spec',
                   bounds='opcodes 0x00..0x25 concrete + one symbolic opcode 0x26..0xff; lengths: exact, exact-1, exact+1 (quick) plus 1, exact+2, 27 (thorough); '
                          'all payload bytes, procedure flags, used features, procedure timeout symbolic')

PROC = Harness('c27_proc', LLD0, 'harness/c27_proc.c', [{'MODE': 0}, {'MODE': 1}, {'MODE': 2}], unwind=40, timeout=1800,
               description='procedure response timeout: MODE 0 sending the request PDU of a pending peripheral initiated procedure starts the 40 s timer; '
                           'MODE 1 timeout() / MODE 2 end_event() without a received PDU and the timer running: the connection is closed with reason 0x22 '
                           'exactly when the remaining time has elapsed',
               bounds='remaining time 1 us..40 s, time since the last anchor 0..36 s, all connection parameters symbolic; no received PDU in the event')

PROPERTY = Property(
    'C27',
    [mk(0, LLD0), mk(1, LLD1), mk(2, LLD2), PROC],
    functions=['link_layer::handle_ll_control_data', 'link_layer::transmit_pending_control_pdus', 'link_layer::timeout', 'link_layer::end_event', 'link_layer::force_disconnect', 'link_layer::reject', 'phy_update_request_impl::handle_phy_request',
               'link_layer_security_impl::handle_encryption_pdus', 'no_desired_connection_parameters::handle_connection_parameters_request',
               'desired_connection_parameters_base::parse_and_check_params'],
    bounds='single steps from every state satisfying the invariant; three link layer configurations',
    assumptions=['representation invariant: used features are a subset of the supported features; connection parameters valid per Core spec',
                 'the transmit ring is empty (a transmit buffer is available; without one handle_received_data does not call handle_ll_control_data)',
                 'stub radio records committed PDUs; key data base / encryption hardware answer with symbolic values'],
    explanation='For every opcode the Core specification defines up to 5.3 (0x00..0x25) with its exact, a too short and a too long length, and for a symbolic opcode '
                '0x26..0xff, one handle_ll_control_data() is executed on the real link layer from a symbolic state (procedure flags, used features, procedure timeout, '
                'link layer state) with a symbolic payload. The PDU handed to the radio is compared with the response table of Vol 6 Part B 2.4.2 / 5.1 for a peripheral: '
                'LL_FEATURE_RSP with FeatureSet[0] = intersection, a single LL_VERSION_IND, LL_PING_RSP, LL_PHY_RSP (2M radio) or LL_UNKNOWN_RSP (no 2M radio), '
                'LL_CONNECTION_PARAM_RSP or a reject (reject required for out of range parameters), LL_ENC_RSP / LL_PAUSE_ENC_RSP (encryption configuration); '
                'unknown, unsupported and malformed requests get LL_UNKNOWN_RSP (or LL_REJECT_EXT_IND) naming the opcode; LL_UNKNOWN_RSP of any length and well-formed rejects get nothing; '
                'other response PDUs get nothing or LL_UNKNOWN_RSP naming them, never anything else; at most one PDU per received PDU; the link is ended only by LL_TERMINATE_IND or an unmeetable instant.',
    outside=['procedure response timeout: that an answer (LL_CONNECTION_UPDATE_IND at its instant, LL_REJECT_*, LL_UNKNOWN_RSP, LL_VERSION_IND) stops the timer is not asserted; '
             'connection events that carry received PDUs while the timer runs (end_event with a filled receive ring does not finish, see C29)',
             'a LL_VERSION_IND received after the peripheral itself sent one (remote_versions_request) is answered with a second LL_VERSION_IND (read in the source, no flag records the sent PDU); '
             'the step harness has no state to express it',
             'desired_connection_parameters / asynchronous_connection_parameter_request option sets; data length extension (LL_LENGTH_REQ is answered LL_UNKNOWN_RSP)',
             'content of the instant carrying indications (C21)'],
)
