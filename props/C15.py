from vf.core import Property, Harness
from .units_pdubuf import PDUBUF, pdubuf_cases, PDUBUF_FUNCTIONS, PDUBUF_ASSUMPTIONS, PDUBUF_BOUNDS, PDUBUF_KW

def cases(tier):
    return pdubuf_cases(15, tier)

PROPERTY = Property(
    'C15',
    [Harness('c15_pdubuf', PDUBUF, 'harness/c15_pdubuf.c', cases,
             description='real ll_data_pdu_buffer between a symbolic host and a spec-conformant central model over a lossy link: bounded histories of connection events from reset',
             bounds=PDUBUF_BOUNDS, **PDUBUF_KW)],
    functions=PDUBUF_FUNCTIONS,
    bounds=PDUBUF_BOUNDS,
    assumptions=PDUBUF_ASSUMPTIONS,
    explanation='every history of K connection events from reset is explored symbolically: per event the host may commit a PDU (symbolic LLID, length, tag) and may consume a received PDU (before or after the radio allocated its receive buffer), the central sends new data / empty PDUs or retransmits according to Core spec 4.5.9 and may lack room, the central->peripheral packet is received intact, with CRC error or not at all, the peripheral->central packet is delivered or lost. Asserted: SN/NESN follow the spec peripheral (NESN advances only for a new intact PDU that was stored; not when allocate_receive_buffer() had no room), every committed PDU is transmitted unchanged, in commit order, again and again until the central acknowledged it and is popped from the transmit ring only then; the central accepts exactly the committed PDUs in order; the host is handed exactly the new non-empty PDUs of the central, in order, unchanged, once; whatever the central saw acknowledged was stored',
    outside=['buffer configurations other than the listed ones', 'histories longer than K events (the rings are pointer shaped; no inductive invariant is used)',
             'MIC failures (see C17)', 'stop_ll_pdu_buffer(), raw buffer access', 'a radio interrupt between allocate_transmit_buffer() and commit_transmit_buffer() (the host step is atomic w.r.t. the radio calls)',
             'PDUs with the reserved LLID 0 and central behaviour that violates 4.5.9', 'the MD bit (not part of the statement)'],
)
