from vf.core import Property, Harness, Unit

WL = Unit('wl', repo_tus=['bluetoe/utility/address.cpp'], description='white_list<3>/<1> software implementation and white_list<3> radio backed implementation on a recording stub radio')

def cases(tier):
    cs = []
    for cfg in (0, 1):
        for op in range(5): cs.append({'CFG': cfg, 'MODE': 0, 'OP': op, 'K': 0})
        cs.append({'CFG': cfg, 'MODE': 1, 'OP': 0, 'K': 3 if tier == 'quick' else 4})
    for op in range(11): cs.append({'CFG': 2, 'MODE': 2, 'OP': op, 'K': 0})
    return cs

PROPERTY = Property(
    'C26',
    [Harness('c26_wl', WL, 'harness/c26_wl.c', cases, unwind=10, timeout=2400,
             description='software white list: inductive step from every state satisfying the representation invariant and bounded histories from construction against a set model; radio backed list: 1:1 forwarding',
             bounds='list sizes 3 and 1; all 6-byte addresses and both address types symbolic; step: every state with 0..N distinct entries, arbitrary garbage in unused slots; histories of 3 (quick) / 4 (thorough) symbolic operations from construction')],
    functions=['white_list_implementation<Size,true,...>::add_to_white_list / remove_from_white_list / is_in_white_list / clear_white_list / white_list_free_size / connection_request_filter / scan_request_filter / is_connection_request_in_filter / is_scan_request_in_filter',
               'white_list_implementation<Size,false,Radio,LinkLayer> (all members)', 'device_address::operator=='],
    bounds='N = 3 and N = 1; every operation from every representable state satisfying the invariant (covers histories of any length by induction) plus histories up to 4 operations from construction',
    assumptions=['representation invariant of the software list: free_size_ <= N and the N - free_size_ stored entries are pairwise distinct (established by construction, re-established by every operation: checked)',
                 'radio backed list: the radio functions are a contract-free stub (arbitrary results); only the forwarding is decided, no radio in the repository implements them'],
    explanation='the set semantics are decided by an inductive step: arbitrary state under the invariant, one arbitrary operation with arbitrary address, result and post-state compared with a mathematical set; the filters accept exactly when filtering is off or the address is a member',
    outside=['list sizes other than 3 and 1', 'hardware white lists (none is implemented in the repository)'],
)
