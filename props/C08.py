from vf.core import Property, Harness
from .C01 import ATT_A, CFG_DESCRIPTION

SMAX = {0: 23, 1: 23, 2: 65, 3: 23, 5: 40}


def case(cfg, mode, length=3, opc=0, cmtu=0, outsz=None):
    return {'CFG': cfg, 'MODE': mode, 'LEN': length, 'OPC': opc, 'CMTU': cmtu, 'OUTSZ': outsz if outsz is not None else SMAX[cfg] + 4}


def all_cases(tier):
    cs = []
    q = tier == 'quick'
    # MODE 0: one Exchange MTU Request, every length class, symbolic old and new client MTU
    for cfg in (0, 2, 5):
        for l in ((2, 3, 4) if q else list(range(1, 24))):
            cs.append(case(cfg, 0, l, outsz=SMAX[cfg]))
        cs.append(case(cfg, 0, 3))
    if q:
        cs += [case(2, 0, 1, outsz=65), case(2, 0, 23, outsz=65)]
    # MODE 1: a request is bounded by the MTU state (all request kinds x lengths: C01 asserts the same bound; here the emphasis is
    # on the client MTU).  cfg 0/5: fully symbolic client MTU; cfg 2: symbolic for Read, concrete client MTUs for the others
    # (a symbolic MTU up to 65 is out of reach for the list requests, measured: no verdict in 600 s)
    cs += [case(0, 1, 3, 0x0A, 0), case(5, 1, 3, 0x0A, 0), case(2, 1, 3, 0x0A, 0)]
    cs += [case(0, 1, 5, 0x0C, 0), case(5, 1, 5, 0x0C, 0), case(5, 1, 23, 0x16, 0)]
    for m in ((23, 65) if q else (23, 24, 40, 64, 65, 66, 0xffff)):
        cs += [case(2, 1, 3, 0x0A, m), case(2, 1, 5, 0x0C, m)]
    if not q:
        for opc, l in [(0x04, 5), (0x10, 7), (0x16, 23), (0x0E, 5), (0x06, 9)]:
            cs.append(case(0, 1, l, opc, 0))
            for m in (23, 30, 40, 41):
                cs.append(case(5, 1, l, opc, m))
            for m in (23, 40, 65):
                cs.append(case(2, 1, l, opc, m))
    # MODE 2: notification / indication output
    for m in ((0, 23, 65) if q else (0, 23, 24, 42, 43, 44, 64, 65, 66)):
        cs.append(case(2, 2, cmtu=m))
    cs.append(case(2, 2, cmtu=23, outsz=65))
    cs.append(case(3, 2, cmtu=0))
    cs.append(case(1, 2, cmtu=0))
    # MODE 3: two exchanges, then read and notification
    for cfg in (0, 2, 5):
        for l in ((2, 3) if q else (1, 2, 3, 4)):
            cs.append(case(cfg, 3, l))
    return cs


def cases_of(cfg):
    return lambda tier: [c for c in all_cases(tier) if c['CFG'] == cfg]


COMMON = dict(timeout=1500, flags=['-DVF_MAX_INPUTS=512'], diff_iters=200, diff_cases=4, unwindset=['in_bytes.0:101'])
UNWIND = {0: 30, 1: 30, 2: 72, 3: 30, 5: 46}

PROPERTY = Property(
    'C08',
    [Harness('c08_mtu_cfg%d' % n, ATT_A[n], 'harness/c08_mtu.c', cases_of(n), unwind=UNWIND[n],
             description='MTU exchange step / request step / notification output step / two-exchange history, ' + CFG_DESCRIPTION[n],
             bounds='see property bounds', **COMMON) for n in (0, 2, 5, 3, 1)],
    functions=['server::handle_exchange_mtu_request', 'server::connection_data::negotiated_mtu / client_mtu', 'server::l2cap_input (clipping to the negotiated MTU)',
               'server::l2cap_output', 'server::handle_read_request and the other request handlers (size bound only)', 'notification_queue (real, feeds l2cap_output)'],
    bounds='server maximum MTU 23 (default), 40 and 65; Exchange MTU Requests of 1..23 bytes with symbolic content from a symbolic client MTU state 23..65535; '
           'request step: 8 request kinds at their regular length, client MTU symbolic (23/40 byte servers) or one of 23,24,40,64,65,66,65535 (65 byte server; symbolic for Read / Read Blob); '
           'output step: symbolic characteristic, kind, CCCD bits; output buffers of server maximum and server maximum + 4; histories of two exchanges',
    assumptions=['client MTU state >= 23 (initially 23; re-established by the exchange step)',
                 'output buffer handed to l2cap_input / l2cap_output is at least 23 bytes',
                 'index passed to queue_notification/queue_indication is a valid characteristic index (precondition of the queue)',
                 'user read handlers respect out_size <= read_size'],
    explanation='exchange step: from any client MTU state any Exchange MTU Request leaves negotiated_mtu() == min(server maximum, last valid client MTU) and is answered as the '
                'statement says; request step and output step: from any such state every response, notification and indication is at most that MTU long and a value longer than '
                'the MTU is cut exactly at it; by induction over the sequence of PDUs this is the property for sequences of any length; a two-exchange history is checked directly',
    outside=['server maxima other than 23, 40, 65', 'Read By Type / Find Information Request with symbolic client MTU and an output buffer larger than the MTU (no verdict in 600 s on the loaded machine; the size bound for it is asserted in C01 with buffer == server maximum)', 'fully symbolic client MTU for list requests on the 65 byte server (checked for 7 concrete client MTUs)',
             'the link layer calling l2cap_output with a buffer smaller than 23'],
)
