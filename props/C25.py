import os
from vf.core import Property, Harness, Unit, REPO
from .units_llc import LLC

NRF52 = Unit('ll_c_nrf52', shim='shims/ll_c_nrf52.cpp',
             repo_tus=['bluetoe/link_layer/delta_time.cpp', 'bluetoe/utility/address.cpp'],
             includes=['stubs/llc', 'stubs', REPO + '/bluetoe/bindings/nordic/include', REPO + '/bluetoe/bindings/nordic/nrf52/include',
                       REPO + '/bluetoe/bindings/nordic/uECC'],
             description='real nrf52_details::nrf52_radio_base<CallBacks, stub Hardware, stub Buffer> (advertising part of the radio ISR state machine, '
                         'is_valid_scan_request), PDU layouts without and with the encryption gap byte')

ADV_OF_CFG = {0: [0], 1: [0, 1, 2, 3], 2: [1], 3: [2], 4: [3], 5: [0]}


def recv_cases(cfg):
    """measured on the (4x oversubscribed) shared machine: 130..330 s and 0.7..1.9 GB per case, independent of LEN (the cost is the set-up of the
    real link layer with symbolic addresses / white list, not the request) -> the quick tier is a selection of boundary cases"""
    def f(tier):
        cs = []
        def add(adv, ln, mode, wln=3, own=0):
            # directed advertising (symbolic target address) together with 3 symbolic white list entries gave no verdict in 30 min for LEN 36;
            # with an empty list (filter switch still symbolic: on = nobody permitted, off = everybody) 160 s
            if adv == 1 and ln == 36: wln = 0
            c = {'CFG': cfg, 'ADV': adv, 'LEN': ln, 'MODE': mode, 'WLN': wln, 'OWN': own}
            if c not in cs: cs.append(c)
        for adv in ADV_OF_CFG[cfg]:
            if tier == 'quick':
                if cfg == 0:
                    for ln in (2, 35, 36, 37): add(adv, ln, 0)
                    add(adv, 36, 0, 0); add(adv, 36, 1); add(adv, 36, 2); add(adv, 36, 3); add(adv, 36, 3, 0)
                elif cfg == 1:
                    add(adv, 36, 0)
                    if adv in (0, 1): add(adv, 36, 1)
                    if adv == 1: add(adv, 37, 0); add(adv, 36, 1, 0)
                elif cfg == 2:
                    add(adv, 36, 0); add(adv, 36, 1)
                else:
                    add(adv, 36, 1)
            else:
                if cfg == 0:
                    for ln in range(0, 42): add(adv, ln, 0)
                    for ln in (0, 2, 14, 35, 36, 37, 41): add(adv, ln, 1)
                    add(adv, 36, 0, 0); add(adv, 36, 1, 0); add(adv, 36, 2); add(adv, 36, 3); add(adv, 36, 3, 0)
                    for own in (1, 2):
                        for ln in (35, 36, 37): add(adv, ln, 0, 3, own)
                        add(adv, 36, 1, 3, own)
                elif cfg == 1:
                    for ln in (0, 2, 14, 35, 36, 37, 39): add(adv, ln, 0)
                    for ln in (35, 36, 37): add(adv, ln, 1)
                    add(adv, 36, 0, 0); add(adv, 36, 2)
                else:
                    for ln in (35, 36, 37): add(adv, ln, 0)
                    add(adv, 36, 1); add(adv, 36, 1, 0); add(adv, 36, 2)
        flt = os.environ.get('VF_C25_FILTER')          # debugging aid: "ADV=1,LEN=36,MODE=0"
        if flt:
            want = dict(kv.split('=') for kv in flt.split(','))
            cs = [c for c in cs if all(str(c.get(k)) == v for k, v in want.items())]
        return cs
    return f


def scan_cases(tier):
    return [{'GAP': g, 'HASRSP': h} for g in (0, 1) for h in (0, 1)]


def mk_recv(cfg):
    return Harness('c25_recv_cfg%d' % cfg, LLC[cfg], 'harness/c25_recv.c', recv_cases(cfg), unwind=50, timeout=1800,
                   description='handle_adv_receive() / adv_received() of the real link layer on a symbolic received buffer (size by case split), own address (default static random address; thorough tier also a public and a symbolic address), '
                               'directed target, white list and filter switches',
                   bounds='buffer sizes quick: 2, 35, 36, 37 (single type advertiser, handle_adv_receive), 36 / 37 for the other option sets, 36 for adv_received; thorough: every size 0..41 '
                          '(single type advertiser), boundary sizes for the others; every byte of the buffer symbolic incl. PDU type, TxAdd / RxAdd and the length field; '
                          'white list: 3 arbitrary entries (possibly equal) in use, or empty (case split); directed advertising with a 36 byte buffer: empty list only')


def harnesses(tier_all=True):
    hs = [mk_recv(c) for c in (0, 1, 2, 5, 3, 4)]
    hs.append(Harness('c25_scan', NRF52, 'harness/c25_scan.c', scan_cases, unwind=50, timeout=900,
                      description='nrf52_radio_base: schedule_advertisment, radio interrupt after the advertisement, radio interrupt after a symbolic reception: '
                                  'a scan response is transmitted only for a valid SCAN_REQ addressed to the device whose sender passed the scan filter',
                      bounds='receive buffer 2 + gap + 34 bytes (as provided by the link layer), every byte symbolic; scan response PDU symbolic (own address and '
                             'type taken from it, as the radio does); reception flags, filter answer, identity resolving answer symbolic; both PDU layouts; '
                             'with and without scan response data'))
    return hs


PROPERTY = Property(
    'C25',
    harnesses(),
    functions=['link_layer::adv_received', 'advertiser<single type>::handle_adv_receive', 'advertiser<multiple types>::handle_adv_receive',
               'advertising_type_base::is_valid_connect_request', 'connectable_undirected_advertising::impl::is_valid_connect_request',
               'connectable_directed_advertising::impl::is_valid_connect_request / directed_advertising_address / fill_advertising_data',
               'scannable_undirected_advertising::impl::is_valid_connect_request', 'non_connectable_undirected_advertising::impl::is_valid_connect_request',
               'multipl_advertiser_base::is_valid_connect_request', 'white_list_implementation<3,true>::is_connection_request_in_filter / is_scan_request_in_filter',
               'no_white_list::impl', 'link_layer::run / start_advertising_impl', 'channel_map::reset', 'link_layer::parse_timing_parameters_from_connect_request',
               'nrf52_radio_base::schedule_advertisment', 'nrf52_radio_base::radio_interrupt_handler (advertising states)', 'nrf52_radio_base::is_valid_scan_request'],
    bounds='6 link layer option sets (single type advertisers for the 4 advertising types, one advertiser with all 4 types, defaults without white list); received buffer '
           'of every size 0..41 bytes for the single type advertiser in the thorough tier, boundary sizes 35 / 36 / 37 (and 0, 2, 14, 39) otherwise, with all bytes symbolic; white list with 3 entries or empty; nRF52 radio with both PDU layouts',
    assumptions=['own device address: the default static random address of the link layer (c0:0f:15:08:11:47, derived from the radio seed) in the quick tier; thorough tier additionally '
                 'a concrete public address and a fully symbolic address + type for the single type advertiser (symbolic 7 byte address objects cost minutes per case: measured 130..900+ s)',
                 'stub scheduled radio for the link layer part: records schedule_advertisment / schedule_connection_event; the radio delivers received advertising channel PDUs through '
                 'adv_received( read_buffer ) with the buffer sized to the received PDU (exact-size object)',
                 'white list content is set through raw members (3 arbitrary entries that may be equal = lists of 1..3 different devices, or no entry: case split); its add/remove semantics are C26',
                 'length field: the 6 bit field of the 4.x PDU layout is compared (the implementation masks with 0x3f); the two upper bits are not constrained (permissive)',
                 'nRF52 part: Hardware class replaced by a stub (register level behaviour of the RADIO / TIMER / AAR peripherals is outside); the link layer scan filter '
                 '(CallBacks::is_scan_request_in_filter) answers arbitrarily and records the question; own address and address type are the ones in the scan response PDU',
                 'the "accepted if" direction (a properly addressed and permitted request is accepted) is only checked as a sanity / non-vacuity condition'],
    explanation='The received advertising channel PDU, the device address and type, the directed advertising target, the white list and the filter switches are symbolic; for every '
                'buffer size (case split) the real advertiser / link layer decides; a connection is entered (state connecting, first connection event scheduled) only if the PDU '
                'is a CONNECT_IND of length 34 with AdvA / RxAdd equal to the own address / type, the advertising type is connectable, for directed advertising InitA / TxAdd equal '
                'the target, and the initiator passes the connection filter; otherwise the next advertisement is scheduled. Scan requests are answered by the radio: the real '
                'nRF52 radio interrupt state machine is driven with a symbolic reception and sends the scan response only for a SCAN_REQ of length 12 addressed to the own '
                'address and type whose sender (ScanA with the type from TxAdd) was accepted by the scan filter, and only when the advertising type provided response data '
                '(the link layer part shows that only the scannable types do).',
    outside=['directed advertising combined with a non-empty white list for 36 byte requests (no verdict within 30 min per case); with an empty list the filter switch is still symbolic',
             'advertising.hpp is_valid_scan_request (advertising_type_base and the advertising types): cannot be instantiated (uses body.begin on a std::pair, and the scannable '
             'type calls the template without its Layout argument), no caller exists; the scan decision of a real system is the radio binding\'s',
             'nRF51 binding (scheduled_radio_base::is_valid_scan_request in nrf51.cpp)', 'register level behaviour of the nRF52 peripherals (stub Hardware class)',
             'hardware white lists (radio_maximum_white_list_entries > 0): no in-repo radio implements one',
             'what happens after the connection is entered (C22, C21, C27)'],
)
