from vf.core import Property, Harness, Unit

LAT = Unit('lat', repo_tus=['bluetoe/link_layer/delta_time.cpp'], description='details::peripheral_latency_state for peripheral_latency_ignored / strict / strict_plus / default and a peripheral_latency_configuration_set of the four')

def cases(tier):
    cs = []
    for cfg, sels in ((0, (0,)), (1, (0,)), (2, (0,)), (3, (0,)), (4, (0, 1, 2, 3))):
        for sel in sels:
            for mode in (0, 1, 2):
                if tier == 'quick' and mode == 2 and cfg not in (0, 4): continue
                if mode == 2 and sel != 0: continue
                ivs = ((6, 3200) if mode != 1 else (6, 40, 3200)) if tier == 'quick' else (6, 7, 24, 40, 799, 800, 3199, 3200)
                for iv in ivs:
                    c = {'CFG': cfg, 'SEL': sel, 'MODE': mode, 'INTERVAL': iv}
                    # the pull back divides the time since the anchor by the interval and the oracle multiplies back: SAT does not
                    # decide that (900 s timeout), cvc5 with bit-vectors solved as integers does in seconds
                    if mode == 1 and cfg in (1, 3, 4): c['_backend'] = 'cvc5int'
                    cs.append(c)
    return cs

PROPERTY = Property(
    'C23',
    [Harness('c23_lat', LAT, 'harness/c23_lat.c', cases, unwind=6, timeout=900,
             description='one plan_next_connection_event / plan_next_connection_event_after_timeout / reschedule_on_pending_data from an arbitrary state',
             bounds='all four predefined latency configurations and a configuration set of the four with every member active; channel index 0..36, event counter, latency 0..499, six event flags, pending instant and radio answer (disarm possible, time since anchor: 32 bit) all symbolic; connection interval concrete per query: 6, 40, 3200 (quick) / 6, 7, 24, 40, 799, 800, 3199, 3200 (thorough) x 1.25 ms')],
    functions=['details::connection_state_base::plan_next_connection_event', 'plan_next_connection_event_after_timeout', 'reset_connection_state', 'peripheral_latency_move_connection_event',
               'details::disarmable_connection_state::reschedule_on_pending_data_impl', 'peripheral_latency_state<configuration_set>::peripheral_latency_feature / runtime_feature', 'delta_time arithmetic (delta_time.cpp)'],
    bounds='single planning step (plus optional pull back) from every state; by induction on connection events this covers every sequence of event outcomes and pending-data requests',
    assumptions=['connection latency <= 499 and interval 6..3200 x 1.25 ms (validated by the link layer before they are stored, see C22)',
                 'radio contract: disarm_connection_event() succeeds only while the planned event is still ahead and then returns the time since the last anchor',
                 'channel index < 37 (invariant: established by reset, preserved by every operation: checked)'],
    explanation='the state of the latency logic is four scalars, so a single step from an arbitrary state is exhaustive: the number of events that passed must be 1..latency+1, equal 1 when a configured listen condition (taken from the documentation of the configuration) held, counter, channel index and elapsed time must agree, a pending instant is never skipped, and a pull back moves all three together to the next possible event',
    outside=['connection intervals other than the listed ones (the interval only enters through one multiplication and one division; a symbolic interval gave no verdict in 35 minutes)', 'configurations other than the predefined ones and the set of them', 'how link_layer derives the event flags (C15/C21)'],
)
