from vf.core import Property, Harness, Unit
from .units_sm import env_filter      # debugging aid: VF_SM_CASES="MODE=2,CFG=5" keeps only the matching cases

REPO_TUS = ['bluetoe/utility/address.cpp']
DESC = ('io_capabilities_matrix<input, output> for the 6 input x output option pairs (+ 4 option lists relying on defaults); '
        '%s::impl<Functions, IO options [, require_man_in_the_middle_protection]%s>')
SMB_LEGACY = Unit('smb_legacy', shim='shims/sm_b.cpp', repo_tus=REPO_TUS, flags=['-DVF_SM_KIND=0'],
                  description=DESC % ('legacy_security_manager', ', oob_authentication_callback') + ' for all 6 IO option pairs')
SMB_LESC = Unit('smb_lesc', shim='shims/sm_b.cpp', repo_tus=REPO_TUS, flags=['-DVF_SM_KIND=1'],
                description=DESC % ('lesc_security_manager', '') + ' for the 4 IO option pairs without keyboard')
SMB_COMB = Unit('smb_comb', shim='shims/sm_b.cpp', repo_tus=REPO_TUS, flags=['-DVF_SM_KIND=2'],
                description=DESC % ('security_manager', ', oob_authentication_callback') + ' for the 4 IO option pairs without keyboard')

# manager configurations: cfg = io + 6 * mitm; the LESC capable managers do not compile with pairing_keyboard
CFGS = {0: list(range(12)), 1: [0, 1, 2, 3, 6, 7, 8, 9], 2: [0, 1, 2, 3, 6, 7, 8, 9]}
# configurations in which table 2.8 names an authenticated method (the known finding c36_mitm_flags_ignored shows there)
STRICT_QUICK = {0: [1, 5], 1: [3], 2: [1, 3]}


def mk_cases(kind):
    def cases(tier):
        cs = []
        if kind == 0:
            cs.append({'MODE': 0, 'KIND': 0, 'CFG': 0, 'STRICT': 0})             # matrix alone, option list symbolic
        cs.append({'MODE': 1, 'KIND': kind, 'CFG': 0, 'STRICT': 0})               # selection functions, configuration symbolic
        cs.append({'MODE': 1, 'KIND': kind, 'CFG': 0, 'STRICT': 1})
        for cfg in CFGS[kind]:                                                    # Pairing Request through l2cap_input
            cs.append({'MODE': 2, 'KIND': kind, 'CFG': cfg, 'STRICT': 0})
            if tier != 'quick' or cfg in STRICT_QUICK[kind]:
                cs.append({'MODE': 2, 'KIND': kind, 'CFG': cfg, 'STRICT': 1})
        return env_filter(cs)
    return cases


COMMON = dict(unwind=20, timeout=600, diff_iters=150, diff_cases=4)
PROPERTY = Property(
    'C36',
    [Harness('c36_sel_legacy', SMB_LEGACY, 'harness/c36_sel.c', mk_cases(0),
             description='io_capabilities_matrix for all option pairs; legacy_security_manager: selection function and complete Pairing Request against the Core spec tables',
             bounds='matrix: 10 option lists x remote IO capability 0..4; manager: 6 IO option pairs x {no MITM option, require_man_in_the_middle_protection}, all with OOB callback', **COMMON),
     Harness('c36_sel_lesc', SMB_LESC, 'harness/c36_sel.c', mk_cases(1),
             description='lesc_security_manager: selection function and complete Pairing Request against the Core spec tables',
             bounds='4 IO option pairs (no keyboard: does not compile) x {no MITM option, MITM option}, no OOB callback', **COMMON),
     Harness('c36_sel_comb', SMB_COMB, 'harness/c36_sel.c', mk_cases(2),
             description='security_manager (legacy + LESC): selection functions and complete Pairing Request (SC flag decides) against the Core spec tables',
             bounds='4 IO option pairs x {no MITM option, MITM option}, all with OOB callback', **COMMON)],
    functions=['details::io_capabilities_matrix::get_io_capabilities / select_legacy_pairing_algorithm / select_lesc_pairing_algorithm',
               'pairing_no_output / pairing_numeric_output ::get_io_capabilities, ::select_legacy_pairing_algorithm, ::select_lesc_pairing_algorithm (all input option overloads)',
               'details::security_manager_base::legacy_select_pairing_algorithm / lesc_select_pairing_algorithm / legacy_local_io_caps / lesc_local_io_caps / create_pairing_response',
               'details::security_manager_base::legacy_handle_pairing_request / lesc_handle_pairing_request, details::security_manager_impl::handle_pairing_request',
               'oob_authentication_callback::request_oob_data_presents_for_remote_device / has_oob_data_for_remote_device'],
    bounds='local: all 6 input x output option pairs (io_capabilities_matrix and legacy manager), the 4 pairs without keyboard for the LESC and combined manager, each with and without require_man_in_the_middle_protection; remote: IO capability 0..4, OOB flag 0/1, every AuthReq byte (bonding, MITM, SC, keypress and RFU bits), key size 7..16, key distribution nibbles; OOB callback answer symbolic; peer / own address symbolic',
    assumptions=['the device under test is the responder (bluetoe is a peripheral): table 2.8 is read with the local device as responder',
                 '"the device has OOB data" = the answer of the application\'s OOB callback for the peer address during this Pairing Request (legacy and combined manager); the LESC only manager is instantiated without OOB callback',
                 'the local MITM requirement is the MITM flag of the Pairing Response (set by require_man_in_the_middle_protection)',
                 'permissive reading: only the IO capability octet of the Pairing Response is compared (the statement names "the advertised local IO capability"), not its OOB flag',
                 'STRICT=0 cases accept, where the spec demands Just Works because neither side set MITM, also the method table 2.8 names (known finding); STRICT=1 cases demand the spec mapping exactly and carry the known-finding region'],
    explanation='three levels, each against the Core spec tables 2.5 / 2.6 / 2.7 / 2.8 written as tables in the harness: (0) the IO capability matrix alone for all 10 option lists and symbolic remote IO capability; (1) the managers\' legacy_/lesc_select_pairing_algorithm with symbolic remote IO capability, OOB flag, AuthReq and has-OOB-data; (2) a complete symbolic Pairing Request through l2cap_input() of a new connection: the Pairing Response must carry the IO capability of table 2.5 and the algorithm stored in the connection data (the one the later phases execute) must be the spec method for the request, the MITM flag of the response and the OOB callback answer. Every case is one solver query over all remote parameters.',
    outside=['Security Request: bluetoe never sends one', 'LESC capable managers with pairing_keyboard: the combination does not compile (pairing_keyboard lacks sm_pairing_request_yes_no); the matrix itself is checked for these option pairs',
             'the OOB data flag of the Pairing Response (the LESC response always carries 0, even when the OOB callback reported data and OOB was selected): not named by the statement',
             'whether the selected method is the one executed later (C35)', 'IO capability values > 4 in the request (rejected as invalid parameters; C32)'],
)
