from vf.core import Property, Harness, Unit

DESCR = {4: 'B5: 2 primary services (128 / 16 bit UUID), auto / 16 / 128 bit characteristic UUIDs, CCCD, descriptor (10 attributes, handles 1..10)',
         5: 'B6: attribute_handle<> on service and characteristic, attribute_handles<> with CCCD, a service that follows a fixed one; gaps 1..0x0f, 0x11..0x1f, 0x21, 0x24..0x2f, 0x31, 0x33, 0x36..0x3f (10 attributes)',
         6: 'B7: secondary service, two primary services with include_service, fixed handles on service and characteristic (9 attributes)'}
NATTR = {4: 10, 5: 10, 6: 9}
UNITS = {c: Unit('att_b%d' % c, shim='shims/att_b.cpp', flags=['-DVF_BCFG=%d' % c], description=d) for c, d in DESCR.items()}

REQS = [(0x04, 5), (0x08, 7), (0x08, 21), (0x10, 7), (0x10, 21)]
# Read By Type with a 16 byte type UUID: the query does not fit into 16 GB (measured 14.7 GB / 14.5 GB, solver out of memory,
# on B5 and on B7), so the real code is not run on it; only the oracle lemma (MODE 1) keeps that request form
INFEASIBLE = [(0x08, 21)]


def cases_for(cfg):
    def cases(tier):
        cs = []
        for opc, ln in REQS:
            if (opc, ln) in INFEASIBLE:
                continue
            if tier == 'quick':
                # the cost of Find Information / Read By Type grows with (number of attributes)^2 and doubles for a 128 bit type:
                # quick keeps MTU 23 for every request kind on every declaration, the 16 byte type forms on B7 only
                # and MTU 65 for Find Information on B6
                if (opc, ln) == (0x10, 21) and cfg != 6:
                    continue
                mtus = (23, 65) if (opc, ln) == (0x04, 5) and cfg == 5 else (23,)
            else:
                mtus = (23, 24, 27, 43, 65)
            for mtu in mtus:
                cs.append({'CFG': cfg, 'MODE': 0, 'OPC': opc, 'LEN': ln, 'MTU': mtu})
        for opc, ln in REQS:
            if tier == 'quick' and ln == 21 and cfg != 6:
                continue
            cs.append({'CFG': cfg, 'MODE': 1, 'OPC': opc, 'LEN': ln, 'MTU': 23})
        return cs
    return cases


PROPERTY = Property(
    'C02',
    [Harness('c02_disc_b%d' % c, UNITS[c], 'harness/c02_disc.c', cases_for(c), unwind=24,
             unwindset=['vf_b_l2cap_input.0:%d' % (NATTR[c] + 2), 'vf_b_l2cap_input.1:%d' % (NATTR[c] + 2), 'memcpy.0:22'], timeout=1500,
             description='one Find Information / Read By Type / Read By Group Type request with symbolic handle range and type against the expected attribute table of '
                         + DESCR[c] + '; plus the lemma that accepted responses, iterated, enumerate every match exactly once',
             bounds='request lengths 5 / 7 / 21; start, end, type UUID and the bound characteristic values fully symbolic; client MTU = output buffer 23 (every request kind on every declaration; the 16 byte type forms on one declaration each) and 65 '
                    '(Find Information on B6) in quick / all request kinds x 23, 24, 27, 43, 65 on every declaration in thorough; server max MTU 65; attribute loops unwound to number of attributes + 2')
     for c in sorted(UNITS)],
    functions=['server::l2cap_input', 'server::handle_find_information_request', 'server::handle_read_by_type_request',
               'server::handle_read_by_group_type_request', 'server::check_size_and_handle_range', 'server::all_attributes', 'server::last_handle_index',
               'server::collect_handle_uuid_tuples', 'server::write_128bit_uuid', 'details::collect_attributes', 'details::collect_primary_services', 'service::read_primary_service_response',
               'details::uuid_filter', 'details::handle_index_mapping (first_index_by_handle, handle_by_index)', 'server::attribute_at and every attribute access function of the configurations'],
    bounds='server declarations B5..B7 (10/10/9 attributes); every (start,end) pair, every 2 and 16 byte type, MTU 23..65 at the listed values',
    assumptions=['every attribute of the configurations is readable without encryption (permissions are C05/C06)',
                 'CCCD values are those of a fresh connection (0x0000)',
                 'Read By Group Type: Unsupported Group Type (0x10) is accepted for every group type other than <<Primary Service>> (bluetoe documents that only primary services can be read by group type)',
                 'a response may contain fewer entries than would fit (latitude of the ATT specification), but no match may be omitted before or between returned entries',
                 'invalid handle ranges (start == 0 or start > end) may be answered with any Error Response'],
    explanation='for each server declaration a hand-written expected attribute table (handle, type, group end, value) is the oracle; the real '
                'l2cap_input is run on one request whose start/end handles, type UUID (2 and 16 byte encodings) and bound values are solver variables; the response '
                'must be the Error Response Attribute Not Found iff the table has no match in range, otherwise a non-empty run of the matches starting with the first '
                'one, with the right handles, UUIDs, group end handles and values; a second query shows on the oracle that iterating accepted responses enumerates '
                'every match exactly once',
    outside=['Read By Type with a 16 byte type UUID (request length 21): the solver ran out of memory (14.7 GB on B5, 14.5 GB on B7, limit 16 GB); the known finding c02_read_by_type_128bit_never_matches (Attribute Not Found for the 128 bit type of an existing attribute) is therefore confirmed by a native run only',
             'server declarations other than B5..B7 (the cost of one query grows with the square of the number of attributes: 21 attributes did not finish in 13 minutes)',
             'attributes that are not readable (no_read_access, encryption)', 'MTU values above 65',
             'Read By Group Type for <<Secondary Service>> (answered with Unsupported Group Type, accepted)'],
)
