from vf.core import Property, Harness, Unit

ATT_B = Unit('att_b', description='bluetoe::server<> B1 (2 primary services 128/16 bit, auto/16/128 bit characteristic UUIDs, CCCDs, user description, '
             'descriptor, default GAP service), B2 (attribute_handle<> on service and characteristic, attribute_handles<> with/without CCCD, gaps up to 0x3000), '
             'B3 (primary + secondary services, include_service 16/128 bit, fixed handles), B4 (secondary + include, no fixed handles, GAP service); max_mtu_size<65>')

REQS = [(0x04, 5), (0x08, 7), (0x08, 21), (0x10, 7), (0x10, 21)]


def cases(tier):
    cs = []
    for cfg in (0, 1, 2, 3):
        for opc, ln in REQS:
            mtus = (23, 65) if tier == 'quick' else (23, 24, 27, 43, 65)
            for mtu in mtus:
                cs.append({'CFG': cfg, 'MODE': 0, 'OPC': opc, 'LEN': ln, 'MTU': mtu})
        for opc, ln in REQS:
            cs.append({'CFG': cfg, 'MODE': 1, 'OPC': opc, 'LEN': ln, 'MTU': 23})
    return cs


PROPERTY = Property(
    'C02',
    [Harness('c02_disc', ATT_B, 'harness/c02_disc.c', cases, unwind=24, timeout=600,
             description='one Find Information / Read By Type / Read By Group Type request with symbolic handle range and type against the expected attribute table; '
                         'plus the lemma that accepted responses, iterated, enumerate every match exactly once',
             bounds='4 server configurations; request lengths 5 / 7 / 21; start, end, type UUID and the bound characteristic values fully symbolic; '
                    'client MTU = output buffer 23 and 65 (quick) / 23, 24, 27, 43, 65 (thorough); server max MTU 65')],
    functions=['server::l2cap_input', 'server::handle_find_information_request', 'server::handle_read_by_type_request',
               'server::handle_read_by_group_type_request', 'server::check_size_and_handle_range', 'server::all_attributes', 'server::last_handle_index',
               'server::collect_handle_uuid_tuples', 'details::collect_attributes', 'details::collect_primary_services', 'service::read_primary_service_response',
               'details::uuid_filter', 'details::handle_index_mapping (first_index_by_handle, handle_by_index)', 'server::attribute_at and every attribute access function of the configurations'],
    bounds='server declarations B1..B4 (21/21/16/12 attributes); every (start,end) pair, every 2 and 16 byte type, MTU 23..65 at the listed values',
    assumptions=['every attribute of the configurations is readable without encryption (permissions are C05/C06)',
                 'CCCD values are those of a fresh connection (0x0000)',
                 'Read By Group Type: Unsupported Group Type (0x10) is accepted for every group type other than the 16 bit <<Primary Service>> (bluetoe documents that only primary services can be read by group type)',
                 'a response may contain fewer entries than would fit (latitude of the ATT specification), but no match may be omitted before or between returned entries'],
    explanation='for each of the four server declarations a hand-written expected attribute table (handle, type, group end, value) is the oracle; the real '
                'l2cap_input is run on one request whose start/end handles, type UUID (2 and 16 byte encodings) and bound values are solver variables; the response '
                'must be the Error Response Attribute Not Found iff the table has no match in range, otherwise a non-empty run of the matches starting with the first '
                'one, with the right handles, UUIDs, group end handles and values; a second query shows on the oracle that iterating accepted responses enumerates '
                'every match exactly once',
    outside=['server declarations other than B1..B4', 'attributes that are not readable (no_read_access, encryption)', 'MTU values above 65',
             'Read By Group Type for <<Secondary Service>> (answered with Unsupported Group Type, accepted)'],
)
