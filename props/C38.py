from vf.core import Property, Harness
from .C37 import NRF52_STB, STB_FLAGS

def cases(tier):
    return [{'MODE': 0}, {'MODE': 1}, {'MODE': 2}]

PROPERTY = Property(
    'C38',
    [Harness('c38_passkey', NRF52_STB, 'harness/c38_passkey.c', cases, unwind=20, timeout=600, flags=STB_FLAGS, diff_iters=60, diff_cases=3,
             description='security_tool_box::create_passkey() on an RNG peripheral that delivers symbolic bytes: range (MODE 0), every value reachable (MODE 1, target symbolic, witness stream given), structure that bounds the bias (MODE 2)',
             bounds='all RNG byte streams (16 symbolic bytes, the generator may use at most 16); all 10^6 targets in one query (symbolic target)')],
    functions=['security_tool_box::create_passkey', 'nrf52_details::random_number32 / random_number16 / random_number8 (RNG peripheral driver)'],
    bounds='every RNG byte stream; every target value 0..999999',
    assumptions=['RNG peripheral: TASKS_START makes the next byte of an arbitrary byte stream available in VALUE and raises EVENTS_VALRDY',
                 'create_passkey consumes at most 16 random bytes'],
    explanation='the RNG register reads of the real driver code end in an emulated peripheral whose byte stream is symbolic, so the solver decides for every stream that the 128-bit result (the temporary key TK, displayed through read_32bit) is at most 999999; surjectivity is decided for a symbolic target with an explicitly constructed stream; a structural lemma (passkey = 32-bit number of 4 fresh RNG bytes mod 10^6) bounds the deviation from the uniform distribution to 1/4294',
    outside=['"uniformly chosen" in the exact sense is a counting statement over 2^32 streams and is not decided; decided are range, surjectivity and the structure that bounds the relative bias by 1/4294 (2^32 is not a multiple of 10^6), given uniform independent RNG bytes',
             'quality of the hardware random number generator (bias correction is configured in nrf52.cpp, not in this unit)',
             'the nRF51 binding has its own copy of create_passkey (nrf51.cpp), not built here'],
)
