"""shim units shared by the property specs"""
from vf.core import Unit

NQ = Unit('nq', description='bluetoe::notification_queue<tuple<integral_constant<int,N>...>, Mixin> for <3>, <1>, <5>, <1,2>, <2,1,1>, <4,3>')
