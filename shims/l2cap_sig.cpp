// shim: the real bluetoe::l2cap::signaling_channel<> (LE signaling channel, CID 5).
// No property logic here: wrappers only forward calls and copy raw member values in and out.
#include <cassert>
#include <bluetoe/l2cap_signaling_channel.hpp>

namespace {
    struct conn_data { int unused; };

    bluetoe::l2cap::signaling_channel<> sig;
    conn_data                           connection;
}

extern "C" {

__attribute__((noinline)) void vf_sig_input( const std::uint8_t* in, unsigned long in_size, std::uint8_t* out, unsigned long* out_size )
{
    std::size_t o = *out_size;
    sig.l2cap_input( in, in_size, out, o, connection );
    *out_size = o;
}

__attribute__((noinline)) void vf_sig_output( std::uint8_t* out, unsigned long* out_size )
{
    std::size_t o = *out_size;
    sig.l2cap_output( out, o, connection );
    *out_size = o;
}

__attribute__((noinline)) int vf_sig_request( unsigned interval_min, unsigned interval_max, unsigned latency, unsigned timeout )
{
    return sig.connection_parameter_update_request(
        static_cast< std::uint16_t >( interval_min ), static_cast< std::uint16_t >( interval_max ),
        static_cast< std::uint16_t >( latency ), static_cast< std::uint16_t >( timeout ) );
}

// raw state: status 0 idle, 1 queued, 2 transmitted (the enumerators of pending_status_); par = interval_min, interval_max, latency, timeout
__attribute__((noinline)) void vf_sig_set_state( int status, unsigned identifier, const std::uint16_t* par )
{
    sig.pending_status_ = static_cast< decltype( sig.pending_status_ ) >( status );
    sig.identifier_     = static_cast< std::uint8_t >( identifier );
    sig.interval_min_   = par[ 0 ];
    sig.interval_max_   = par[ 1 ];
    sig.latency_        = par[ 2 ];
    sig.timeout_        = par[ 3 ];
}

__attribute__((noinline)) void vf_sig_get_state( int* status, unsigned* identifier, std::uint16_t* par )
{
    *status     = static_cast< int >( sig.pending_status_ );
    *identifier = sig.identifier_;
    par[ 0 ]    = sig.interval_min_;
    par[ 1 ]    = sig.interval_max_;
    par[ 2 ]    = sig.latency_;
    par[ 3 ]    = sig.timeout_;
}

__attribute__((noinline)) unsigned vf_sig_channel_id() { return bluetoe::l2cap::signaling_channel<>::channel_id; }

}
