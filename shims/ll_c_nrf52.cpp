// shim ll_c_nrf52: the real bluetoe::nrf52_details::nrf52_radio_base< CallBacks, Hardware, Buffer, Options... > (advertising part of the
// radio ISR state machine: schedule_advertisment, radio_interrupt_handler, is_valid_scan_request) over a stub Hardware class.
// The Hardware (timers, radio configuration, received_pdu, identity resolving) and the link layer's scan filter are forwarded to
// extern "C" functions that the harness defines.  No property logic.
#include <bluetoe/nrf52.hpp>

extern "C" {
    int  vfn_env_scan_in_filter( const std::uint8_t* addr6, int is_random );     // CallBacks::is_scan_request_in_filter
    void vfn_env_final_transmit( const std::uint8_t* buffer, std::size_t size ); // Hardware::configure_final_transmit (the scan response goes out)
    void vfn_env_transmit_train( const std::uint8_t* buffer, std::size_t size ); // Hardware::configure_transmit_train (the advertisement)
    int  vfn_env_received_pdu( void );                                           // bit0 valid anchor, bit1 valid pdu, bit2 valid crc
    int  vfn_env_resolving_address_invalid( void );                              // Hardware::resolving_address_invalid
    void vfn_env_stop_radio( void );
}

namespace vfn {
    using namespace bluetoe::link_layer;

    struct clock
    {
        using meta_type = bluetoe::nrf::nrf_details::sleep_clock_source_meta_type;
        static void start_clocks() {}
        static void stop_high_frequency_crystal_oscilator() {}
    };

    template < int Gap >
    struct hardware
    {
        static void init( void (*)( void* ), void* ) {}
        static void init( std::uint8_t*, void (*)( void* ), void* ) {}
        static int  pdu_gap_required_by_encryption() { return Gap; }
        static void configure_radio_channel( unsigned ) {}
        static void configure_transmit_train( const write_buffer& b ) { vfn_env_transmit_train( b.buffer, b.size ); }
        static void configure_receive_train( const read_buffer& ) {}
        static void configure_final_transmit( const write_buffer& b ) { vfn_env_final_transmit( b.buffer, b.size ); }
        static void setup_identity_resolving( const std::uint8_t* ) {}
        static bool resolving_address_invalid() { return vfn_env_resolving_address_invalid() != 0; }
        static bool schedule_advertisment_event_timer( delta_time, std::uint32_t, std::uint32_t ) { return false; }
        static void schedule_connection_event_timer( std::uint32_t, std::uint32_t, std::uint32_t ) {}
        static std::tuple< bool, bool, bool > received_pdu()
        {
            const int r = vfn_env_received_pdu();
            return std::make_tuple( ( r & 1 ) != 0, ( r & 2 ) != 0, ( r & 4 ) != 0 );
        }
        static void stop_timeout_timer() {}
        static void store_timer_anchor( int ) {}
        static void stop_radio() { vfn_env_stop_radio(); }
        static std::uint32_t now() { return 0; }
        static std::pair< bool, delta_time > can_stop_connection_event_timer( std::uint32_t ) { return { false, delta_time() }; }
        static bool schedule_user_timer( void (*)( void* ), std::uint32_t, std::uint32_t ) { return false; }
        static bool stop_user_timer() { return false; }
        static bool user_timer_anchor_moved() { return false; }
        static void set_access_address_and_crc_init( std::uint32_t, std::uint32_t ) {}
        static std::uint32_t static_random_address_seed() { return 0; }
        static void set_phy( phy_ll_encoding::phy_ll_encoding_t, phy_ll_encoding::phy_ll_encoding_t ) {}
        struct lock_guard { lock_guard() {} };
    };

    // the connection event branches of the ISR are not driven; they only have to compile
    struct buffer
    {
        // clang-14 rejects nrf52.hpp's `connection_event_setup_time_us = nrf52_radio_base::start_event_safety_margin_us` (member named before
        // its declaration; g++ accepts it). Found in this (dependent) base class instead, the header compiles unchanged; the constant is only
        // used for connection events, which this unit does not drive.
        static constexpr std::uint32_t start_event_safety_margin_us = 0;

        read_buffer  allocate_receive_buffer() { return read_buffer{ nullptr, 0 }; }
        write_buffer next_transmit() { return write_buffer{ nullptr, 0 }; }
        write_buffer received( read_buffer ) { return write_buffer{ nullptr, 0 }; }
        write_buffer acknowledge( read_buffer ) { return write_buffer{ nullptr, 0 }; }
    };

    template < int Gap >
    struct radio : bluetoe::nrf52_details::nrf52_radio_base< radio< Gap >, hardware< Gap >, buffer, clock >
    {
        bool is_scan_request_in_filter( const device_address& a ) const { return vfn_env_scan_in_filter( a.begin(), a.is_random() ) != 0; }
    };

    radio< 0 > radio0;      // plain PDU layout
    radio< 1 > radio1;      // layout of the encrypting radio: one gap byte between header and body
}

#define VFN( gap, expr ) do { if ( ( gap ) == 0 ) { auto& r = vfn::radio0; expr; } else { auto& r = vfn::radio1; expr; } } while ( 0 )

extern "C" {

__attribute__((noinline)) void vfn_schedule_advertisment( int gap, unsigned channel, const std::uint8_t* adv, std::size_t adv_n,
    const std::uint8_t* rsp, std::size_t rsp_n, std::uint8_t* rx, std::size_t rx_n )
{
    using namespace bluetoe::link_layer;
    VFN( gap, r.schedule_advertisment( channel, write_buffer{ adv, adv_n }, write_buffer{ rsp, rsp_n }, delta_time::now(), read_buffer{ rx, rx_n } ) );
}

__attribute__((noinline)) void vfn_radio_interrupt( int gap )         { VFN( gap, r.radio_interrupt_handler() ); }
__attribute__((noinline)) int  vfn_is_valid_scan_request( int gap )   { bool res = false; VFN( gap, res = r.is_valid_scan_request() ); return res; }
__attribute__((noinline)) int  vfn_state( int gap )                   { int res = 0; VFN( gap, res = static_cast< int >( r.state_ ) ); return res; }
__attribute__((noinline)) int  vfn_flags( int gap )                   // bit0 adv_timeout_, bit1 adv_received_
{
    int res = 0; VFN( gap, res = ( r.adv_timeout_ ? 1 : 0 ) | ( r.adv_received_ ? 2 : 0 ) ); return res;
}

}
