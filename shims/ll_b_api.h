/* ll_b_api.h — C interface of shim ll_b.cpp (real bluetoe::link_layer::link_layer<server, stub radio, options...>)
 * shared by the shim and the harnesses of C21 / C22.  Only forwarding calls and raw state copies. */
#ifndef VF_LL_B_API_H
#define VF_LL_B_API_H
#include <stdint.h>
#include <stddef.h>

#ifdef __cplusplus
extern "C" {
#endif

/* indices into the uint32_t state vector used by vfb_set_state / vfb_get_state (raw member copies) */
enum {
    VFB_STATE = 0,          /* link_layer::state_ (0 initial,1 advertising,2 connecting,3 connected,4 disconnecting,5 connection_changed) */
    VFB_EVENT_COUNTER,      /* connection_state_base::event_counter_ */
    VFB_CHANNEL_INDEX,      /* connection_state_base::channel_index_ */
    VFB_TIME_SINCE_LAST,    /* connection_state_base::time_since_last_event_ (us) */
    VFB_LAST_LATENCY,       /* disarmable_connection_state::last_latency_ (0 when the configuration has none) */
    VFB_CUM_SCA,            /* cumulated_sleep_clock_accuracy_ (ppm) */
    VFB_WIN_OFFSET,         /* transmit_window_offset_ (us) */
    VFB_WIN_SIZE,           /* transmit_window_size_ (us) */
    VFB_INTERVAL,           /* connection_interval_ (us) */
    VFB_LATENCY,            /* peripheral_latency_ */
    VFB_TIMEOUT_VALUE,      /* timeout_value_ (10 ms units) */
    VFB_CONN_TIMEOUT,       /* connection_timeout_ (us) */
    VFB_PROC_TIMEOUT,       /* procedure_timeout_ (us) */
    VFB_DEFERRED_INSTANT,   /* defered_conn_event_counter_ */
    VFB_DEFERRED_SIZE,      /* defered_ll_control_pdu_.size; set: 0 = none, n = points to the shim's deferred PDU store */
    VFB_TERMINATION_SEND,
    VFB_USED_FEATURES,
    VFB_PENDING_EVENT,
    VFB_DISC_REASON,        /* disconnecting_reason_ */
    VFB_FLAGS,              /* bit0 conn_param_req_pending, 1 running, 2 use_signaling, 3 phy_update_request_pending,
                               4 remote_versions_request_pending, 5 version_indication_received, 6 restart_user_timer_requested */
    VFB_NFIELDS
};

#define VFB_ST_ADVERTISING  1u
#define VFB_ST_CONNECTING   2u
#define VFB_ST_CONNECTED    3u
#define VFB_ST_DISCONNECTING 4u
#define VFB_ST_CHANGED      5u

/* ---- implemented by the shim (forwarders) */
void     vfb_run(int cfg);                                   /* link_layer::run(): starts advertising */
void     vfb_reset_buffers(int cfg);                         /* reset_pdu_buffer() */
void     vfb_set_state(int cfg, const uint32_t* f);
void     vfb_get_state(int cfg, uint32_t* f);
int      vfb_set_channel_map(int cfg, const uint8_t* map5, unsigned hop);   /* channels_.reset(map, hop) */
unsigned vfb_data_channel(int cfg, unsigned index);          /* channels_.data_channel(index) */
void     vfb_set_deferred_bytes(int cfg, const uint8_t* pdu, unsigned n);   /* content of the shim's deferred PDU store */
unsigned vfb_get_deferred_bytes(int cfg, uint8_t* out, unsigned max);       /* bytes defered_ll_control_pdu_ points to */
int      vfb_deferred_is_store(int cfg);                     /* 1: pointer == deferred store, 2: == control PDU store, 0 otherwise */
unsigned vfb_configured_sca(int cfg);                        /* device_sleep_clock_accuracy::accuracy_ppm */
void     vfb_local_address(int cfg, uint8_t* addr6, int* is_random);

/* returns bit0: ll_result::disconnect; PDU (header 2 bytes + body) is copied into the shim's control PDU store first */
int      vfb_handle_ll_control_data(int cfg, const uint8_t* pdu, unsigned n);
int      vfb_handle_pending_ll_control(int cfg, unsigned instance);         /* 1: ll_result::disconnect */
int      vfb_handle_received_data(int cfg);                                 /* 1: ll_result::disconnect */
uint32_t vfb_setup_next_connection_event(int cfg);
int      vfb_parse_connect_request(int cfg, const uint8_t* body34);         /* parse_timing_parameters_from_connect_request */
void     vfb_end_event(int cfg, unsigned evt_flags);         /* bit0 unacknowledged_data,1 last_received_not_empty,2 last_transmitted_not_empty,
                                                                3 last_received_had_more_data,4 pending_outgoing_data,5 error_occured */
void     vfb_timeout(int cfg);
void     vfb_try_event_cancelation(int cfg);
void     vfb_adv_received(int cfg, const uint8_t* pdu, unsigned n);         /* copies into an exact copy buffer and calls adv_received */
int      vfb_radio_receive(int cfg, const uint8_t* pdu, unsigned n);        /* radio side: allocate_receive_buffer + copy + received(); 0 if no buffer */
unsigned vfb_next_received(int cfg, uint8_t* out, unsigned max);            /* link layer side: next_ll_l2cap_received() (copy), 0 if none */
void     vfb_free_received(int cfg);
unsigned vfb_next_transmit(int cfg, uint8_t* out, unsigned max);            /* radio side: next_transmit() (copy of the PDU that would be sent) */
int      vfb_pending_outgoing(int cfg);
int      vfb_deferred_location(int cfg);                     /* where defered_ll_control_pdu_.buffer points: 0 nowhere (none deferred), 1 into the radio's PDU
                                                                buffer and it is the oldest PDU still held by the receive ring (next_received()),
                                                                2 into the radio's PDU buffer but not held by the ring (freed / reusable), 3 other storage */
uint32_t vfb_ppm(uint32_t usec, unsigned part);                              /* delta_time( usec ).ppm( part ).usec() */

/* ---- environment, implemented by the harness */
uint32_t vfb_env_sched_evt(unsigned channel, uint32_t start_us, uint32_t end_us, uint32_t interval_us);
void     vfb_env_sched_adv(unsigned channel, uint32_t when_us);
int      vfb_env_disarm(uint32_t* now_us);
void     vfb_env_set_phy(unsigned receive, unsigned transmit);
void     vfb_env_callback(unsigned what, unsigned a, unsigned b, unsigned c);   /* connection callbacks, what = VFB_CB_* */

#define VFB_CB_REQUESTED 1u
#define VFB_CB_ATTEMPT_TIMEOUT 2u
#define VFB_CB_ESTABLISHED 3u
#define VFB_CB_CHANGED 4u      /* a interval (1.25ms units), b latency, c timeout (10 ms) */
#define VFB_CB_CLOSED 5u       /* a reason */
#define VFB_CB_PHY_UPDATED 6u  /* a transmit, b receive */

#ifdef __cplusplus
}
#endif
#endif
