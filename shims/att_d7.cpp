/* att_d7 — ATT server with a shared write queue (DESIGN.md configuration A5) for property C07.
 *
 * Only instantiates and forwards.  Two queue sizes (cfg 0: shared_write_queue<32>, cfg 1: shared_write_queue<64>),
 * max_mtu_size<65>, two connection objects per server (who 0 = A, 1 = B) with settable link security.
 *
 * attribute table (no GAP service, handles consecutive from 1):
 *   1 primary service declaration
 *   2 characteristic declaration   3 val_a  uint8_t[8]   read/write
 *   4 characteristic declaration   5 val_b  uint16_t     read/write
 *   6 characteristic declaration   7 val_c  const uint8  read only
 *   8 characteristic declaration   9 val_d  uint8_t[4]   read/write, requires_encryption
 *  10 characteristic declaration  11 val_e  uint8_t      read/write, notify     12 CCCD of val_e
 *  13 characteristic declaration  14 handler value: free_write_blob_handler -> vf_d7_env_write_handler (write only, any length)
 */
#include <bluetoe/server.hpp>
#include <bluetoe/service.hpp>
#include <bluetoe/characteristic.hpp>

std::uint8_t        d7_val_a[ 8 ];
std::uint16_t       d7_val_b;
const std::uint8_t  d7_val_c = 0x42;
std::uint8_t        d7_val_d[ 4 ];
std::uint8_t        d7_val_e;

/* environment: the application's write handler, defined in the harness */
extern "C" std::uint8_t vf_d7_env_write_handler( std::size_t offset, std::size_t write_size, const std::uint8_t* value );

static std::uint8_t d7_write_handler( std::size_t offset, std::size_t write_size, const std::uint8_t* value )
{
    return vf_d7_env_write_handler( offset, write_size, value );
}

template < std::uint16_t Q >
using d7_server = bluetoe::server<
    bluetoe::shared_write_queue< Q >,
    bluetoe::max_mtu_size< 65 >,
    bluetoe::no_gap_service_for_gatt_servers,
    bluetoe::service<
        bluetoe::service_uuid16< 0x1234 >,
        bluetoe::characteristic<
            bluetoe::characteristic_uuid16< 0xAA01 >,
            bluetoe::bind_characteristic_value< decltype( d7_val_a ), &d7_val_a >
        >,
        bluetoe::characteristic<
            bluetoe::characteristic_uuid16< 0xAA02 >,
            bluetoe::bind_characteristic_value< decltype( d7_val_b ), &d7_val_b >
        >,
        bluetoe::characteristic<
            bluetoe::characteristic_uuid16< 0xAA03 >,
            bluetoe::bind_characteristic_value< decltype( d7_val_c ), &d7_val_c >
        >,
        bluetoe::characteristic<
            bluetoe::characteristic_uuid16< 0xAA04 >,
            bluetoe::bind_characteristic_value< decltype( d7_val_d ), &d7_val_d >,
            bluetoe::requires_encryption
        >,
        bluetoe::characteristic<
            bluetoe::characteristic_uuid16< 0xAA05 >,
            bluetoe::bind_characteristic_value< decltype( d7_val_e ), &d7_val_e >,
            bluetoe::notify
        >,
        bluetoe::characteristic<
            bluetoe::characteristic_uuid16< 0xAA06 >,
            bluetoe::free_write_blob_handler< &d7_write_handler >
        >
    >
>;

/* every object is a separate global (server, connection A, connection B): CBMC then sees three small objects and a
 * pointer that selects between A and B instead of a symbolic index into one big aggregate */
#define D7_WORLD( NAME, Q ) \
struct NAME \
{ \
    using srv_t   = d7_server< Q >; \
    using queue_t = bluetoe::details::write_queue< bluetoe::shared_write_queue< Q > >; \
    /* the connection type is built exactly like link_layer builds it: server::channel_data_t< PreviousData > = notification \
       queue (with PreviousData mixed in) first, connection_data second. The position of the connection_data sub object \
       matters: the write queue identifies its owner by address */ \
    struct sec_t { \
        bluetoe::connection_security_attributes sec; \
        bluetoe::connection_security_attributes security_attributes() const { return sec; } \
    }; \
    struct conn_t : srv_t::template channel_data_t< sec_t > {}; \
    static srv_t  server; \
    static conn_t conn_a, conn_b; \
    static srv_t  s_server;                 /* snapshot for self-composition */ \
    static conn_t s_conn_a, s_conn_b; \
    static conn_t&  conn( int who ) { return who ? conn_b : conn_a; } \
    static queue_t& queue() { return (queue_t&)server; } \
    static void input( int who, const std::uint8_t* in, std::size_t in_size, std::uint8_t* out, std::size_t* out_size ) \
    { \
        server.l2cap_input( in, in_size, out, *out_size, conn( who ) ); \
    } \
    static void disconnect( int who ) { server.client_disconnected( conn( who ) ); } \
    static int owner() \
    { \
        void* const c = queue().current_client_; \
        return c == nullptr ? 0 : c == static_cast< void* >( &conn_a ) ? 1 : c == static_cast< void* >( &conn_b ) ? 2 : 3; \
    } \
    static void snapshot() \
    { \
        std::memcpy( &s_server, &server, sizeof( server ) ); \
        std::memcpy( &s_conn_a, &conn_a, sizeof( conn_a ) ); \
        std::memcpy( &s_conn_b, &conn_b, sizeof( conn_b ) ); \
    } \
    static void restore() \
    { \
        std::memcpy( &server, &s_server, sizeof( server ) ); \
        std::memcpy( &conn_a, &s_conn_a, sizeof( conn_a ) ); \
        std::memcpy( &conn_b, &s_conn_b, sizeof( conn_b ) ); \
    } \
}; \
NAME::srv_t  NAME::server; \
NAME::conn_t NAME::conn_a; \
NAME::conn_t NAME::conn_b; \
NAME::srv_t  NAME::s_server; \
NAME::conn_t NAME::s_conn_a; \
NAME::conn_t NAME::s_conn_b;

D7_WORLD( w32, 32 )
D7_WORLD( w64, 64 )

#define D7_DISPATCH( expr32, expr64 ) do { if ( cfg == 0 ) { expr32; } else { expr64; } } while ( 0 )

extern "C" {

__attribute__((noinline)) void vf_d7_input( int cfg, int who, const std::uint8_t* in, std::size_t in_size, std::uint8_t* out, std::size_t* out_size )
{
    D7_DISPATCH( w32::input( who, in, in_size, out, out_size ), w64::input( who, in, in_size, out, out_size ) );
}

__attribute__((noinline)) void vf_d7_disconnect( int cfg, int who )
{
    D7_DISPATCH( w32::disconnect( who ), w64::disconnect( who ) );
}

__attribute__((noinline)) void vf_d7_set_security( int cfg, int who, int encrypted, int pairing )
{
    const bluetoe::connection_security_attributes s( encrypted != 0, static_cast< bluetoe::device_pairing_status >( pairing ) );
    D7_DISPATCH( w32::conn( who ).sec = s, w64::conn( who ).sec = s );
}

__attribute__((noinline)) void vf_d7_set_client_mtu( int cfg, int who, unsigned mtu )
{
    D7_DISPATCH( w32::conn( who ).client_mtu( mtu ), w64::conn( who ).client_mtu( mtu ) );
}

/* raw state access: bound values a(8) b(2) d(4) e(1) = 15 bytes */
__attribute__((noinline)) void vf_d7_get_values( std::uint8_t* dst )
{
    std::memcpy( dst, d7_val_a, 8 );
    std::memcpy( dst + 8, &d7_val_b, 2 );
    std::memcpy( dst + 10, d7_val_d, 4 );
    dst[ 14 ] = d7_val_e;
}

__attribute__((noinline)) void vf_d7_set_values( const std::uint8_t* src )
{
    std::memcpy( d7_val_a, src, 8 );
    std::memcpy( &d7_val_b, src + 8, 2 );
    std::memcpy( d7_val_d, src + 10, 4 );
    d7_val_e = src[ 14 ];
}

__attribute__((noinline)) unsigned vf_d7_get_cccd( int cfg, int who )
{
    unsigned r = 0;
    D7_DISPATCH( r = *w32::conn( who ).serialized_cccds_begin(), r = *w64::conn( who ).serialized_cccds_begin() );
    return r;
}

__attribute__((noinline)) void vf_d7_set_cccd( int cfg, int who, unsigned v )
{
    D7_DISPATCH( *w32::conn( who ).serialized_cccds_begin() = v, *w64::conn( who ).serialized_cccds_begin() = v );
}

/* write queue state: owner 0 none / 1 A / 2 B / 3 somebody else; fill level in bytes */
__attribute__((noinline)) int vf_d7_queue_owner( int cfg )
{
    int r = 0;
    D7_DISPATCH( r = w32::owner(), r = w64::owner() );
    return r;
}

__attribute__((noinline)) unsigned vf_d7_queue_fill( int cfg )
{
    unsigned r = 0;
    D7_DISPATCH( r = w32::queue().buffer_end_, r = w64::queue().buffer_end_ );
    return r;
}

/* snapshot / restore of everything mutable (server incl. queue, both connections, bound values): self-composition */
static std::uint8_t   s_values[ 15 ];

__attribute__((noinline)) void vf_d7_snapshot( int cfg )
{
    D7_DISPATCH( w32::snapshot(), w64::snapshot() );
    vf_d7_get_values( s_values );
}

__attribute__((noinline)) void vf_d7_restore( int cfg )
{
    D7_DISPATCH( w32::restore(), w64::restore() );
    vf_d7_set_values( s_values );
}

}
