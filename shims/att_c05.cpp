// shim for C05: real bluetoe::server<> instantiations mixing encryption options on server, service and
// characteristic level.  No property logic here: wrappers instantiate, forward, and copy raw state in and out.
#include <bluetoe/server.hpp>
#include <bluetoe/service.hpp>
#include <bluetoe/characteristic.hpp>
#include <bluetoe/encryption.hpp>
#include <bluetoe/gap_service.hpp>
#include <bluetoe/write_queue.hpp>

// ---- environment (defined by the harness): the user's read/write handlers of the handler based characteristic
extern "C" std::uint8_t vf_c05_env_read( std::size_t offset, std::size_t read_size, std::uint8_t* out, std::size_t* out_size );
extern "C" std::uint8_t vf_c05_env_write( std::size_t offset, std::size_t write_size, const std::uint8_t* value );

namespace {
    // value slots shared by the configurations
    std::uint32_t v4a, v4b, v4c, v4d;
    std::uint8_t  v20[ 20 ];

    std::uint8_t hread( std::size_t offset, std::size_t read_size, std::uint8_t* out, std::size_t& out_size )
    {
        return vf_c05_env_read( offset, read_size, out, &out_size );
    }
    std::uint8_t hwrite( std::size_t offset, std::size_t write_size, const std::uint8_t* value )
    {
        return vf_c05_env_write( offset, write_size, value );
    }

    using suuid128 = bluetoe::service_uuid< 0x8C8B4094, 0x0DE2, 0x499F, 0xA28A, 0x4EED5BC73CA9 >;
    using suuid16  = bluetoe::service_uuid16< 0x1820 >;
    using queue_t  = bluetoe::shared_write_queue< 32 >;

    // CFG 0: server: nothing; service A: requires_encryption; service B: nothing
    //  1 service A
    //  2 decl  3 value v4a (inherits: protected)            4 CCCD #0 (protected)
    //  5 decl  6 value v4b no_encryption_required           7 CCCD #1 (unprotected)
    //  8 decl  9 value v20 may_require_encryption (inherits: protected)
    // 10 service B
    // 11 decl 12 value v4c (unprotected)
    // 13 decl 14 value v4d requires_encryption             15 CCCD #2 (protected)
    // 16 decl 17 handler value requires_encryption (protected)
    using srv0_t = bluetoe::server<
        queue_t,
        bluetoe::no_gap_service_for_gatt_servers,
        bluetoe::service<
            suuid128,
            bluetoe::requires_encryption,
            bluetoe::characteristic<
                bluetoe::characteristic_uuid16< 0xAA01 >,
                bluetoe::bind_characteristic_value< std::uint32_t, &v4a >,
                bluetoe::notify, bluetoe::indicate
            >,
            bluetoe::characteristic<
                bluetoe::characteristic_uuid16< 0xAA01 >,
                bluetoe::bind_characteristic_value< std::uint32_t, &v4b >,
                bluetoe::no_encryption_required,
                bluetoe::notify, bluetoe::indicate
            >,
            bluetoe::characteristic<
                bluetoe::characteristic_uuid16< 0xAA03 >,
                bluetoe::bind_characteristic_value< decltype( v20 ), &v20 >,
                bluetoe::may_require_encryption
            >
        >,
        bluetoe::service<
            suuid16,
            bluetoe::characteristic<
                bluetoe::characteristic_uuid16< 0xAA04 >,
                bluetoe::bind_characteristic_value< std::uint32_t, &v4c >
            >,
            bluetoe::characteristic<
                bluetoe::characteristic_uuid16< 0xAA01 >,
                bluetoe::bind_characteristic_value< std::uint32_t, &v4d >,
                bluetoe::requires_encryption,
                bluetoe::notify, bluetoe::indicate
            >,
            bluetoe::characteristic<
                bluetoe::characteristic_uuid16< 0xAA06 >,
                bluetoe::free_read_blob_handler< &hread >,
                bluetoe::free_write_blob_handler< &hwrite >,
                bluetoe::requires_encryption
            >
        >
    >;

    // CFG 1: same handle layout; server: requires_encryption; service A: no_encryption_required; service B: nothing
    //  3 v4a (unprotected, CCCD #0 at 4 unprotected)   6 v4b requires_encryption (protected, CCCD #1 at 7 protected)
    //  9 v20 may_require_encryption (inherits service: unprotected)
    // 12 v4c (inherits server: protected)   14 v4d no_encryption_required (unprotected, CCCD #2 at 15 unprotected)
    // 17 handler value may_require_encryption (inherits server: protected)
    using srv1_t = bluetoe::server<
        bluetoe::requires_encryption,
        queue_t,
        bluetoe::no_gap_service_for_gatt_servers,
        bluetoe::service<
            suuid128,
            bluetoe::no_encryption_required,
            bluetoe::characteristic<
                bluetoe::characteristic_uuid16< 0xAA01 >,
                bluetoe::bind_characteristic_value< std::uint32_t, &v4a >,
                bluetoe::notify, bluetoe::indicate
            >,
            bluetoe::characteristic<
                bluetoe::characteristic_uuid16< 0xAA01 >,
                bluetoe::bind_characteristic_value< std::uint32_t, &v4b >,
                bluetoe::requires_encryption,
                bluetoe::notify, bluetoe::indicate
            >,
            bluetoe::characteristic<
                bluetoe::characteristic_uuid16< 0xAA03 >,
                bluetoe::bind_characteristic_value< decltype( v20 ), &v20 >,
                bluetoe::may_require_encryption
            >
        >,
        bluetoe::service<
            suuid16,
            bluetoe::characteristic<
                bluetoe::characteristic_uuid16< 0xAA04 >,
                bluetoe::bind_characteristic_value< std::uint32_t, &v4c >
            >,
            bluetoe::characteristic<
                bluetoe::characteristic_uuid16< 0xAA01 >,
                bluetoe::bind_characteristic_value< std::uint32_t, &v4d >,
                bluetoe::no_encryption_required,
                bluetoe::notify, bluetoe::indicate
            >,
            bluetoe::characteristic<
                bluetoe::characteristic_uuid16< 0xAA06 >,
                bluetoe::free_read_blob_handler< &hread >,
                bluetoe::free_write_blob_handler< &hwrite >,
                bluetoe::may_require_encryption
            >
        >
    >;

    // CFG 2: small server for the range requests (Read By Type, Find Information, Find By Type Value, Read By Group Type)
    //  1 service
    //  2 decl  3 value v4a requires_encryption (protected)   4 CCCD #0 (protected)
    //  5 decl  6 value v4b (unprotected), same characteristic UUID and size
    using srv2_t = bluetoe::server<
        bluetoe::no_gap_service_for_gatt_servers,
        bluetoe::service<
            suuid16,
            bluetoe::characteristic<
                bluetoe::characteristic_uuid16< 0xAA01 >,
                bluetoe::bind_characteristic_value< std::uint32_t, &v4a >,
                bluetoe::requires_encryption,
                bluetoe::notify, bluetoe::indicate
            >,
            bluetoe::characteristic<
                bluetoe::characteristic_uuid16< 0xAA01 >,
                bluetoe::bind_characteristic_value< std::uint32_t, &v4b >
            >
        >
    >;

    template < class Srv >
    struct fix
    {
        struct conn_t : Srv::template channel_data_t<> {
            bluetoe::connection_security_attributes sec;
            bluetoe::connection_security_attributes security_attributes() const { return sec; }
        };

        using wq_t = bluetoe::details::write_queue< queue_t >;

        static Srv    srv;
        static conn_t conn;

        static wq_t& wq() { return ( wq_t& )srv; }      // C-style cast: reaches the private base

        static void reset()
        {
            conn = conn_t();
#if VF_C05_CFG != 2
            wq().current_client_ = nullptr;
            wq().buffer_end_     = 0;
            for ( auto& b : wq().buffer_ ) b = 0;
#endif
        }

        static void security( int encrypted, int pairing )
        {
            conn.sec = bluetoe::connection_security_attributes( encrypted != 0, static_cast< bluetoe::device_pairing_status >( pairing ) );
        }
    };

    template < class Srv > Srv fix< Srv >::srv;
    template < class Srv > typename fix< Srv >::conn_t fix< Srv >::conn;

    // one configuration per build of this shim (keeps the generated C small): -DVF_C05_CFG=0|1
#if VF_C05_CFG == 0
    using F = fix< srv0_t >;
#elif VF_C05_CFG == 2
    using F = fix< srv2_t >;
#else
    using F = fix< srv1_t >;
#endif
}

#define FOR_CFG( cfg, expr ) { expr; }

#define VF_EXPORT extern "C" __attribute__((noinline))

// values: 36 bytes  v4a v4b v4c v4d v20
VF_EXPORT void vf_c05_set_values( const std::uint8_t* p )
{
    std::memcpy( &v4a, p, 4 ); std::memcpy( &v4b, p + 4, 4 ); std::memcpy( &v4c, p + 8, 4 ); std::memcpy( &v4d, p + 12, 4 );
    std::memcpy( v20, p + 16, 20 );
}

VF_EXPORT void vf_c05_get_values( std::uint8_t* p )
{
    std::memcpy( p, &v4a, 4 ); std::memcpy( p + 4, &v4b, 4 ); std::memcpy( p + 8, &v4c, 4 ); std::memcpy( p + 12, &v4d, 4 );
    std::memcpy( p + 16, v20, 20 );
}

// new connection, empty write queue
VF_EXPORT void vf_c05_reset( int cfg )
{
    FOR_CFG( cfg, F::reset() )
}

// raw client characteristic configuration byte of the connection (3 CCCDs x 2 bits)
VF_EXPORT void vf_c05_set_cccd( int cfg, unsigned bits )
{
    FOR_CFG( cfg, F::conn.configs_[ 0 ] = static_cast< std::uint8_t >( bits ) )
}

VF_EXPORT unsigned vf_c05_get_cccd( int cfg )
{
    return F::conn.configs_[ 0 ];
}

// raw write queue of the server: n bytes owned by the connection (n == 0: empty, no owner)
VF_EXPORT void vf_c05_set_queue( int cfg, const std::uint8_t* bytes, std::size_t n )
{
#if VF_C05_CFG != 2
    FOR_CFG( cfg,
        for ( std::size_t i = 0; i != n && i != sizeof( F::wq().buffer_ ); ++i ) F::wq().buffer_[ i ] = bytes[ i ];
        F::wq().buffer_end_     = static_cast< std::uint16_t >( n );
        F::wq().current_client_ = n ? static_cast< void* >( &F::conn ) : nullptr )
#endif
}

VF_EXPORT std::size_t vf_c05_get_queue( int cfg, std::uint8_t* bytes )
{
#if VF_C05_CFG != 2
    FOR_CFG( cfg,
        for ( std::size_t i = 0; i != sizeof( F::wq().buffer_ ); ++i ) bytes[ i ] = F::wq().buffer_[ i ];
        )
    return F::wq().buffer_end_;
#else
    for ( std::size_t i = 0; i != 32; ++i ) bytes[ i ] = 0;
    return 0;
#endif
}

VF_EXPORT void vf_c05_input( int cfg, const std::uint8_t* in, std::size_t in_size, std::uint8_t* out, std::size_t* out_size, int encrypted, int pairing )
{
    FOR_CFG( cfg,
        F::security( encrypted, pairing );
        F::srv.l2cap_input( in, in_size, out, *out_size, F::conn ) )
}

VF_EXPORT int vf_c05_queue( int cfg, std::size_t cccd_index, int indication )
{
    return indication ? F::conn.queue_indication( cccd_index ) : F::conn.queue_notification( cccd_index );
}

VF_EXPORT void vf_c05_output( int cfg, std::uint8_t* out, std::size_t* out_size, int encrypted, int pairing )
{
    FOR_CFG( cfg,
        F::security( encrypted, pairing );
        F::srv.l2cap_output( out, *out_size, F::conn ) )
}

