/* att_e10 — the real bluetoe::link_layer::link_layer< server, stub radio > around ATT servers with six notify / indicate
 * characteristics, without and with outgoing priorities, for properties C10 and C11.
 *
 * Only instantiates and forwards.  The link layer is the real one: its constructor registers the real
 * link_layer::queue_lcap_notification() as the server's notification callback, requests queue into the link layer's real
 * connection_data_ (notification_queue + client characteristic configuration).  The radio is a stub (nothing is scheduled in
 * these harnesses); request_event_cancelation() is forwarded to the environment (counted by the harness).
 *
 * declaration order of the characteristics (identical for all configurations), no GAP service, handles consecutive from 1:
 *    1  primary service S1 (0x1811)
 *    2  decl   3 value c0 (0xC000, notify,            1 byte)    4 CCCD
 *    5  decl   6 value c1 (0xC001, indicate,          1 byte)    7 CCCD
 *    8  decl   9 value c2 (0xC002, notify + indicate, 30 bytes) 10 CCCD
 *   11  decl  12 value c3 (0xC003, notify,            2 bytes)  13 CCCD
 *   14  primary service S2 (0x1812)
 *   15  decl  16 value c4 (0xC004, notify + indicate, 1 byte)   17 CCCD
 *   18  decl  19 value c5 (0xC005, indicate,          4 bytes)  20 CCCD
 *
 *   cfg 0  no priorities
 *   cfg 1  S1: higher_outgoing_priority< c3, c1 >, server: higher_outgoing_priority< S2 >
 *   cfg 2  S1: higher_outgoing_priority< c2 >
 *   cfg 3  like cfg 1, but S1 starts with include_service< S2 >: one more attribute (handle 2) in front of c0, every later
 *          handle is one higher than in the table above
 *   cfg 4  like cfg 0, but with a service without characteristics (0x1810, one attribute) in front of S1: every handle is
 *          one higher than in the table above
 */
#include <bluetoe/link_layer.hpp>
#include <bluetoe/ll_data_pdu_buffer.hpp>
#include <bluetoe/server.hpp>
#include <bluetoe/service.hpp>
#include <bluetoe/characteristic.hpp>
#include <bluetoe/outgoing_priority.hpp>

extern "C" void vf_e10_env_event_cancelation( void );

namespace e10 {
    using namespace bluetoe::link_layer;

    template < std::size_t TransmitSize, std::size_t ReceiveSize, typename CallBack >
    class radio : public ll_data_pdu_buffer< TransmitSize, ReceiveSize, radio< TransmitSize, ReceiveSize, CallBack > >
    {
    public:
        void schedule_advertisment( unsigned, const write_buffer&, const write_buffer&, delta_time, const read_buffer& ) {}
        delta_time schedule_connection_event( unsigned, delta_time, delta_time, delta_time ) { return delta_time(); }
        std::pair< bool, delta_time > disarm_connection_event() { return { false, delta_time() }; }
        bool schedule_synchronized_user_timer( delta_time, delta_time ) { return false; }
        bool cancel_synchronized_user_timer() { return false; }
        void wake_up() {}
        void request_event_cancelation() { vf_e10_env_event_cancelation(); }
        void run() {}
        void set_access_address_and_crc_init( std::uint32_t, std::uint32_t ) {}
        std::uint32_t static_random_address_seed() const { return 0x47110815; }
        void radio_set_phy( phy_ll_encoding::phy_ll_encoding_t, phy_ll_encoding::phy_ll_encoding_t ) {}
        void increment_receive_packet_counter() {}
        void increment_transmit_packet_counter() {}
        struct lock_guard { lock_guard() {} };
        static constexpr std::size_t radio_maximum_white_list_entries = 0;
        static constexpr bool hardware_supports_encryption = false;
        static constexpr bool hardware_supports_2mbit = false;
        static constexpr bool hardware_supports_synchronized_user_timer = false;
        static constexpr unsigned connection_event_setup_time_us = 100u;
    };
}

std::uint8_t  e10_v0, e10_v1, e10_v4;
std::uint8_t  e10_v2[ 30 ];
std::uint16_t e10_v3;
std::uint32_t e10_v5;

using e10_S1 = bluetoe::service_uuid16< 0x1811 >;
using e10_S2 = bluetoe::service_uuid16< 0x1812 >;
using e10_u0 = bluetoe::characteristic_uuid16< 0xC000 >;
using e10_u1 = bluetoe::characteristic_uuid16< 0xC001 >;
using e10_u2 = bluetoe::characteristic_uuid16< 0xC002 >;
using e10_u3 = bluetoe::characteristic_uuid16< 0xC003 >;
using e10_u4 = bluetoe::characteristic_uuid16< 0xC004 >;
using e10_u5 = bluetoe::characteristic_uuid16< 0xC005 >;

using e10_c0 = bluetoe::characteristic< e10_u0, bluetoe::bind_characteristic_value< std::uint8_t,  &e10_v0 >, bluetoe::notify >;
using e10_c1 = bluetoe::characteristic< e10_u1, bluetoe::bind_characteristic_value< std::uint8_t,  &e10_v1 >, bluetoe::indicate >;
using e10_c2 = bluetoe::characteristic< e10_u2, bluetoe::bind_characteristic_value< decltype( e10_v2 ), &e10_v2 >, bluetoe::notify, bluetoe::indicate >;
using e10_c3 = bluetoe::characteristic< e10_u3, bluetoe::bind_characteristic_value< std::uint16_t, &e10_v3 >, bluetoe::notify >;
using e10_c4 = bluetoe::characteristic< e10_u4, bluetoe::bind_characteristic_value< std::uint8_t,  &e10_v4 >, bluetoe::notify, bluetoe::indicate >;
using e10_c5 = bluetoe::characteristic< e10_u5, bluetoe::bind_characteristic_value< std::uint32_t, &e10_v5 >, bluetoe::indicate >;

using e10_server0 = bluetoe::server<
    bluetoe::no_gap_service_for_gatt_servers,
    bluetoe::service< e10_S1, e10_c0, e10_c1, e10_c2, e10_c3 >,
    bluetoe::service< e10_S2, e10_c4, e10_c5 >
>;

using e10_server1 = bluetoe::server<
    bluetoe::no_gap_service_for_gatt_servers,
    bluetoe::service< e10_S1, e10_c0, e10_c1, e10_c2, e10_c3, bluetoe::higher_outgoing_priority< e10_u3, e10_u1 > >,
    bluetoe::service< e10_S2, e10_c4, e10_c5 >,
    bluetoe::higher_outgoing_priority< e10_S2 >
>;

using e10_server2 = bluetoe::server<
    bluetoe::no_gap_service_for_gatt_servers,
    bluetoe::service< e10_S1, e10_c0, e10_c1, e10_c2, e10_c3, bluetoe::higher_outgoing_priority< e10_u2 > >,
    bluetoe::service< e10_S2, e10_c4, e10_c5 >
>;

using e10_server3 = bluetoe::server<
    bluetoe::no_gap_service_for_gatt_servers,
    bluetoe::service< e10_S1, bluetoe::include_service< e10_S2 >, e10_c0, e10_c1, e10_c2, e10_c3, bluetoe::higher_outgoing_priority< e10_u3, e10_u1 > >,
    bluetoe::service< e10_S2, e10_c4, e10_c5 >,
    bluetoe::higher_outgoing_priority< e10_S2 >
>;

using e10_server4 = bluetoe::server<
    bluetoe::no_gap_service_for_gatt_servers,
    bluetoe::service< bluetoe::service_uuid16< 0x1810 > >,
    bluetoe::service< e10_S1, e10_c0, e10_c1, e10_c2, e10_c3 >,
    bluetoe::service< e10_S2, e10_c4, e10_c5 >
>;

/* one unit per configuration (E10_PART = cfg, selected by the property spec): keeps the generated C small */
#ifndef E10_PART
#error "E10_PART (0 .. 4) selects the configuration"
#endif
#if E10_PART == 0
using e10_server_t = e10_server0;
#elif E10_PART == 1
using e10_server_t = e10_server1;
#elif E10_PART == 2
using e10_server_t = e10_server2;
#elif E10_PART == 3
using e10_server_t = e10_server3;
#else
using e10_server_t = e10_server4;
#endif

using e10_ll_t = bluetoe::link_layer::link_layer< e10_server_t, e10::radio >;
static e10_ll_t e10_ll;

/* cfg is checked by the harness against vf_e10_part() */
#define E10_FOR_CFG( cfg, expr ) \
    { auto& ll = e10_ll; using srv_t = e10_server_t; (void)sizeof( srv_t ); (void)cfg; expr; }

namespace {
    using bluetoe::details::notification_queue_impl;

    template < class Server >
    bool request( Server& s, int k, int indicate, int by_uuid )
    {
        switch ( ( k * 2 + ( indicate ? 1 : 0 ) ) * 2 + ( by_uuid ? 1 : 0 ) )
        {
            case 0:  return s.notify( e10_v0 );
            case 1:  return s.template notify< e10_u0 >();
            case 6:  return s.indicate( e10_v1 );
            case 7:  return s.template indicate< e10_u1 >();
            case 8:  return s.notify( e10_v2 );
            case 9:  return s.template notify< e10_u2 >();
            case 10: return s.indicate( e10_v2 );
            case 11: return s.template indicate< e10_u2 >();
            case 12: return s.notify( e10_v3 );
            case 13: return s.template notify< e10_u3 >();
            case 16: return s.notify( e10_v4 );
            case 17: return s.template notify< e10_u4 >();
            case 18: return s.indicate( e10_v4 );
            case 19: return s.template indicate< e10_u4 >();
            case 22: return s.indicate( e10_v5 );
            case 23: return s.template indicate< e10_u5 >();
        }
        return false;
    }

    /* raw state of one priority level of the notification queue */
    template < int Size, int C >
    void get_level_impl( notification_queue_impl< Size, C >& l, std::uint64_t* next, std::uint32_t* bits )
    {
        *next = l.next_;
        *bits = 0;
        for ( std::size_t i = 0; i != sizeof( l.queue_ ); ++i )
            *bits |= std::uint32_t( l.queue_[ i ] ) << ( 8 * i );
    }
    template < int C >
    void get_level_impl( notification_queue_impl< 1, C >& l, std::uint64_t* next, std::uint32_t* bits )
    {
        *next = 0;
        *bits = static_cast< std::uint32_t >( l.state_ );
    }
    template < int Size, int C >
    void set_level_impl( notification_queue_impl< Size, C >& l, std::uint64_t next, std::uint32_t bits )
    {
        l.next_ = next;
        for ( std::size_t i = 0; i != sizeof( l.queue_ ); ++i )
            l.queue_[ i ] = static_cast< std::uint8_t >( bits >> ( 8 * i ) );
    }
    template < int C >
    void set_level_impl( notification_queue_impl< 1, C >& l, std::uint64_t, std::uint32_t bits )
    {
        l.state_ = static_cast< decltype( l.state_ ) >( bits );
    }

    template < int C, class Q >
    int level_size( Q&, int, std::tuple<>* ) { return 0; }
    template < int C, class Q, int Size, class ... Ts >
    int level_size( Q& q, int level, std::tuple< std::integral_constant< int, Size >, Ts... >* )
    {
        return level == 0 ? Size : level_size< C + 1 >( q, level - 1, static_cast< std::tuple< Ts... >* >( nullptr ) );
    }

    template < int C, class Q >
    void get_level( Q&, int, std::uint64_t*, std::uint32_t*, std::tuple<>* ) {}
    template < int C, class Q, int Size, class ... Ts >
    void get_level( Q& q, int level, std::uint64_t* next, std::uint32_t* bits, std::tuple< std::integral_constant< int, Size >, Ts... >* )
    {
        if ( level == 0 )
            get_level_impl( ( notification_queue_impl< Size, C >& )( q ), next, bits );     /* C-style cast: reaches the private base */
        else
            get_level< C + 1 >( q, level - 1, next, bits, static_cast< std::tuple< Ts... >* >( nullptr ) );
    }

    template < int C, class Q >
    void set_level( Q&, int, std::uint64_t, std::uint32_t, std::tuple<>* ) {}
    template < int C, class Q, int Size, class ... Ts >
    void set_level( Q& q, int level, std::uint64_t next, std::uint32_t bits, std::tuple< std::integral_constant< int, Size >, Ts... >* )
    {
        if ( level == 0 )
            set_level_impl( ( notification_queue_impl< Size, C >& )( q ), next, bits );
        else
            set_level< C + 1 >( q, level - 1, next, bits, static_cast< std::tuple< Ts... >* >( nullptr ) );
    }
}

#define E10_SIZES( srv_t ) static_cast< typename srv_t::notification_priority::template numbers< typename srv_t::services >::type* >( nullptr )

extern "C" {

__attribute__((noinline)) int vf_e10_part( void ) { return E10_PART; }

/* request a notification (indicate == 0) / indication of characteristic k, by bound value or by UUID */
__attribute__((noinline)) int vf_e10_request( int cfg, int k, int indicate, int by_uuid )
{
    bool r = false;
    E10_FOR_CFG( cfg, r = request( static_cast< srv_t& >( ll ), k, indicate, by_uuid ) );
    return r;
}

/* what the l2cap layer does when the link layer has room for an outgoing PDU */
__attribute__((noinline)) void vf_e10_output( int cfg, std::uint8_t* out, std::size_t* out_size )
{
    E10_FOR_CFG( cfg, static_cast< srv_t& >( ll ).l2cap_output( out, *out_size, ll.connection_data_ ) );
}

/* what the l2cap layer does with an incoming ATT PDU */
__attribute__((noinline)) void vf_e10_input( int cfg, const std::uint8_t* in, std::size_t in_size, std::uint8_t* out, std::size_t* out_size )
{
    E10_FOR_CFG( cfg, static_cast< srv_t& >( ll ).l2cap_input( in, in_size, out, *out_size, ll.connection_data_ ) );
}

/* raw client characteristic configuration bytes of the connection (6 fields -> 2 bytes) */
__attribute__((noinline)) unsigned vf_e10_get_config( int cfg )
{
    const std::uint8_t* p = nullptr;
    E10_FOR_CFG( cfg, p = ll.connection_data_.serialized_cccds_begin() );
    return p[ 0 ] | ( p[ 1 ] << 8 );
}

__attribute__((noinline)) void vf_e10_set_config( int cfg, unsigned v )
{
    std::uint8_t* p = nullptr;
    E10_FOR_CFG( cfg, p = ll.connection_data_.serialized_cccds_begin() );
    p[ 0 ] = v & 0xff;
    p[ 1 ] = ( v >> 8 ) & 0xff;
}

__attribute__((noinline)) unsigned vf_e10_config_size( int cfg )
{
    unsigned r = 0;
    E10_FOR_CFG( cfg, r = ll.connection_data_.serialized_cccds_end() - ll.connection_data_.serialized_cccds_begin() );
    return r;
}

/* the application's view of the subscription of characteristic k: bit 0 notifications, bit 1 indications */
__attribute__((noinline)) unsigned vf_e10_configured( int cfg, int k )
{
    unsigned r = 0;
    E10_FOR_CFG( cfg, {
        auto& s = static_cast< srv_t& >( ll );
        const auto& c = ll.connection_data_.client_configurations();
        switch ( k )
        {
            case 0: r = ( s.template configured_for_notifications< e10_u0 >( c ) ? 1 : 0 ); break;
            case 1: r = ( s.template configured_for_indications< e10_u1 >( c ) ? 2 : 0 ); break;
            case 2: r = ( s.template configured_for_notifications< e10_u2 >( c ) ? 1 : 0 ) | ( s.template configured_for_indications< e10_u2 >( c ) ? 2 : 0 ); break;
            case 3: r = ( s.template configured_for_notifications< e10_u3 >( c ) ? 1 : 0 ); break;
            case 4: r = ( s.template configured_for_notifications< e10_u4 >( c ) ? 1 : 0 ) | ( s.template configured_for_indications< e10_u4 >( c ) ? 2 : 0 ); break;
            default: r = ( s.template configured_for_indications< e10_u5 >( c ) ? 2 : 0 ); break;
        }
    } );
    return r;
}

__attribute__((noinline)) void vf_e10_set_client_mtu( int cfg, unsigned mtu )
{
    E10_FOR_CFG( cfg, ll.connection_data_.client_mtu( mtu ) );
}

/* bound values: 1 + 1 + 30 + 2 + 1 + 4 = 39 bytes in declaration order */
__attribute__((noinline)) void vf_e10_set_values( const std::uint8_t* src )
{
    e10_v0 = src[ 0 ];
    e10_v1 = src[ 1 ];
    for ( int i = 0; i != 30; ++i ) e10_v2[ i ] = src[ 2 + i ];
    e10_v3 = static_cast< std::uint16_t >( src[ 32 ] | ( src[ 33 ] << 8 ) );
    e10_v4 = src[ 34 ];
    e10_v5 = std::uint32_t( src[ 35 ] ) | ( std::uint32_t( src[ 36 ] ) << 8 ) | ( std::uint32_t( src[ 37 ] ) << 16 ) | ( std::uint32_t( src[ 38 ] ) << 24 );
}

/* raw state of the connection's notification queue */
__attribute__((noinline)) int vf_e10_level_size( int cfg, int level )
{
    int r = 0;
    E10_FOR_CFG( cfg, r = level_size< 0 >( ll.connection_data_, level, E10_SIZES( srv_t ) ) );
    return r;
}

__attribute__((noinline)) void vf_e10_get_level( int cfg, int level, std::uint64_t* next, std::uint32_t* bits )
{
    *next = 0; *bits = 0;
    E10_FOR_CFG( cfg, get_level< 0 >( ll.connection_data_, level, next, bits, E10_SIZES( srv_t ) ) );
}

__attribute__((noinline)) void vf_e10_set_level( int cfg, int level, std::uint64_t next, std::uint32_t bits )
{
    E10_FOR_CFG( cfg, set_level< 0 >( ll.connection_data_, level, next, bits, E10_SIZES( srv_t ) ) );
}

__attribute__((noinline)) unsigned long vf_e10_get_outstanding( int cfg )
{
    std::size_t r = 0;
    E10_FOR_CFG( cfg, r = ll.connection_data_.outstanding_confirmation_index_ );
    return r;
}

__attribute__((noinline)) void vf_e10_set_outstanding( int cfg, unsigned long v )
{
    E10_FOR_CFG( cfg, ll.connection_data_.outstanding_confirmation_index_ = v );
}

}
