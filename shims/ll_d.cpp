// shim ll_d: the real bluetoe::link_layer::link_layer< server, stub scheduled radio, options... > for C27 / C28 / C29.
// No property logic: wrappers forward to the real (partly private) member functions and copy raw members in / out.
// The environment (radio scheduling, PHY switch, committed PDUs, encryption hardware, security manager key lookup, connection
// callbacks) is forwarded to extern "C" functions that the harness defines.
//
// One link layer instance per build, selected by -DVFD_CFG=n (see ll_d_api.h).
#include <bluetoe/link_layer.hpp>
#include <bluetoe/ll_data_pdu_buffer.hpp>
#include <bluetoe/server.hpp>
#include "ll_d_api.h"

#ifndef VFD_CFG
#define VFD_CFG 0
#endif

namespace vfd {
    using namespace bluetoe::link_layer;

    template < std::size_t TransmitSize, std::size_t ReceiveSize, typename CallBack >
    class radio : public ll_data_pdu_buffer< TransmitSize, ReceiveSize, radio< TransmitSize, ReceiveSize, CallBack > >
    {
    public:
        using buffer_t = ll_data_pdu_buffer< TransmitSize, ReceiveSize, radio< TransmitSize, ReceiveSize, CallBack > >;

        void schedule_advertisment( unsigned channel, const write_buffer&, const write_buffer&, delta_time when, const read_buffer& )
        {
            vfd_env_sched_adv( channel, when.usec() );
        }
        delta_time schedule_connection_event( unsigned channel, delta_time start, delta_time end, delta_time interval )
        {
            return delta_time( vfd_env_sched_evt( channel, start.usec(), end.usec(), interval.usec() ) );
        }
        std::pair< bool, delta_time > disarm_connection_event()
        {
            std::uint32_t now = 0;
            const bool ok = vfd_env_disarm( &now ) != 0;
            return { ok, delta_time( now ) };
        }
        bool schedule_synchronized_user_timer( delta_time, delta_time ) { return false; }
        bool cancel_synchronized_user_timer() { return false; }
        void wake_up() {}
        void request_event_cancelation() {}
        void run() {}
        void set_access_address_and_crc_init( std::uint32_t, std::uint32_t ) {}
        std::uint32_t static_random_address_seed() const { return 0x47110815; }
        void radio_set_phy( phy_ll_encoding::phy_ll_encoding_t receive, phy_ll_encoding::phy_ll_encoding_t transmit )
        {
            vfd_env_set_phy( static_cast< unsigned >( receive ), static_cast< unsigned >( transmit ) );
        }
        void increment_receive_packet_counter() {}
        void increment_transmit_packet_counter() {}

        // every PDU that is handed over for transmission is shown to the environment, then forwarded to the real buffer
        void commit_transmit_buffer( read_buffer b )
        {
            vfd_env_commit( b.buffer, static_cast< unsigned >( b.size ) );
            buffer_t::commit_transmit_buffer( b );
        }

        // encryption hardware (used by the link layer only if the server requires encryption)
        std::pair< std::uint64_t, std::uint32_t > setup_encryption( bluetoe::details::uint128_t k, std::uint64_t skdm, std::uint32_t ivm )
        {
            std::uint32_t skds_lo = 0, skds_hi = 0, ivs = 0;
            vfd_env_setup_encryption( k.data(), static_cast< std::uint32_t >( skdm ), static_cast< std::uint32_t >( skdm >> 32 ), ivm, &skds_lo, &skds_hi, &ivs );
            return { ( static_cast< std::uint64_t >( skds_hi ) << 32 ) | skds_lo, ivs };
        }
        void start_receive_encrypted()  { vfd_env_crypt( VFD_CRYPT_START_RX ); }
        void start_transmit_encrypted() { vfd_env_crypt( VFD_CRYPT_START_TX ); }
        void stop_receive_encrypted()   { vfd_env_crypt( VFD_CRYPT_STOP_RX ); }
        void stop_transmit_encrypted()  { vfd_env_crypt( VFD_CRYPT_STOP_TX ); }

        struct lock_guard { lock_guard() {} };
        static constexpr std::size_t radio_maximum_white_list_entries = 0;
        static constexpr bool hardware_supports_encryption = VFD_CFG == 2;
        static constexpr bool hardware_supports_2mbit = VFD_CFG != 1;
        static constexpr bool hardware_supports_synchronized_user_timer = false;
        static constexpr unsigned connection_event_setup_time_us = 100u;
    };

    struct callbacks_t
    {
        template < typename ConnectionData >
        void ll_connection_requested( const connection_details&, const connection_addresses&, ConnectionData& )
        {
            vfd_env_callback( VFD_CB_REQUESTED, 0, 0, 0 );
        }
        template < typename ConnectionData >
        void ll_connection_attempt_timeout( ConnectionData& )
        {
            vfd_env_callback( VFD_CB_ATTEMPT_TIMEOUT, 0, 0, 0 );
        }
        template < typename ConnectionData >
        void ll_connection_established( const connection_details&, const connection_addresses&, ConnectionData& )
        {
            vfd_env_callback( VFD_CB_ESTABLISHED, 0, 0, 0 );
        }
        template < typename ConnectionData >
        void ll_connection_changed( const connection_details& d, ConnectionData& )
        {
            vfd_env_callback( VFD_CB_CHANGED, d.interval(), d.latency(), d.timeout() );
        }
        template < typename ConnectionData >
        void ll_connection_closed( std::uint8_t reason, ConnectionData& )
        {
            vfd_env_callback( VFD_CB_CLOSED, reason, 0, 0 );
        }
        template < typename ConnectionData >
        void ll_version( std::uint8_t version, std::uint16_t company, std::uint16_t subversion, const ConnectionData& )
        {
            vfd_env_callback( VFD_CB_VERSION, version, company, subversion );
        }
        template < typename ConnectionData >
        void ll_rejected( std::uint8_t error_code, const ConnectionData& )
        {
            vfd_env_callback( VFD_CB_REJECTED, error_code, 0, 0 );
        }
        template < typename ConnectionData >
        void ll_unknown( std::uint8_t unknown_type, const ConnectionData& )
        {
            vfd_env_callback( VFD_CB_UNKNOWN, unknown_type, 0, 0 );
        }
        template < typename ConnectionData >
        void ll_remote_features( std::uint8_t remote_features[ 8 ], const ConnectionData& )
        {
            vfd_env_callback( VFD_CB_REMOTE_FEATURES, remote_features[ 0 ], 0, 0 );
        }
        template < typename ConnectionData >
        void ll_phy_updated( phy_ll_encoding::phy_ll_encoding_t transmit, phy_ll_encoding::phy_ll_encoding_t receive, const ConnectionData& )
        {
            vfd_env_callback( VFD_CB_PHY_UPDATED, static_cast< unsigned >( transmit ), static_cast< unsigned >( receive ), 0 );
        }
    };

    callbacks_t callbacks;

    // security manager whose key data base is the environment (as the mocked security manager of tests/link_layer/ll_encryption_tests.cpp)
    struct security_manager
    {
        template < typename ... >
        class impl
        {
        public:
            template < class OtherConnectionData >
            class channel_data_t : public OtherConnectionData
            {
            public:
                std::pair< bool, bluetoe::details::uint128_t > find_key( std::uint16_t ediv, std::uint64_t rand ) const
                {
                    bluetoe::details::uint128_t key = { { 0 } };
                    const bool found = vfd_env_find_key( ediv, static_cast< std::uint32_t >( rand ), static_cast< std::uint32_t >( rand >> 32 ), key.data() ) != 0;
                    return { found, key };
                }
                void remote_connection_created( const bluetoe::link_layer::device_address& ) {}
                bluetoe::device_pairing_status local_device_pairing_status() const
                {
                    return static_cast< bluetoe::device_pairing_status >( vfd_env_pairing_status() );
                }
                template < typename Connection >
                void restore_bonded_cccds( Connection& ) { vfd_env_restore_cccds(); }
            };

            template < class Connection >
            void l2cap_input( const std::uint8_t*, std::size_t, std::uint8_t*, std::size_t& out_size, Connection& ) { out_size = 0; }
            template < class Connection >
            bool security_manager_output_available( Connection& ) const { return false; }
            template < class Connection >
            void l2cap_output( std::uint8_t*, std::size_t& out_size, Connection& ) { out_size = 0; }

            static constexpr std::uint16_t channel_id               = bluetoe::l2cap_channel_ids::sm;
            static constexpr std::size_t   minimum_channel_mtu_size = bluetoe::details::default_att_mtu_size;
            static constexpr std::size_t   maximum_channel_mtu_size = bluetoe::details::default_att_mtu_size;
        };

        struct meta_type :
            bluetoe::details::security_manager_meta_type,
            bluetoe::link_layer::details::valid_link_layer_option_meta_type {};
    };
}

static std::uint8_t vfd_value = 0;

#if VFD_CFG == 2
using server_t = bluetoe::server<
    bluetoe::service< bluetoe::service_uuid16< 0x1234 >,
        bluetoe::characteristic< bluetoe::characteristic_uuid16< 0x2A19 >, bluetoe::bind_characteristic_value< std::uint8_t, &vfd_value > >,
        bluetoe::requires_encryption > >;
using ll_t = bluetoe::link_layer::link_layer< server_t, vfd::radio,
    vfd::security_manager,
    bluetoe::link_layer::connection_callbacks< vfd::callbacks_t, vfd::callbacks > >;
#elif VFD_CFG == 1
using server_t = bluetoe::server<
    bluetoe::service< bluetoe::service_uuid16< 0x1234 >,
        bluetoe::characteristic< bluetoe::characteristic_uuid16< 0x2A19 >, bluetoe::bind_characteristic_value< std::uint8_t, &vfd_value > > > >;
using ll_t = bluetoe::link_layer::link_layer< server_t, vfd::radio >;
#else
using server_t = bluetoe::server<
    bluetoe::service< bluetoe::service_uuid16< 0x1234 >,
        bluetoe::characteristic< bluetoe::characteristic_uuid16< 0x2A19 >, bluetoe::bind_characteristic_value< std::uint8_t, &vfd_value > > > >;
using ll_t = bluetoe::link_layer::link_layer< server_t, vfd::radio,
    bluetoe::link_layer::buffer_sizes< 100, 100 >,
    bluetoe::link_layer::connection_callbacks< vfd::callbacks_t, vfd::callbacks > >;
#endif

static ll_t ll;
static std::uint8_t control_store[ 48 ];

namespace {
    using bluetoe::link_layer::delta_time;
    using bluetoe::link_layer::write_buffer;
    using bluetoe::link_layer::read_buffer;
    using radio_t = ll_t::radio_t;

    // private bases of the link layer: g++ needs a C-style cast to reach them
    using sec_t = bluetoe::link_layer::details::select_link_layer_security_impl< server_t, ll_t >;
    sec_t& sec() { return (sec_t&)ll; }
#if VFD_CFG != 1
    using cb_t = bluetoe::link_layer::connection_callbacks< vfd::callbacks_t, vfd::callbacks >;
    cb_t& cb() { return (cb_t&)ll; }
#endif

    template < class State >
    int get_last_latency( bluetoe::link_layer::details::disarmable_connection_state< std::true_type, State >& s ) { return s.last_latency_; }
    template < class State >
    int get_last_latency( bluetoe::link_layer::details::disarmable_connection_state< std::false_type, State >& ) { return 0; }
    template < class State >
    void set_last_latency( bluetoe::link_layer::details::disarmable_connection_state< std::true_type, State >& s, int v ) { s.last_latency_ = v; }
    template < class State >
    void set_last_latency( bluetoe::link_layer::details::disarmable_connection_state< std::false_type, State >&, int ) {}
}

extern "C" {

__attribute__((noinline)) void vfd_run( void )            { ll.run(); }
__attribute__((noinline)) void vfd_reset_buffers( void )  { ll.reset_pdu_buffer(); }

__attribute__((noinline)) void vfd_set_state( const std::uint32_t* f )
{
    ll.state_                           = static_cast< ll_t::state >( f[ VFD_STATE ] );
    ll.event_counter_                   = static_cast< std::uint16_t >( f[ VFD_EVENT_COUNTER ] );
    ll.channel_index_                   = f[ VFD_CHANNEL_INDEX ];
    ll.time_since_last_event_           = delta_time( f[ VFD_TIME_SINCE_LAST ] );
    set_last_latency( ll, static_cast< int >( f[ VFD_LAST_LATENCY ] ) );
    ll.cumulated_sleep_clock_accuracy_  = f[ VFD_CUM_SCA ];
    ll.transmit_window_offset_          = delta_time( f[ VFD_WIN_OFFSET ] );
    ll.transmit_window_size_            = delta_time( f[ VFD_WIN_SIZE ] );
    ll.connection_interval_             = delta_time( f[ VFD_INTERVAL ] );
    ll.peripheral_latency_              = static_cast< std::uint16_t >( f[ VFD_LATENCY ] );
    ll.timeout_value_                   = static_cast< std::uint16_t >( f[ VFD_TIMEOUT_VALUE ] );
    ll.connection_timeout_              = delta_time( f[ VFD_CONN_TIMEOUT ] );
    ll.procedure_timeout_               = delta_time( f[ VFD_PROC_TIMEOUT ] );
    ll.defered_conn_event_counter_      = static_cast< std::uint16_t >( f[ VFD_DEFERRED_INSTANT ] );
    ll.defered_ll_control_pdu_          = f[ VFD_DEFERRED_SIZE ]
        ? write_buffer{ &ll.defered_ll_control_pdu_buffer_[ 0 ], f[ VFD_DEFERRED_SIZE ] }
        : write_buffer{ nullptr, 0 };
    ll.termination_send_                = f[ VFD_TERMINATION_SEND ] != 0;
    ll.used_features_                   = static_cast< std::uint16_t >( f[ VFD_USED_FEATURES ] );
    ll.pending_event_                   = f[ VFD_PENDING_EVENT ] != 0;
    ll.disconnecting_reason_            = static_cast< std::uint8_t >( f[ VFD_DISC_REASON ] );
    ll.connection_parameters_request_pending_ = ( f[ VFD_FLAGS ] & 1 ) != 0;
    ll.connection_parameters_request_running_ = ( f[ VFD_FLAGS ] & 2 ) != 0;
    ll.connection_parameters_request_use_signaling_channel_ = ( f[ VFD_FLAGS ] & 4 ) != 0;
    ll.phy_update_request_pending_      = ( f[ VFD_FLAGS ] & 8 ) != 0;
    ll.remote_versions_request_pending_ = ( f[ VFD_FLAGS ] & 16 ) != 0;
    ll.version_indication_received_     = ( f[ VFD_FLAGS ] & 32 ) != 0;
    ll.restart_user_timer_requested_    = ( f[ VFD_FLAGS ] & 64 ) != 0;
    ll.proposed_interval_min_           = static_cast< std::uint16_t >( f[ VFD_PROPOSED_MIN ] );
    ll.proposed_interval_max_           = static_cast< std::uint16_t >( f[ VFD_PROPOSED_MAX ] );
    ll.proposed_latency_                = static_cast< std::uint16_t >( f[ VFD_PROPOSED_LATENCY ] );
    ll.proposed_timeout_                = static_cast< std::uint16_t >( f[ VFD_PROPOSED_TIMEOUT ] );
    ll.phy_update_request_transmit_     = static_cast< std::uint8_t >( f[ VFD_PHY_REQ_TX ] );
    ll.phy_update_request_receive_      = static_cast< std::uint8_t >( f[ VFD_PHY_REQ_RX ] );
#if VFD_CFG == 2
    sec().has_key_                         = f[ VFD_HAS_KEY ] != 0;
    sec().encryption_in_progress_          = f[ VFD_ENC_IN_PROGRESS ] != 0;
    ll.connection_data_.is_encrypted( f[ VFD_ENCRYPTED ] != 0 );
    ll.connection_data_.pairing_status( static_cast< bluetoe::device_pairing_status >( f[ VFD_PAIRING_STATUS ] ) );
#endif
}

__attribute__((noinline)) void vfd_set_disc_reason( unsigned reason )
{
    ll.disconnecting_reason_ = static_cast< std::uint8_t >( reason );
}

__attribute__((noinline)) void vfd_get_state( std::uint32_t* f )
{
    f[ VFD_STATE ]              = static_cast< std::uint32_t >( ll.state_ );
    f[ VFD_EVENT_COUNTER ]      = ll.event_counter_;
    f[ VFD_CHANNEL_INDEX ]      = ll.channel_index_;
    f[ VFD_TIME_SINCE_LAST ]    = ll.time_since_last_event_.usec();
    f[ VFD_LAST_LATENCY ]       = static_cast< std::uint32_t >( get_last_latency( ll ) );
    f[ VFD_CUM_SCA ]            = ll.cumulated_sleep_clock_accuracy_;
    f[ VFD_WIN_OFFSET ]         = ll.transmit_window_offset_.usec();
    f[ VFD_WIN_SIZE ]           = ll.transmit_window_size_.usec();
    f[ VFD_INTERVAL ]           = ll.connection_interval_.usec();
    f[ VFD_LATENCY ]            = ll.peripheral_latency_;
    f[ VFD_TIMEOUT_VALUE ]      = ll.timeout_value_;
    f[ VFD_CONN_TIMEOUT ]       = ll.connection_timeout_.usec();
    f[ VFD_PROC_TIMEOUT ]       = ll.procedure_timeout_.usec();
    f[ VFD_DEFERRED_INSTANT ]   = ll.defered_conn_event_counter_;
    f[ VFD_DEFERRED_SIZE ]      = static_cast< std::uint32_t >( ll.defered_ll_control_pdu_.size );
    f[ VFD_TERMINATION_SEND ]   = ll.termination_send_;
    f[ VFD_USED_FEATURES ]      = ll.used_features_;
    f[ VFD_PENDING_EVENT ]      = ll.pending_event_;
    f[ VFD_DISC_REASON ]        = ll.disconnecting_reason_;
    f[ VFD_FLAGS ]              =
          ( ll.connection_parameters_request_pending_ ? 1u : 0u )
        | ( ll.connection_parameters_request_running_ ? 2u : 0u )
        | ( ll.connection_parameters_request_use_signaling_channel_ ? 4u : 0u )
        | ( ll.phy_update_request_pending_ ? 8u : 0u )
        | ( ll.remote_versions_request_pending_ ? 16u : 0u )
        | ( ll.version_indication_received_ ? 32u : 0u )
        | ( ll.restart_user_timer_requested_ ? 64u : 0u );
    f[ VFD_PROPOSED_MIN ]       = ll.proposed_interval_min_;
    f[ VFD_PROPOSED_MAX ]       = ll.proposed_interval_max_;
    f[ VFD_PROPOSED_LATENCY ]   = ll.proposed_latency_;
    f[ VFD_PROPOSED_TIMEOUT ]   = ll.proposed_timeout_;
    f[ VFD_PHY_REQ_TX ]         = ll.phy_update_request_transmit_;
    f[ VFD_PHY_REQ_RX ]         = ll.phy_update_request_receive_;
#if VFD_CFG == 2
    f[ VFD_HAS_KEY ]            = sec().has_key_;
    f[ VFD_ENC_IN_PROGRESS ]    = sec().encryption_in_progress_;
    f[ VFD_PAIRING_STATUS ]     = static_cast< std::uint32_t >( ll.connection_data_.pairing_status() );
#else
    f[ VFD_HAS_KEY ]            = 0;
    f[ VFD_ENC_IN_PROGRESS ]    = 0;
    f[ VFD_PAIRING_STATUS ]     = 0;
#endif
    f[ VFD_ENCRYPTED ]          = ll.connection_data_.security_attributes().is_encrypted;
}

__attribute__((noinline)) int vfd_set_channel_map( const std::uint8_t* map5, unsigned hop )
{
    return ll.channels_.reset( map5, hop );
}
__attribute__((noinline)) void vfd_set_deferred_bytes( const std::uint8_t* pdu, unsigned n )
{
    for ( unsigned i = 0; i != n && i != sizeof( ll.defered_ll_control_pdu_buffer_ ); ++i )
        ll.defered_ll_control_pdu_buffer_[ i ] = pdu[ i ];
}
__attribute__((noinline)) std::uint64_t vfd_supported_features( void ) { return ll.supported_link_layer_features(); }
__attribute__((noinline)) unsigned vfd_version( void )                 { return ll.supported_link_layer_version(); }
__attribute__((noinline)) unsigned vfd_company( void )                 { return ll.link_layer_company_identifier(); }
__attribute__((noinline)) void vfd_local_address( std::uint8_t* addr6, int* is_random )
{
    const bluetoe::link_layer::device_address& a = ll.local_address();
    for ( int i = 0; i != 6; ++i )
        addr6[ i ] = *( a.begin() + i );
    *is_random = a.is_random();
}

__attribute__((noinline)) int vfd_handle_ll_control_data( const std::uint8_t* pdu, unsigned n )
{
    for ( unsigned i = 0; i != n && i != sizeof( control_store ); ++i )
        control_store[ i ] = pdu[ i ];

    const read_buffer out = ll.allocate_ll_transmit_buffer( 27 );
    if ( out.size == 0 )
        return 2;

    const auto r = ll.handle_ll_control_data( write_buffer{ control_store, n }, out );

    return r == ll_t::ll_result::disconnect ? 1 : 0;
}
__attribute__((noinline)) void vfd_transmit_pending_security_pdus( void ) { sec().transmit_pending_security_pdus(); }
__attribute__((noinline)) void vfd_transmit_pending_control_pdus( void )  { ll.transmit_pending_control_pdus(); }

__attribute__((noinline)) void vfd_end_event( unsigned flags )
{
    bluetoe::link_layer::connection_event_events e;
    e.unacknowledged_data         = ( flags & 1 ) != 0;
    e.last_received_not_empty     = ( flags & 2 ) != 0;
    e.last_transmitted_not_empty  = ( flags & 4 ) != 0;
    e.last_received_had_more_data = ( flags & 8 ) != 0;
    e.pending_outgoing_data       = ( flags & 16 ) != 0;
    e.error_occured               = ( flags & 32 ) != 0;
    ll.end_event( e );
}
__attribute__((noinline)) void vfd_timeout( void ) { ll.timeout(); }

__attribute__((noinline)) void vfd_adv_received( const std::uint8_t* pdu, unsigned n )
{
    static std::uint8_t copy[ 64 ];
    for ( unsigned i = 0; i != n && i != 64; ++i )
        copy[ i ] = pdu[ i ];

    ll.adv_received( read_buffer{ copy, n } );
}

__attribute__((noinline)) int vfd_radio_receive( const std::uint8_t* pdu, unsigned n )
{
    const read_buffer buf = ll.allocate_receive_buffer();
    if ( buf.size == 0 )
        return 0;

    for ( unsigned i = 0; i < n && i < buf.size; ++i )
        buf.buffer[ i ] = pdu[ i ];

    ll.received( buf );
    return 1;
}

__attribute__((noinline)) void vfd_disconnect( unsigned reason ) { ll.disconnect( static_cast< std::uint8_t >( reason ) ); }

__attribute__((noinline)) int vfd_connection_parameter_update_request( unsigned imin, unsigned imax, unsigned latency, unsigned timeout )
{
    return ll.connection_parameter_update_request( static_cast< std::uint16_t >( imin ), static_cast< std::uint16_t >( imax ), static_cast< std::uint16_t >( latency ), static_cast< std::uint16_t >( timeout ) );
}
__attribute__((noinline)) int vfd_initiating_connection_parameter_request( unsigned imin, unsigned imax, unsigned latency, unsigned timeout )
{
    return ll.initiating_connection_parameter_request( static_cast< std::uint16_t >( imin ), static_cast< std::uint16_t >( imax ), static_cast< std::uint16_t >( latency ), static_cast< std::uint16_t >( timeout ) );
}
__attribute__((noinline)) int vfd_phy_update_request( unsigned transmit, unsigned receive )
{
    return ll.phy_update_request( static_cast< std::uint8_t >( transmit ), static_cast< std::uint8_t >( receive ) );
}
__attribute__((noinline)) int vfd_remote_versions_request( void ) { return ll.remote_versions_request(); }

#if VFD_CFG != 1
__attribute__((noinline)) void vfd_cb_push( unsigned kind, unsigned arg )
{
    radio_t& r = static_cast< radio_t& >( ll );
    static const std::uint8_t zero[ 8 ] = { 0 };

    switch ( kind )
    {
        case VFD_CB_REQUESTED:       cb().connection_requested( ll.details(), ll.connection_data_, r ); break;
        case VFD_CB_ATTEMPT_TIMEOUT: cb().connection_attempt_timeout( ll.connection_data_, r ); break;
        case VFD_CB_ESTABLISHED:     cb().connection_established( ll.details(), ll.connection_data_, r ); break;
        case VFD_CB_CHANGED:         cb().connection_changed( ll.details(), ll.connection_data_, r ); break;
        case VFD_CB_CLOSED:          cb().connection_closed( static_cast< std::uint8_t >( arg ), ll.connection_data_, r ); break;
        case VFD_CB_VERSION:         cb().version_indication_received( zero, ll.connection_data_, r ); break;
        case VFD_CB_REJECTED:        cb().procedure_rejected( static_cast< std::uint8_t >( arg ), ll.connection_data_, r ); break;
        case VFD_CB_UNKNOWN:         cb().procedure_unknown( static_cast< std::uint8_t >( arg ), ll.connection_data_, r ); break;
        case VFD_CB_REMOTE_FEATURES: cb().remote_features_received( zero, ll.connection_data_, r ); break;
        case VFD_CB_PHY_UPDATED:     cb().phy_update( static_cast< std::uint8_t >( arg ), static_cast< std::uint8_t >( arg ), ll.connection_data_, r ); break;
    }
}
__attribute__((noinline)) void vfd_cb_handle_events( void ) { cb().template handle_connection_events< ll_t >(); }
__attribute__((noinline)) unsigned vfd_cb_pending( void )
{
    const int r = cb().events_.read_ptr_.load();
    const int w = cb().events_.write_ptr_.load();
    return static_cast< unsigned >( ( w - r + 5 ) % 5 );
}
#else
__attribute__((noinline)) void vfd_cb_push( unsigned, unsigned ) {}
__attribute__((noinline)) void vfd_cb_handle_events( void ) {}
__attribute__((noinline)) unsigned vfd_cb_pending( void ) { return 0; }
#endif

}
