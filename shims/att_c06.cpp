// shim for C06: real bluetoe::server<> with every kind of characteristic value binding and permission option.
// One configuration per build (-DVF_C06_CFG=0|1) to keep the generated C small.
// No property logic here: wrappers instantiate, forward, and copy raw state in and out.
#include <bluetoe/server.hpp>
#include <bluetoe/service.hpp>
#include <bluetoe/characteristic.hpp>
#include <bluetoe/gap_service.hpp>
#include <bluetoe/write_queue.hpp>
#include <bluetoe/mixin.hpp>

#define VF_EXPORT extern "C" __attribute__((noinline))

// ---- environment (defined by the harness): the user's read / write handlers, identified by a number
extern "C" std::uint8_t vf_c06_env_read( int id, std::size_t offset, std::size_t read_size, std::uint8_t* out, std::size_t* out_size );
extern "C" std::uint8_t vf_c06_env_write( int id, std::size_t offset, std::size_t write_size, const std::uint8_t* value );
extern "C" std::uint8_t vf_c06_env_write_u16( int id, unsigned value );

namespace {
#if VF_C06_CFG == 0
    // ------------------------------------------------------------------------------------------ memory bound values
    std::uint8_t        b1;
    std::uint32_t       b4;
    std::uint8_t        b20[ 20 ];
    extern const std::uint32_t c4;
    const std::uint32_t c4 = 0xA1B2C3D4;
    std::uint32_t       r4;
    std::uint32_t       w4;
    std::uint32_t       ow4;
    extern const char   text[];
    const char          text[] = "Hello";

    //  1 service 0x1820
    //  2/3   0xC001 b1   1 byte   read write
    //  4/5   0xC002 b4   4 bytes  read write, write_without_response
    //  6/7   0xC003 b20 20 bytes  read write
    //  8/9   0xC004 c4   const    read only
    // 10/11  0xC005 r4   no_write_access
    // 12/13  0xC006 w4   no_read_access
    // 14/15  0xC007 fixed_uint32_value< 0x11223344 >
    // 16/17  0xC008 cstring_value "Hello"
    // 18/19  0xC009 ow4  only_write_without_response
    using srv_t = bluetoe::server<
        bluetoe::shared_write_queue< 32 >,
        bluetoe::no_gap_service_for_gatt_servers,
        bluetoe::service<
            bluetoe::service_uuid16< 0x1820 >,
            bluetoe::characteristic<
                bluetoe::characteristic_uuid16< 0xC001 >,
                bluetoe::bind_characteristic_value< std::uint8_t, &b1 >
            >,
            bluetoe::characteristic<
                bluetoe::characteristic_uuid16< 0xC002 >,
                bluetoe::bind_characteristic_value< std::uint32_t, &b4 >,
                bluetoe::write_without_response
            >,
            bluetoe::characteristic<
                bluetoe::characteristic_uuid16< 0xC003 >,
                bluetoe::bind_characteristic_value< decltype( b20 ), &b20 >
            >,
            bluetoe::characteristic<
                bluetoe::characteristic_uuid16< 0xC004 >,
                bluetoe::bind_characteristic_value< const std::uint32_t, &c4 >
            >,
            bluetoe::characteristic<
                bluetoe::characteristic_uuid16< 0xC005 >,
                bluetoe::bind_characteristic_value< std::uint32_t, &r4 >,
                bluetoe::no_write_access
            >,
            bluetoe::characteristic<
                bluetoe::characteristic_uuid16< 0xC006 >,
                bluetoe::bind_characteristic_value< std::uint32_t, &w4 >,
                bluetoe::no_read_access
            >,
            bluetoe::characteristic<
                bluetoe::characteristic_uuid16< 0xC007 >,
                bluetoe::fixed_uint32_value< 0x11223344 >
            >,
            bluetoe::characteristic<
                bluetoe::characteristic_uuid16< 0xC008 >,
                bluetoe::cstring_value< text >
            >,
            bluetoe::characteristic<
                bluetoe::characteristic_uuid16< 0xC009 >,
                bluetoe::bind_characteristic_value< std::uint32_t, &ow4 >,
                bluetoe::only_write_without_response
            >
        >
    >;
#else
    // ------------------------------------------------------------------------------------------ handler based values
    template < int Id >
    std::uint8_t rd( std::size_t read_size, std::uint8_t* out, std::size_t& out_size )
    {
        return vf_c06_env_read( Id, 0, read_size, out, &out_size );
    }
    template < int Id >
    std::uint8_t rd_blob( std::size_t offset, std::size_t read_size, std::uint8_t* out, std::size_t& out_size )
    {
        return vf_c06_env_read( Id, offset, read_size, out, &out_size );
    }
    template < int Id >
    std::uint8_t wr( std::size_t write_size, const std::uint8_t* value )
    {
        return vf_c06_env_write( Id, 0, write_size, value );
    }
    template < int Id >
    std::uint8_t wr_blob( std::size_t offset, std::size_t write_size, const std::uint8_t* value )
    {
        return vf_c06_env_write( Id, offset, write_size, value );
    }
    template < int Id >
    std::uint8_t wr_u16( std::uint16_t value )
    {
        return vf_c06_env_write_u16( Id, value );
    }

    struct mix
    {
        std::uint8_t read( std::size_t read_size, std::uint8_t* out, std::size_t& out_size )
        {
            return vf_c06_env_read( 5, 0, read_size, out, &out_size );
        }
        std::uint8_t write( std::size_t write_size, const std::uint8_t* value )
        {
            return vf_c06_env_write( 5, 0, write_size, value );
        }
    };

    //  1 service (128 bit UUID)
    //  2/3      0xD000 free_read_handler                                             read only
    //  4/5      0xD001 free_write_handler< uint16_t >                                write only, exactly 2 bytes
    //  6/7      0xD002 free_read_blob_handler + free_write_blob_handler              read write with offsets
    //  8/9/10   0xD003 free_read_handler, no_read_access, notify                     not readable, CCCD
    // 11/12     0xD004 free_raw_write_handler, write_without_response                write only
    // 13/14     0xD005 mixin_read_handler + mixin_write_handler                      read write
    // 15/16/17  0xD006 free_read_handler + free_raw_write_handler, notify, indicate  read write, CCCD
    // 18/19     0xD007 free_raw_write_handler, only_write_without_response           write only
    using srv_t = bluetoe::server<
        bluetoe::no_gap_service_for_gatt_servers,
        bluetoe::mixin< mix >,
        bluetoe::service<
            bluetoe::service_uuid< 0x8C8B4094, 0x0DE2, 0x499F, 0xA28A, 0x4EED5BC73CA9 >,
            bluetoe::characteristic<
                bluetoe::characteristic_uuid16< 0xD000 >,
                bluetoe::free_read_handler< &rd< 0 > >
            >,
            bluetoe::characteristic<
                bluetoe::characteristic_uuid16< 0xD001 >,
                bluetoe::free_write_handler< std::uint16_t, &wr_u16< 1 > >
            >,
            bluetoe::characteristic<
                bluetoe::characteristic_uuid16< 0xD002 >,
                bluetoe::free_read_blob_handler< &rd_blob< 2 > >,
                bluetoe::free_write_blob_handler< &wr_blob< 2 > >
            >,
            bluetoe::characteristic<
                bluetoe::characteristic_uuid16< 0xD003 >,
                bluetoe::free_read_handler< &rd< 3 > >,
                bluetoe::no_read_access,
                bluetoe::notify
            >,
            bluetoe::characteristic<
                bluetoe::characteristic_uuid16< 0xD004 >,
                bluetoe::free_raw_write_handler< &wr< 4 > >,
                bluetoe::write_without_response
            >,
            bluetoe::characteristic<
                bluetoe::characteristic_uuid16< 0xD005 >,
                bluetoe::mixin_read_handler< mix, &mix::read >,
                bluetoe::mixin_write_handler< mix, &mix::write >
            >,
            bluetoe::characteristic<
                bluetoe::characteristic_uuid16< 0xD006 >,
                bluetoe::free_read_handler< &rd< 6 > >,
                bluetoe::free_raw_write_handler< &wr< 6 > >,
                bluetoe::notify, bluetoe::indicate
            >,
            bluetoe::characteristic<
                bluetoe::characteristic_uuid16< 0xD007 >,
                bluetoe::free_raw_write_handler< &wr< 7 > >,
                bluetoe::only_write_without_response
            >
        >
    >;
#endif

    struct conn_t : srv_t::channel_data_t<> {
        bluetoe::connection_security_attributes sec;
        bluetoe::connection_security_attributes security_attributes() const { return sec; }
    };

    srv_t  server;
    conn_t conn;
}

#if VF_C06_CFG == 0
// bound values, 37 bytes: b1 b4 b20 r4 w4 ow4
VF_EXPORT void vf_c06_set_values( const std::uint8_t* p )
{
    std::memcpy( &b1, p, 1 ); std::memcpy( &b4, p + 1, 4 ); std::memcpy( b20, p + 5, 20 );
    std::memcpy( &r4, p + 25, 4 ); std::memcpy( &w4, p + 29, 4 ); std::memcpy( &ow4, p + 33, 4 );
}

VF_EXPORT void vf_c06_get_values( std::uint8_t* p )
{
    std::memcpy( p, &b1, 1 ); std::memcpy( p + 1, &b4, 4 ); std::memcpy( p + 5, b20, 20 );
    std::memcpy( p + 25, &r4, 4 ); std::memcpy( p + 29, &w4, 4 ); std::memcpy( p + 33, &ow4, 4 );
}

// fill level of the write queue
VF_EXPORT unsigned vf_c06_queue_end()
{
    using wq_t = bluetoe::details::write_queue< bluetoe::shared_write_queue< 32 > >;
    return ( ( wq_t& )server ).buffer_end_;
}
#endif

// new connection (default MTU, nothing subscribed), link security as given; then one request
VF_EXPORT void vf_c06_input( const std::uint8_t* in, std::size_t in_size, std::uint8_t* out, std::size_t* out_size, int encrypted, int pairing )
{
    conn     = conn_t();
    conn.sec = bluetoe::connection_security_attributes( encrypted != 0, static_cast< bluetoe::device_pairing_status >( pairing ) );
    server.l2cap_input( in, in_size, out, *out_size, conn );
}
