// shim: the real bluetoe::nrf52_details::security_tool_box (bluetoe/bindings/nordic/nrf52/security_tool_box.cpp is
// linked unchanged; built against /verif/stubs/nrf.h). No property logic here: the wrappers copy bytes in and out of
// the std::array / device_address parameter types and forward. The peripherals behind the registers (ECB, RNG) and
// micro-ecc (uECC_*) are the environment: defined in the harness.
#include <bluetoe/security_tool_box.hpp>
#include <nrf.h>
#undef reinterpret_cast

extern "C" {
    // the register blocks NRF_ECB, NRF_RNG ... of stubs/nrf.h point to
    NRF_ECB_Type    vf_nrf_ecb;
    NRF_RNG_Type    vf_nrf_rng;
    NRF_CLOCK_Type  vf_nrf_clock;
    NRF_RTC_Type    vf_nrf_rtc0;
    NRF_RADIO_Type  vf_nrf_radio;
    NRF_TIMER_Type  vf_nrf_timer0, vf_nrf_timer1;
    NRF_TEMP_Type   vf_nrf_temp;
    NRF_CCM_Type    vf_nrf_ccm;
    NRF_AAR_Type    vf_nrf_aar;
    NRF_PPI_Type    vf_nrf_ppi;
    NRF_GPIOTE_Type vf_nrf_gpiote;
    NVIC_Type       vf_nvic;
}

namespace {
    using bluetoe::details::uint128_t;
    using bluetoe::link_layer::device_address;

    bluetoe::nrf52_details::security_tool_box tb;

    uint128_t u128( const std::uint8_t* p )
    {
        uint128_t r;
        std::copy( p, p + 16, r.begin() );
        return r;
    }

    template < class A >
    void out( const A& a, std::uint8_t* p )
    {
        std::copy( a.begin(), a.end(), p );
    }
}

#define EXPORT extern "C" __attribute__((noinline))

// addresses of the registers the harness's peripheral emulation has to recognise
EXPORT const volatile void* stb_reg( int id )
{
    switch ( id )
    {
    case 0:  return &vf_nrf_ecb.TASKS_STARTECB;
    case 1:  return &vf_nrf_ecb.EVENTS_ENDECB;
    case 2:  return &vf_nrf_ecb.EVENTS_ERRORECB;
    case 3:  return &vf_nrf_ecb.ECBDATAPTR;
    case 4:  return &vf_nrf_rng.TASKS_START;
    case 5:  return &vf_nrf_rng.EVENTS_VALRDY;
    case 6:  return &vf_nrf_rng.VALUE;
    default: return nullptr;
    }
}

EXPORT void stb_aes_le( const std::uint8_t* key, const std::uint8_t* data, std::uint8_t* result )
{
    out( bluetoe::nrf52_details::aes_le( u128( key ), u128( data ) ), result );
}

EXPORT std::uint32_t stb_random_number32() { return bluetoe::nrf52_details::random_number32(); }
EXPORT std::uint64_t stb_random_number64() { return bluetoe::nrf52_details::random_number64(); }

EXPORT void stb_create_srand( std::uint8_t* result )         { out( tb.create_srand(), result ); }
EXPORT void stb_select_random_nonce( std::uint8_t* result )  { out( tb.select_random_nonce(), result ); }
EXPORT void stb_create_passkey( std::uint8_t* result )       { out( tb.create_passkey(), result ); }

EXPORT void stb_create_long_term_key( std::uint8_t* ltk, std::uint64_t* rand, std::uint16_t* ediv )
{
    const bluetoe::details::longterm_key_t k = tb.create_long_term_key();
    out( k.longterm_key, ltk );
    *rand = k.rand;
    *ediv = k.ediv;
}

EXPORT void stb_c1( const std::uint8_t* temp_key, const std::uint8_t* rand, const std::uint8_t* p1, const std::uint8_t* p2, std::uint8_t* result )
{
    out( tb.c1( u128( temp_key ), u128( rand ), u128( p1 ), u128( p2 ) ), result );
}

EXPORT void stb_s1( const std::uint8_t* temp_key, const std::uint8_t* srand, const std::uint8_t* mrand, std::uint8_t* result )
{
    out( tb.s1( u128( temp_key ), u128( srand ), u128( mrand ) ), result );
}

EXPORT int stb_is_valid_public_key( const std::uint8_t* public_key )
{
    return tb.is_valid_public_key( public_key ) ? 1 : 0;
}

EXPORT void stb_generate_keys( std::uint8_t* public_key, std::uint8_t* private_key )
{
    const auto keys = tb.generate_keys();
    out( keys.first, public_key );
    out( keys.second, private_key );
}

EXPORT void stb_p256( const std::uint8_t* private_key, const std::uint8_t* public_key, std::uint8_t* result )
{
    out( tb.p256( private_key, public_key ), result );
}

EXPORT void stb_f4( const std::uint8_t* u, const std::uint8_t* v, const std::uint8_t* k, std::uint8_t z, std::uint8_t* result )
{
    out( tb.f4( u, v, u128( k ), z ), result );
}

EXPORT void stb_f5( const std::uint8_t* dh_key, const std::uint8_t* nonce_central, const std::uint8_t* nonce_peripheral,
    const std::uint8_t* addr_central, int central_random, const std::uint8_t* addr_peripheral, int peripheral_random,
    std::uint8_t* mac_key, std::uint8_t* ltk )
{
    bluetoe::details::ecdh_shared_secret_t dh;
    std::copy( dh_key, dh_key + 32, dh.begin() );

    const auto r = tb.f5( dh, u128( nonce_central ), u128( nonce_peripheral ),
        device_address( addr_central, central_random != 0 ), device_address( addr_peripheral, peripheral_random != 0 ) );

    out( r.first, mac_key );
    out( r.second, ltk );
}

EXPORT void stb_f6( const std::uint8_t* key, const std::uint8_t* n1, const std::uint8_t* n2, const std::uint8_t* r, const std::uint8_t* io_caps,
    const std::uint8_t* addr_central, int central_random, const std::uint8_t* addr_peripheral, int peripheral_random,
    std::uint8_t* result )
{
    bluetoe::details::io_capabilities_t io;
    std::copy( io_caps, io_caps + 3, io.begin() );

    out( tb.f6( u128( key ), u128( n1 ), u128( n2 ), u128( r ), io,
        device_address( addr_central, central_random != 0 ), device_address( addr_peripheral, peripheral_random != 0 ) ), result );
}

EXPORT std::uint32_t stb_g2( const std::uint8_t* u, const std::uint8_t* v, const std::uint8_t* x, const std::uint8_t* y )
{
    return tb.g2( u, v, u128( x ), u128( y ) );
}
