// shim: the real peripheral_latency_state<...> for the four predefined configurations and one configuration set.
// Wrappers only forward / copy raw members; the radio's disarm_connection_event() is an environment function.
#include <bluetoe/delta_time.hpp>
#include <bluetoe/channel_map.hpp>
#include <cassert>
#include <bluetoe/meta_tools.hpp>
#include <bluetoe/meta_types.hpp>
#include <bluetoe/peripheral_latency.hpp>

using namespace bluetoe::link_layer;

extern "C" int vf_disarm_connection_event( std::uint32_t* now_usec );   // harness: may the planned event be disarmed, time since the anchor

namespace {
    struct radio_t {
        std::pair< bool, delta_time > disarm_connection_event()
        {
            std::uint32_t now = 0;
            const bool ok = vf_disarm_connection_event( &now );
            return { ok, delta_time( now ) };
        }
    } radio;

    using set_t = peripheral_latency_configuration_set< peripheral_latency_strict, periperal_latency_default_configuration, peripheral_latency_ignored, peripheral_latency_strict_plus >;

    details::peripheral_latency_state< peripheral_latency_ignored >               s0;
    details::peripheral_latency_state< peripheral_latency_strict >                s1;
    details::peripheral_latency_state< peripheral_latency_strict_plus >           s2;
    details::peripheral_latency_state< periperal_latency_default_configuration >  s3;
    details::peripheral_latency_state< set_t >                                    s4;

    template < class S > void set_last( S& s, int l, std::true_type )  { s.last_latency_ = l; }
    template < class S > void set_last( S&, int, std::false_type )     {}
    template < class S > int  get_last( S& s, std::true_type )         { return s.last_latency_; }
    template < class S > int  get_last( S&, std::false_type )          { return -1; }
}

#define FOR_CFG( cfg, expr ) \
    switch ( cfg ) { \
    case 0: { auto& s = s0; using disarm = std::false_type; expr; } break; \
    case 1: { auto& s = s1; using disarm = std::true_type; expr; } break; \
    case 2: { auto& s = s2; using disarm = std::false_type; expr; } break; \
    case 3: { auto& s = s3; using disarm = std::true_type; expr; } break; \
    default: { auto& s = s4; using disarm = std::true_type; expr; } break; \
    }

extern "C" {
__attribute__((noinline)) void lat_plan( int cfg, std::uint16_t latency, unsigned flags, std::uint32_t interval_us, int pending, std::uint16_t instant )
{
    const connection_event_events ev( flags & 1, flags & 2, flags & 4, flags & 8, flags & 16, flags & 32 );
    FOR_CFG( cfg, ( (void)sizeof( disarm ), s.plan_next_connection_event( latency, ev, delta_time( interval_us ), std::pair< bool, std::uint16_t >( pending != 0, instant ) ) ) );
}
__attribute__((noinline)) void lat_plan_after_timeout( int cfg, std::uint32_t interval_us )
{
    FOR_CFG( cfg, ( (void)sizeof( disarm ), s.plan_next_connection_event_after_timeout( delta_time( interval_us ) ) ) );
}
__attribute__((noinline)) int lat_reschedule( int cfg, std::uint32_t interval_us )
{
    bool r = false; FOR_CFG( cfg, ( (void)sizeof( disarm ), r = s.reschedule_on_pending_data( radio, delta_time( interval_us ) ) ) ); return r;
}
__attribute__((noinline)) void lat_reset( int cfg ) { FOR_CFG( cfg, ( (void)sizeof( disarm ), s.reset_connection_state() ) ); }
// selects the active configuration of the configuration set (cfg 4): 0 strict, 1 default, 2 ignored, 3 strict_plus
__attribute__((noinline)) void lat_select( int which )
{
    switch ( which ) {
    case 0: s4.change_peripheral_latency< peripheral_latency_strict >(); break;
    case 1: s4.change_peripheral_latency< periperal_latency_default_configuration >(); break;
    case 2: s4.change_peripheral_latency< peripheral_latency_ignored >(); break;
    default: s4.change_peripheral_latency< peripheral_latency_strict_plus >(); break;
    }
}
__attribute__((noinline)) void lat_set( int cfg, unsigned channel_index, std::uint16_t counter, std::uint32_t time_us, int last_latency )
{
    FOR_CFG( cfg, ( s.channel_index_ = channel_index, s.event_counter_ = counter, s.time_since_last_event_ = delta_time( time_us ), set_last( s, last_latency, disarm() ) ) );
}
__attribute__((noinline)) void lat_get( int cfg, unsigned* channel_index, std::uint16_t* counter, std::uint32_t* time_us, int* last_latency )
{
    FOR_CFG( cfg, ( *channel_index = s.current_channel_index(), *counter = s.connection_event_counter(), *time_us = s.time_since_last_event().usec(), *last_latency = get_last( s, disarm() ) ) );
}
}
