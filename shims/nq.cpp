// shim: instantiates the real bluetoe::notification_queue for several priority partitions.
// No property logic here: wrappers only forward calls and copy raw member bytes.
#include <bluetoe/notification_queue.hpp>
#include <tuple>

namespace {
    struct empty_mixin {};
    template < int... S >
    using queue_t = bluetoe::notification_queue< std::tuple< std::integral_constant< int, S >... >, empty_mixin >;

    queue_t< 3 >       q0;   // CFG 0
    queue_t< 1 >       q1;   // CFG 1
    queue_t< 5 >       q2;   // CFG 2
    queue_t< 1, 2 >    q3;   // CFG 3
    queue_t< 2, 1, 1 > q4;   // CFG 4
    queue_t< 4, 3 >    q5;   // CFG 5

    using bluetoe::details::notification_queue_impl;

    template < int Size, int C >
    void get_level( notification_queue_impl< Size, C >& l, std::uint64_t* next, std::uint32_t* bits )
    {
        *next = l.next_;
        *bits = 0;
        for ( std::size_t i = 0; i != sizeof( l.queue_ ); ++i )
            *bits |= std::uint32_t( l.queue_[ i ] ) << ( 8 * i );
    }
    template < int C >
    void get_level( notification_queue_impl< 1, C >& l, std::uint64_t* next, std::uint32_t* bits )
    {
        *next = 0;
        *bits = static_cast< std::uint32_t >( l.state_ );
    }
    template < int Size, int C >
    void set_level( notification_queue_impl< Size, C >& l, std::uint64_t next, std::uint32_t bits )
    {
        l.next_ = next;
        for ( std::size_t i = 0; i != sizeof( l.queue_ ); ++i )
            l.queue_[ i ] = static_cast< std::uint8_t >( bits >> ( 8 * i ) );
    }
    template < int C >
    void set_level( notification_queue_impl< 1, C >& l, std::uint64_t, std::uint32_t bits )
    {
        l.state_ = static_cast< decltype( l.state_ ) >( bits );
    }
}

#define FOR_CFG( cfg, expr ) \
    switch ( cfg ) { \
    case 0: { auto& q = q0; expr; } break; \
    case 1: { auto& q = q1; expr; } break; \
    case 2: { auto& q = q2; expr; } break; \
    case 3: { auto& q = q3; expr; } break; \
    case 4: { auto& q = q4; expr; } break; \
    default: { auto& q = q5; expr; } break; \
    }

#define LEVEL( q, S, C ) ( ( notification_queue_impl< S, C >& )( q ) )   /* C-style cast: reaches the private base */

#define FOR_LEVEL( cfg, level, fn, ... ) \
    switch ( cfg * 4 + level ) { \
    case 0:  fn( LEVEL( q0, 3, 0 ), __VA_ARGS__ ); break; \
    case 4:  fn( LEVEL( q1, 1, 0 ), __VA_ARGS__ ); break; \
    case 8:  fn( LEVEL( q2, 5, 0 ), __VA_ARGS__ ); break; \
    case 12: fn( LEVEL( q3, 1, 0 ), __VA_ARGS__ ); break; \
    case 13: fn( LEVEL( q3, 2, 1 ), __VA_ARGS__ ); break; \
    case 16: fn( LEVEL( q4, 2, 0 ), __VA_ARGS__ ); break; \
    case 17: fn( LEVEL( q4, 1, 1 ), __VA_ARGS__ ); break; \
    case 18: fn( LEVEL( q4, 1, 2 ), __VA_ARGS__ ); break; \
    case 20: fn( LEVEL( q5, 4, 0 ), __VA_ARGS__ ); break; \
    case 21: fn( LEVEL( q5, 3, 1 ), __VA_ARGS__ ); break; \
    default: break; \
    }

extern "C" {

__attribute__((noinline)) int vf_nq_queue_notification( int cfg, unsigned long idx )
{
    bool r = false; FOR_CFG( cfg, r = q.queue_notification( idx ) ); return r;
}

__attribute__((noinline)) int vf_nq_queue_indication( int cfg, unsigned long idx )
{
    bool r = false; FOR_CFG( cfg, r = q.queue_indication( idx ) ); return r;
}

/* returns entry type (0 empty, 1 notification, 2 indication), index in *idx */
__attribute__((noinline)) int vf_nq_dequeue( int cfg, unsigned long* idx )
{
    std::pair< bluetoe::details::notification_queue_entry_type, std::size_t > r;
    FOR_CFG( cfg, r = q.dequeue_indication_or_confirmation() );
    *idx = r.second;
    return static_cast< int >( r.first );
}

__attribute__((noinline)) void vf_nq_confirmed( int cfg ) { FOR_CFG( cfg, q.indication_confirmed() ); }
__attribute__((noinline)) void vf_nq_clear( int cfg )     { FOR_CFG( cfg, q.clear_indications_and_confirmations() ); }

__attribute__((noinline)) unsigned long vf_nq_get_outstanding( int cfg )
{
    std::size_t r = 0; FOR_CFG( cfg, r = q.outstanding_confirmation_index_ ); return r;
}
__attribute__((noinline)) void vf_nq_set_outstanding( int cfg, unsigned long v )
{
    FOR_CFG( cfg, q.outstanding_confirmation_index_ = v );
}
__attribute__((noinline)) void vf_nq_get_level( int cfg, int level, std::uint64_t* next, std::uint32_t* bits )
{
    *next = 0; *bits = 0;
    FOR_LEVEL( cfg, level, get_level, next, bits );
}
__attribute__((noinline)) void vf_nq_set_level( int cfg, int level, std::uint64_t next, std::uint32_t bits )
{
    FOR_LEVEL( cfg, level, set_level, next, bits );
}

}
