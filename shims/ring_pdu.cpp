// shim: the real bluetoe::link_layer::pdu_ring_buffer<Size, read_buffer, Layout> (ring_buffer.hpp) for several sizes,
// with bluetoe::link_layer::default_pdu_layout and bluetoe::nrf_details::encrypted_pdu_layout (nrf.hpp, built against
// /verif/stubs/nrf.h).  The storage of the ring is NOT part of the shim: the harness passes an exact-size object, the same
// pointer on every call (as ll_data_pdu_buffer does).  No property logic here: wrappers forward calls; buffers cross the C
// interface as byte offsets into the storage (-1: the empty buffer {nullptr, 0}; -3: buffer == nullptr but size != 0).
#include <bluetoe/ring_buffer.hpp>
#include <bluetoe/default_pdu_layout.hpp>
#include <bluetoe/nrf.hpp>
#undef reinterpret_cast

extern "C" {
    // the register blocks the NRF_xxx macros of stubs/nrf.h point to (never accessed by the code of this unit)
    NRF_ECB_Type    vf_nrf_ecb;
    NRF_RNG_Type    vf_nrf_rng;
    NRF_CLOCK_Type  vf_nrf_clock;
    NRF_RTC_Type    vf_nrf_rtc0;
    NRF_RADIO_Type  vf_nrf_radio;
    NRF_TIMER_Type  vf_nrf_timer0, vf_nrf_timer1;
    NRF_TEMP_Type   vf_nrf_temp;
    NRF_CCM_Type    vf_nrf_ccm;
    NRF_AAR_Type    vf_nrf_aar;
    NRF_PPI_Type    vf_nrf_ppi;
    NRF_GPIOTE_Type vf_nrf_gpiote;
    NVIC_Type       vf_nvic;
}

namespace {
    using bluetoe::link_layer::read_buffer;
    using bluetoe::link_layer::default_pdu_layout;
    using bluetoe::nrf_details::encrypted_pdu_layout;
    using bluetoe::link_layer::pdu_ring_buffer;

    std::uint8_t construction_dummy[ 4 ];

    template < std::size_t Size, class Layout >
    struct ring_cfg
    {
        using layout = Layout;
        pdu_ring_buffer< Size, read_buffer, Layout > ring;
        ring_cfg() : ring( construction_dummy ) {}
    };

    ring_cfg< 40, default_pdu_layout >   r0;    // CFG 0
    ring_cfg< 64, default_pdu_layout >   r1;    // CFG 1
    ring_cfg< 40, encrypted_pdu_layout > r2;    // CFG 2
    ring_cfg< 64, encrypted_pdu_layout > r3;    // CFG 3
    ring_cfg< 12, default_pdu_layout >   r4;    // CFG 4
    ring_cfg< 29, default_pdu_layout >   r5;    // CFG 5  (the ring of ll_data_pdu_buffer< 29, 29 >)

    long to_offset( const std::uint8_t* storage, const read_buffer& b )
    {
        if ( b.buffer == nullptr )
            return b.size == 0 ? -1 : -3;

        return b.buffer - storage;
    }
}

#define FOR_CFG( cfg, expr ) \
    switch ( cfg ) { \
    case 0: { auto& r = r0; typedef decltype( r0 )::layout L; expr; } break; \
    case 1: { auto& r = r1; typedef decltype( r1 )::layout L; expr; } break; \
    case 2: { auto& r = r2; typedef decltype( r2 )::layout L; expr; } break; \
    case 3: { auto& r = r3; typedef decltype( r3 )::layout L; expr; } break; \
    case 4: { auto& r = r4; typedef decltype( r4 )::layout L; expr; } break; \
    default: { auto& r = r5; typedef decltype( r5 )::layout L; expr; } break; \
    }

#define EXPORT extern "C" __attribute__((noinline))

EXPORT unsigned long vf_rp_size( int cfg )
{
    unsigned long s = 0; FOR_CFG( cfg, (void)sizeof( L ); s = r.ring.size ); return s;
}

EXPORT void vf_rp_reset( int cfg, std::uint8_t* storage )
{
    FOR_CFG( cfg, (void)sizeof( L ); r.ring.reset( storage ) );
}

EXPORT long vf_rp_alloc_front( int cfg, std::uint8_t* storage, unsigned long size, unsigned long* out_size )
{
    read_buffer b{ nullptr, 0 };
    FOR_CFG( cfg, (void)sizeof( L ); b = r.ring.alloc_front( storage, size ) );
    *out_size = b.size;
    return to_offset( storage, b );
}

EXPORT void vf_rp_push_front( int cfg, std::uint8_t* storage, long off, unsigned long size )
{
    FOR_CFG( cfg, (void)sizeof( L ); r.ring.push_front( storage, read_buffer{ storage + off, size } ) );
}

EXPORT long vf_rp_next_end( int cfg, std::uint8_t* storage, unsigned long* out_size )
{
    read_buffer b{ nullptr, 0 };
    FOR_CFG( cfg, (void)sizeof( L ); b = r.ring.next_end() );
    *out_size = b.size;
    return to_offset( storage, b );
}

EXPORT void vf_rp_pop_end( int cfg, std::uint8_t* storage )
{
    FOR_CFG( cfg, (void)sizeof( L ); r.ring.pop_end( storage ) );
}

EXPORT int vf_rp_more_than_one( int cfg )
{
    bool m = false; FOR_CFG( cfg, (void)sizeof( L ); m = r.ring.more_than_one() ); return m;
}

/* ---- the PDU layout of the configuration (real Layout functions) */
EXPORT unsigned long vf_rp_memory_size( int cfg, unsigned long payload )
{
    unsigned long s = 0; FOR_CFG( cfg, (void)r; s = L::data_channel_pdu_memory_size( payload ) ); return s;
}

EXPORT void vf_rp_set_header( int cfg, std::uint8_t* storage, long off, unsigned long size, unsigned header )
{
    FOR_CFG( cfg, (void)r; L::header( read_buffer{ storage + off, size }, static_cast< std::uint16_t >( header ) ) );
}

EXPORT unsigned vf_rp_get_header( int cfg, std::uint8_t* storage, long off, unsigned long size )
{
    unsigned h = 0; FOR_CFG( cfg, (void)r; h = L::header( read_buffer{ storage + off, size } ) ); return h;
}

/* body of the PDU as offsets [first, second) into the storage */
EXPORT void vf_rp_body( int cfg, std::uint8_t* storage, long off, unsigned long size, long* first, long* second )
{
    std::pair< std::uint8_t*, std::uint8_t* > b{ nullptr, nullptr };
    FOR_CFG( cfg, (void)r; b = L::body( read_buffer{ storage + off, size } ) );
    *first  = b.first - storage;
    *second = b.second - storage;
}
