// shim: the real software white list (white_list_implementation<Size,true,...>) for Size 3 and 1, and the radio backed variant
// (white_list_implementation<3,false,Radio,LinkLayer>) on a recording stub radio. Wrappers only forward / copy raw members.
#include <bluetoe/white_list.hpp>

using bluetoe::link_layer::device_address;

extern "C" {
    // environment of the radio backed white list, defined in the harness
    unsigned long vf_radio_free_size();
    void vf_radio_clear();
    int  vf_radio_add( const std::uint8_t* addr, int random );
    int  vf_radio_is_in( const std::uint8_t* addr, int random );
    int  vf_radio_remove( const std::uint8_t* addr, int random );
    void vf_radio_set_conn_filter( int b );
    int  vf_radio_get_conn_filter();
    void vf_radio_set_scan_filter( int b );
    int  vf_radio_get_scan_filter();
    int  vf_radio_conn_in_filter( const std::uint8_t* addr, int random );
    int  vf_radio_scan_in_filter( const std::uint8_t* addr, int random );
}

namespace {
    struct sw_radio { static constexpr std::size_t radio_maximum_white_list_entries = 0; };
    struct sw_ll {};

    bluetoe::link_layer::white_list< 3 >::impl< sw_radio, sw_ll > wl3;
    bluetoe::link_layer::white_list< 1 >::impl< sw_radio, sw_ll > wl1;

    struct hw_radio {
        static constexpr std::size_t radio_maximum_white_list_entries = 8;
        std::size_t radio_white_list_free_size() const { return vf_radio_free_size(); }
        void radio_clear_white_list() { vf_radio_clear(); }
        bool radio_add_to_white_list( const device_address& a ) { return vf_radio_add( a.begin(), a.is_random() ); }
        bool radio_is_in_white_list( const device_address& a ) const { return vf_radio_is_in( a.begin(), a.is_random() ); }
        bool radio_remove_from_white_list( const device_address& a ) { return vf_radio_remove( a.begin(), a.is_random() ); }
        void radio_connection_request_filter( bool b ) { vf_radio_set_conn_filter( b ); }
        bool radio_connection_request_filter() const { return vf_radio_get_conn_filter(); }
        void radio_scan_request_filter( bool b ) { vf_radio_set_scan_filter( b ); }
        bool radio_scan_request_filter() const { return vf_radio_get_scan_filter(); }
        bool radio_is_connection_request_in_filter( const device_address& a ) const { return vf_radio_conn_in_filter( a.begin(), a.is_random() ); }
        bool radio_is_scan_request_in_filter( const device_address& a ) const { return vf_radio_scan_in_filter( a.begin(), a.is_random() ); }
    };
    struct hw_ll : hw_radio, bluetoe::link_layer::white_list< 3 >::impl< hw_radio, hw_ll > {};
    hw_ll wlhw;
}

#define FOR_CFG( cfg, expr ) \
    switch ( cfg ) { \
    case 0: { auto& w = wl3; expr; } break; \
    case 1: { auto& w = wl1; expr; } break; \
    default: { auto& w = static_cast< bluetoe::link_layer::white_list< 3 >::impl< hw_radio, hw_ll >& >( wlhw ); expr; } break; \
    }
#define FOR_SW( cfg, expr ) \
    switch ( cfg ) { \
    case 0: { auto& w = wl3; expr; } break; \
    default: { auto& w = wl1; expr; } break; \
    }

extern "C" {
__attribute__((noinline)) int  wl_add( int cfg, const std::uint8_t* a, int rnd )    { bool r = false; FOR_CFG( cfg, r = w.add_to_white_list( device_address( a, rnd ) ) ); return r; }
__attribute__((noinline)) int  wl_remove( int cfg, const std::uint8_t* a, int rnd ) { bool r = false; FOR_CFG( cfg, r = w.remove_from_white_list( device_address( a, rnd ) ) ); return r; }
__attribute__((noinline)) int  wl_is_in( int cfg, const std::uint8_t* a, int rnd )  { bool r = false; FOR_CFG( cfg, r = w.is_in_white_list( device_address( a, rnd ) ) ); return r; }
__attribute__((noinline)) unsigned long wl_free_size( int cfg )                     { std::size_t r = 0; FOR_CFG( cfg, r = w.white_list_free_size() ); return r; }
__attribute__((noinline)) void wl_clear( int cfg )                                  { FOR_CFG( cfg, w.clear_white_list() ); }
__attribute__((noinline)) void wl_set_conn_filter( int cfg, int b )                 { FOR_CFG( cfg, w.connection_request_filter( b != 0 ) ); }
__attribute__((noinline)) int  wl_get_conn_filter( int cfg )                        { bool r = false; FOR_CFG( cfg, r = w.connection_request_filter() ); return r; }
__attribute__((noinline)) void wl_set_scan_filter( int cfg, int b )                 { FOR_CFG( cfg, w.scan_request_filter( b != 0 ) ); }
__attribute__((noinline)) int  wl_get_scan_filter( int cfg )                        { bool r = false; FOR_CFG( cfg, r = w.scan_request_filter() ); return r; }
__attribute__((noinline)) int  wl_conn_in_filter( int cfg, const std::uint8_t* a, int rnd ) { bool r = false; FOR_CFG( cfg, r = w.is_connection_request_in_filter( device_address( a, rnd ) ) ); return r; }
__attribute__((noinline)) int  wl_scan_in_filter( int cfg, const std::uint8_t* a, int rnd ) { bool r = false; FOR_CFG( cfg, r = w.is_scan_request_in_filter( device_address( a, rnd ) ) ); return r; }

// raw state of the software list (private members)
__attribute__((noinline)) void wl_set_raw( int cfg, unsigned long free_size, int conn_filter, int scan_filter )
{
    FOR_SW( cfg, ( w.free_size_ = free_size, w.connection_filter_ = conn_filter != 0, w.scan_filter_ = scan_filter != 0 ) );
}
__attribute__((noinline)) void wl_set_entry( int cfg, unsigned i, const std::uint8_t* a, int rnd )
{
    FOR_SW( cfg, w.addresses_[ i ] = device_address( a, rnd ) );
}
__attribute__((noinline)) void wl_get_entry( int cfg, unsigned i, std::uint8_t* a, int* rnd )
{
    FOR_SW( cfg, ( std::copy( w.addresses_[ i ].begin(), w.addresses_[ i ].end(), a ), *rnd = w.addresses_[ i ].is_random() ) );
}
}
