// shim sm_b: pairing method selection (C36).
//
// Instantiates
//   * details::io_capabilities_matrix< input option, output option > for all 6 local IO configurations
//     (input: none / yes-no / keyboard  x  output: none / numeric display), independent of any manager, and
//   * the real security managers ( -DVF_SM_KIND=0 legacy_security_manager, 1 lesc_security_manager, 2 security_manager )
//     ::impl< Functions, Options... > with these IO option sets, with and without require_man_in_the_middle_protection,
//     (legacy / combined manager: plus oob_authentication_callback, so "the device has OOB data for the peer" is an input).
//
// No property logic here.  Environment (crypto tool box, RNG, IO callbacks, OOB callback) = extern "C" vf_env_*()
// defined by the harness (same interface as shims/sm.cpp).
//
//  io  | input option    | output option
//   0  | pairing_no_input| pairing_no_output
//   1  | pairing_no_input| pairing_numeric_output
//   2  | pairing_yes_no  | pairing_no_output
//   3  | pairing_yes_no  | pairing_numeric_output
//   4  | pairing_keyboard| pairing_no_output
//   5  | pairing_keyboard| pairing_numeric_output
//
//  manager configuration cfg = io + 6 * mitm   (mitm = 1: require_man_in_the_middle_protection in the option list)
//  the LESC capable managers can not be instantiated with pairing_keyboard (pairing_keyboard has no
//  sm_pairing_request_yes_no()): there io 4, 5 exist only for the legacy manager.
#include <bluetoe/link_state.hpp>
#include <bluetoe/security_manager.hpp>
#include <bluetoe/address.hpp>
#include <new>

#ifndef VF_SM_KIND
#define VF_SM_KIND 0
#endif

extern "C" {
    void          vf_env_create_srand( std::uint8_t* out16 );
    void          vf_env_create_passkey( std::uint8_t* out16 );
    void          vf_env_c1( const std::uint8_t* k, const std::uint8_t* r, const std::uint8_t* p1, const std::uint8_t* p2, std::uint8_t* out16 );
    void          vf_env_s1( const std::uint8_t* k, const std::uint8_t* r1, const std::uint8_t* r2, std::uint8_t* out16 );
    int           vf_env_is_valid_public_key( const std::uint8_t* pk64 );
    void          vf_env_generate_keys( std::uint8_t* pub64, std::uint8_t* priv32 );
    void          vf_env_select_random_nonce( std::uint8_t* out16 );
    void          vf_env_p256( const std::uint8_t* priv32, const std::uint8_t* pub64, std::uint8_t* out32 );
    void          vf_env_f4( const std::uint8_t* u32, const std::uint8_t* v32, const std::uint8_t* x16, std::uint8_t z, std::uint8_t* out16 );
    void          vf_env_f5( const std::uint8_t* dh32, const std::uint8_t* n1, const std::uint8_t* n2, const std::uint8_t* a1_7, const std::uint8_t* a2_7, std::uint8_t* mackey16, std::uint8_t* ltk16 );
    void          vf_env_f6( const std::uint8_t* w16, const std::uint8_t* n1, const std::uint8_t* n2, const std::uint8_t* r16, const std::uint8_t* iocap3, const std::uint8_t* a1_7, const std::uint8_t* a2_7, std::uint8_t* out16 );
    std::uint32_t vf_env_g2( const std::uint8_t* u32, const std::uint8_t* v32, const std::uint8_t* x16, const std::uint8_t* y16 );
    void          vf_env_numeric_output( int pass_key );
    int           vf_env_passkey( void );
    void          vf_env_yes_no( void* response );
    int           vf_env_oob_data( const std::uint8_t* addr7, std::uint8_t* out16 );
}

namespace {
    using bluetoe::details::uint128_t;
    using bluetoe::link_layer::device_address;

    void addr7( const device_address& a, std::uint8_t* out )
    {
        std::copy( a.begin(), a.end(), out );
        out[ 6 ] = a.is_random() ? 1 : 0;
    }

    struct functions_t
    {
        device_address local_address() const { return local_addr_; }

        uint128_t create_srand()   { uint128_t r; vf_env_create_srand( r.data() ); return r; }
        uint128_t create_passkey() { uint128_t r; vf_env_create_passkey( r.data() ); return r; }

        uint128_t c1( const uint128_t& temp_key, const uint128_t& rand, const uint128_t& p1, const uint128_t& p2 ) const
        {
            uint128_t r; vf_env_c1( temp_key.data(), rand.data(), p1.data(), p2.data(), r.data() ); return r;
        }

        uint128_t s1( const uint128_t& temp_key, const uint128_t& srand, const uint128_t& mrand )
        {
            uint128_t r; vf_env_s1( temp_key.data(), srand.data(), mrand.data(), r.data() ); return r;
        }

        bool is_valid_public_key( const std::uint8_t* public_key ) const
        {
            return vf_env_is_valid_public_key( public_key ) != 0;
        }

        std::pair< bluetoe::details::ecdh_public_key_t, bluetoe::details::ecdh_private_key_t > generate_keys()
        {
            std::pair< bluetoe::details::ecdh_public_key_t, bluetoe::details::ecdh_private_key_t > r;
            vf_env_generate_keys( r.first.data(), r.second.data() );
            return r;
        }

        uint128_t select_random_nonce() { uint128_t r; vf_env_select_random_nonce( r.data() ); return r; }

        bluetoe::details::ecdh_shared_secret_t p256( const std::uint8_t* private_key, const std::uint8_t* public_key )
        {
            bluetoe::details::ecdh_shared_secret_t r; vf_env_p256( private_key, public_key, r.data() ); return r;
        }

        uint128_t f4( const std::uint8_t* u, const std::uint8_t* v, const std::array< std::uint8_t, 16 >& k, std::uint8_t z )
        {
            uint128_t r; vf_env_f4( u, v, k.data(), z, r.data() ); return r;
        }

        std::pair< uint128_t, uint128_t > f5( const bluetoe::details::ecdh_shared_secret_t dh_key, const uint128_t& nonce_central,
            const uint128_t& nonce_periperal, const device_address& addr_controller, const device_address& addr_peripheral )
        {
            std::uint8_t a1[ 7 ], a2[ 7 ];
            addr7( addr_controller, a1 ); addr7( addr_peripheral, a2 );
            std::pair< uint128_t, uint128_t > r;
            vf_env_f5( dh_key.data(), nonce_central.data(), nonce_periperal.data(), a1, a2, r.first.data(), r.second.data() );
            return r;
        }

        uint128_t f6( const uint128_t& key, const uint128_t& n1, const uint128_t& n2, const uint128_t& r,
            const bluetoe::details::io_capabilities_t& io_caps, const device_address& addr_controller, const device_address& addr_peripheral )
        {
            std::uint8_t a1[ 7 ], a2[ 7 ];
            addr7( addr_controller, a1 ); addr7( addr_peripheral, a2 );
            uint128_t res;
            vf_env_f6( key.data(), n1.data(), n2.data(), r.data(), io_caps.data(), a1, a2, res.data() );
            return res;
        }

        std::uint32_t g2( const std::uint8_t* u, const std::uint8_t* v, const uint128_t& x, const uint128_t& y )
        {
            return vf_env_g2( u, v, x.data(), y.data() );
        }

        device_address local_addr_;
    };

    struct io_t
    {
        void sm_pairing_numeric_output( int pass_key ) { vf_env_numeric_output( pass_key ); }
        int  sm_pairing_passkey()                      { return vf_env_passkey(); }
        void sm_pairing_yes_no( bluetoe::pairing_yes_no_response& response ) { vf_env_yes_no( &response ); }

        std::pair< bool, bluetoe::oob_authentication_data_t > sm_oob_authentication_data( const device_address& address )
        {
            std::uint8_t a[ 7 ]; addr7( address, a );
            std::pair< bool, bluetoe::oob_authentication_data_t > r;
            r.first = vf_env_oob_data( a, r.second.data() ) != 0;
            return r;
        }
    } io;

    using numeric_output_o = bluetoe::pairing_numeric_output< io_t, io >;
    using keyboard_o       = bluetoe::pairing_keyboard< io_t, io >;
    using yes_no_o         = bluetoe::pairing_yes_no< io_t, io >;
    using oob_o            = bluetoe::oob_authentication_callback< io_t, io >;
    using mitm_o           = bluetoe::require_man_in_the_middle_protection;

    // ---- the IO capability matrix on its own
    using mx0 = bluetoe::details::io_capabilities_matrix< bluetoe::pairing_no_input, bluetoe::pairing_no_output >;
    using mx1 = bluetoe::details::io_capabilities_matrix< bluetoe::pairing_no_input, numeric_output_o >;
    using mx2 = bluetoe::details::io_capabilities_matrix< yes_no_o, bluetoe::pairing_no_output >;
    using mx3 = bluetoe::details::io_capabilities_matrix< yes_no_o, numeric_output_o >;
    using mx4 = bluetoe::details::io_capabilities_matrix< keyboard_o, bluetoe::pairing_no_output >;
    using mx5 = bluetoe::details::io_capabilities_matrix< keyboard_o, numeric_output_o >;
    // defaults: an option list that names only one of the two capabilities, or none
    using mx0d = bluetoe::details::io_capabilities_matrix<>;
    using mx1d = bluetoe::details::io_capabilities_matrix< numeric_output_o >;
    using mx2d = bluetoe::details::io_capabilities_matrix< yes_no_o >;
    using mx4d = bluetoe::details::io_capabilities_matrix< keyboard_o >;

    #define FOR_MX( i, expr ) \
        switch ( i ) { \
        case 0:  { using mx = mx0; expr; } break; \
        case 1:  { using mx = mx1; expr; } break; \
        case 2:  { using mx = mx2; expr; } break; \
        case 3:  { using mx = mx3; expr; } break; \
        case 4:  { using mx = mx4; expr; } break; \
        case 5:  { using mx = mx5; expr; } break; \
        case 6:  { using mx = mx0d; expr; } break; \
        case 7:  { using mx = mx1d; expr; } break; \
        case 8:  { using mx = mx2d; expr; } break; \
        default: { using mx = mx4d; expr; } break; \
        }

    // ---- the managers
    template < class Manager, class ... Options >
    struct sm_t : Manager::template impl< sm_t< Manager, Options... >, Options... >, functions_t
    {
        using impl_t = typename Manager::template impl< sm_t< Manager, Options... >, Options... >;
        using connection_data_t = typename impl_t::template channel_data_t< bluetoe::details::link_state >;

        connection_data_t conn;
    };

#if VF_SM_KIND == 0
    using mgr = bluetoe::legacy_security_manager;
    #define OOB_OPT , oob_o
#elif VF_SM_KIND == 1
    using mgr = bluetoe::lesc_security_manager;
    #define OOB_OPT
#else
    using mgr = bluetoe::security_manager;
    #define OOB_OPT , oob_o
#endif

    sm_t< mgr OOB_OPT >                               m0;
    sm_t< mgr, numeric_output_o OOB_OPT >             m1;
    sm_t< mgr, yes_no_o OOB_OPT >                     m2;
    sm_t< mgr, numeric_output_o, yes_no_o OOB_OPT >   m3;
    sm_t< mgr, mitm_o OOB_OPT >                             m6;
    sm_t< mgr, numeric_output_o, mitm_o OOB_OPT >           m7;
    sm_t< mgr, mitm_o, yes_no_o OOB_OPT >                   m8;
    sm_t< mgr, yes_no_o, mitm_o, numeric_output_o OOB_OPT > m9;
#if VF_SM_KIND == 0
    sm_t< mgr, keyboard_o OOB_OPT >                           m4;
    sm_t< mgr, keyboard_o, numeric_output_o OOB_OPT >         m5;
    sm_t< mgr, keyboard_o, mitm_o OOB_OPT >                   m10;
    sm_t< mgr, mitm_o, numeric_output_o, keyboard_o OOB_OPT > m11;
    #define FOR_CFG( cfg, expr ) \
        switch ( cfg ) { \
        case 0:  { auto& m = m0; expr; } break; \
        case 1:  { auto& m = m1; expr; } break; \
        case 2:  { auto& m = m2; expr; } break; \
        case 3:  { auto& m = m3; expr; } break; \
        case 4:  { auto& m = m4; expr; } break; \
        case 5:  { auto& m = m5; expr; } break; \
        case 6:  { auto& m = m6; expr; } break; \
        case 7:  { auto& m = m7; expr; } break; \
        case 8:  { auto& m = m8; expr; } break; \
        case 9:  { auto& m = m9; expr; } break; \
        case 10: { auto& m = m10; expr; } break; \
        default: { auto& m = m11; expr; } break; \
        }
#else
    #define FOR_CFG( cfg, expr ) \
        switch ( cfg ) { \
        case 0:  { auto& m = m0; expr; } break; \
        case 1:  { auto& m = m1; expr; } break; \
        case 2:  { auto& m = m2; expr; } break; \
        case 3:  { auto& m = m3; expr; } break; \
        case 6:  { auto& m = m6; expr; } break; \
        case 7:  { auto& m = m7; expr; } break; \
        case 8:  { auto& m = m8; expr; } break; \
        default: { auto& m = m9; expr; } break; \
        }
#endif

    // pairing algorithm member of the connection data
    template < class O > int legacy_algo( const bluetoe::details::legacy_security_connection_data< O >& c ) { return static_cast< int >( c.algorithm_ ); }
    template < class O > int lesc_algo( const bluetoe::details::legacy_security_connection_data< O >& ) { return -1; }
    template < class O > int legacy_algo( const bluetoe::details::lesc_security_connection_data< O >& ) { return -1; }
    template < class O > int lesc_algo( const bluetoe::details::lesc_security_connection_data< O >& c ) { return static_cast< int >( c.algorithm_ ); }
    template < class O > int legacy_algo( const bluetoe::details::security_connection_data< O >& c ) { return static_cast< int >( c.state_data_.legacy_state.algorithm ); }
    template < class O > int lesc_algo( const bluetoe::details::security_connection_data< O >& c ) { return static_cast< int >( c.state_data_.lesc_state.algorithm ); }

}

extern "C" {

// ------------------------------------------------------------------------------------------- io_capabilities_matrix
__attribute__((noinline)) int vf_smb_matrix_io( int io )
{
    int r = -1;
    FOR_MX( io, r = static_cast< int >( mx::get_io_capabilities() ) );
    return r;
}

__attribute__((noinline)) int vf_smb_matrix_legacy( int io, std::uint8_t remote_io )
{
    int r = -1;
    FOR_MX( io, r = static_cast< int >( mx::select_legacy_pairing_algorithm( remote_io ) ) );
    return r;
}

__attribute__((noinline)) int vf_smb_matrix_lesc( int io, std::uint8_t remote_io )
{
    int r = -1;
    FOR_MX( io, r = static_cast< int >( mx::select_lesc_pairing_algorithm( remote_io ) ) );
    return r;
}

// ------------------------------------------------------------------------------------------- managers
__attribute__((noinline)) void vf_smb_reset( int cfg )
{
    FOR_CFG( cfg, { using T = typename std::remove_reference< decltype( m ) >::type; new ( &m ) T(); } );
}

__attribute__((noinline)) void vf_smb_set_addresses( int cfg, const std::uint8_t* local7, const std::uint8_t* remote7 )
{
    FOR_CFG( cfg, {
        m.local_addr_ = device_address( local7, local7[ 6 ] != 0 );
        m.conn.remote_connection_created( device_address( remote7, remote7[ 6 ] != 0 ) );
    } );
}

// "OOB data present" as left behind by an earlier pairing attempt
__attribute__((noinline)) void vf_smb_set_oob_present( int cfg, int present )
{
#if VF_SM_KIND == 1
    ( void )cfg; ( void )present;            /* no OOB callback in the LESC only configurations */
#else
    FOR_CFG( cfg, ( ( oob_o& )m ).oob_data_present_ = present != 0 );   /* C-style cast: protected base */
#endif
}

__attribute__((noinline)) void vf_smb_l2cap_input( int cfg, const std::uint8_t* in, std::size_t in_size, std::uint8_t* out, std::size_t* out_size )
{
    FOR_CFG( cfg, m.l2cap_input( in, in_size, out, *out_size, m.conn ) );
}

__attribute__((noinline)) int vf_smb_state( int cfg )
{
    int r = -1;
    FOR_CFG( cfg, r = static_cast< int >( m.conn.state() ) );
    return r;
}

__attribute__((noinline)) int vf_smb_legacy_algo( int cfg )
{
    int r = -1;
    FOR_CFG( cfg, r = legacy_algo( m.conn ) );
    return r;
}

__attribute__((noinline)) int vf_smb_lesc_algo( int cfg )
{
    int r = -1;
    FOR_CFG( cfg, r = lesc_algo( m.conn ) );
    return r;
}

// the anchored member functions called directly
__attribute__((noinline)) int vf_smb_select_legacy( int cfg, std::uint8_t io_capability, std::uint8_t oob_data_flag, std::uint8_t auth_req, int has_oob_data )
{
    int r = -1;
    FOR_CFG( cfg, r = static_cast< int >( m.legacy_select_pairing_algorithm( io_capability, oob_data_flag, auth_req, has_oob_data != 0 ) ) );
    return r;
}

__attribute__((noinline)) int vf_smb_select_lesc( int cfg, std::uint8_t io_capability, std::uint8_t oob_data_flag, std::uint8_t auth_req, int has_oob_data )
{
    int r = -1;
    FOR_CFG( cfg, r = static_cast< int >( m.lesc_select_pairing_algorithm( io_capability, oob_data_flag, auth_req, has_oob_data != 0 ) ) );
    return r;
}

}
