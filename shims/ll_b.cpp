// shim ll_b: the real bluetoe::link_layer::link_layer< server, stub scheduled radio, options... > for C21 / C22.
// No property logic: wrappers forward to the real (partly private) member functions and copy raw members in / out.
// The radio (scheduling calls, PHY switch, disarm) and the connection callbacks are forwarded to extern "C"
// functions that the harness defines.
#include <bluetoe/link_layer.hpp>
#include <bluetoe/ll_data_pdu_buffer.hpp>
#include <bluetoe/server.hpp>
#include "ll_b_api.h"

namespace vfb {
    using namespace bluetoe::link_layer;

    template < std::size_t TransmitSize, std::size_t ReceiveSize, typename CallBack >
    class radio : public ll_data_pdu_buffer< TransmitSize, ReceiveSize, radio< TransmitSize, ReceiveSize, CallBack > >
    {
    public:
        void schedule_advertisment( unsigned channel, const write_buffer&, const write_buffer&, delta_time when, const read_buffer& )
        {
            vfb_env_sched_adv( channel, when.usec() );
        }
        delta_time schedule_connection_event( unsigned channel, delta_time start, delta_time end, delta_time interval )
        {
            return delta_time( vfb_env_sched_evt( channel, start.usec(), end.usec(), interval.usec() ) );
        }
        std::pair< bool, delta_time > disarm_connection_event()
        {
            std::uint32_t now = 0;
            const bool ok = vfb_env_disarm( &now ) != 0;
            return { ok, delta_time( now ) };
        }
        bool schedule_synchronized_user_timer( delta_time, delta_time ) { return false; }
        bool cancel_synchronized_user_timer() { return false; }
        void wake_up() {}
        void request_event_cancelation() {}
        void run() {}
        void set_access_address_and_crc_init( std::uint32_t, std::uint32_t ) {}
        std::uint32_t static_random_address_seed() const { return 0x47110815; }
        void radio_set_phy( phy_ll_encoding::phy_ll_encoding_t receive, phy_ll_encoding::phy_ll_encoding_t transmit )
        {
            vfb_env_set_phy( static_cast< unsigned >( receive ), static_cast< unsigned >( transmit ) );
        }
        void increment_receive_packet_counter() {}
        void increment_transmit_packet_counter() {}
        struct lock_guard { lock_guard() {} };
        static constexpr std::size_t radio_maximum_white_list_entries = 0;
        static constexpr bool hardware_supports_encryption = false;
        static constexpr bool hardware_supports_2mbit = true;
        static constexpr bool hardware_supports_synchronized_user_timer = false;
        static constexpr unsigned connection_event_setup_time_us = 100u;
    };

    struct callbacks_t
    {
        template < typename ConnectionData >
        void ll_connection_requested( const connection_details&, const connection_addresses&, ConnectionData& )
        {
            vfb_env_callback( VFB_CB_REQUESTED, 0, 0, 0 );
        }
        template < typename ConnectionData >
        void ll_connection_attempt_timeout( ConnectionData& )
        {
            vfb_env_callback( VFB_CB_ATTEMPT_TIMEOUT, 0, 0, 0 );
        }
        template < typename ConnectionData >
        void ll_connection_established( const connection_details&, const connection_addresses&, ConnectionData& )
        {
            vfb_env_callback( VFB_CB_ESTABLISHED, 0, 0, 0 );
        }
        template < typename ConnectionData >
        void ll_connection_changed( const connection_details& d, ConnectionData& )
        {
            vfb_env_callback( VFB_CB_CHANGED, d.interval(), d.latency(), d.timeout() );
        }
        template < typename ConnectionData >
        void ll_connection_closed( std::uint8_t reason, ConnectionData& )
        {
            vfb_env_callback( VFB_CB_CLOSED, reason, 0, 0 );
        }
        template < typename ConnectionData >
        void ll_phy_updated( phy_ll_encoding::phy_ll_encoding_t transmit, phy_ll_encoding::phy_ll_encoding_t receive, const ConnectionData& )
        {
            vfb_env_callback( VFB_CB_PHY_UPDATED, static_cast< unsigned >( transmit ), static_cast< unsigned >( receive ), 0 );
        }
    };

    callbacks_t callbacks;
}

static std::uint8_t vfb_value = 0;
using server_t = bluetoe::server<
    bluetoe::service< bluetoe::service_uuid16< 0x1234 >,
        bluetoe::characteristic< bluetoe::characteristic_uuid16< 0x2A19 >, bluetoe::bind_characteristic_value< std::uint8_t, &vfb_value > > > >;

// CFG 0: all defaults (500 ppm local sleep clock, default peripheral latency configuration, default buffers, no callbacks)
using ll0_t = bluetoe::link_layer::link_layer< server_t, vfb::radio >;
// CFG 1: 100/100 byte buffers, 50 ppm local sleep clock, strict latency (skips whenever allowed), connection callbacks
using ll1_t = bluetoe::link_layer::link_layer< server_t, vfb::radio,
    bluetoe::link_layer::buffer_sizes< 100, 100 >,
    bluetoe::link_layer::sleep_clock_accuracy_ppm< 50 >,
    bluetoe::link_layer::peripheral_latency_strict,
    bluetoe::link_layer::connection_callbacks< vfb::callbacks_t, vfb::callbacks > >;

static ll0_t ll0;
static ll1_t ll1;

static std::uint8_t deferred_store[ 2 ][ 48 ];
static std::uint8_t control_store[ 2 ][ 48 ];

namespace {
    using bluetoe::link_layer::delta_time;
    using bluetoe::link_layer::write_buffer;
    using bluetoe::link_layer::read_buffer;

    template < class State >
    int get_last_latency( bluetoe::link_layer::details::disarmable_connection_state< std::true_type, State >& s ) { return s.last_latency_; }
    template < class State >
    int get_last_latency( bluetoe::link_layer::details::disarmable_connection_state< std::false_type, State >& ) { return 0; }
    template < class State >
    void set_last_latency( bluetoe::link_layer::details::disarmable_connection_state< std::true_type, State >& s, int v ) { s.last_latency_ = v; }
    template < class State >
    void set_last_latency( bluetoe::link_layer::details::disarmable_connection_state< std::false_type, State >&, int ) {}

    template < class LL >
    void set_state( LL& ll, const std::uint32_t* f, std::uint8_t* store )
    {
        ll.state_                           = static_cast< typename LL::state >( f[ VFB_STATE ] );
        ll.event_counter_                   = static_cast< std::uint16_t >( f[ VFB_EVENT_COUNTER ] );
        ll.channel_index_                   = f[ VFB_CHANNEL_INDEX ];
        ll.time_since_last_event_           = delta_time( f[ VFB_TIME_SINCE_LAST ] );
        set_last_latency( ll, static_cast< int >( f[ VFB_LAST_LATENCY ] ) );
        ll.cumulated_sleep_clock_accuracy_  = f[ VFB_CUM_SCA ];
        ll.transmit_window_offset_          = delta_time( f[ VFB_WIN_OFFSET ] );
        ll.transmit_window_size_            = delta_time( f[ VFB_WIN_SIZE ] );
        ll.connection_interval_             = delta_time( f[ VFB_INTERVAL ] );
        ll.peripheral_latency_              = static_cast< std::uint16_t >( f[ VFB_LATENCY ] );
        ll.timeout_value_                   = static_cast< std::uint16_t >( f[ VFB_TIMEOUT_VALUE ] );
        ll.connection_timeout_              = delta_time( f[ VFB_CONN_TIMEOUT ] );
        ll.procedure_timeout_               = delta_time( f[ VFB_PROC_TIMEOUT ] );
        ll.defered_conn_event_counter_      = static_cast< std::uint16_t >( f[ VFB_DEFERRED_INSTANT ] );
        ll.defered_ll_control_pdu_          = f[ VFB_DEFERRED_SIZE ]
            ? write_buffer{ store, f[ VFB_DEFERRED_SIZE ] }
            : write_buffer{ nullptr, 0 };
        ll.termination_send_                = f[ VFB_TERMINATION_SEND ] != 0;
        ll.used_features_                   = static_cast< std::uint16_t >( f[ VFB_USED_FEATURES ] );
        ll.pending_event_                   = f[ VFB_PENDING_EVENT ] != 0;
        ll.disconnecting_reason_            = static_cast< std::uint8_t >( f[ VFB_DISC_REASON ] );
        ll.connection_parameters_request_pending_ = ( f[ VFB_FLAGS ] & 1 ) != 0;
        ll.connection_parameters_request_running_ = ( f[ VFB_FLAGS ] & 2 ) != 0;
        ll.connection_parameters_request_use_signaling_channel_ = ( f[ VFB_FLAGS ] & 4 ) != 0;
        ll.phy_update_request_pending_      = ( f[ VFB_FLAGS ] & 8 ) != 0;
        ll.remote_versions_request_pending_ = ( f[ VFB_FLAGS ] & 16 ) != 0;
        ll.version_indication_received_     = ( f[ VFB_FLAGS ] & 32 ) != 0;
        ll.restart_user_timer_requested_    = ( f[ VFB_FLAGS ] & 64 ) != 0;
    }

    template < class LL >
    void get_state( LL& ll, std::uint32_t* f )
    {
        f[ VFB_STATE ]              = static_cast< std::uint32_t >( ll.state_ );
        f[ VFB_EVENT_COUNTER ]      = ll.event_counter_;
        f[ VFB_CHANNEL_INDEX ]      = ll.channel_index_;
        f[ VFB_TIME_SINCE_LAST ]    = ll.time_since_last_event_.usec();
        f[ VFB_LAST_LATENCY ]       = static_cast< std::uint32_t >( get_last_latency( ll ) );
        f[ VFB_CUM_SCA ]            = ll.cumulated_sleep_clock_accuracy_;
        f[ VFB_WIN_OFFSET ]         = ll.transmit_window_offset_.usec();
        f[ VFB_WIN_SIZE ]           = ll.transmit_window_size_.usec();
        f[ VFB_INTERVAL ]           = ll.connection_interval_.usec();
        f[ VFB_LATENCY ]            = ll.peripheral_latency_;
        f[ VFB_TIMEOUT_VALUE ]      = ll.timeout_value_;
        f[ VFB_CONN_TIMEOUT ]       = ll.connection_timeout_.usec();
        f[ VFB_PROC_TIMEOUT ]       = ll.procedure_timeout_.usec();
        f[ VFB_DEFERRED_INSTANT ]   = ll.defered_conn_event_counter_;
        f[ VFB_DEFERRED_SIZE ]      = static_cast< std::uint32_t >( ll.defered_ll_control_pdu_.size );
        f[ VFB_TERMINATION_SEND ]   = ll.termination_send_;
        f[ VFB_USED_FEATURES ]      = ll.used_features_;
        f[ VFB_PENDING_EVENT ]      = ll.pending_event_;
        f[ VFB_DISC_REASON ]        = ll.disconnecting_reason_;
        f[ VFB_FLAGS ]              =
              ( ll.connection_parameters_request_pending_ ? 1u : 0u )
            | ( ll.connection_parameters_request_running_ ? 2u : 0u )
            | ( ll.connection_parameters_request_use_signaling_channel_ ? 4u : 0u )
            | ( ll.phy_update_request_pending_ ? 8u : 0u )
            | ( ll.remote_versions_request_pending_ ? 16u : 0u )
            | ( ll.version_indication_received_ ? 32u : 0u )
            | ( ll.restart_user_timer_requested_ ? 64u : 0u );
    }

    template < class LL >
    int control( LL& ll, const std::uint8_t* pdu, unsigned n, std::uint8_t* store )
    {
        for ( unsigned i = 0; i != n && i != 48; ++i )
            store[ i ] = pdu[ i ];

        const read_buffer out = ll.allocate_ll_transmit_buffer( 27 );
        const auto r = ll.handle_ll_control_data( write_buffer{ store, n }, out );

        return r == LL::ll_result::disconnect ? 1 : 0;
    }

    template < class LL >
    unsigned deferred_bytes( LL& ll, std::uint8_t* out, unsigned max )
    {
        const write_buffer b = ll.defered_ll_control_pdu_;
        unsigned i = 0;
        for ( ; b.buffer && i != b.size && i != max; ++i )
            out[ i ] = b.buffer[ i ];

        return i;
    }

    template < class LL >
    int deferred_location( LL& ll )
    {
        const std::uint8_t* const p = ll.defered_ll_control_pdu_.buffer;
        if ( p == nullptr )
            return 0;

        const std::uint8_t* const raw = ll.raw_pdu_buffer();
        if ( p < raw || p >= raw + sizeof( ll.buffer_ ) )
            return 3;

        return ll.next_received().buffer == p ? 1 : 2;
    }

    template < class LL >
    int radio_receive( LL& ll, const std::uint8_t* pdu, unsigned n )
    {
        const read_buffer buf = ll.allocate_receive_buffer();
        if ( buf.size == 0 )
            return 0;

        for ( unsigned i = 0; i < n && i < buf.size; ++i )
            buf.buffer[ i ] = pdu[ i ];

        ll.received( buf );
        return 1;
    }

    template < class LL >
    unsigned next_received( LL& ll, std::uint8_t* out, unsigned max )
    {
        const write_buffer b = ll.next_ll_l2cap_received();
        unsigned i = 0;
        for ( ; i != b.size && i != max; ++i )
            out[ i ] = b.buffer[ i ];

        return static_cast< unsigned >( b.size );
    }

    template < class LL >
    unsigned next_transmit( LL& ll, std::uint8_t* out, unsigned max )
    {
        const write_buffer b = ll.next_transmit();
        unsigned i = 0;
        for ( ; i != b.size && i != max; ++i )
            out[ i ] = b.buffer[ i ];

        return static_cast< unsigned >( b.size );
    }

    template < class LL >
    void adv_received( LL& ll, const std::uint8_t* pdu, unsigned n )
    {
        static std::uint8_t copy[ 64 ];
        for ( unsigned i = 0; i != n && i != 64; ++i )
            copy[ i ] = pdu[ i ];

        ll.adv_received( read_buffer{ copy, n } );
    }

    template < class LL >
    void end_event( LL& ll, unsigned flags )
    {
        bluetoe::link_layer::connection_event_events e;
        e.unacknowledged_data         = ( flags & 1 ) != 0;
        e.last_received_not_empty     = ( flags & 2 ) != 0;
        e.last_transmitted_not_empty  = ( flags & 4 ) != 0;
        e.last_received_had_more_data = ( flags & 8 ) != 0;
        e.pending_outgoing_data       = ( flags & 16 ) != 0;
        e.error_occured               = ( flags & 32 ) != 0;
        ll.end_event( e );
    }
}

#define LLB( cfg, expr ) \
    do { if ( ( cfg ) == 0 ) { auto& ll = ll0; std::uint8_t* const dstore = deferred_store[ 0 ]; std::uint8_t* const cstore = control_store[ 0 ]; (void)dstore; (void)cstore; expr; } \
         else                { auto& ll = ll1; std::uint8_t* const dstore = deferred_store[ 1 ]; std::uint8_t* const cstore = control_store[ 1 ]; (void)dstore; (void)cstore; expr; } } while ( 0 )

extern "C" {

__attribute__((noinline)) void vfb_run( int cfg )                              { LLB( cfg, ll.run() ); }
__attribute__((noinline)) void vfb_reset_buffers( int cfg )                    { LLB( cfg, ll.reset_pdu_buffer() ); }
__attribute__((noinline)) void vfb_set_state( int cfg, const std::uint32_t* f ){ LLB( cfg, set_state( ll, f, dstore ) ); }
__attribute__((noinline)) void vfb_get_state( int cfg, std::uint32_t* f )      { LLB( cfg, get_state( ll, f ) ); }

__attribute__((noinline)) int vfb_set_channel_map( int cfg, const std::uint8_t* map5, unsigned hop )
{
    bool r = false; LLB( cfg, r = ll.channels_.reset( map5, hop ) ); return r;
}
__attribute__((noinline)) unsigned vfb_data_channel( int cfg, unsigned index )
{
    unsigned r = 0; LLB( cfg, r = ll.channels_.data_channel( index ) ); return r;
}
__attribute__((noinline)) void vfb_set_deferred_bytes( int cfg, const std::uint8_t* pdu, unsigned n )
{
    LLB( cfg, for ( unsigned i = 0; i != n && i != 48; ++i ) dstore[ i ] = pdu[ i ] );
}
__attribute__((noinline)) unsigned vfb_get_deferred_bytes( int cfg, std::uint8_t* out, unsigned max )
{
    unsigned r = 0; LLB( cfg, r = deferred_bytes( ll, out, max ) ); return r;
}
__attribute__((noinline)) int vfb_deferred_is_store( int cfg )
{
    int r = 0;
    LLB( cfg, r = ll.defered_ll_control_pdu_.buffer == dstore ? 1 : ( ll.defered_ll_control_pdu_.buffer == cstore ? 2 : 0 ) );
    return r;
}
__attribute__((noinline)) unsigned vfb_configured_sca( int cfg )
{
    return cfg == 0 ? ll0_t::device_sleep_clock_accuracy::accuracy_ppm : ll1_t::device_sleep_clock_accuracy::accuracy_ppm;
}
__attribute__((noinline)) void vfb_local_address( int cfg, std::uint8_t* addr6, int* is_random )
{
    LLB( cfg, { const bluetoe::link_layer::device_address& a = ll.local_address(); for ( int i = 0; i != 6; ++i ) addr6[ i ] = *( a.begin() + i ); *is_random = a.is_random(); } );
}
__attribute__((noinline)) int vfb_handle_ll_control_data( int cfg, const std::uint8_t* pdu, unsigned n )
{
    int r = 0; LLB( cfg, r = control( ll, pdu, n, cstore ) ); return r;
}
__attribute__((noinline)) int vfb_handle_pending_ll_control( int cfg, unsigned instance )
{
    int r = 0;
    LLB( cfg, r = ll.handle_pending_ll_control( static_cast< std::uint16_t >( instance ) ) == std::remove_reference< decltype( ll ) >::type::ll_result::disconnect );
    return r;
}
__attribute__((noinline)) int vfb_handle_received_data( int cfg )
{
    int r = 0;
    LLB( cfg, r = ll.handle_received_data() == std::remove_reference< decltype( ll ) >::type::ll_result::disconnect );
    return r;
}
__attribute__((noinline)) std::uint32_t vfb_setup_next_connection_event( int cfg )
{
    std::uint32_t r = 0; LLB( cfg, r = ll.setup_next_connection_event().usec() ); return r;
}
__attribute__((noinline)) int vfb_parse_connect_request( int cfg, const std::uint8_t* body34 )
{
    int r = 0; LLB( cfg, r = ll.parse_timing_parameters_from_connect_request( body34 ) ); return r;
}
__attribute__((noinline)) void vfb_end_event( int cfg, unsigned evt_flags )    { LLB( cfg, end_event( ll, evt_flags ) ); }
__attribute__((noinline)) void vfb_timeout( int cfg )                          { LLB( cfg, ll.timeout() ); }
__attribute__((noinline)) void vfb_try_event_cancelation( int cfg )            { LLB( cfg, ll.try_event_cancelation() ); }
__attribute__((noinline)) void vfb_adv_received( int cfg, const std::uint8_t* pdu, unsigned n ) { LLB( cfg, adv_received( ll, pdu, n ) ); }
__attribute__((noinline)) int vfb_radio_receive( int cfg, const std::uint8_t* pdu, unsigned n )
{
    int r = 0; LLB( cfg, r = radio_receive( ll, pdu, n ) ); return r;
}
__attribute__((noinline)) unsigned vfb_next_received( int cfg, std::uint8_t* out, unsigned max )
{
    unsigned r = 0; LLB( cfg, r = next_received( ll, out, max ) ); return r;
}
__attribute__((noinline)) void vfb_free_received( int cfg )                    { LLB( cfg, ll.free_ll_l2cap_received() ); }
__attribute__((noinline)) unsigned vfb_next_transmit( int cfg, std::uint8_t* out, unsigned max )
{
    unsigned r = 0; LLB( cfg, r = next_transmit( ll, out, max ) ); return r;
}
__attribute__((noinline)) int vfb_pending_outgoing( int cfg )
{
    int r = 0; LLB( cfg, r = ll.pending_outgoing_data_available() ); return r;
}
__attribute__((noinline)) int vfb_deferred_location( int cfg )
{
    int r = 0; LLB( cfg, r = deferred_location( ll ) ); return r;
}
__attribute__((noinline)) std::uint32_t vfb_ppm( std::uint32_t usec, unsigned part )
{
    return bluetoe::link_layer::delta_time( usec ).ppm( part ).usec();
}

}
