// shim for the interleaving harness (C13): the queues of shims/nq.cpp plus one dedicated wrapper per queue object and
// operation. Built with a high inline threshold, so that the complete real operation (priority chaining, round robin
// scan, the byte-wide read-modify-write in add()/remove()) is inside the wrapper and the resumable rendering (ll2c)
// yields before every memory access of the real code.
#include "nq.cpp"

#define IL_API( N ) \
    extern "C" __attribute__((noinline)) int nqil##N##_qn( unsigned long i ) { return q##N.queue_notification( i ); } \
    extern "C" __attribute__((noinline)) int nqil##N##_qi( unsigned long i ) { return q##N.queue_indication( i ); } \
    extern "C" __attribute__((noinline)) int nqil##N##_dq( unsigned long* idx ) \
    { \
        const auto r = q##N.dequeue_indication_or_confirmation(); \
        *idx = r.second; \
        return static_cast< int >( r.first ); \
    }

IL_API( 0 )
IL_API( 1 )
IL_API( 2 )
IL_API( 3 )
