/* ll_c_api.h — C interface of shim ll_c.cpp: the real bluetoe::link_layer::link_layer< server, stub scheduled radio, options... >
 * in the advertising related option sets used by C24 / C25 (one option set per unit, selected by -DVFC_CFG).
 * Only forwarding calls and raw member copies. */
#ifndef VF_LL_C_API_H
#define VF_LL_C_API_H
#include <stdint.h>
#include <stddef.h>

#ifdef __cplusplus
extern "C" {
#endif

/* VFC_CFG
 *  0  variable_advertising_channel_map, no_auto_start_advertising, variable_advertising_interval, white_list<3>
 *     (no advertising type given: connectable undirected, single type advertiser)
 *  1  variable_advertising_channel_map, no_auto_start_advertising, advertising_interval<30>, white_list<3>,
 *     connectable_undirected + connectable_directed + scannable_undirected + non_connectable_undirected (multiple type advertiser)
 *  2  connectable_directed_advertising, white_list<3>  (auto start, all channels, 100 ms; single type advertiser)
 *  3  scannable_undirected_advertising, white_list<3>
 *  4  non_connectable_undirected_advertising, white_list<3>
 *  5  all defaults (connectable undirected, auto start, all channels, 100 ms, no white list)
 */

/* raw advertising state vector (vfc_get_adv / vfc_set_adv); members a configuration does not have read as 0 and are ignored on set */
enum {
    VFC_LL_STATE = 0,       /* link_layer::state_: 0 initial, 1 advertising, 2 connecting, 3 connected, 4 disconnecting, 5 connection_changed */
    VFC_CH_INDEX,           /* channel map: current_channel_index_ (variable map: 0..2; all_advertising_channel_map: 37..39) */
    VFC_CH_MAP,             /* variable_advertising_channel_map::map_ */
    VFC_PERTURBATION,       /* advertiser_base::adv_perturbation_ */
    VFC_NA_STARTED,         /* no_auto_start_advertising::impl::started_ */
    VFC_NA_ENABLED,         /*                                ::enabled_ */
    VFC_NA_COUNT,           /*                                ::count_ */
    VFC_SELECTED,           /* multiple type advertiser: selected_ */
    VFC_PROPOSAL,           /*                           proposal_ */
    VFC_DIR_VALID,          /* connectable_directed_advertising::impl::addr_valid_ */
    VFC_DIR_STARTED,        /*                                       ::started_ */
    VFC_INTERVAL_US,        /* variable_advertising_interval::interval_ (read only through the vector; set with vfc_interval_ms) */
    VFC_NADV
};

#define VFC_TYPE_CONN_UNDIRECTED 0
#define VFC_TYPE_CONN_DIRECTED   1
#define VFC_TYPE_SCANNABLE       2
#define VFC_TYPE_NON_CONN        3

/* ---- forwarders implemented by the shim */
void     vfc_run(void);                                   /* link_layer::run() */
void     vfc_adv_timeout(void);                           /* link_layer::adv_timeout() */
void     vfc_adv_received(uint8_t* pdu, size_t n);        /* link_layer::adv_received( read_buffer{ pdu, n } ): the harness' object is passed as is */
int      vfc_handle_adv_receive(uint8_t* pdu, size_t n, uint8_t* remote6, int* remote_random);   /* advertiser::handle_adv_receive */
int      vfc_is_valid_connect_request(uint8_t* pdu, size_t n);                                   /* advertising type's is_valid_connect_request */
void     vfc_start_advertising(void);                     /* no_auto_start_advertising (CFG 0, 1) */
void     vfc_start_advertising_count(unsigned count);
void     vfc_stop_advertising(void);
void     vfc_add_channel(unsigned channel);               /* variable_advertising_channel_map (CFG 0, 1) */
void     vfc_remove_channel(unsigned channel);
void     vfc_interval_ms(unsigned ms);                    /* variable_advertising_interval::advertising_interval_ms (CFG 0) */
void     vfc_change_advertising(int type);                /* multiple type advertiser: change_advertising< type >() (CFG 1) */
void     vfc_directed_address(const uint8_t* addr6, int is_random);     /* connectable_directed_advertising::directed_advertising_address (CFG 1, 2) */
void     vfc_set_local_address(const uint8_t* addr6, int is_random);    /* link_layer::local_address( device_address ) */
void     vfc_get_local_address(uint8_t* addr6, int* is_random);
void     vfc_get_adv(uint32_t* f);
void     vfc_set_adv(const uint32_t* f);
void     vfc_get_directed(uint8_t* addr6, int* is_random);              /* raw copy of connectable_directed_advertising::impl::addr_ */

/* the real software white list inside the link layer (white_list<3>), CFG 0..4 */
void     vfc_wl_set_raw(unsigned long free_size, int conn_filter, int scan_filter);
void     vfc_wl_set_entry(unsigned i, const uint8_t* addr6, int is_random);
int      vfc_wl_add(const uint8_t* addr6, int is_random);
void     vfc_wl_conn_filter(int on);
void     vfc_wl_scan_filter(int on);
int      vfc_conn_in_filter(const uint8_t* addr6, int is_random);       /* is_connection_request_in_filter */
int      vfc_scan_in_filter(const uint8_t* addr6, int is_random);       /* is_scan_request_in_filter */

/* ---- environment (stub scheduled radio + connection callback), implemented by the harness */
void     vfc_env_sched_adv(unsigned channel, const uint8_t* adv, size_t adv_size, const uint8_t* rsp, size_t rsp_size,
                           uint32_t when_us, const uint8_t* rx, size_t rx_size);
uint32_t vfc_env_sched_evt(unsigned channel, uint32_t start_us, uint32_t end_us, uint32_t interval_us);
void     vfc_env_access_address(uint32_t access_address, uint32_t crc_init);

#ifdef __cplusplus
}
#endif
#endif
