// shim "att_b": ATT servers used by C02 (discovery), C03 (primary service discovery), C04 (handle consistency)
//
// only instantiates real bluetoe::server<> configurations and forwards; no property logic.
//   cfg 0 (B1): two primary services (128 bit + 16 bit UUID), 16/128 bit characteristic UUIDs, auto UUID, CCCDs,
//               user description, descriptor, default GAP service
//   cfg 1 (B2): fixed handles with gaps: attribute_handle<> on service and characteristic,
//               attribute_handles<> with and without CCCD
//   cfg 2 (B3): primary + secondary services, include_service (16 and 128 bit) combined with fixed handles
//   (secondary services are declared as service< is_secondary_service, ... >: bluetoe::secondary_service<> is a derived
//    class that the server's handle mapping has no specialisation for, a server using it does not compile)
//   cfg 3 (B4): primary + secondary services, include_service, no fixed handles (documentation example), default GAP service
//   cfg 4..6 (B5..B7): reduced versions of B1..B3 with 9-10 attributes, for the requests whose cost grows with the square
//               of the number of attributes (Find Information, Read By Type)
// The unit is built once per configuration (-DVF_BCFG=n): CBMC resolves the indirect attribute access calls against every
// access function in the unit, so a unit that holds all four servers is 4 x more expensive per call site.
#ifndef VF_BCFG
#error "define VF_BCFG = 0..8"
#endif
#include <bluetoe/server.hpp>
#include <bluetoe/service.hpp>
#include <bluetoe/characteristic.hpp>
#include <bluetoe/descriptor.hpp>
#include <bluetoe/gatt_options.hpp>

#if VF_BCFG == 0
// ------------------------------------------------------------------------------------------------ B1
std::uint32_t b1_v1 = 0x12345678;
std::uint8_t  b1_v2 = 7;
std::uint16_t b1_v3 = 0xAA55;
static const char         b1_name[] = "Temp";
static const std::uint8_t b1_desc[] = { 0x08, 0x15, 0x47 };

using b1_t = bluetoe::server<
    bluetoe::max_mtu_size< 65 >,
    bluetoe::service<
        bluetoe::service_uuid< 0x8C8B4094, 0x0DE2, 0x499F, 0xA28A, 0x4EED5BC73CA9 >,
        bluetoe::characteristic<
            bluetoe::characteristic_name< b1_name >,
            bluetoe::bind_characteristic_value< decltype( b1_v1 ), &b1_v1 >,
            bluetoe::notify
        >,
        bluetoe::characteristic<
            bluetoe::characteristic_uuid16< 0x2A19 >,
            bluetoe::bind_characteristic_value< decltype( b1_v2 ), &b1_v2 >
        >,
        bluetoe::characteristic<
            bluetoe::characteristic_uuid< 0x8C8B4094, 0x0DE2, 0x499F, 0xA28A, 0x4EED5BC73CFF >,
            bluetoe::fixed_uint8_value< 0x42 >,
            bluetoe::descriptor< 0x2904, b1_desc, sizeof( b1_desc ) >
        >
    >,
    bluetoe::service<
        bluetoe::service_uuid16< 0x1816 >,
        bluetoe::characteristic<
            bluetoe::characteristic_uuid16< 0x2A5B >,
            bluetoe::bind_characteristic_value< decltype( b1_v3 ), &b1_v3 >,
            bluetoe::indicate
        >,
        bluetoe::characteristic<
            bluetoe::characteristic_uuid16< 0x2A5C >,
            bluetoe::fixed_uint16_value< 0x1234 >
        >
    >
>;
using srv_t = b1_t;
#endif

#if VF_BCFG == 1
// ------------------------------------------------------------------------------------------------ B2
std::uint16_t b2_v1 = 0x0102;
static const char         b2_foo[]  = "Foo";
static const char         b2_bar[]  = "Bar";
static const std::uint8_t b2_desc[] = { 0x19, 0x04 };

using b2_t = bluetoe::server<
    bluetoe::no_gap_service_for_gatt_servers,
    bluetoe::max_mtu_size< 65 >,
    bluetoe::service<
        bluetoe::attribute_handle< 0x0010 >,
        bluetoe::service_uuid16< 0x180F >,
        bluetoe::characteristic<
            bluetoe::characteristic_uuid16< 0x2A19 >,
            bluetoe::attribute_handles< 0x0020, 0x0022 >,
            bluetoe::fixed_uint8_value< 0x42 >,
            bluetoe::characteristic_name< b2_foo >,
            bluetoe::notify
        >,
        bluetoe::characteristic<
            bluetoe::characteristic_uuid< 0xF0426E52, 0x4450, 0x4F3B, 0xB058, 0x5BAB1191D92A >,
            bluetoe::attribute_handles< 0x0030, 0x0032, 0x0034 >,
            bluetoe::bind_characteristic_value< decltype( b2_v1 ), &b2_v1 >,
            bluetoe::indicate,
            bluetoe::descriptor< 0x2904, b2_desc, sizeof( b2_desc ) >
        >,
        bluetoe::characteristic<
            bluetoe::characteristic_uuid16< 0x2A1A >,
            bluetoe::fixed_uint8_value< 0x44 >
        >,
        bluetoe::characteristic<
            bluetoe::characteristic_uuid16< 0x2A1B >,
            bluetoe::attribute_handle< 0x0040 >,
            bluetoe::fixed_uint8_value< 0x45 >,
            bluetoe::characteristic_name< b2_bar >
        >
    >,
    bluetoe::service<
        bluetoe::service_uuid< 0xD9473E00, 0xE7D3, 0x4D90, 0x9366, 0x282AC4F44FEB >,
        bluetoe::characteristic<
            bluetoe::characteristic_uuid16< 0x2A1C >,
            bluetoe::fixed_uint8_value< 0x46 >
        >
    >,
    bluetoe::service<
        bluetoe::attribute_handle< 0x0100 >,
        bluetoe::service_uuid16< 0x1801 >,
        bluetoe::characteristic<
            bluetoe::attribute_handles< 0x1000, 0x2000, 0x3000 >,
            bluetoe::characteristic_uuid16< 0x2A05 >,
            bluetoe::indicate,
            bluetoe::fixed_uint32_value< 0xFFFF0001 >
        >
    >
>;
using srv_t = b2_t;
#endif

#if VF_BCFG == 2
// ------------------------------------------------------------------------------------------------ B3
std::uint16_t b3_v1 = 0x0304;
using b3_sec16_uuid  = bluetoe::service_uuid16< 0x18AA >;
using b3_sec128_uuid = bluetoe::service_uuid< 0xD9473E00, 0xE7D3, 0x4D90, 0x9366, 0x282AC4F44FEB >;

using b3_t = bluetoe::server<
    bluetoe::no_gap_service_for_gatt_servers,
    bluetoe::max_mtu_size< 65 >,
    bluetoe::service<
        bluetoe::is_secondary_service,
        b3_sec16_uuid,
        bluetoe::attribute_handle< 0x0010 >,
        bluetoe::characteristic<
            bluetoe::characteristic_uuid16< 0x2AAA >,
            bluetoe::fixed_uint8_value< 0x11 >
        >
    >,
    bluetoe::service<
        bluetoe::service_uuid16< 0x18BB >,
        bluetoe::include_service< b3_sec16_uuid >,
        bluetoe::include_service< b3_sec128_uuid >,
        bluetoe::characteristic<
            bluetoe::attribute_handle< 0x0020 >,
            bluetoe::characteristic_uuid16< 0x2ABB >,
            bluetoe::bind_characteristic_value< decltype( b3_v1 ), &b3_v1 >,
            bluetoe::notify
        >
    >,
    bluetoe::service<
        bluetoe::is_secondary_service,
        b3_sec128_uuid,
        bluetoe::characteristic<
            bluetoe::characteristic_uuid< 0xD9473E00, 0xE7D3, 0x4D90, 0x9366, 0x282AC4F44F01 >,
            bluetoe::fixed_uint8_value< 0x33 >
        >
    >,
    bluetoe::service<
        bluetoe::service_uuid< 0x8C8B4094, 0x0DE2, 0x499F, 0xA28A, 0x4EED5BC73CA9 >,
        bluetoe::attribute_handle< 0x0040 >,
        bluetoe::include_service< b3_sec16_uuid >,
        bluetoe::characteristic<
            bluetoe::characteristic_uuid16< 0x2ADD >,
            bluetoe::fixed_uint8_value< 0x44 >
        >
    >
>;
using srv_t = b3_t;
#endif

#if VF_BCFG == 3
// ------------------------------------------------------------------------------------------------ B4
std::int32_t b4_temperature = 0x01020304;
using b4_sensor_position_uuid = bluetoe::service_uuid< 0xD9473E00, 0xE7D3, 0x4D90, 0x9366, 0x282AC4F44FEB >;
static const char b4_name[] = "B4";

using b4_t = bluetoe::server<
    bluetoe::max_mtu_size< 65 >,
    bluetoe::server_name< b4_name >,
    bluetoe::service<
        bluetoe::is_secondary_service,
        b4_sensor_position_uuid,
        bluetoe::characteristic<
            bluetoe::fixed_uint8_value< 0x42 >
        >
    >,
    bluetoe::service<
        bluetoe::service_uuid< 0x8C8B4094, 0x0DE2, 0x499F, 0xA28A, 0x4EED5BC73CA9 >,
        bluetoe::include_service< b4_sensor_position_uuid >,
        bluetoe::characteristic<
            bluetoe::bind_characteristic_value< decltype( b4_temperature ), &b4_temperature >
        >
    >
>;
using srv_t = b4_t;
#endif

#if VF_BCFG == 4
// ------------------------------------------------------------------------------------------------ B5 (small B1: 10 attributes)
std::uint32_t b5_v1 = 0x12345678;
std::uint8_t  b5_v2 = 7;
static const std::uint8_t b5_desc[] = { 0x08, 0x15, 0x47 };

using b5_t = bluetoe::server<
    bluetoe::no_gap_service_for_gatt_servers,
    bluetoe::max_mtu_size< 65 >,
    bluetoe::service<
        bluetoe::service_uuid< 0x8C8B4094, 0x0DE2, 0x499F, 0xA28A, 0x4EED5BC73CA9 >,
        bluetoe::characteristic<
            bluetoe::bind_characteristic_value< decltype( b5_v1 ), &b5_v1 >,
            bluetoe::notify
        >,
        bluetoe::characteristic<
            bluetoe::characteristic_uuid16< 0x2A19 >,
            bluetoe::bind_characteristic_value< decltype( b5_v2 ), &b5_v2 >
        >
    >,
    bluetoe::service<
        bluetoe::service_uuid16< 0x1816 >,
        bluetoe::characteristic<
            bluetoe::characteristic_uuid< 0x8C8B4094, 0x0DE2, 0x499F, 0xA28A, 0x4EED5BC73CFF >,
            bluetoe::fixed_uint8_value< 0x42 >,
            bluetoe::descriptor< 0x2904, b5_desc, sizeof( b5_desc ) >
        >
    >
>;
using srv_t = b5_t;
#endif

#if VF_BCFG == 5
// ------------------------------------------------------------------------------------------------ B6 (small B2: 10 attributes, fixed handles with gaps)
std::uint16_t b6_v1 = 0x0102;

using b6_t = bluetoe::server<
    bluetoe::no_gap_service_for_gatt_servers,
    bluetoe::max_mtu_size< 65 >,
    bluetoe::service<
        bluetoe::attribute_handle< 0x0010 >,
        bluetoe::service_uuid16< 0x180F >,
        bluetoe::characteristic<
            bluetoe::characteristic_uuid16< 0x2A19 >,
            bluetoe::attribute_handles< 0x0020, 0x0022 >,
            bluetoe::fixed_uint8_value< 0x42 >,
            bluetoe::notify
        >,
        bluetoe::characteristic<
            bluetoe::characteristic_uuid< 0xF0426E52, 0x4450, 0x4F3B, 0xB058, 0x5BAB1191D92A >,
            bluetoe::attribute_handles< 0x0030, 0x0032, 0x0034 >,
            bluetoe::bind_characteristic_value< decltype( b6_v1 ), &b6_v1 >,
            bluetoe::indicate
        >
    >,
    bluetoe::service<
        bluetoe::service_uuid< 0xD9473E00, 0xE7D3, 0x4D90, 0x9366, 0x282AC4F44FEB >,
        bluetoe::characteristic<
            bluetoe::characteristic_uuid16< 0x2A1B >,
            bluetoe::attribute_handle< 0x0040 >,
            bluetoe::fixed_uint8_value< 0x45 >
        >
    >
>;
using srv_t = b6_t;
#endif

#if VF_BCFG == 6
// ------------------------------------------------------------------------------------------------ B7 (small B3: 9 attributes, secondary service, includes, fixed handles)
std::uint16_t b7_v1 = 0x0304;
using b7_sec16_uuid = bluetoe::service_uuid16< 0x18AA >;

using b7_t = bluetoe::server<
    bluetoe::no_gap_service_for_gatt_servers,
    bluetoe::max_mtu_size< 65 >,
    bluetoe::service<
        bluetoe::is_secondary_service,
        b7_sec16_uuid,
        bluetoe::attribute_handle< 0x0010 >,
        bluetoe::characteristic<
            bluetoe::characteristic_uuid16< 0x2AAA >,
            bluetoe::fixed_uint8_value< 0x11 >
        >
    >,
    bluetoe::service<
        bluetoe::service_uuid16< 0x18BB >,
        bluetoe::include_service< b7_sec16_uuid >,
        bluetoe::characteristic<
            bluetoe::attribute_handle< 0x0020 >,
            bluetoe::characteristic_uuid16< 0x2ABB >,
            bluetoe::bind_characteristic_value< decltype( b7_v1 ), &b7_v1 >
        >
    >,
    bluetoe::service<
        bluetoe::service_uuid< 0x8C8B4094, 0x0DE2, 0x499F, 0xA28A, 0x4EED5BC73CA9 >,
        bluetoe::attribute_handle< 0x0040 >,
        bluetoe::include_service< b7_sec16_uuid >
    >
>;
using srv_t = b7_t;
#endif

#if VF_BCFG == 7
// ------------------------------------------------------------------------------------------------ B8 (primary, secondary, primary: all with 16 bit UUIDs, so that one
// Read By Group Type response could carry all three; 9 attributes)
using b8_t = bluetoe::server<
    bluetoe::no_gap_service_for_gatt_servers,
    bluetoe::max_mtu_size< 65 >,
    bluetoe::service<
        bluetoe::service_uuid16< 0x18A1 >,
        bluetoe::characteristic< bluetoe::characteristic_uuid16< 0x2AA1 >, bluetoe::fixed_uint8_value< 0x01 > >
    >,
    bluetoe::service<
        bluetoe::is_secondary_service,
        bluetoe::service_uuid16< 0x18A2 >,
        bluetoe::characteristic< bluetoe::characteristic_uuid16< 0x2AA2 >, bluetoe::fixed_uint8_value< 0x02 > >
    >,
    bluetoe::service<
        bluetoe::service_uuid16< 0x18A3 >,
        bluetoe::characteristic< bluetoe::characteristic_uuid16< 0x2AA3 >, bluetoe::fixed_uint8_value< 0x03 > >
    >
>;
using srv_t = b8_t;
#endif

#if VF_BCFG == 8
// ------------------------------------------------------------------------------------------------ B9 (a secondary service with a 128 bit UUID and a gap INSIDE
// the service (fixed handle on its second characteristic), included by a primary service: the 128 bit include declaration carries
// only first and last handle; 9 attributes)
using b9_sec_uuid = bluetoe::service_uuid< 0xD9473E00, 0xE7D3, 0x4D90, 0x9366, 0x282AC4F44FEB >;
using b9_t = bluetoe::server<
    bluetoe::no_gap_service_for_gatt_servers,
    bluetoe::max_mtu_size< 65 >,
    bluetoe::service<
        bluetoe::is_secondary_service,
        b9_sec_uuid,
        bluetoe::characteristic< bluetoe::characteristic_uuid16< 0x2AC1 >, bluetoe::fixed_uint8_value< 0x42 > >,
        bluetoe::characteristic< bluetoe::attribute_handle< 0x0010 >, bluetoe::characteristic_uuid16< 0x2AC2 >, bluetoe::fixed_uint8_value< 0x43 > >
    >,
    bluetoe::service<
        bluetoe::service_uuid16< 0x18B1 >,
        bluetoe::include_service< b9_sec_uuid >,
        bluetoe::characteristic< bluetoe::characteristic_uuid16< 0x2AB1 >, bluetoe::fixed_uint8_value< 0x44 > >
    >
>;
using srv_t = b9_t;
#endif

// ------------------------------------------------------------------------------------------------ plumbing
struct conn_t : srv_t::connection_data {
    bluetoe::connection_security_attributes security_attributes() const { return bluetoe::connection_security_attributes(); }
};

srv_t  server;
conn_t conn;
using mapping = bluetoe::details::handle_index_mapping< srv_t >;

#define VF_EXPORT extern "C" __attribute__((noinline))

VF_EXPORT void vf_b_l2cap_input( int, const std::uint8_t* in, std::size_t in_size, std::uint8_t* out, std::size_t* out_size, unsigned client_mtu )
{
    conn.client_mtu( static_cast< std::uint16_t >( client_mtu ) );
    server.l2cap_input( in, in_size, out, *out_size, conn );
}

VF_EXPORT unsigned vf_b_handle_by_index( int, std::size_t index )
{
    return mapping::handle_by_index( index );
}

VF_EXPORT std::size_t vf_b_first_index_by_handle( int, unsigned handle )
{
    return mapping::first_index_by_handle( static_cast< std::uint16_t >( handle ) );
}

VF_EXPORT std::size_t vf_b_index_by_handle( int, unsigned handle )
{
    return mapping::index_by_handle( static_cast< std::uint16_t >( handle ) );
}

VF_EXPORT std::size_t vf_b_number_of_attributes( int )
{
    return srv_t::number_of_attributes;
}

// which configuration this unit was built with
VF_EXPORT int vf_b_config( void )
{
    return VF_BCFG;
}

// raw byte setter for the variables bound with bind_characteristic_value<> (8 bytes are always supplied)
VF_EXPORT void vf_b_set_bound_values( int, const std::uint8_t* bytes )
{
#if VF_BCFG == 0
    std::memcpy( &b1_v1, bytes, 4 ); std::memcpy( &b1_v2, bytes + 4, 1 ); std::memcpy( &b1_v3, bytes + 5, 2 );
#elif VF_BCFG == 1
    std::memcpy( &b2_v1, bytes, 2 );
#elif VF_BCFG == 2
    std::memcpy( &b3_v1, bytes, 2 );
#elif VF_BCFG == 3
    std::memcpy( &b4_temperature, bytes, 4 );
#elif VF_BCFG == 4
    std::memcpy( &b5_v1, bytes, 4 ); std::memcpy( &b5_v2, bytes + 4, 1 );
#elif VF_BCFG == 5
    std::memcpy( &b6_v1, bytes, 2 );
#elif VF_BCFG == 6
    std::memcpy( &b7_v1, bytes, 2 );
#else
    (void)bytes;    // B8 and B9 have no bound values
#endif
}
