// shim: instantiates the real bluetoe::bootloader::controller< Handler, white_list< memory_region<...>... >, PageSize >
// (the class that bootloader_service<> mixes into the server and whose members are bound to the control point,
// data and progress characteristics).  The user handler forwards every call to the environment defined in the harness.
// No property logic here: wrappers only forward calls and copy raw member bytes.
#include <bluetoe/services/bootloader.hpp>

extern "C" {
    // environment, defined in the harness
    int            vf_bl_env_start_flash( std::uint64_t address, const std::uint8_t* values, std::uint64_t size );
    int            vf_bl_env_run( std::uint64_t address );
    int            vf_bl_env_reset();
    std::uint64_t  vf_bl_env_get_version( const std::uint8_t** text );
    void           vf_bl_env_read_mem( std::uint64_t address, std::uint64_t size, std::uint8_t* destination );
    std::uint32_t  vf_bl_env_checksum_range( std::uint64_t address, std::uint64_t size );
    std::uint32_t  vf_bl_env_checksum_data( const std::uint8_t* data, std::uint64_t size, std::uint32_t old_crc );
    std::uint32_t  vf_bl_env_checksum_addr( std::uint64_t address );
    int            vf_bl_env_public_read_mem( std::uint64_t address, std::uint64_t size, std::uint8_t* destination );
    std::uint32_t  vf_bl_env_public_checksum32( std::uint64_t address, std::uint64_t size );
    void           vf_bl_env_cp_notification();
    void           vf_bl_env_data_indication();
}

namespace {
    namespace bl = bluetoe::bootloader;

    struct env_handler
    {
        bl::error_codes start_flash( std::uintptr_t address, const std::uint8_t* values, std::size_t size )
        {
            return static_cast< bl::error_codes >( vf_bl_env_start_flash( address, values, size ) );
        }
        bl::error_codes run( std::uintptr_t start_addr ) { return static_cast< bl::error_codes >( vf_bl_env_run( start_addr ) ); }
        bl::error_codes reset() { return static_cast< bl::error_codes >( vf_bl_env_reset() ); }
        std::pair< const std::uint8_t*, std::size_t > get_version()
        {
            const std::uint8_t* text = nullptr;
            const std::size_t   size = vf_bl_env_get_version( &text );
            return std::pair< const std::uint8_t*, std::size_t >( text, size );
        }
        void read_mem( std::uintptr_t address, std::size_t size, std::uint8_t* destination ) { vf_bl_env_read_mem( address, size, destination ); }
        std::uint32_t checksum32( std::uintptr_t start_addr, std::size_t size ) { return vf_bl_env_checksum_range( start_addr, size ); }
        std::uint32_t checksum32( const std::uint8_t* start_addr, std::size_t size, std::uint32_t old_crc ) { return vf_bl_env_checksum_data( start_addr, size, old_crc ); }
        std::uint32_t checksum32( std::uintptr_t start_addr ) { return vf_bl_env_checksum_addr( start_addr ); }
        bl::error_codes public_read_mem( std::uintptr_t address, std::size_t size, std::uint8_t* destination )
        {
            return static_cast< bl::error_codes >( vf_bl_env_public_read_mem( address, size, destination ) );
        }
        std::uint32_t public_checksum32( std::uintptr_t start_addr, std::size_t size ) { return vf_bl_env_public_checksum32( start_addr, size ); }
        void control_point_notification_call_back() { vf_bl_env_cp_notification(); }
        void data_indication_call_back() { vf_bl_env_data_indication(); }
    };

    // CFG 0: two regions, page size 16
    using ctrl0_t = bl::controller< env_handler, bl::white_list< bl::memory_region< 0x1000, 0x2000 >, bl::memory_region< 0x8000, 0x8100 > >, 16 >;
    // CFG 1: one small region, page size 8
    using ctrl1_t = bl::controller< env_handler, bl::white_list< bl::memory_region< 0x4000, 0x4040 > >, 8 >;
    // CFG 2: one region at the very end of the address space, page size 32
    using ctrl2_t = bl::controller< env_handler, bl::white_list< bl::memory_region< 0xffffffffffffff00ull, 0xffffffffffffffe0ull > >, 32 >;

    // CFG 3: region bounds that are not page aligned, page size 16
    using ctrl3_t = bl::controller< env_handler, bl::white_list< bl::memory_region< 0x1004, 0x1ffc > >, 16 >;

    ctrl0_t c0;
    ctrl1_t c1;
    ctrl2_t c2;
    ctrl3_t c3;

    // the same controllers as the real bootloader_service<> computes them (compile time cross check only)
    static_assert( std::is_same< ctrl0_t, bl::details::calculate_service<
        bl::page_size< 16 >, bl::handler< env_handler >,
        bl::white_list< bl::memory_region< 0x1000, 0x2000 >, bl::memory_region< 0x8000, 0x8100 > > >::implementation >::value, "" );
}

#define FOR_CFG( cfg, expr ) \
    switch ( cfg ) { \
    case 0:  { auto& c = c0; expr; } break; \
    case 1:  { auto& c = c1; expr; } break; \
    case 2:  { auto& c = c2; expr; } break; \
    default: { auto& c = c3; expr; } break; \
    }

extern "C" {

__attribute__((noinline)) int vf_bl_write_cp( int cfg, unsigned long size, const std::uint8_t* value, int* notify )
{
    std::pair< std::uint8_t, bool > r( 0, false );
    FOR_CFG( cfg, r = c.bootloader_write_control_point( size, value ) );
    *notify = r.second;
    return r.first;
}

__attribute__((noinline)) int vf_bl_read_cp( int cfg, unsigned long read_size, std::uint8_t* out, unsigned long* out_size )
{
    std::size_t s = *out_size; std::uint8_t r = 0;
    FOR_CFG( cfg, r = c.bootloader_read_control_point( read_size, out, s ) );
    *out_size = s;
    return r;
}

__attribute__((noinline)) int vf_bl_write_data( int cfg, unsigned long size, const std::uint8_t* value )
{
    std::uint8_t r = 0;
    FOR_CFG( cfg, r = c.bootloader_write_data( size, value ) );
    return r;
}

__attribute__((noinline)) int vf_bl_read_data( int cfg, unsigned long read_size, std::uint8_t* out, unsigned long* out_size )
{
    std::size_t s = *out_size; std::uint8_t r = 0;
    FOR_CFG( cfg, r = c.bootloader_read_data( read_size, out, s ) );
    *out_size = s;
    return r;
}

__attribute__((noinline)) int vf_bl_progress( int cfg, unsigned long read_size, std::uint8_t* out, unsigned long* out_size )
{
    std::size_t s = *out_size; std::uint8_t r = 0;
    FOR_CFG( cfg, r = c.bootloader_progress_data( read_size, out, s ) );
    *out_size = s;
    return r;
}

}

/* raw state access (inductive step harness) */
extern "C" struct vf_bl_state {
    std::uint8_t  opcode;
    std::uint64_t start_address;
    std::uint64_t end_address;
    std::uint8_t  error;
    std::uint32_t check_sum;
    std::uint8_t  in_flash_mode;
    std::uint32_t next_buffer;
    std::uint32_t used_buffer;
    std::uint16_t consecutive;
    struct {
        std::uint32_t state;
        std::uint64_t addr;
        std::uint64_t ptr;
        std::uint32_t crc;
        std::uint16_t consecutive;
        std::uint8_t  data[ 32 ];
    } buffers[ 2 ];
};

namespace {
    template < class C >
    void get_state( C& c, vf_bl_state* s, std::size_t page )
    {
        s->opcode = c.opcode; s->start_address = c.start_address; s->end_address = c.end_address;
        s->error = static_cast< std::uint8_t >( c.error ); s->check_sum = c.check_sum;
        std::memcpy( &s->in_flash_mode, &c.in_flash_mode, 1 );
        s->next_buffer = c.next_buffer_; s->used_buffer = c.used_buffer_; s->consecutive = c.consecutive_;
        for ( int b = 0; b != 2; ++b )
        {
            s->buffers[ b ].state = static_cast< std::uint32_t >( c.buffers_[ b ].state_ );
            s->buffers[ b ].addr  = c.buffers_[ b ].addr_;
            s->buffers[ b ].ptr   = c.buffers_[ b ].ptr_;
            s->buffers[ b ].crc   = c.buffers_[ b ].crc_;
            s->buffers[ b ].consecutive = c.buffers_[ b ].consecutive_;
            std::memcpy( s->buffers[ b ].data, c.buffers_[ b ].buffer_, page );
        }
    }

    template < class C >
    void set_state( C& c, const vf_bl_state* s, std::size_t page )
    {
        c.opcode = s->opcode; c.start_address = s->start_address; c.end_address = s->end_address;
        c.error = static_cast< bl::error_codes >( s->error ); c.check_sum = s->check_sum;
        c.in_flash_mode = s->in_flash_mode != 0;
        c.next_buffer_ = s->next_buffer; c.used_buffer_ = s->used_buffer; c.consecutive_ = s->consecutive;
        for ( int b = 0; b != 2; ++b )
        {
            c.buffers_[ b ].state_ = static_cast< decltype( c.buffers_[ b ].state_ ) >( s->buffers[ b ].state );
            c.buffers_[ b ].addr_  = s->buffers[ b ].addr;
            c.buffers_[ b ].ptr_   = s->buffers[ b ].ptr;
            c.buffers_[ b ].crc_   = s->buffers[ b ].crc;
            c.buffers_[ b ].consecutive_ = s->buffers[ b ].consecutive;
            std::memcpy( c.buffers_[ b ].buffer_, s->buffers[ b ].data, page );
        }
    }
}

extern "C" {

__attribute__((noinline)) void vf_bl_get_state( int cfg, vf_bl_state* s )
{
    switch ( cfg ) {
    case 0:  get_state( c0, s, 16 ); break;
    case 1:  get_state( c1, s, 8 ); break;
    case 2:  get_state( c2, s, 32 ); break;
    default: get_state( c3, s, 16 ); break;
    }
}

__attribute__((noinline)) void vf_bl_set_state( int cfg, const vf_bl_state* s )
{
    switch ( cfg ) {
    case 0:  set_state( c0, s, 16 ); break;
    case 1:  set_state( c1, s, 8 ); break;
    case 2:  set_state( c2, s, 32 ); break;
    default: set_state( c3, s, 16 ); break;
    }
}

}
